"""Regenerate everything the Lean build takes from /repo: the translations of the source (py2lean) and the C18
wiring table.  Run by MANIFEST.setup_cmd before `lake build`, and by every check again (so a tracked copy that is
stale can never be what a proof is checked against)."""
import sys
from pathlib import Path

sys.path.insert(0, str(Path(__file__).resolve().parent))
import common

common.setup_env()
import srctie
import srcspecs

bad = []
for pid in sorted(srcspecs.SPECS):
    ok, notes = srctie.generate(pid)
    print("translation", pid, "ok" if ok else "FAILED", "; ".join(notes)[:200])
    if not ok:
        bad.append(pid)
try:
    import c18
    c18.pre_build()
    print("C18 wiring table regenerated")
except Exception as e:  # the table is rebuilt by the C18 check itself; setup must not die on it
    print("C18 wiring table NOT regenerated:", type(e).__name__, e)
sys.exit(0)
