#!/bin/bash
# usage: harness/seed_matrix.sh [seed names...]   (default: all of /verif/seeded)
# Runs every registered quick check against every seeded change, on private copies of /verif and /repo
# (so that the real trees, evidence and generated files are not disturbed). Writes seeded/MATRIX.json.
set -u
W=/root/work/vm
rm -rf $W; mkdir -p $W
cp -r /verif $W/verif
cp -r /repo $W/repo
rm -rf $W/verif/replays $W/verif/evidence; mkdir -p $W/verif/evidence
SEEDS=${@:-$(ls /verif/seeded | grep -v MATRIX)}
CHECKS="C01 C02 C03 C04 C05 C06 C07 C08 C09 C10 C11 C12 C13 C14 C15 C16 C17 C18 C19 C20"
OUT=$W/matrix.txt; : > $OUT
for s in $SEEDS; do
  [ -f /verif/seeded/$s/patch.diff ] || continue
  git -C $W/repo checkout -q -- . ; git -C $W/repo apply /verif/seeded/$s/patch.diff || { echo "$s APPLY-FAILED" >> $OUT; continue; }
  for c in $CHECKS; do
    (cd $W/verif && ARIM_REPO=$W/repo ./check $c > $W/out_${s}_$c.txt 2>&1; rc=$?; nf=$(grep -c "no-failing-input-found" $W/out_${s}_$c.txt); echo "$s $c $rc $nf" >> $OUT) &
    while [ $(jobs -r | wc -l) -ge 5 ]; do sleep 1; done
  done
  wait
done
git -C $W/repo checkout -q -- .
python3 - $OUT <<'PY'
import sys, json, collections
m = collections.defaultdict(dict)
for l in open(sys.argv[1]):
    t = l.split()
    if len(t) == 4:
        m[t[0]][t[1]] = {"0": "pass", "1": "VIOLATION" + (" (no-failing-input-found)" if t[3] != "0" else ""), "2": "error"}.get(t[2], t[2])
json.dump(m, open('/verif/seeded/MATRIX.json', 'w'), indent=1, sort_keys=True)
for s in sorted(m):
    print(s, "caught by:", [c for c in sorted(m[s]) if m[s][c].startswith("VIOLATION")], "errors:", [c for c in m[s] if m[s][c] == "error"])
PY
