"""Regenerates lean/ArimProofs/Generated/Src<pid>.lean from /repo/src on every run (see py2lean.py)."""
import os
from pathlib import Path

import py2lean
import srcspecs
from common import LEAN, SRC

HEADER = ("{imports}\n/-! GENERATED on every run by harness/py2lean.py from the Python sources of arim in /repo/src "
          "(functions listed in harness/srcspecs.py). Do not edit. -/")


def target(pid):
    return LEAN / "ArimProofs" / "Generated" / f"Src{pid}.lean"


def generate(pid, src_root=None):
    """-> (ok, notes). On a translation error a file that does not compile is written, so that the tie theorems are
    not silently checked against a stale translation."""
    specs = srcspecs.SPECS.get(pid)
    if not specs:
        return True, []
    for dep in srcspecs.DEPENDS.get(pid, []):
        ok, notes = generate(dep, src_root)
        if not ok:
            return ok, notes
    imports = "\n".join("import " + m for m in srcspecs.IMPORTS.get(pid, ["ArimModel.Src"]))
    try:
        custom = getattr(srcspecs, "CUSTOM", {}).get(pid)
        if custom is not None:
            txt, notes = custom(Path(src_root) if src_root else SRC, HEADER.format(imports=imports))
        else:
            txt, notes = py2lean.translate(specs, Path(src_root) if src_root else SRC, HEADER.format(imports=imports))
        ok = True
    except (py2lean.TranslateError, srcspecs.py2lean_cache.TranslateError, srcspecs.py2lean_weights.TranslateError, SyntaxError, OSError) as e:
        msg = str(e).replace("-/", "- /")
        txt = (HEADER.format(imports=imports) + f"\n/- the translator could not read the source: {msg} -/\n"
               "#eval (show Nat from \"py2lean: translation failed, see the comment above\")\n")
        notes, ok = ["translation failed: " + str(e)], False
    f = target(pid)
    f.parent.mkdir(parents=True, exist_ok=True)
    if not f.exists() or f.read_text() != txt:
        tmp = f.with_suffix(f".tmp{os.getpid()}")
        tmp.write_text(txt)
        os.replace(tmp, f)
    return ok, notes


if __name__ == "__main__":
    import sys
    for pid in (sys.argv[1:] or sorted(srcspecs.SPECS)):
        print(pid, generate(pid))
