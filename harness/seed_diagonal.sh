#!/bin/bash
# usage: harness/seed_diagonal.sh [seed names...]  — every stored seeded change against the check of its own property
# (or the checks named in its meta.json "checks_now"), 6 at a time, each on its own private copies of /repo and /verif
# (the generated Lean files depend on the tree under test). Prints one line per (change, check); exit 1 if a change is not caught.
W=/root/work/diag; rm -rf $W; mkdir -p $W
SEEDS=${@:-$(ls /verif/seeded | grep -E '^C[0-9]+-[a-z]$')}
: > $W/summary.txt
for s in $SEEDS; do
  [ -f /verif/seeded/$s/patch.diff ] || continue
  checks=$(python3 -c "
import json,sys
m=json.load(open('/verif/seeded/$s/meta.json')); c=m.get('checks_now') or {m['property']:''}
print(' '.join(k for k,v in c.items() if 'VIOLATION' in v or v==''))")
  (
    R=$W/repo_$s; V=$W/verif_$s; cp -r /repo $R; cp -r /verif $V; rm -rf $V/replays $V/.cache/runall
    git -C $R checkout -q -- . ; git -C $R apply /verif/seeded/$s/patch.diff || { echo "$s APPLY-FAILED" >> $W/summary.txt; exit; }
    for c in $checks; do
      (cd $V && ARIM_REPO=$R ./check $c > $W/out_${s}_$c.txt 2>&1); rc=$?
      nf=$(grep -c "no-failing-input-found" $W/out_${s}_$c.txt)
      echo "$s $c rc=$rc nofail=$nf" >> $W/summary.txt
    done
    rm -rf $R $V
  ) &
  while [ $(jobs -r | wc -l) -ge 6 ]; do sleep 1; done
done
wait
sort $W/summary.txt
echo "not caught:"; grep -v "rc=1" $W/summary.txt
echo "caught without a failing input:"; grep "rc=1 nofail=[1-9]" $W/summary.txt
