"""Structural translator for C14: the `_cache_ray_geometry` decorator, the 17 cached query methods of
`arim.ray.RayGeometry`, `clear_intermediate_results`, `clear_all_results` and `precompute` are read from /repo/src/arim/ray.py
on every run and written as Lean definitions over the state machine types of `ArimModel/RayCache.lean`
(`Geo`, `St`, `Res`, `Meth`, `Cls`).  `ArimProofs/Tie/C14.lean` proves them equal to the hand-written model, so the
transparency theorems hold for what the source says now.

What is read (everything else in a body must be free of calls to cached methods, and is then a computation on arrays that
the state machine abstracts to the class `val`):

    self._interface_indices[interface_idx] == 0            the normalised index is the first interface
    a = self._interface_indices[interface_idx]; a == (self.numinterfaces - 1)      ... the last interface
    x = self.<cached method>(interface_idx [+-1], is_final=False)[.coords | .copy()]   a sub-query (in evaluation order)
    if x is None: return None                              the class of a sub-query's answer
    f = self.interfaces[interface_idx].are_normals_on_{inc,out}_rays_side;  if f is None: raise ValueError ... elif f: ... else: ...
    return None | return <sub-query> | return <variable holding a sub-query's answer> | return <array expression>
    raise ValueError(...)

The decorator, the two clearing methods and `precompute` are recognised statement by statement (any other statement is
refused).  A refusal raises `TranslateError`: the generated file then does not compile, the tie theorems are not
discharged, and the check goes looking for a failing input.
"""
from __future__ import annotations

import ast
from pathlib import Path


class TranslateError(Exception):
    pass


# python method name -> (constructor of `Meth`, generated definition name)
METHODS = {
    "leg_points": "legPoints", "orientations_of_legs_points": "orient",
    "inc_leg_size": "incLegSize", "inc_leg_cartesian": "incCart", "inc_leg_radius": "incRadius", "inc_leg_polar": "incPolar",
    "inc_leg_azimuth": "incAzimuth", "inc_angle": "incAngle", "signed_inc_angle": "signedInc", "conventional_inc_angle": "convInc",
    "out_leg_cartesian": "outCart", "out_leg_radius": "outRadius", "out_leg_polar": "outPolar", "out_leg_azimuth": "outAzimuth",
    "out_angle": "outAngle", "signed_out_angle": "signedOut", "conventional_out_angle": "convOut",
}
DECORATOR = "_cache_ray_geometry"


class Named:
    """what the harness lists as `translated`"""

    def __init__(self, name):
        self.name = name


SPEC_NAMES = [Named("ray._cache_ray_geometry")] + [Named("RayGeometry." + m) for m in METHODS] + [
    Named("RayGeometry.clear_intermediate_results"), Named("RayGeometry.clear_all_results"), Named("RayGeometry.precompute")]


def _src(node):
    return ast.unparse(node)


def _is(node, text):
    return _src(node) == text


def _strip_doc(body):
    if body and isinstance(body[0], ast.Expr) and isinstance(body[0].value, ast.Constant) and isinstance(body[0].value.value, str):
        return body[1:]
    return body


def _cached_calls(node):
    """calls `self.<cached method>(...)` inside an expression, in source order"""
    out = []
    for n in ast.walk(node):
        if isinstance(n, ast.Call) and isinstance(n.func, ast.Attribute) and isinstance(n.func.value, ast.Name) and n.func.value.id == "self" and n.func.attr in METHODS:
            out.append(n)
    return out


def _idx(node, where):
    s = _src(node)
    if s == "interface_idx":
        return "r"
    if s == "interface_idx - 1":
        return "(r - 1)"
    if s == "interface_idx + 1":
        return "(r + 1)"
    raise TranslateError(f"{where}: interface index expression `{s}` is not `interface_idx`, `interface_idx - 1` or `interface_idx + 1`")


def _subquery(call, where):
    """`self.M(idx, is_final=False)` -> Lean application"""
    if len(call.args) != 1 or any(k.arg != "is_final" for k in call.keywords) or len(call.keywords) > 1:
        raise TranslateError(f"{where}: unexpected arguments in `{_src(call)}`")
    fin = "true"
    if call.keywords:
        v = call.keywords[0].value
        if not (isinstance(v, ast.Constant) and isinstance(v.value, bool)):
            raise TranslateError(f"{where}: `is_final` is not a literal in `{_src(call)}`")
        fin = "true" if v.value else "false"
    return f"q_{call.func.attr} g s {_idx(call.args[0], where)} {fin}"


def _peel(node):
    """x.coords / x.copy() / x -> x"""
    while True:
        if isinstance(node, ast.Attribute) and node.attr in ("coords",):
            node = node.value
        elif isinstance(node, ast.Call) and isinstance(node.func, ast.Attribute) and node.func.attr == "copy" and not node.args and not node.keywords:
            node = node.func.value
        else:
            return node


class Body:
    def __init__(self, name):
        self.where = "RayGeometry." + name
        self.env = {}          # variable -> 'cls' | 'pure' | 'norm' | 'flagInc' | 'flagOut'
        self.fresh = 0

    def pure(self, node):
        if _cached_calls(node):
            raise TranslateError(f"{self.where}: a cached query is used inside `{_src(node)}` in a way the translator does not read")

    def cond(self, test):
        s = _src(test)
        if s == "self._interface_indices[interface_idx] == 0":
            return "(norm g.n r == some 0)"
        if isinstance(test, ast.Compare) and len(test.ops) == 1 and isinstance(test.left, ast.Name):
            v = test.left.id
            if self.env.get(v) == "norm" and isinstance(test.ops[0], ast.Eq) and _src(test.comparators[0]) in ("self.numinterfaces - 1", "(self.numinterfaces - 1)"):
                return "(norm g.n r == some (g.n - 1))"
            if self.env.get(v) == "norm" and isinstance(test.ops[0], ast.Eq) and _src(test.comparators[0]) == "0":
                return "(norm g.n r == some 0)"
            if self.env.get(v) == "cls" and isinstance(test.ops[0], ast.Is) and _src(test.comparators[0]) == "None":
                return f"({v} == .none)"
        if s == "interface_idx == 0":
            return "(r == 0)"
        raise TranslateError(f"{self.where}: condition `{s}` is not one the translator reads")

    def stmts(self, body, ind):
        pad = "    " + "  " * ind
        if not body:
            raise TranslateError(f"{self.where}: a branch ends without `return` (the method would answer None implicitly)")
        st, rest = body[0], body[1:]
        if isinstance(st, ast.Expr) and isinstance(st.value, ast.Constant):
            return self.stmts(rest, ind)
        if isinstance(st, ast.Return):
            v = st.value
            if v is None or (isinstance(v, ast.Constant) and v.value is None):
                return "(.ok .none, s)"
            if isinstance(v, ast.Name) and self.env.get(v.id) == "cls":
                return f"(.ok {v.id}, s)"
            calls = _cached_calls(v)
            if calls and _peel(v) is calls[0] and len(calls) == 1:
                return _subquery(calls[0], self.where)
            self.pure(v)
            return "(.ok .val, s)"
        if isinstance(st, ast.Raise):
            e = st.exc
            if isinstance(e, ast.Call) and _src(e.func) == "ValueError":
                return "(.error .value, s)"
            if isinstance(e, ast.Call) and _src(e.func) == "IndexError":
                return "(.error .index, s)"
            raise TranslateError(f"{self.where}: raises `{_src(e) if e else ''}` (only ValueError / IndexError are modelled)")
        if isinstance(st, ast.Assign) and len(st.targets) == 1 and isinstance(st.targets[0], ast.Name):
            name, val = st.targets[0].id, st.value
            s = _src(val)
            if s == "self._interface_indices[interface_idx]":
                self.env[name] = "norm"
                return self.stmts(rest, ind)
            if s in ("self.interfaces[interface_idx].are_normals_on_inc_rays_side", "self.interfaces[interface_idx].are_normals_on_out_rays_side"):
                self.env[name] = "flagInc" if s.endswith("on_inc_rays_side") else "flagOut"
                return self.stmts(rest, ind)
            calls = _cached_calls(val)
            if calls:
                if len(calls) != 1 or _peel(val) is not calls[0]:
                    raise TranslateError(f"{self.where}: `{_src(st)}` mixes a cached query with other operations")
                self.env[name] = "cls"
                return f"andThen ({_subquery(calls[0], self.where)}) fun {name} s =>\n{pad}" + self.stmts(rest, ind)
            self.env[name] = "pure"
            return self.stmts(rest, ind)
        if isinstance(st, (ast.AugAssign, ast.Assign)):
            # writes into a local array (`out[...] *= -1`): the target must be a local that is not the cache
            self.pure(st.value)
            tgt = st.target if isinstance(st, ast.AugAssign) else st.targets[0]
            if "self" in {n.id for n in ast.walk(tgt) if isinstance(n, ast.Name)}:
                raise TranslateError(f"{self.where}: `{_src(st)}` writes into the object")
            return self.stmts(rest, ind)
        if isinstance(st, ast.If):
            # the normal-side flag: if f is None: raise ... elif f: A else: B
            t = st.test
            if isinstance(t, ast.Compare) and isinstance(t.left, ast.Name) and self.env.get(t.left.id) in ("flagInc", "flagOut") \
                    and isinstance(t.ops[0], ast.Is) and _src(t.comparators[0]) == "None":
                f = t.left.id
                side = "incSide" if self.env[f] == "flagInc" else "outSide"
                none_branch = self.stmts(st.body + rest, ind + 1)
                other = st.orelse
                if len(other) == 1 and isinstance(other[0], ast.If) and _src(other[0].test) == f:
                    a = self.stmts(other[0].body + rest, ind + 1)
                    b = self.stmts(other[0].orelse + rest, ind + 1)
                else:
                    raise TranslateError(f"{self.where}: the normal-side flag `{f}` is not tested as `if {f} is None ... elif {f} ... else`")
                return (f"match (norm g.n r).bind g.{side} with\n{pad}| Option.none => {none_branch}\n{pad}| some true => {a}\n{pad}| some false => {b}")
            c = self.cond(t)
            a = self.stmts(st.body + rest, ind + 1)
            b = self.stmts(st.orelse + rest, ind + 1)
            return f"if {c} then {a} else\n{pad}{b}"
        if isinstance(st, ast.Expr):
            self.pure(st.value)
            return self.stmts(rest, ind)
        raise TranslateError(f"{self.where}: statement `{_src(st)[:60]}` is not read by the translator")


def _decorator(fn):
    """the wrapper, statement by statement"""
    where = "ray." + DECORATOR
    inner = [n for n in _strip_doc(fn.body) if isinstance(n, ast.FunctionDef)]
    tail = [n for n in _strip_doc(fn.body) if not isinstance(n, ast.FunctionDef)]
    if len(inner) != 1 or len(tail) != 1 or not _is(tail[0], f"return {inner[0].name}"):
        raise TranslateError(f"{where}: expected one inner function returned as it is")
    w = inner[0]
    a = w.args
    if [x.arg for x in a.args] != ["self", "interface_idx", "is_final"] or len(a.defaults) != 1 or _src(a.defaults[0]) != "True" or a.vararg or a.kwarg or a.kwonlyargs:
        raise TranslateError(f"{where}: wrapper signature is not (self, interface_idx, is_final=True)")
    body = _strip_doc(w.body)
    want = ["actual_interface_idx = self._interface_indices[interface_idx]",
            "key = f'{user_func.__name__}:{actual_interface_idx}'"]
    for k, t in enumerate(want):
        if k >= len(body) or not _is(body[k], t):
            raise TranslateError(f"{where}: statement {k + 1} is `{_src(body[k]) if k < len(body) else ''}`, expected `{t}`")
    tr = body[2] if len(body) > 2 else None
    ok = (isinstance(tr, ast.Try) and len(tr.body) == 1 and _is(tr.body[0], "res = self._cache[key]") and len(tr.handlers) == 1
          and _src(tr.handlers[0].type) == "KeyError" and all(isinstance(x, ast.Pass) for x in tr.handlers[0].body) and not tr.finalbody
          and len(tr.orelse) == 2 and _is(tr.orelse[0], "if is_final:\n    self._final_keys.add(key)") and _is(tr.orelse[1], "return res"))
    if not ok:
        raise TranslateError(f"{where}: the cache-hit block is not `try: res = self._cache[key] / except KeyError: pass / else: promote if final; return res`")
    miss = [_src(x) for x in body[3:]]
    want_miss = ["res = user_func(self, interface_idx=interface_idx)", "_to_readonly(res)", "self._cache[key] = res",
                 "if is_final:\n    self._final_keys.add(key)", "return res"]
    if miss != want_miss:
        raise TranslateError(f"{where}: the cache-miss block is {miss}, expected {want_miss}")
    return ('''/-- generated from the decorator `_cache_ray_geometry` (line %d): the key is the method name and the NORMALISED index; a hit
returns the stored answer (promoting the key to final when asked); a miss runs the body with the RAW index, stores the
answer (also `None`) and marks it final when asked; an exception in the body propagates, what sub-queries cached stays -/
def wrap (g : Geo) (m : Meth) (body : St → Int → Res × St) (s : St) (r : Int) (isFinal : Bool) :
    Res × St :=
  match norm g.n r with
  | Option.none => (.error .index, s)
  | some a =>
    let k : Key := (m, a)
    match lookup s.cache k with
    | some v => (.ok v, if isFinal then addFinal s k else s)
    | Option.none =>
      match body s r with
      | (.error e, s') => (.error e, s')
      | (.ok v, s') =>
        let s'' : St := { s' with cache := (k, v) :: s'.cache }
        (.ok v, if isFinal then addFinal s'' k else s'')
''' % fn.lineno)


def _clearers(cls):
    out = []
    meths = {n.name: n for n in cls.body if isinstance(n, ast.FunctionDef)}
    ci = meths.get("clear_intermediate_results")
    want = ["keys_to_flush = [key for key in self._cache if key not in self._final_keys]", "for key in keys_to_flush:\n    self._cache.pop(key, None)"]
    if ci is None or [_src(x) for x in _strip_doc(ci.body)] != want:
        raise TranslateError("RayGeometry.clear_intermediate_results: body is not `flush every key that is not final`")
    out.append(f"/-- generated from `RayGeometry.clear_intermediate_results` (line {ci.lineno}) -/\n"
               "def clearIntermediate (s : St) : St :=\n  { s with cache := s.cache.filter (fun e => s.finals.contains e.1) }\n")
    ca = meths.get("clear_all_results")
    want = ["self._cache = self._cache.__class__()", "self._final_keys = set()"]
    if ca is None or [_src(x) for x in _strip_doc(ca.body)] != want:
        raise TranslateError("RayGeometry.clear_all_results: body is not `new empty cache, empty set of final keys`")
    out.append(f"/-- generated from `RayGeometry.clear_all_results` (line {ca.lineno}) -/\ndef clearAll (_ : St) : St := {{}}\n")
    pc = meths.get("precompute")
    if pc is None or not any(_src(d).endswith("contextmanager") for d in pc.decorator_list):
        raise TranslateError("RayGeometry.precompute: not a contextmanager")
    body = [x for x in _strip_doc(pc.body) if not (isinstance(x, ast.If) and _src(x.test) == "not self._use_cache" and not _cached_calls(x))]
    srcs = [_src(x) for x in body]
    if srcs == ["yield", "self.clear_intermediate_results()"]:
        fin = "false"
    elif len(body) == 1 and isinstance(body[0], ast.Try) and [_src(x) for x in body[0].body] == ["yield"] and not body[0].handlers \
            and [_src(x) for x in body[0].finalbody] == ["self.clear_intermediate_results()"]:
        fin = "true"
    else:
        raise TranslateError(f"RayGeometry.precompute: body {srcs} is not `yield; self.clear_intermediate_results()` (with or without try/finally)")
    out.append(f"/-- generated from `RayGeometry.precompute` (line {pc.lineno}): is the clean-up in a `finally` clause (does it run when the block raises)? -/\n"
               f"def precomputeCleansUpOnError : Bool := {fin}\n")
    return out


def translate(src_root: Path, header: str):
    path = Path(src_root) / "arim" / "ray.py"
    tree = ast.parse(path.read_text())
    deco = next((n for n in tree.body if isinstance(n, ast.FunctionDef) and n.name == DECORATOR), None)
    cls = next((n for n in tree.body if isinstance(n, ast.ClassDef) and n.name == "RayGeometry"), None)
    if deco is None or cls is None:
        raise TranslateError("ray.py: `_cache_ray_geometry` or `RayGeometry` not found")
    parts = [header, "namespace Arim.SrcC14\nopen Arim.RayCache\nset_option linter.unusedVariables false\n", _decorator(deco)]
    parts += _clearers(cls)
    cached = {}
    for n in cls.body:
        if isinstance(n, ast.FunctionDef) and any(_src(d) == DECORATOR for d in n.decorator_list):
            cached[n.name] = n
    unknown = sorted(set(cached) - set(METHODS))
    missing = sorted(set(METHODS) - set(cached))
    if unknown or missing:
        raise TranslateError(f"RayGeometry: cached methods changed (new: {unknown}, gone: {missing}); the model has the 17 methods {sorted(METHODS)}")
    # definitions in dependency order (a method only calls methods defined above it in the generated file)
    order, done = [], set()

    def visit(name, stack=()):
        if name in done:
            return
        if name in stack:
            raise TranslateError(f"RayGeometry: cached methods call each other in a cycle ({' -> '.join(stack + (name,))})")
        for c in _cached_calls(cached[name]):
            visit(c.func.attr, stack + (name,))
        done.add(name)
        order.append(name)

    for name in METHODS:
        visit(name)
    for name in order:
        fn = cached[name]
        a = fn.args
        if [x.arg for x in a.args] != ["self", "interface_idx"] or a.defaults or a.vararg or a.kwarg:
            raise TranslateError(f"RayGeometry.{name}: signature is not (self, interface_idx)")
        body = Body(name).stmts(_strip_doc(fn.body), 1)
        parts.append(f"/-- generated from `RayGeometry.{name}` (line {fn.lineno}) -/\n"
                     f"def q_{name} (g : Geo) (s : St) (r : Int) (fin : Bool) : Res × St :=\n"
                     f"  wrap g .{METHODS[name]} (fun s r =>\n    {body}) s r fin\n")
    disp = "\n".join(f"  | .{ctor} => q_{name} g s r fin" for name, ctor in METHODS.items())
    parts.append("/-- dispatch on the method (the key of the cache is the Python method name) -/\n"
                 "def query (g : Geo) (s : St) (m : Meth) (r : Int) (fin : Bool) : Res × St :=\n  match m with\n" + disp + "\n")
    parts.append("end Arim.SrcC14\n")
    notes = [f"ray.py: decorator, {len(order)} cached methods, 2 clearing methods and precompute read structurally"]
    return "\n".join(parts), notes
