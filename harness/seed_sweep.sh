#!/bin/bash
# usage: harness/seed_sweep.sh <tier> <seed> [<seed> ...] : run every check with several VERIF_SEED values on private
# copies of /verif and /repo (unchanged tree); prints every run that does not exit 0.
W=/root/work/sweep; rm -rf $W; mkdir -p $W; cp -r /verif $W/verif; cp -r /repo $W/repo
TIER=$1; shift
for seed in "$@"; do
  for c in C01 C02 C03 C04 C05 C06 C07 C08 C09 C10 C11 C12 C13 C14 C15 C16 C17 C18 C19 C20; do
    (cd $W/verif && ARIM_REPO=$W/repo VERIF_SEED=$seed ./check $c --tier $TIER > $W/out_${seed}_$c.txt 2>&1; rc=$?; echo "seed=$seed $c rc=$rc $(tail -1 $W/out_${seed}_$c.txt | cut -c1-160)" >> $W/summary.txt) &
    while [ $(jobs -r | wc -l) -ge 4 ]; do sleep 1; done
  done
done
wait
echo "runs: $(wc -l < $W/summary.txt); non-zero:"; grep -v "rc=0" $W/summary.txt
