"""Shared by C06 / C07 / C08 / C03: Snell-exact single-ray paths and the Lean `weights` op."""
import numpy as np

import fixtures
from common import b2f, f2b, fl


def gen_paths(rng, count, ns=(2, 3, 4, 5), tilt=True, max_inc=70.0):
    """`count` accepted paths, interface counts cycling through `ns` (rejected draws are retried)"""
    out = []
    for i in range(count):
        n = int(ns[i % len(ns)])
        for _ in range(80):
            r = fixtures.snell_path(rng, n, tilt=tilt and rng.random() < 0.6, max_inc_deg=max_inc)
            if r is not None:
                out.append(r)
                break
    return out


def scaled(path, info, s):
    """the same exact ray at another length scale: every point multiplied by `s` (frames, materials, modes unchanged)"""
    import arim
    import arim.geometry as g
    import arim.ray

    shared = {}
    ifaces = []
    for i in path.interfaces:
        if id(i.points) not in shared:
            shared[id(i.points)] = g.Points(i.points.coords * s, i.points.name)
        ifaces.append(arim.Interface(shared[id(i.points)], i.orientations, i.kind, i.transmission_reflection, i.reflection_against,
                                     i.are_normals_on_inc_rays_side, i.are_normals_on_out_rays_side))
    p2 = arim.Path(tuple(ifaces), path.materials, path.modes, name=path.name)
    arim.ray.ray_tracing_for_paths([p2])
    if not np.array_equal(p2.rays.indices, path.rays.indices):
        return None
    info2 = dict(info, points=[np.asarray(q) * s for q in info["points"]], legs=[l * s for l in info["legs"]])
    return p2, info2


def spec_tokens(path):
    toks = []
    for k in range(1, path.numinterfaces - 1):
        i = path.interfaces[k]
        toks.append(f"{'t' if i.transmission_reflection.name == 'transmission' else 'r'}:{i.kind.name}:{path.modes[k - 1].key()}:{path.modes[k].key()}")
    return ";".join(toks) if toks else "-"


def weights_line(path, rg, info, alphas=None):
    n = path.numinterfaces
    legs = [float(rg.inc_leg_size(k)[0, 0]) for k in range(1, n)]
    ths = [float(rg.conventional_inc_angle(k)[0, 0]) for k in range(1, n - 1)]
    vels = [float(v) for v in path.velocities]
    al = alphas if alphas is not None else [0.0] * len(legs)
    c, b = info["couplant"], info["block"]
    return (f"weights {fl(legs)} {fl(vels)} {fl(ths)} {spec_tokens(path)} {fl(al)} {f2b(c.density)} {f2b(b.density)} "
            f"{f2b(c.longitudinal_vel)} {f2b(b.longitudinal_vel)} {f2b(b.transverse_vel)}")


def parse_weights(ans):
    """-> dict(beam, rbeam, tr_s, tr_d, rtr_s, rtr_d, att); complex entries may be None ('N') or 'E'"""
    if not ans.startswith("ok "):
        return None
    t = ans[3:].split("|")

    def c(s):
        if s in ("N", "E"):
            return s
        re, im = s.split(",")
        return complex(b2f(re), b2f(im))

    return dict(beam=b2f(t[0]), rbeam=b2f(t[1]), tr_s=c(t[2]), tr_d=c(t[3]), rtr_s=c(t[4]), rtr_d=c(t[5]), att=b2f(t[6]))


def rel(a, b, tol):
    a, b = complex(a), complex(b)
    return abs(a - b) <= tol * max(abs(a), abs(b), 1e-300)


def reverse_info(info):
    """the same exact ray travelled from its last point to its first (points, leg velocities, wall tilts reversed;
    a wall that reflected still reflects, the one that transmitted still transmits)"""
    n = len(info["points"])
    refl = info.get("reflect", [None] + [k >= 2 for k in range(1, n - 1)] + [None])
    return {"points": list(info["points"])[::-1], "vels": list(info["vels"])[::-1], "tilts": list(info["tilts"])[::-1], "reflect": refl[::-1]}


def tube_virtual_distance(info, delta=2e-6):
    """geometric definition: follow two neighbouring rays launched at the source through the same
    (possibly tilted) planar walls; at every wall the virtual-source distance jumps from rho to
    rho' (measured from the divergence of the refracted/reflected pencil); d = rho_n / prod(rho'/rho)"""
    pts, vels, tilts = info["points"], info["vels"], info["tilts"]
    n = len(pts)
    # which interior interfaces reflect (default: the immersion layout, transmission at the first wall, reflections after)
    reflect = info.get("reflect", [None] + [k >= 2 for k in range(1, n - 1)] + [None])
    src = pts[0]
    d0 = (pts[1] - pts[0]) / np.linalg.norm(pts[1] - pts[0])

    def rot(v, a):
        return np.array([v[0] * np.cos(a) + v[2] * np.sin(a), 0.0, -v[0] * np.sin(a) + v[2] * np.cos(a)])

    def trace(d):
        p = src.copy()
        dirs, hits = [d], []
        for k in range(1, n - 1):
            nk = np.array([np.sin(tilts[k]), 0.0, np.cos(tilts[k])])
            p0 = pts[k]
            s = ((p0 - p) @ nk) / (d @ nk)
            q = p + s * d
            eta = vels[k] / vels[k - 1]
            dn = d @ nk
            dt2 = eta * (d - dn * nk)
            sign = -np.sign(dn) if reflect[k] else np.sign(dn)
            d = dt2 + sign * np.sqrt(1 - dt2 @ dt2) * nk
            p = q
            hits.append(q)
            dirs.append(d)
        return hits, dirs

    h1, d1 = trace(rot(d0, +delta))
    h2, d2 = trace(rot(d0, -delta))
    hc, dc = trace(d0)

    def ang(a, b):
        return np.arcsin(np.clip(a[0] * b[2] - a[2] * b[0], -1, 1))

    rho = np.linalg.norm(pts[1] - pts[0])
    prod = 1.0
    for k in range(1, n - 1):
        sep = h1[k - 1] - h2[k - 1]
        # virtual source distances just before / after the wall, measured along the central ray
        perp_in = abs(sep[0] * dc[k - 1][2] - sep[2] * dc[k - 1][0])
        perp_out = abs(sep[0] * dc[k][2] - sep[2] * dc[k][0])
        rho_in = perp_in / abs(ang(d1[k - 1], d2[k - 1]))
        rho_out = perp_out / abs(ang(d1[k], d2[k]))
        gamma = rho_out / rho_in
        prod *= gamma
        rho = gamma * rho + np.linalg.norm(pts[k + 1] - pts[k])
    return rho / prod
