"""Builders of arim objects used by several checks."""
import numpy as np


def make_frame(timetraces, t0, dt, tx, rx, probe=None, exobj=None):
    import arim

    timetraces = np.ascontiguousarray(timetraces)
    time = arim.Time(t0, dt, timetraces.shape[1])
    return arim.Frame(timetraces, time, np.ascontiguousarray(tx), np.ascontiguousarray(rx), probe, exobj)


def make_focal_law(lt_tx, lt_rx, amp_tx=None, amp_rx=None, weights=None):
    from arim.im import tfm

    amps = None
    if amp_tx is not None:
        amps = tfm.TxRxAmplitudes(np.ascontiguousarray(amp_tx), np.ascontiguousarray(amp_rx))
    return tfm.FocalLaw(np.ascontiguousarray(lt_tx), np.ascontiguousarray(lt_rx), amps, weights)


def pairs(rng, numel, kind):
    """tx, rx arrays for fmc / hmc / random subset of distinct pairs (random order)"""
    if kind == "fmc":
        p = [(i, j) for i in range(numel) for j in range(numel)]
    elif kind == "hmc":
        p = [(i, j) for i in range(numel) for j in range(i, numel)]
    else:
        allp = [(i, j) for i in range(numel) for j in range(numel)]
        k = int(rng.integers(1, len(allp) + 1))
        idx = rng.permutation(len(allp))[:k]
        p = [allp[i] for i in idx]
    tx = np.array([a for a, _ in p], dtype=np.int64)
    rx = np.array([b for _, b in p], dtype=np.int64)
    return tx, rx


class OrderedExecutor:
    """Drop-in for ThreadPoolExecutor that runs the submitted tasks in a chosen order.

    mode: 'perm' (permutation given by `order_fn(n)` applied when the pool is closed),
          'lazy' (each task runs when its result() is requested, in reverse request order),
          'real' (a real thread pool).
    Records every submission in `log` (function name, argument arrays).
    """

    log = []
    order_fn = None
    mode = "perm"

    def __init__(self, max_workers=None):
        self.tasks = []
        self.max_workers = max_workers

    def __enter__(self):
        return self

    def submit(self, fn, *args):
        fut = _Fut(fn, args)
        self.tasks.append(fut)
        OrderedExecutor.log.append((getattr(fn, "__name__", str(fn)), args))
        return fut

    def __exit__(self, *exc):
        n = len(self.tasks)
        if OrderedExecutor.mode == "lazy":
            return False
        order = list(range(n)) if OrderedExecutor.order_fn is None else list(OrderedExecutor.order_fn(n))
        assert sorted(order) == list(range(n))
        for k in order:
            self.tasks[k].run()
        return False


class _Fut:
    def __init__(self, fn, args):
        self.fn, self.args, self.done, self.val = fn, args, False, None

    def run(self):
        if not self.done:
            self.val = self.fn(*self.args)
            self.done = True

    def result(self):
        self.run()
        return self.val


class patched_executors:
    """substitute the executor class used by arim.ray and arim.geometry"""

    def __init__(self, cls):
        self.cls = cls

    def __enter__(self):
        import concurrent.futures

        import arim.ray

        self.old = (arim.ray.ThreadPoolExecutor, concurrent.futures.ThreadPoolExecutor)
        arim.ray.ThreadPoolExecutor = self.cls
        concurrent.futures.ThreadPoolExecutor = self.cls
        return self

    def __exit__(self, *exc):
        import concurrent.futures

        import arim.ray

        arim.ray.ThreadPoolExecutor, concurrent.futures.ThreadPoolExecutor = self.old
        return False


def rot3(rng):
    """random proper rotation matrix (product of three axis rotations)"""
    a, b, c = rng.uniform(-np.pi, np.pi, size=3)
    rx = np.array([[1, 0, 0], [0, np.cos(a), -np.sin(a)], [0, np.sin(a), np.cos(a)]])
    ry = np.array([[np.cos(b), 0, np.sin(b)], [0, 1, 0], [-np.sin(b), 0, np.cos(b)]])
    rz = np.array([[np.cos(c), -np.sin(c), 0], [np.sin(c), np.cos(c), 0], [0, 0, 1]])
    return rz @ ry @ rx


def generic_path(rng, numinterfaces, sizes=None, random_frames=False, flags=None, two_d=True, trace=True):
    """A Path with `numinterfaces` interfaces shaped like an immersion inspection
    (probe | frontwall | backwall | frontwall | grid, truncated), random point positions,
    ray-traced. flags: optional list of (inc, out) per interface overriding the defaults."""
    import arim
    import arim.geometry as g
    import arim.ray

    couplant = arim.Material(1480.0, density=1000.0, state_of_matter="liquid")
    block = arim.Material(6320.0, 3130.0, density=2700.0, state_of_matter="solid")
    n = numinterfaces
    sizes = sizes or [int(rng.integers(1, 5)) for _ in range(n)]
    zs = {2: [0.0, 20e-3], 3: [-10e-3, 0.0, 20e-3], 4: [-10e-3, 0.0, 30e-3, 15e-3], 5: [-10e-3, 0.0, 30e-3, 0.0, 15e-3]}[n]
    ifaces = []
    for k in range(n):
        pts = np.zeros((sizes[k], 3))
        pts[:, 0] = np.sort(rng.uniform(-15e-3, 15e-3, size=sizes[k]))
        pts[:, 1] = 0.0 if two_d else rng.uniform(-5e-3, 5e-3, size=sizes[k])
        pts[:, 2] = zs[k] + (rng.uniform(-1e-3, 1e-3, size=sizes[k]) if random_frames else 0.0)
        P = g.Points(pts, f"I{k}")
        if random_frames:
            ori = g.Points(np.stack([rot3(rng).T for _ in range(sizes[k])]), f"O{k}")
        else:
            ori = g.default_orientations(P)
        if n == 2:
            kind = [dict(are_normals_on_out_rays_side=True), dict(are_normals_on_inc_rays_side=True)][k]
        else:
            spec = [dict(are_normals_on_out_rays_side=True),
                    dict(kind="fluid_solid", transmission_reflection="transmission", are_normals_on_inc_rays_side=False, are_normals_on_out_rays_side=True),
                    dict(kind="solid_fluid", transmission_reflection="reflection", reflection_against=couplant, are_normals_on_inc_rays_side=False, are_normals_on_out_rays_side=False),
                    dict(kind="solid_fluid", transmission_reflection="reflection", reflection_against=couplant, are_normals_on_inc_rays_side=True, are_normals_on_out_rays_side=True)]
            kind = dict(are_normals_on_inc_rays_side=True) if k == n - 1 else spec[k]
        kind = dict(kind)
        if flags is not None:
            kind["are_normals_on_inc_rays_side"], kind["are_normals_on_out_rays_side"] = flags[k]
        ifaces.append(arim.Interface(P, ori, **kind))
    if n == 2:
        mats, modes = [block], [rng.choice(["L", "T"])]
    else:
        mats = [couplant] + [block] * (n - 2)
        modes = ["L"] + [str(rng.choice(["L", "T"])) for _ in range(n - 2)]
    path = arim.Path(tuple(ifaces), tuple(mats), tuple(modes), name="P")
    if trace:
        arim.ray.ray_tracing_for_paths([path])
    return path


def snell_path(rng, numinterfaces, tilt=True, max_inc_deg=70.0, modes=None, extra_points=True, contact=False):
    """An immersion-like Path (probe | frontwall T | backwall R | frontwall R | grid, truncated to
    `numinterfaces`; contact when 2) with ONE source and ONE target, whose wall point sets contain
    the exact Snell crossing point of the ray (middle of three points), so that the ray-traced
    (Fermat) ray obeys Snell's law to rounding. Walls are lines in the (x, z) plane, optionally
    tilted by a few degrees. Returns (path, info) with info = dict(points, thetas_in, legs, vels).
    Returns None when the drawn ray is totally reflected somewhere or too oblique."""
    import arim
    import arim.geometry as g
    import arim.ray

    n = numinterfaces
    couplant = arim.Material(float(rng.uniform(1000, 1600)), density=float(rng.uniform(800, 1200)), state_of_matter="liquid")
    cl = float(rng.uniform(4000, 6500))
    block = arim.Material(cl, float(cl * rng.uniform(0.45, 0.65)), density=float(rng.uniform(2000, 8000)), state_of_matter="solid")
    if n == 2:
        mats, md = [block], [str(rng.choice(["L", "T"]))]
    elif contact:
        # a wall-echo path of the contact model: probe on the block | backwall R | frontwall R | backwall R | target, all in the block
        mats = [block] * (n - 1)
        md = [str(rng.choice(["L", "T"])) for _ in range(n - 1)]
    else:
        mats = [couplant] + [block] * (n - 2)
        md = ["L"] + [str(rng.choice(["L", "T"])) for _ in range(n - 2)]
    if modes is not None:
        md = list(modes)
    vels = [m.velocity(arim.Mode[x]) for m, x in zip(mats, md)]
    # wall k (k = 1..n-2): reference depth and tilt; kinds as in generic_path
    zs = {2: [0.0, 20e-3], 3: [-10e-3, 0.0, 20e-3], 4: [-10e-3, 0.0, 30e-3, 15e-3], 5: [-10e-3, 0.0, 30e-3, 0.0, 15e-3]}[n]
    if contact and n > 2:
        zs = {3: [0.0, 30e-3, 15e-3], 4: [0.0, 30e-3, 0.0, 15e-3], 5: [0.0, 30e-3, 0.0, 30e-3, 15e-3]}[n]
    tilts = [0.0] * n
    if tilt:
        t1 = float(rng.uniform(-0.15, 0.15))
        t2 = float(rng.uniform(-0.15, 0.15))
        for k in range(1, n - 1):
            tilts[k] = t1 if zs[k] == 0.0 else t2
    # shoot the ray
    p = np.array([float(rng.uniform(-5e-3, 5e-3)), 0.0, zs[0]])
    ang = float(np.deg2rad(rng.uniform(-max_inc_deg, max_inc_deg)))
    d = np.array([np.sin(ang), 0.0, np.cos(ang)])  # going towards +z
    pts, thetas, normals = [p], [], [np.array([0.0, 0.0, 1.0])]
    for k in range(1, n - 1):
        nk = np.array([np.sin(tilts[k]), 0.0, np.cos(tilts[k])])
        p0 = np.array([0.0, 0.0, zs[k]])
        denom = d @ nk
        if abs(denom) < 0.2:
            return None
        s = ((p0 - p) @ nk) / denom
        if s <= 1e-4:
            return None
        q = p + s * d
        cos_in = abs(denom)
        theta = float(np.arccos(min(1.0, cos_in)))
        # refraction / reflection with mode conversion: tangential slowness is continuous
        eta = vels[k] / vels[k - 1]
        dt = d - denom * nk
        dt2 = eta * dt
        st2 = dt2 @ dt2
        if st2 >= 0.97:
            return None
        reflect = k >= 2 or contact
        sign = -np.sign(denom) if reflect else np.sign(denom)
        d = dt2 + sign * np.sqrt(1 - st2) * nk
        p = q
        pts.append(q)
        thetas.append(theta)
        normals.append(nk)
    # last leg to the target
    if n == 2:
        length = float(rng.uniform(5e-3, 40e-3))
    else:
        length = float(rng.uniform(5e-3, 25e-3))
    target = p + length * d
    if n >= 3 and not (1e-3 < target[2] < 29e-3):
        return None
    pts.append(target)
    normals.append(np.array([0.0, 0.0, 1.0]))
    # as the library's own `make_paths` does, the interfaces that lie on the same wall (first and third interior interface of
    # a double-skip path) may share ONE Points / orientations object holding the crossing points of both passages
    share = bool(extra_points and not contact and n == 5 and abs(tilts[1] - tilts[3]) == 0.0 and rng.random() < 0.5)
    coords_of, want_idx = {}, {}
    for k in range(n):
        if 0 < k < n - 1 and extra_points:
            tdir = np.array([np.cos(tilts[k]), 0.0, -np.sin(tilts[k])])
            d1, d2 = rng.uniform(0.3e-3, 3e-3, size=2)
            coords_of[k] = np.stack([pts[k] - d1 * tdir, pts[k], pts[k] + d2 * tdir])
            want_idx[k] = 1
        else:
            coords_of[k] = pts[k][None, :]
            want_idx[k] = 0
    shared_obj = None
    if share:
        both = np.concatenate([coords_of[1], coords_of[3]])
        frame13 = np.array([[np.cos(tilts[1]), 0.0, -np.sin(tilts[1])], [0.0, 1.0, 0.0], [np.sin(tilts[1]), 0.0, np.cos(tilts[1])]])
        shared_obj = (g.Points(both, "I1=I3"), g.Points(np.broadcast_to(frame13, (len(both), 3, 3)).copy(), "O1=O3"))
        want_idx[3] = 4
    ifaces = []
    for k in range(n):
        coords = coords_of[k]
        P = g.Points(coords, f"I{k}")
        frame = np.array([[np.cos(tilts[k]), 0.0, -np.sin(tilts[k])], [0.0, 1.0, 0.0], [np.sin(tilts[k]), 0.0, np.cos(tilts[k])]])
        ori = g.Points(np.broadcast_to(frame, (len(coords), 3, 3)).copy(), f"O{k}")
        if shared_obj is not None and k in (1, 3):
            P, ori = shared_obj
        if n == 2:
            kind = [dict(are_normals_on_out_rays_side=True), dict(are_normals_on_inc_rays_side=True)][k]
        else:
            spec = [dict(are_normals_on_out_rays_side=True),
                    dict(kind="fluid_solid", transmission_reflection="transmission", are_normals_on_inc_rays_side=False, are_normals_on_out_rays_side=True),
                    dict(kind="solid_fluid", transmission_reflection="reflection", reflection_against=couplant, are_normals_on_inc_rays_side=False, are_normals_on_out_rays_side=False),
                    dict(kind="solid_fluid", transmission_reflection="reflection", reflection_against=couplant, are_normals_on_inc_rays_side=True, are_normals_on_out_rays_side=True)]
            if contact:
                back = dict(kind="solid_fluid", transmission_reflection="reflection", reflection_against=couplant, are_normals_on_inc_rays_side=False, are_normals_on_out_rays_side=False)
                spec = [spec[0], back, spec[3], back]
            kind = dict(are_normals_on_inc_rays_side=True) if k == n - 1 else spec[k]
        ifaces.append(arim.Interface(P, ori, **kind))
    path = arim.Path(tuple(ifaces), tuple(mats), tuple(md), name="".join(md[1:]) if n > 2 else md[0])
    arim.ray.ray_tracing_for_paths([path])
    # the Fermat ray must go through the exact crossing points (middle samples)
    idx = path.rays.indices[:, 0, 0]
    if extra_points and any(idx[k] != want_idx[k] for k in range(1, n - 1)):
        return None
    legs = [float(np.linalg.norm(pts[k + 1] - pts[k])) for k in range(n - 1)]
    info = dict(points=pts, thetas_in=thetas, legs=legs, vels=vels, modes=md, couplant=couplant, block=block, tilts=tilts, shared_wall=share)
    if contact and n > 2:
        info["reflect"] = [None] + [True] * (n - 2) + [None]
    return path, info


def immersion_exact(rng, max_reflections=1, numel=None, numscat=None, tilt=True, reuse_materials=None):
    """A block-in-immersion set-up (flat parallel front and back walls) whose wall point sets are
    exactly the Snell crossing points of every (element, path, scatterer) ray, so that the discrete
    Fermat rays found by arim obey Snell's law to rounding. Returns a dict with probe, views (ray
    traced), examination object, scatterer points, materials."""
    import itertools

    import arim
    import arim.geometry as g
    import arim.models.block_in_immersion as bim
    import arim.ray
    from scipy.optimize import brentq

    couplant = arim.Material(float(rng.uniform(1300, 1600)), density=float(rng.uniform(900, 1100)), state_of_matter="liquid",
                             longitudinal_att=arim.material_attenuation_factory("constant", float(rng.uniform(0, 5))))
    cl = float(rng.uniform(5000, 6500))
    block = arim.Material(cl, float(cl * rng.uniform(0.48, 0.6)), density=float(rng.uniform(2500, 8000)), state_of_matter="solid",
                          longitudinal_att=arim.material_attenuation_factory("polynomial", [float(rng.uniform(0, 10)), float(rng.uniform(0, 2))]),
                          transverse_att=arim.material_attenuation_factory("constant", float(rng.uniform(0, 30))))
    if reuse_materials is not None:
        # a velocity / density update of the SAME Material objects (a calibration step, a sweep): the new values are assigned in place
        c_old, b_old = reuse_materials
        c_old.longitudinal_vel, c_old.density = couplant.longitudinal_vel, couplant.density
        b_old.longitudinal_vel, b_old.transverse_vel, b_old.density = block.longitudinal_vel, block.transverse_vel, block.density
        couplant, block = c_old, b_old
    numel = numel or int(rng.integers(2, 5))
    probe = arim.Probe.make_matrix_probe(numel, float(rng.uniform(0.6e-3, 1.2e-3)), 1, np.nan, 5e6)
    probe.set_reference_element("first")
    probe.translate_to_point_O()
    if tilt:
        probe.rotate(g.rotation_matrix_y(float(rng.uniform(-0.25, 0.25))))
    probe.translate([float(rng.uniform(-5e-3, 5e-3)), 0.0, -float(rng.uniform(8e-3, 25e-3))])
    H = float(rng.uniform(15e-3, 30e-3))
    numscat = numscat or int(rng.integers(1, 4))
    scat_pts = np.zeros((numscat, 3))
    scat_pts[:, 0] = rng.uniform(-8e-3, 8e-3, size=numscat)
    scat_pts[:, 2] = rng.uniform(0.25 * H, 0.75 * H, size=numscat)
    words = ["".join(w) for k in range(1, max_reflections + 2) for w in itertools.product("LT", repeat=k)]
    vel = {"L": block.longitudinal_vel, "T": block.transverse_vel}
    front_x, back_x = [], []
    for e in range(numel):
        xe, ze = probe.locations.x[e], probe.locations.z[e]
        for sp in scat_pts:
            for w in words:
                hs = [abs(ze)] + {1: [sp[2]], 2: [H, H - sp[2]], 3: [H, H, sp[2]]}[len(w)]
                vs = [couplant.longitudinal_vel] + [vel[c] for c in w]
                dx = sp[0] - xe
                pmax = 1.0 / max(vs)

                def X(p):
                    return sum(h * p * v / np.sqrt(1 - (p * v) ** 2) for h, v in zip(hs, vs)) - dx
                p = brentq(X, -pmax * (1 - 1e-12), pmax * (1 - 1e-12), xtol=1e-30, rtol=1e-15, maxiter=500)
                xs = xe + np.cumsum([h * p * v / np.sqrt(1 - (p * v) ** 2) for h, v in zip(hs, vs)])
                front_x.append(xs[0])
                if len(w) >= 2:
                    back_x.append(xs[1])
                if len(w) == 3:
                    front_x.append(xs[2])
    def wall(xs, z, name):
        xs = np.unique(np.concatenate([np.asarray(xs), [min(xs) - 3e-3, max(xs) + 3e-3]])) if len(xs) else np.array([-20e-3, 20e-3])
        pts = np.zeros((len(xs), 3))
        pts[:, 0], pts[:, 2] = xs, z
        P = g.Points(pts, name)
        return g.OrientedPoints(P, g.default_orientations(P))
    front = wall(front_x, 0.0, "Frontwall")
    back = wall(back_x, H, "Backwall")
    exo = arim.BlockInImmersion(block, couplant, front, back)
    scat_op = g.default_oriented_points(g.Points(scat_pts, "Scatterers"))
    views = bim.make_views(exo, probe.to_oriented_points(), scat_op, max_number_of_reflection=max_reflections, tfm_unique_only=False)
    arim.ray.ray_tracing(views.values(), convert_to_fortran_order=True)
    return dict(probe=probe, views=views, exo=exo, scat_pts=scat_pts, couplant=couplant, block=block, H=H, numel=numel)


def check_time_objects(ctx, n=40):
    """`arim.Time` (shared by C11 and C19): samples are `start + k*step`, `start/end/step/len` describe them,
    `from_vect` recovers the axis, `window(tmin, tmax, endpoint_left, endpoint_right)` selects exactly the samples in the
    closed / half-open / open interval (also for limits outside the record and on samples), `closest_index` is the nearest sample"""
    import arim

    rng = ctx.rng
    for it in range(n * ctx.scale):
        num = int(rng.integers(1, 40))
        step = float(rng.choice([1e-8, 2.0 ** -24, 0.1, 4e-8, 1.0, rng.uniform(1e-9, 1e-6)]))
        start = float(rng.choice([0.0, -3 * step, 7.5 * step, rng.uniform(-1e-6, 1e-6)]))
        t = arim.Time(start, step, num)
        cj = {"op": "Time", "start": start, "step": step, "num": num}
        ctx.case(("time", start, step, num), num >= 2)
        want = np.array([start + k * step if num > 1 else start for k in range(num)])
        if num > 1:
            want = np.arange(num, dtype=float) * step + start
        ok = (len(t) == num and np.array_equal(t.samples, want) and t.start == want[0] and t.end == want[-1] and t.step == step)
        if not ok:
            ctx.violate("Time(start, step, num) is not the axis start + k*step with its start/end/step/len", cj, {"kind": "time_axis"})
            continue
        if num >= 2:
            t2 = arim.Time.from_vect(t.samples)
            if not (len(t2) == num and np.allclose(t2.samples, t.samples, rtol=0, atol=1e-9 * step * num + 1e-15 * abs(start)) and abs(t2.step - step) <= 1e-9 * step):
                ctx.violate("Time.from_vect does not recover the axis it is given", cj, {"kind": "time_axis"})
        smp = t.samples
        for _ in range(6):
            def lim():
                u = rng.random()
                if u < 0.15:
                    return None
                if u < 0.55:
                    return float(rng.choice(smp))
                if u < 0.85:
                    return float(rng.choice(smp) + rng.choice([-1, 1]) * step / 3)
                return float(rng.choice([smp[0] - 2.5 * step, smp[-1] + 2.5 * step]))
            tmin, tmax = lim(), lim()
            el, er = bool(rng.integers(0, 2)), bool(rng.integers(0, 2))
            sel = np.ones(num, dtype=bool)
            if tmin is not None:
                sel &= (smp >= tmin) if el else (smp > tmin)
            if tmax is not None:
                sel &= (smp <= tmax) if er else (smp < tmax)
            got = np.zeros(num, dtype=bool)
            try:
                got[t.window(tmin, tmax, endpoint_left=el, endpoint_right=er)] = True
            except Exception as e:
                ctx.violate(f"Time.window raised {type(e).__name__}", dict(cj, tmin=tmin, tmax=tmax, endpoint_left=el, endpoint_right=er), {"kind": "time_window"})
                continue
            ctx.count(f"window:{'[' if el else '('}{')' if not er else ']'}")
            if not np.array_equal(got, sel) and sel.any():
                ctx.violate(f"Time.window(tmin={tmin}, tmax={tmax}, endpoint_left={el}, endpoint_right={er}) selects samples {np.flatnonzero(got).tolist()}, "
                            f"the samples in the interval are {np.flatnonzero(sel).tolist()}", dict(cj, tmin=tmin, tmax=tmax, endpoint_left=el, endpoint_right=er), {"kind": "time_window"})
            x = float(rng.uniform(smp[0] - 2 * step, smp[-1] + 2 * step))
            k = int(t.closest_index(x))
            if abs(smp[k] - x) > np.abs(smp - x).min():
                ctx.violate(f"Time.closest_index({x}) = {k} is not the nearest sample", dict(cj, x=x), {"kind": "time_closest"})


def _arrays_of(x, out, path="result"):
    if isinstance(x, np.ndarray):
        out.append((path, x))
    elif isinstance(x, dict):
        for k in x:
            _arrays_of(x[k], out, f"{path}[{k!r}]")
    elif isinstance(x, (tuple, list)):
        for i, v in enumerate(x):
            _arrays_of(v, out, f"{path}[{i}]")
    elif hasattr(x, "coords") and isinstance(getattr(x, "coords"), np.ndarray):
        out.append((path + ".coords", x.coords))


def check_fresh(ctx, name, thunk, cj=None, kind="shared_result"):
    """What a function hands back belongs to the caller: after the caller has overwritten the arrays (and cleared the
    lists / dicts) it got, the same call gives the same values again.  (A memo that hands out its own storage, a
    module-level default, a buffer reused between calls all fail this while every single call looks right.)"""
    import copy

    r1 = thunk()
    snap = copy.deepcopy(r1)
    arrs = []
    _arrays_of(r1, arrs)
    touched = 0
    for _, a in arrs:
        if a.flags.writeable and a.size:
            try:
                a[...] = (a * -3 + 7) if a.dtype.kind in "fciu" else ~a if a.dtype.kind == "b" else a
                touched += 1
            except Exception:
                pass
    for c in ([r1] if isinstance(r1, (list, dict)) else []):
        try:
            c.clear()
            touched += 1
        except Exception:
            pass
    r2 = thunk()
    a2, a0 = [], []
    _arrays_of(r2, a2)
    _arrays_of(snap, a0)
    ctx.count("fresh_result:" + name)
    same = len(a2) == len(a0) and all(x.shape == y.shape and np.array_equal(x, y, equal_nan=(x.dtype.kind in "fc")) for (_, x), (_, y) in zip(a2, a0))
    if not arrs and isinstance(snap, (list, tuple, dict)):
        same = (r2 == snap)
    if not same:
        ctx.violate(f"{name}: after the caller overwrote the result of the first call, the same call returns different values "
                    "(the function hands out storage it keeps using)", cj or {"op": "fresh_result", "function": name}, {"kind": kind, "function": name})
    return touched
