"""Builders of arim objects used by several checks."""
import numpy as np


def make_frame(timetraces, t0, dt, tx, rx, probe=None, exobj=None):
    import arim

    timetraces = np.ascontiguousarray(timetraces)
    time = arim.Time(t0, dt, timetraces.shape[1])
    return arim.Frame(timetraces, time, np.ascontiguousarray(tx), np.ascontiguousarray(rx), probe, exobj)


def make_focal_law(lt_tx, lt_rx, amp_tx=None, amp_rx=None, weights=None):
    from arim.im import tfm

    amps = None
    if amp_tx is not None:
        amps = tfm.TxRxAmplitudes(np.ascontiguousarray(amp_tx), np.ascontiguousarray(amp_rx))
    return tfm.FocalLaw(np.ascontiguousarray(lt_tx), np.ascontiguousarray(lt_rx), amps, weights)


def pairs(rng, numel, kind):
    """tx, rx arrays for fmc / hmc / random subset of distinct pairs (random order)"""
    if kind == "fmc":
        p = [(i, j) for i in range(numel) for j in range(numel)]
    elif kind == "hmc":
        p = [(i, j) for i in range(numel) for j in range(i, numel)]
    else:
        allp = [(i, j) for i in range(numel) for j in range(numel)]
        k = int(rng.integers(1, len(allp) + 1))
        idx = rng.permutation(len(allp))[:k]
        p = [allp[i] for i in idx]
    tx = np.array([a for a, _ in p], dtype=np.int64)
    rx = np.array([b for _, b in p], dtype=np.int64)
    return tx, rx


class OrderedExecutor:
    """Drop-in for ThreadPoolExecutor that runs the submitted tasks in a chosen order.

    mode: 'perm' (permutation given by `order_fn(n)` applied when the pool is closed),
          'lazy' (each task runs when its result() is requested, in reverse request order),
          'real' (a real thread pool).
    Records every submission in `log` (function name, argument arrays).
    """

    log = []
    order_fn = None
    mode = "perm"

    def __init__(self, max_workers=None):
        self.tasks = []
        self.max_workers = max_workers

    def __enter__(self):
        return self

    def submit(self, fn, *args):
        fut = _Fut(fn, args)
        self.tasks.append(fut)
        OrderedExecutor.log.append((getattr(fn, "__name__", str(fn)), args))
        return fut

    def __exit__(self, *exc):
        n = len(self.tasks)
        if OrderedExecutor.mode == "lazy":
            return False
        order = list(range(n)) if OrderedExecutor.order_fn is None else list(OrderedExecutor.order_fn(n))
        assert sorted(order) == list(range(n))
        for k in order:
            self.tasks[k].run()
        return False


class _Fut:
    def __init__(self, fn, args):
        self.fn, self.args, self.done, self.val = fn, args, False, None

    def run(self):
        if not self.done:
            self.val = self.fn(*self.args)
            self.done = True

    def result(self):
        self.run()
        return self.val


class patched_executors:
    """substitute the executor class used by arim.ray and arim.geometry"""

    def __init__(self, cls):
        self.cls = cls

    def __enter__(self):
        import concurrent.futures

        import arim.ray

        self.old = (arim.ray.ThreadPoolExecutor, concurrent.futures.ThreadPoolExecutor)
        arim.ray.ThreadPoolExecutor = self.cls
        concurrent.futures.ThreadPoolExecutor = self.cls
        return self

    def __exit__(self, *exc):
        import concurrent.futures

        import arim.ray

        arim.ray.ThreadPoolExecutor, concurrent.futures.ThreadPoolExecutor = self.old
        return False
