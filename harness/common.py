"""Shared machinery of the arim verification checks (see DESIGN.md section 3).

A check = (1) build + audit of the Lean theorems of the property, (2) correspondence between
the executable Lean model (compiled driver, line protocol) and the real arim code imported
from /repo/src, (3) the property itself evaluated on the implementation by an independent
oracle, (4) evidence + exit code.
"""
from __future__ import annotations

import fcntl
import hashlib
import json
import os
import re
import struct
import subprocess
import sys
import time
import traceback
from pathlib import Path

VERIF = Path(__file__).resolve().parent.parent
LEAN = VERIF / "lean"
REPO = Path(os.environ.get("ARIM_REPO", "/repo"))
SRC = REPO / "src"
CACHE = VERIF / ".cache"
GUARD = "ARIM_VERIF"

ALLOWED_AXIOMS = {"propext", "Classical.choice", "Quot.sound"}
FORBIDDEN = re.compile(
    r"\bsorry\b|\badmit\b|^\s*axiom\s|native_decide|bv_decide|implemented_by|\bunsafe\s|maxHeartbeats\s+0\b",
    re.M,
)


# ----------------------------------------------------------------------------------------
# environment: import arim from the current working tree, private numba cache
# ----------------------------------------------------------------------------------------
def src_hash() -> str:
    h = hashlib.sha256()
    for p in sorted((SRC / "arim").rglob("*.py")):
        h.update(str(p.relative_to(SRC)).encode())
        h.update(p.read_bytes())
    return h.hexdigest()[:16]


def _numba_cache(hsh: str) -> Path:
    """A JIT cache private to this process, seeded from / published to a shared snapshot.

    numba's on-disk cache is not safe against two processes compiling the same functions at the same time (the cached
    gufunc wrappers name the inner function by a per-process counter, so interleaved writes leave a cache that aborts
    every later process with 'LLVM ERROR: Symbol not found'; seen when four checks started on a cold cache).  No two
    processes ever write to the same directory here: a run copies the snapshot (if any) under a shared lock, compiles
    into its own copy, and at exit replaces the snapshot by its copy under an exclusive lock if it has more entries."""
    import atexit
    import shutil

    root = CACHE / "numba" / hsh
    root.mkdir(parents=True, exist_ok=True)
    golden = root / "snapshot"
    mine = root / f"run-{os.getpid()}-{int(time.time() * 1e6) & 0xFFFFFF:x}"
    lock = root / "lock"

    def count(d: Path) -> int:
        return sum(1 for _ in d.rglob("*.nb?")) if d.exists() else 0

    with open(lock, "w") as lk:
        fcntl.flock(lk, fcntl.LOCK_SH)
        if golden.exists() and not os.environ.get("VERIF_NUMBA_FRESH"):
            shutil.copytree(golden, mine, copy_function=shutil.copy2)
        else:
            mine.mkdir()
    seeded = count(mine)

    def publish():
        try:
            with open(lock, "w") as lk:
                fcntl.flock(lk, fcntl.LOCK_EX)
                if count(mine) > max(seeded, count(golden)):
                    old = root / f"old-{os.getpid()}"
                    if golden.exists():
                        golden.rename(old)
                    mine.rename(golden)
                    shutil.rmtree(old, ignore_errors=True)
                else:
                    shutil.rmtree(mine, ignore_errors=True)
        except OSError:
            shutil.rmtree(mine, ignore_errors=True)

    atexit.register(publish)
    # leftovers of runs that were killed
    for d in root.glob("run-*"):
        try:
            if d != mine and time.time() - d.stat().st_mtime > 6 * 3600:
                shutil.rmtree(d, ignore_errors=True)
        except OSError:
            pass
    return mine


def setup_env():
    """Must be called before importing numba/arim."""
    os.environ[GUARD] = "1"
    hsh = src_hash()
    nb = _numba_cache(hsh)
    os.environ["NUMBA_CACHE_DIR"] = str(nb)
    # drop stale JIT caches of older source states (keep the 3 most recent)
    try:
        olds = sorted((CACHE / "numba").iterdir(), key=lambda p: p.stat().st_mtime)
        for p in olds[:-3]:
            if p != nb.parent:
                subprocess.run(["rm", "-rf", str(p)])
    except OSError:
        pass
    if str(SRC) not in sys.path:
        sys.path.insert(0, str(SRC))
    import warnings

    warnings.filterwarnings("ignore")
    import logging

    logging.getLogger("arim").setLevel(logging.ERROR)
    if os.environ.get("VERIF_COV"):
        import covtrace

        covtrace.install(sys.argv[1].upper() if len(sys.argv) > 1 else "?", SRC)
    return hsh


# ----------------------------------------------------------------------------------------
# float <-> wire
# ----------------------------------------------------------------------------------------
def f2b(x) -> int:
    return struct.unpack("<Q", struct.pack("<d", float(x)))[0]


def b2f(n) -> float:
    return struct.unpack("<d", struct.pack("<Q", int(n)))[0]


def fl(xs) -> str:
    xs = list(xs)
    return ",".join(str(f2b(x)) for x in xs) if xs else "-"


def il(xs) -> str:
    xs = list(xs)
    return ",".join(str(int(x)) for x in xs) if xs else "-"


def fmat(rows) -> str:
    rows = list(rows)
    return ";".join(fl(r) for r in rows) if rows else "-"


def frac_s(q) -> str:
    from fractions import Fraction

    q = Fraction(q)
    return str(q.numerator) if q.denominator == 1 else f"{q.numerator}/{q.denominator}"


def ql(xs) -> str:
    xs = list(xs)
    return ",".join(frac_s(x) for x in xs) if xs else "-"


def parse_rat(s):
    from fractions import Fraction

    return Fraction(s)


def ulp_diff(a: float, b: float) -> int:
    """distance in units in the last place between two finite doubles"""
    def key(x):
        n = f2b(x)
        return n if n < (1 << 63) else (1 << 63) - n
    return abs(key(a) - key(b))


# ----------------------------------------------------------------------------------------
# Lean side: build, audit, driver
# ----------------------------------------------------------------------------------------
class LeanSide:
    def __init__(self):
        self.build_log = ""
        self.driver_ok = False
        self.proofs_ok = False
        self.theorems: list[str] = []
        self.axioms: dict[str, list[str]] = {}
        self.problems: list[str] = []
        self.tie_theorems: list[str] = []
        self.translation_notes: list[str] = []
        self.translated: list[str] = []

    def _lake(self, *targets, timeout=3000):
        (LEAN / ".lake").mkdir(exist_ok=True)
        lock = open(LEAN / ".lake" / "verif.lock", "w")
        fcntl.flock(lock, fcntl.LOCK_EX)
        try:
            p = subprocess.run(
                ["lake", "build", *targets], cwd=LEAN, capture_output=True, text=True, timeout=timeout
            )
        finally:
            fcntl.flock(lock, fcntl.LOCK_UN)
            lock.close()
        return p.returncode, p.stdout + p.stderr

    def build_driver(self):
        rc, log = self._lake("driver")
        self.build_log += log
        self.driver_ok = rc == 0 and (LEAN / ".lake/build/bin/driver").exists()
        if not self.driver_ok:
            self.problems.append("lake build driver failed")
        return self.driver_ok

    def props_file(self, pid):
        return LEAN / "ArimProofs" / f"{pid}.lean"

    def parse_theorems(self, pid):
        """names of the theorems stated in ArimProofs/<pid>.lean (namespace Arim.<pid>)"""
        txt = strip_lean_comments(self.props_file(pid).read_text())
        names = re.findall(r"^\s*theorem\s+([^\s:({\[]+)", txt, re.M)
        out = [f"Arim.{pid}.{n}" for n in names]
        # tie theorems: generated translation of the source = hand-written model (ArimProofs/Tie/<pid>.lean)
        import srcspecs
        self.tie_theorems = []
        for tp in [pid] + list(srcspecs.USES.get(pid, [])):
            tie = LEAN / "ArimProofs" / "Tie" / f"{tp}.lean"
            if tie.exists():
                names = re.findall(r"^\s*theorem\s+([^\s:({\[]+)", strip_lean_comments(tie.read_text()), re.M)
                self.tie_theorems += [f"Arim.Tie.{tp}.{n}" for n in names]
        out += self.tie_theorems
        return out

    def build_and_audit(self, pid, pre_build=None):
        """Build ArimProofs.<pid>, then ask Lean for the axioms of every theorem of the file."""
        self.theorems = self.parse_theorems(pid)
        # the model of the translated functions is regenerated from /repo/src on every run
        import srctie
        # every generated file is refreshed (proof modules import one another: a stale translation of another
        # property's functions must never be what this build checks against)
        for other in sorted(srctie.srcspecs.SPECS):
            if other != pid:
                srctie.generate(other)
        ok, notes = srctie.generate(pid)
        self.translation_notes = notes
        self.translated = [sp.name for tp in [pid] + list(srctie.srcspecs.USES.get(pid, [])) for sp in srctie.srcspecs.SPECS.get(tp, [])]
        if not ok:
            self.problems.append("py2lean: " + "; ".join(notes)[:400])
        if pre_build:
            pre_build()
        tie_mods = sorted({".".join(t.split(".")[:3]).replace("Arim.Tie.", "ArimProofs.Tie.") for t in self.tie_theorems})
        rc, log = self._lake(f"ArimProofs.{pid}", *tie_mods)
        self.build_log += log
        if rc != 0:
            self.problems.append(f"lake build ArimProofs.{pid} failed")
            self.proofs_ok = False
            return False
        # forbidden constructs, comments stripped, in every file the property's module depends on
        for f in list((LEAN / "ArimProofs").rglob("*.lean")) + list((LEAN / "ArimModel").rglob("*.lean")):
            m = FORBIDDEN.search(strip_lean_comments(f.read_text()))
            if m:
                self.problems.append(f"forbidden construct {m.group(0)!r} in {f.relative_to(LEAN)}")
        aud = CACHE / f"audit_{pid}_{os.getpid()}.lean"
        CACHE.mkdir(exist_ok=True)
        aud.write_text(
            f"import ArimProofs.{pid}\n" + "".join(f"import {m}\n" for m in tie_mods) + "".join(f"#print axioms {t}\n" for t in self.theorems)
        )
        try:
            p = subprocess.run(
                ["lake", "env", "lean", str(aud)], cwd=LEAN, capture_output=True, text=True, timeout=900
            )
        finally:
            aud.unlink(missing_ok=True)
        out = p.stdout + p.stderr
        self.build_log += out
        for t in self.theorems:
            m = re.search(
                r"'" + re.escape(t) + r"' (does not depend on any axioms|depends on axioms: \[([^\]]*)\])",
                out,
            )
            if not m:
                self.problems.append(f"no axiom report for {t}")
                continue
            axs = [] if m.group(2) is None else [a.strip() for a in m.group(2).replace("\n", " ").split(",")]
            self.axioms[t] = axs
            bad = [a for a in axs if a not in ALLOWED_AXIOMS]
            if bad:
                self.problems.append(f"{t} depends on non-standard axioms {bad}")
        self.proofs_ok = not self.problems
        return self.proofs_ok

    @property
    def discharged(self):
        return sum(1 for t in self.theorems if t in self.axioms and set(self.axioms[t]) <= ALLOWED_AXIOMS)

    def build_srcdriver(self):
        """the driver that executes the *generated* definitions (translation validation); rebuilt after the translations were
        refreshed.  A failure is not a problem of its own: a translation that does not compile is already reported."""
        rc, log = self._lake("srcdriver")
        self.build_log += log
        self.srcdriver_ok = rc == 0 and (LEAN / ".lake/build/bin/srcdriver").exists()
        return self.srcdriver_ok

    def drive(self, lines, timeout=1800, exe="driver"):
        """send request lines to the compiled model driver, return response lines"""
        if exe == "driver" and not self.driver_ok:
            raise RuntimeError("driver not built")
        p = subprocess.run(
            [str(LEAN / ".lake/build/bin" / exe)],
            input="\n".join(lines) + "\n",
            capture_output=True,
            text=True,
            timeout=timeout,
        )
        out = p.stdout.split("\n")
        if out and out[-1] == "":
            out.pop()
        if len(out) != len(lines):
            raise RuntimeError(f"driver answered {len(out)} lines for {len(lines)} requests: {p.stderr[:500]}")
        return out


def strip_lean_comments(txt: str) -> str:
    # nested block comments
    out = []
    i, depth, n = 0, 0, len(txt)
    while i < n:
        if txt.startswith("/-", i):
            depth += 1
            i += 2
        elif depth and txt.startswith("-/", i):
            depth -= 1
            i += 2
        elif depth:
            i += 1
        elif txt.startswith("--", i):
            j = txt.find("\n", i)
            i = n if j < 0 else j
        else:
            out.append(txt[i])
            i += 1
    return "".join(out)


# ----------------------------------------------------------------------------------------
# context handed to the per-property modules
# ----------------------------------------------------------------------------------------
class Ctx:
    def __init__(self, pid, tier, seed, lean: LeanSide):
        import numpy as np

        self.pid = pid
        self.tier = tier
        self.seed = seed
        self.lean = lean
        self.rng = np.random.Generator(np.random.PCG64(seed))
        self.scale = 1 if tier == "quick" else 8
        self.evaluations = 0
        self.nontrivial = set()
        self.samples = []
        self.dist = {}
        self.disagreements = []  # model != implementation
        self.violations = []  # property fails on the implementation
        self.known_hits = []
        self.traces = 0
        self.rule = ""
        self.assumptions = []
        self.oracle_only = False
        self.notes = []
        self.t0 = time.time()

    # -- bookkeeping
    def count(self, key, n=1):
        self.dist[key] = self.dist.get(key, 0) + n

    def case(self, canon, nontrivial=True, sample=None):
        self.evaluations += 1
        if nontrivial:
            self.nontrivial.add(hashlib.sha1(repr(canon).encode()).hexdigest())
        if sample is not None and len(self.samples) < 4:
            self.samples.append(sample)

    def disagree(self, what, case):
        self.count("disagreement")
        if len(self.disagreements) < 20:
            self.disagreements.append({"what": what, "case": case})

    def violate(self, what, case, tags=None):
        self.count("violation")
        if len(self.violations) < 50:
            self.violations.append({"what": what, "case": case, "tags": tags or {}})

    def drive(self, lines):
        self.traces += len(lines)
        return self.lean.drive(lines)

    def drive_src(self, lines):
        """responses of the translation-validation driver (generated definitions on doubles), or None if it is not built"""
        if not getattr(self.lean, "srcdriver_ok", False):
            return None
        self.traces += len(lines)
        return self.lean.drive(lines, exe="srcdriver")


class ProbeCtx:
    """a throw-away context used while shrinking: records violations, nothing else"""

    def __init__(self, ctx):
        self.rng = ctx.rng
        self.tier = ctx.tier
        self.lean = ctx.lean
        self.violations = []
        self.scale = ctx.scale

    def violate(self, what, case, tags=None):
        self.violations.append({"what": what, "case": case, "tags": tags or {}})

    def count(self, *a, **k):
        pass

    def case(self, *a, **k):
        pass

    def disagree(self, *a, **k):
        pass


def shrink_ops(ops, still_fails, max_rounds=6):
    """delta-debugging light: drop chunks, then single operations, while the failure persists"""
    ops = list(ops)
    for _ in range(max_rounds):
        changed = False
        n = len(ops)
        for size in (max(1, n // 2), max(1, n // 4), 1):
            i = 0
            while i < len(ops) and len(ops) > 1:
                cand = ops[:i] + ops[i + size:]
                if cand and still_fails(cand):
                    ops = cand
                    changed = True
                else:
                    i += size
        if not changed:
            break
    return ops


def load_known():
    f = VERIF / "known_findings.json"
    if not f.exists():
        return []
    return json.loads(f.read_text()).get("findings", [])


def match_known(pid, v, known):
    for k in known:
        if k.get("property") != pid or k.get("status") != "known":
            continue
        m = k.get("match", {})
        if m and all(v["tags"].get(a) == b for a, b in m.items()):
            return k
    return None


def jsonable(x):
    import numpy as np
    from fractions import Fraction

    if isinstance(x, dict):
        return {str(k): jsonable(v) for k, v in x.items()}
    if isinstance(x, (list, tuple, set)):
        return [jsonable(v) for v in x]
    if isinstance(x, np.ndarray):
        return jsonable(x.tolist())
    if isinstance(x, (np.integer,)):
        return int(x)
    if isinstance(x, (np.floating,)):
        return float(x)
    if isinstance(x, (np.bool_,)):
        return bool(x)
    if isinstance(x, complex) or isinstance(x, np.complexfloating):
        return {"re": float(x.real), "im": float(x.imag)}
    if isinstance(x, Fraction):
        return str(x)
    if isinstance(x, (str, int, float, bool)) or x is None:
        return x
    return repr(x)


TRUSTED_BASE = [
    "Lean 4.33 kernel (axioms allowed: propext, Classical.choice, Quot.sound; audited by #print axioms on every run)",
    "reading of the property as the theorem statements in lean/ArimProofs/<id>.lean",
    "hand-written executable model lean/ArimModel/*.lean, tied to /repo/src by the correspondence run of this check (differential testing, bounded by its generators)",
    "translator harness/py2lean.py + harness/srcspecs.py (where a property has ArimProofs/Tie/<id>.lean): Python subset -> Lean, exact arithmetic reading of the numeric code; the tie theorems prove generated = model for all inputs",
    "Lean compiler/runtime executing the model (Float = IEEE double, libm)",
    "Python harness, generators and oracles under /verif/harness",
    "external numerical routines (numpy ufuncs, FFT, BLAS/einsum, scipy.special, numba code generation) modelled as parameters",
]


def finish(ctx: Ctx, extra_cov=None, search=None):
    """Decide the outcome, write evidence, print VIOLATION / KNOWN-FINDING lines, return exit code."""
    pid = ctx.pid
    lean = ctx.lean
    known = load_known()
    new_violations = []
    for v in ctx.violations:
        k = match_known(pid, v, known)
        if k:
            if k["id"] not in [h["id"] for h in ctx.known_hits]:
                ctx.known_hits.append(k)
        else:
            new_violations.append(v)
    broken = list(lean.problems)
    if ctx.disagreements:
        broken.append(f"correspondence: {len(ctx.disagreements)} disagreement(s), first: {ctx.disagreements[0]['what']}")
    # a broken proof or correspondence is not by itself a violation: search for a failing input
    if broken and not new_violations and search is not None:
        try:
            before = len(ctx.violations)
            search(ctx)
            for v in ctx.violations[before:]:
                k = match_known(pid, v, known)
                if k:
                    if k["id"] not in [h["id"] for h in ctx.known_hits]:
                        ctx.known_hits.append(k)
                else:
                    new_violations.append(v)
        except Exception:
            ctx.notes.append("search raised: " + traceback.format_exc()[-800:])
    for k in ctx.known_hits:
        print(f"KNOWN-FINDING: property={pid} {k['what']}")
    rc = 0
    replay = None
    if new_violations or broken:
        rc = 1
        (VERIF / "replays").mkdir(exist_ok=True)
        body = {
            "property": pid,
            "seed": ctx.seed,
            "tier": ctx.tier,
            "src_hash": src_hash(),
        }
        if new_violations:
            v = new_violations[0]
            body.update({"kind": "failing-input", "what": v["what"], "case": v["case"], "tags": v["tags"],
                         "other_violations": [x["what"] for x in new_violations[1:6]]})
        else:
            body.update({"kind": "no-failing-input-found", "no_longer_checks": broken,
                         "disagreements": ctx.disagreements[:5],
                         "build_log_tail": lean.build_log[-3000:]})
        hsh = hashlib.sha1(json.dumps(jsonable(body), sort_keys=True).encode()).hexdigest()[:10]
        replay = VERIF / "replays" / f"{pid}-{hsh}.json"
        replay.write_text(json.dumps(jsonable(body), indent=1))
        tail = "" if new_violations else " no-failing-input-found"
        print(f"VIOLATION property={pid} replay={replay}{tail}")
    cov = {
        "obligations": len(lean.theorems),
        "discharged": lean.discharged,
        "checker_cmd": f"cd /verif/lean && lake build ArimProofs.{pid} && lake env lean <audit file with #print axioms of every theorem>",
        "trusted_base": TRUSTED_BASE,
        "theorems": {t: lean.axioms.get(t) for t in lean.theorems},
        "evaluations": ctx.evaluations,
        "distinct_nontrivial": len(ctx.nontrivial),
        "rule": ctx.rule,
        "samples": jsonable(ctx.samples) or ["(none)"],
        "traces_validated_against_impl": ctx.traces,
        "input_distribution": ctx.dist,
        "correspondence_disagreements": len(ctx.disagreements),
        "known_findings_hit": [k["id"] for k in ctx.known_hits],
        "lean_problems": lean.problems,
        "source_translation": {
            "functions_translated_from_repo_on_this_run": sorted(set(lean.translated)),
            "tie_theorems": {t: lean.axioms.get(t) for t in lean.tie_theorems},
            "notes": lean.translation_notes,
        },
        "notes": ctx.notes,
    }
    if extra_cov:
        cov.update(extra_cov)
    ev = {
        "property_id": pid,
        "tier": ctx.tier,
        "seed": ctx.seed,
        "level": "proof",
        "coverage": jsonable(cov),
        "assumptions": ctx.assumptions,
        "wall_s": round(time.time() - ctx.t0, 2),
        "violations": len(new_violations) + (1 if broken and not new_violations else 0),
    }
    (VERIF / "evidence").mkdir(exist_ok=True)
    (VERIF / "evidence" / f"{pid}.json").write_text(json.dumps(ev, indent=1))
    print(
        f"[{pid}] tier={ctx.tier} seed={ctx.seed} theorems={lean.discharged}/{len(lean.theorems)} "
        f"cases={ctx.evaluations} distinct={len(ctx.nontrivial)} driver_lines={ctx.traces} "
        f"disagreements={len(ctx.disagreements)} violations={len(new_violations)} "
        f"known={len(ctx.known_hits)} wall={ev['wall_s']}s rc={rc}"
    )
    return rc
