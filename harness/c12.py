"""C12 — TFM pipelines: contact = straight rays, HMC = FMC, reciprocal views coincide.

Correspondence: Lean `contactTfm` / `tfmForView` (compositions of the C01 leg time, the C15
default weights and the C02 delay-and-sum, evaluated exactly on rationals) vs
`arim.im.tfm.contact_tfm` / `tfm_for_view`; the straight-ray lookup table is compared bit for
bit with the model's `legTime`.
Oracle: HMC image = FMC image (x count ratio), expand-then-image = full image, reciprocal views
coincide, unit-spike data focus to one at the scatterer node and never exceed one.
"""
from fractions import Fraction as F

import numpy as np

import fixtures
from common import f2b, fmat, frac_s, ql
from c02 import parse_q, qmat


def make_setup(rng):
    import arim
    import arim.geometry as g

    numx = int(rng.integers(1, 6))
    numy = 1 if rng.random() < 0.7 else int(rng.integers(1, 3))
    probe = arim.Probe.make_matrix_probe(numx, float(rng.choice([-1, 1]) * rng.uniform(0.3e-3, 1e-3)), numy, float(rng.uniform(0.3e-3, 1e-3)), 5e6)
    if rng.random() < 0.5:
        probe.rotate(g.rotation_matrix_ypr(*rng.uniform(-0.3, 0.3, size=3)))
        probe.translate(rng.uniform(-2e-3, 2e-3, size=3))
    nxg, nzg = int(rng.integers(1, 4)), int(rng.integers(1, 4))
    xmin, zmin = float(rng.uniform(-3e-3, 0)), float(rng.uniform(1e-3, 4e-3))
    px = float(rng.uniform(0.4e-3, 1e-3))
    grid = arim.Grid(xmin, xmin + (nxg - 1) * px, 0.0, 0.0, zmin, zmin + (nzg - 1) * px, px)
    v = float(rng.uniform(2000, 6500))
    return probe, grid, v


def sym_data(rng, numel, ns, cplx):
    """integer data with g_ij = g_ji"""
    base = rng.integers(-6, 7, size=(numel, numel, ns)).astype(float)
    if cplx:
        base = base + 1j * rng.integers(-6, 7, size=(numel, numel, ns))
    return (base + np.swapaxes(base, 0, 1))


def make_frame(G, pairs, t0, dt, probe, exobj=None):
    tt = np.array([G[i, j] for i, j in pairs])
    return fixtures.make_frame(tt, t0, dt, [i for i, _ in pairs], [j for _, j in pairs], probe, exobj)


def time_axis(rng, probe, grid, v):
    """a time window that contains most two-way times, some fall outside"""
    import arim.geometry as g

    d = g.distance_pairwise(grid.to_1d_points(), probe.locations) / v
    tmin, tmax = 2 * d.min(), 2 * d.max()
    ns = int(rng.integers(8, 40))
    t0 = tmin - (tmax - tmin + 1e-7) * rng.uniform(-0.1, 0.2)
    dt = (tmax - tmin + 1e-7) * rng.uniform(0.7, 1.3) / ns
    return float(t0), float(dt), ns


def pairs_of(numel, kind):
    if kind == "fmc":
        return [(i, j) for i in range(numel) for j in range(numel)]
    return [(i, j) for i in range(numel) for j in range(i, numel)]


def close(a, b, scale, n):
    return np.all(np.abs(np.asarray(a, dtype=complex).ravel() - np.asarray(b, dtype=complex).ravel()) <= 16 * (n + 2) * np.finfo(float).eps * (scale + 1e-300))


def lookup_conditioning(lt_tx, lt_rx, pairs, t0, dt, tt, interp, wmax=1.0):
    """The kernels form the lookup index x = (tau - t0)/dt in floating point; the definition uses the exact value of the same
    floats.  |dx| <= ~4 eps (|tau| + |t0|)/dt + 4 eps |x|.  Returns (extra absolute tolerance per image point, mask of the
    image points whose value is well defined): linear interpolation turns dx into dx * |slope|; a lookup within dx of an
    edge of the window (linear: 0 or ns-1; nearest: any half-integer) may legitimately fall on either side."""
    eps = np.finfo(float).eps
    tt = np.asarray(tt)
    ns = tt.shape[1]
    tau = np.stack([lt_tx[:, i] + lt_rx[:, j] for i, j in pairs], axis=1)  # (points, timetraces)
    x = (tau - t0) / dt
    dx = 4 * eps * (np.abs(tau) + abs(t0)) / dt + 4 * eps * np.abs(x) + 4 * eps
    if interp == "linear":
        slope = np.abs(np.diff(tt, axis=1)).max(axis=1) if ns > 1 else np.zeros(len(pairs))
        extra = (dx * slope[None, :] * wmax).sum(axis=1) / len(pairs)
        ok = ~((np.abs(x) <= dx) | (np.abs(x - (ns - 1)) <= dx)).any(axis=1)
    else:
        extra = np.zeros(tau.shape[0])
        fr = x - np.floor(x)
        ok = ~(np.abs(fr - 0.5) <= dx).any(axis=1)
    return extra, ok


def close_c(a, b, scale, n, extra, ok):
    a, b = np.asarray(a, dtype=complex).ravel(), np.asarray(b, dtype=complex).ravel()
    tol = 16 * (n + 2) * np.finfo(float).eps * (np.asarray(scale) + 1e-300) + extra
    return np.all((np.abs(a - b) <= tol) | ~ok)


def check_contact(ctx):
    import arim.geometry as g
    from arim.im import tfm

    rng = ctx.rng
    jobs = []
    for _ in range(40 * ctx.scale):
        probe, grid, v = make_setup(rng)
        numel = probe.numelements
        t0, dt, ns = time_axis(rng, probe, grid, v)
        if _ % 4 == 3:
            # a tight acquisition window: it starts on the earliest two-way time and ends on the latest one (the last sample is used)
            d_ = g.distance_pairwise(grid.to_1d_points(), probe.locations) / v
            lo_, hi_ = 2 * float(d_.min()), 2 * float(d_.max())
            if hi_ > lo_:
                t0, dt = lo_, (hi_ - lo_) / (ns - 1)
        cplx = bool(rng.integers(0, 2))
        G = sym_data(rng, numel, ns, cplx)
        interp = str(rng.choice(["nearest", "linear"]))
        fill = float(rng.choice([0.0, 0.0, 1.0]))
        jobs.append((probe, grid, v, t0, dt, ns, G, interp, fill))
    # model lookup tables (one-leg travel times, bit exact)
    l1 = []
    for probe, grid, v, *_ in jobs:
        gp = grid.to_1d_points().coords
        l1.append(f"fermat f64 {fmat(gp)}|{fmat(probe.locations.coords)} 0:{f2b(v)}:1")
    a1 = ctx.drive(l1) if ctx.lean.driver_ok and not ctx.oracle_only else [None] * len(jobs)
    l2, meta = [], []
    for (probe, grid, v, t0, dt, ns, G, interp, fill), a in zip(jobs, a1):
        numel = probe.numelements
        lookup = g.distance_pairwise(grid.to_1d_points(), probe.locations) / v
        cj = {"op": "contact_tfm", "probe": probe.locations.coords.tolist(), "grid": grid.to_1d_points().coords.tolist(), "v": v, "t0": t0, "dt": dt,
              "interp": interp, "fill": fill, "G_re": G.real.tolist(), "G_im": G.imag.tolist()}
        if a is not None:
            mt = np.array([int(x) for x in a[3:].split("/")[0].split(",")], dtype=np.uint64).view(np.float64).reshape(lookup.shape)
            if not np.array_equal(mt.view(np.uint64), lookup.view(np.uint64)):
                ctx.disagree("contact lookup times differ from distance/velocity of the model (bitwise)", cj)
        res = {}
        for kind in ("fmc", "hmc"):
            pairs = pairs_of(numel, kind)
            if rng.random() < 0.5:
                pairs = [pairs[i] for i in rng.permutation(len(pairs))]
            fr = make_frame(G, pairs, t0, dt, probe)
            res[kind] = (tfm.contact_tfm(fr, grid, v, interpolation=interp, fillvalue=fill).res, pairs, fr)
            # ---- oracle: contact TFM is delay-and-sum with lookup times distance/velocity and default weights (Fraction reference)
            import c02
            from arim import ut as _ut
            cdef = dict(tx=np.array([i for i, _ in pairs]), rx=np.array([j for _, j in pairs]), tt=fr.timetraces, dt=dt, t0=t0, lt_tx=lookup, lt_rx=lookup,
                        amp=False, weights=_ut.default_timetrace_weights([i for i, _ in pairs], [j for _, j in pairs]), interp=interp)
            want_def, _, sc_def = c02.definition(cdef, complex(fill))
            extra, okm = lookup_conditioning(lookup, lookup, pairs, t0, dt, fr.timetraces, interp, wmax=float(np.max(cdef["weights"])))
            ctx.count("contact:ill_conditioned_points", int((~okm).sum()))
            if not close_c(res[kind][0], want_def, sc_def, len(pairs), extra, okm):
                ctx.violate(f"contact TFM ({kind}) is not delay-and-sum with lookup times distance/velocity and the default weights", {**cj, "capture": kind}, {"kind": "contact_definition", "interp": interp})
            Gp = np.array([G[i, j] for i, j in pairs])
            l2.append(" ".join(["ctfm", interp[0], frac_s(F(fill)), "0", frac_s(F(t0)), frac_s(F(dt)), ",".join(f"{i}:{j}" for i, j in pairs),
                                qmat(Gp.real), qmat(Gp.imag), qmat(lookup)]))
            meta.append((res[kind][0], cj, kind, len(pairs), np.abs(G).max() * 2 + abs(fill), extra, okm))
        # the default weights obtained under their former name (`default_scanline_weights`, kept as a deprecated alias) and handed
        # to delay-and-sum as contact_tfm does give the same image
        import warnings
        from arim import ut as _ut2
        from arim.im import das as _das
        for kind in ("fmc", "hmc"):
            r0, pairs, fr0 = res[kind]
            with warnings.catch_warnings():
                warnings.simplefilter("ignore")
                try:
                    w_old = _ut2.default_scanline_weights(fr0.tx, fr0.rx)
                    fl_ = tfm.FocalLaw(np.ascontiguousarray(lookup), np.ascontiguousarray(lookup), None, w_old)
                    r_old = _das.delay_and_sum(fr0, fl_, interpolation=interp, fillvalue=fill)
                except Exception as e:
                    ctx.violate(f"the legacy-name weights path raised {type(e).__name__}: {str(e)[:80]}", {**cj, "capture": kind}, {"kind": "alias"})
                    continue
            ctx.count("contact:legacy_weights_name")
            if not close(r_old, r0, np.abs(G).max() * 2 + abs(fill), len(pairs)):
                ctx.violate(f"contact image ({kind}) with the default weights taken under their deprecated name differs from contact_tfm with its default weights", {**cj, "capture": kind}, {"kind": "alias"})
        # unit amplitudes (a TxRxAmplitudes of ones, as an apodisation switched off) give the same image as no amplitudes
        ones = tfm.TxRxAmplitudes(np.ones((grid.numpoints, numel)), np.ones((grid.numpoints, numel)))
        for kind in ("fmc", "hmc"):
            r0, pairs, fr0 = res[kind]
            try:
                r1 = tfm.contact_tfm(fr0, grid, v, amplitudes=ones, interpolation=interp, fillvalue=fill).res
            except Exception as e:
                ctx.violate(f"contact TFM with unit amplitudes raised {type(e).__name__}: {str(e)[:80]}", {**cj, "capture": kind}, {"kind": "contact_unit_amplitudes"})
                continue
            ctx.count("contact:unit_amplitudes")
            extra_, okm_ = lookup_conditioning(lookup, lookup, pairs, t0, dt, fr0.timetraces, interp, wmax=2.0)
            if not close_c(r1, r0, np.abs(G).max() * 2 + abs(fill), len(pairs), extra_, okm_):
                ctx.violate(f"contact TFM ({kind}, {interp}) with amplitudes identically one differs from the image without amplitudes "
                            f"(max difference {np.abs(np.asarray(r1, dtype=complex).ravel() - np.asarray(r0, dtype=complex).ravel()).max():.3g})",
                            {**cj, "capture": kind}, {"kind": "contact_unit_amplitudes"})
        # raw acquisition data are often integers (ADC counts): contact TFM with its default weights gives the same image for
        # the same numbers held as int16 / int32 as for float64 (FMC, complete, and HMC)
        if np.isrealobj(G) and np.all(G == np.round(G)) and np.abs(G).max() < 3000:
            for kind in ("fmc", "hmc"):
                r64, pairs, fr64 = res[kind]
                for idt in (np.int16, np.int32):
                    fri = fixtures.make_frame(np.asarray(fr64.timetraces).real.astype(idt), t0, dt, [i for i, _ in pairs], [j for _, j in pairs], probe, None)
                    try:
                        ri = tfm.contact_tfm(fri, grid, v, interpolation=interp, fillvalue=fill).res
                    except Exception as e:
                        ctx.violate(f"contact TFM raised {type(e).__name__} on {np.dtype(idt).name} data ({kind})", {**cj, "capture": kind}, {"kind": "contact_integer_data"})
                        continue
                    ctx.count("contact:integer_data")
                    if not close(np.asarray(ri, dtype=complex), np.asarray(r64, dtype=complex), np.abs(G).max() * 2 + abs(fill), len(pairs)):
                        ctx.violate(f"contact TFM ({kind}) of {np.dtype(idt).name} data is not the image of the same numbers held as float64 "
                                    f"(result dtype {np.asarray(ri).dtype}, max difference {np.abs(np.asarray(ri, dtype=complex) - np.asarray(r64, dtype=complex)).max():.3g})",
                                    {**cj, "capture": kind, "dtype": np.dtype(idt).name}, {"kind": "contact_integer_data"})
        if np.isrealobj(G) and np.all(G == np.round(G)) and np.abs(G).max() < 3000:
            # integer acquisition data together with an aperture mask of ones held as integers
            mask = tfm.TxRxAmplitudes(np.ones((grid.numpoints, numel), dtype=np.int64), np.ones((grid.numpoints, numel), dtype=np.int64))
            for kind in ("fmc", "hmc"):
                r64, pairs, fr64 = res[kind]
                fri = fixtures.make_frame(np.asarray(fr64.timetraces).real.astype(np.int16), t0, dt, [i for i, _ in pairs], [j for _, j in pairs], probe, None)
                try:
                    rm = tfm.contact_tfm(fri, grid, v, amplitudes=mask, interpolation=interp, fillvalue=fill).res
                except Exception as e:
                    ctx.violate(f"contact TFM of int16 data with an integer unit mask raised {type(e).__name__}: {str(e)[:80]}", {**cj, "capture": kind}, {"kind": "contact_integer_mask"})
                    continue
                ctx.count("contact:integer_data_integer_mask")
                ex_, ok_ = lookup_conditioning(lookup, lookup, pairs, t0, dt, fr64.timetraces, interp, wmax=2.0)
                if not close_c(np.asarray(rm, dtype=complex), np.asarray(r64, dtype=complex), np.abs(G).max() * 2 + abs(fill), len(pairs), ex_, ok_):
                    ctx.violate(f"contact TFM ({kind}) of int16 data with a unit aperture mask held as integers is not the image of the same numbers as floats "
                                f"(result dtype {np.asarray(rm).dtype})", {**cj, "capture": kind}, {"kind": "contact_integer_mask"})
        ctx.case(("contact", probe.locations.coords.tobytes(), grid.to_1d_points().coords.tobytes(), v, interp), numel >= 2,
                 sample={"op": "contact_tfm", "numel": numel, "gridpoints": grid.numpoints, "interp": interp} if numel >= 2 else None)
        ctx.count("contact:" + interp)
        scale = np.abs(G).max() * 2 + abs(fill)
        rf, pf, frf = res["fmc"]
        rh, ph, frh = res["hmc"]
        # ---- oracle: HMC image with default weights = FMC image, up to the count ratio
        # (fill contributes once per timetrace in both, so the identity is stated on the sums)
        sf = np.asarray(rf, dtype=complex) * len(pf)
        sh = np.asarray(rh, dtype=complex) * len(ph)
        inside = fill == 0.0
        if inside and not close(sf, sh, scale * len(pf), len(pf)):
            ctx.violate("HMC image x N_hmc differs from FMC image x N_fmc for symmetric data", cj, {"kind": "hmc_fmc", "interp": interp})
        # ---- expanding the HMC frame by reciprocity, then imaging, gives the FMC image
        fe = frh.expand_frame_assuming_reciprocity()
        re_ = tfm.contact_tfm(fe, grid, v, interpolation=interp, fillvalue=fill).res
        if not close(re_, rf, scale, len(pf)):
            ctx.violate("expand-by-reciprocity then contact TFM differs from the full-matrix image", cj, {"kind": "expand_image", "interp": interp})
    a2 = ctx.drive(l2) if ctx.lean.driver_ok and not ctx.oracle_only else []
    for (res_, cj, kind, n, scale, extra, okm), a in zip(meta, a2):
        if not a.startswith("ok ") or not close_c(res_, parse_q(a), scale, n, extra, okm):
            ctx.disagree(f"contact_tfm ({kind}) differs from the Lean model contactTfm", {**cj, "capture": kind})


def immersion_setup(rng, nrefl):
    import arim
    import arim.geometry as g
    import arim.models.block_in_contact as bic
    import arim.models.block_in_immersion as bim

    couplant = arim.Material(1480.0, density=1000.0, state_of_matter="liquid")
    block = arim.Material(6320.0, 3130.0, density=2700.0, state_of_matter="solid")
    numel = int(rng.integers(2, 5))
    probe = arim.Probe.make_matrix_probe(numel, float(rng.uniform(0.5e-3, 1e-3)), 1, np.nan, 5e6)
    immersion = bool(rng.integers(0, 2))
    if immersion:
        probe.rotate(g.rotation_matrix_y(float(rng.uniform(-0.2, 0.2))))
        probe.translate([0, 0, -float(rng.uniform(5e-3, 15e-3))])
    front = g.points_1d_wall_z(-15e-3, 15e-3, 0.0, int(rng.integers(10, 40)), name="Frontwall")
    back = g.points_1d_wall_z(-15e-3, 15e-3, float(rng.uniform(15e-3, 25e-3)), int(rng.integers(10, 40)), name="Backwall")
    grid = arim.Grid(-2e-3, 2e-3, 0.0, 0.0, 6e-3, 9e-3, float(rng.choice([1e-3, 2e-3, 3e-3])))
    gop = grid.to_oriented_points()
    pop = probe.to_oriented_points()
    if immersion:
        exo = arim.BlockInImmersion(block, couplant, front, back)
        views = bim.make_views(exo, pop, gop, max_number_of_reflection=nrefl, tfm_unique_only=False)
    else:
        exo = arim.BlockInContact(block, front, back, couplant)
        views = bic.make_views(exo, pop, gop, max_number_of_reflection=nrefl, tfm_unique_only=False)
    return probe, grid, exo, views, immersion


def check_views(ctx):
    import arim.ray
    from arim import ut
    from arim.im import tfm

    rng = ctx.rng
    lines, meta = [], []
    for _ in range(6 * ctx.scale):
        nrefl = int(rng.integers(0, 2))
        probe, grid, exo, views, immersion = immersion_setup(rng, nrefl)
        fortran = bool(rng.integers(0, 2))
        arim.ray.ray_tracing(views.values(), convert_to_fortran_order=fortran)
        numel = probe.numelements
        alltimes = np.concatenate([v.tx_path.rays.times.ravel() for v in views.values()])
        tmin, tmax = 2 * alltimes.min(), 2 * alltimes.max()
        ns = int(rng.integers(20, 60))
        t0 = float(tmin + (tmax - tmin) * rng.choice([-0.05, 0.02, 0.1]))  # sometimes the window starts after the first arrivals
        dt = float((tmax - tmin) * 1.15 / ns)  # the window contains every arrival time
        G = sym_data(rng, numel, ns, bool(rng.integers(0, 2)))
        pairs = pairs_of(numel, "fmc")
        pairs = [pairs[i] for i in rng.permutation(len(pairs))]
        fr = make_frame(G, pairs, t0, dt, probe, exo)
        interp = str(rng.choice(["nearest", "linear"]))
        scale = np.abs(G).max() * 2
        names = list(views)
        pick = [names[i] for i in rng.permutation(len(names))[: (6 if ctx.tier == "quick" else len(names))]]
        for name in pick:
            view = views[name]
            rname = ut.reciprocal_viewname(name)
            r1 = tfm.tfm_for_view(fr, grid, view, interpolation=interp, fillvalue=0.0).res
            r2 = tfm.tfm_for_view(fr, grid, views[rname], interpolation=interp, fillvalue=0.0).res
            cj = {"op": "tfm_for_view", "immersion": immersion, "view": name, "reflections": nrefl, "fortran": fortran, "interp": interp, "numel": numel}
            ctx.case(("view", immersion, name, fortran, interp, G.tobytes()), name != rname, sample=cj if name != rname else None)
            ctx.count("view:" + ("F" if fortran else "C"))
            if not close(r1, r2, scale, len(pairs)):
                ctx.violate(f"view {name} and its reciprocal {rname} give different images for symmetric data", cj, {"kind": "reciprocal_views"})
            ttx, trx = np.asarray(view.tx_path.rays.times), np.asarray(view.rx_path.rays.times)
            import c02
            cdef = dict(tx=np.array([i for i, _ in pairs]), rx=np.array([j for _, j in pairs]), tt=fr.timetraces, dt=dt, t0=t0, lt_tx=np.ascontiguousarray(ttx.T),
                        lt_rx=np.ascontiguousarray(trx.T), amp=False, weights=None, interp=interp)
            want_def, _, sc_def = c02.definition(cdef, 0j)
            extra, okm = lookup_conditioning(cdef["lt_tx"], cdef["lt_rx"], pairs, t0, dt, fr.timetraces, interp)
            ctx.count("view:ill_conditioned_points", int((~okm).sum()))
            if not close_c(r1, want_def, sc_def, len(pairs), extra, okm):
                ctx.violate(f"tfm_for_view({name}) is not delay-and-sum with the transposed ray-tracing times of its two paths", cj, {"kind": "view_definition", "interp": interp})
            Gp = np.array([G[i, j] for i, j in pairs])
            lines.append(" ".join(["vtfm", interp[0], "0", "0", frac_s(F(t0)), frac_s(F(dt)), ",".join(f"{i}:{j}" for i, j in pairs),
                                   qmat(Gp.real), qmat(Gp.imag), qmat(ttx), qmat(trx)]))
            meta.append((r1, cj, scale, len(pairs), extra, okm))
        # ---- unit spikes at the arrival times of a scatterer on a grid node
        view = views[pick[0]]
        node = int(rng.integers(0, grid.numpoints))
        ttx, trx = np.asarray(view.tx_path.rays.times), np.asarray(view.rx_path.rays.times)
        # the premise of the clause is that every arrival of the scatterer lies in the recorded window: the spike record has
        # its own time axis, starting a few samples before the first arrival of that node and ending after the last one
        # (the imaging window above may start after the first arrivals on purpose; using it here made the premise false and
        # raised a false alarm in the thorough tier)
        arr = np.array([ttx[i, node] + trx[j, node] for i, j in pairs])
        t0s = float(arr.min() - 3 * dt)
        ns_s = int(np.ceil((arr.max() - arr.min()) / dt)) + 8
        spikes = np.zeros((len(pairs), ns_s))
        for k, (i, j) in enumerate(pairs):
            idx = int(round((ttx[i, node] + trx[j, node] - t0s) / dt))
            spikes[k, idx] = 1.0
        frs = fixtures.make_frame(spikes, t0s, dt, [i for i, _ in pairs], [j for _, j in pairs], probe, exo)
        img = tfm.tfm_for_view(frs, grid, view, interpolation="nearest", fillvalue=0.0).res.ravel()
        cj = {"op": "spike_focus", "immersion": immersion, "view": pick[0], "node": node, "numel": numel}
        ctx.case(("spike", immersion, pick[0], node, spikes.tobytes()), True)
        if not (abs(img[node] - 1.0) <= 1e-12 and np.all(img <= 1.0 + 1e-12)):
            ctx.violate(f"unit-spike data: image at the scatterer node is {img[node]}, maximum {img.max()}", cj, {"kind": "spike_focus"})
    answers = ctx.drive(lines) if ctx.lean.driver_ok and not ctx.oracle_only else []
    for (r1, cj, scale, n, extra, okm), a in zip(meta, answers):
        if not a.startswith("ok ") or not close_c(r1, parse_q(a), scale, n, extra, okm):
            ctx.disagree("tfm_for_view differs from the Lean model tfmForView", cj)


def check_expand_large(ctx):
    """Expanding by reciprocity with the probe sizes and index containers of real acquisitions: 12-40 elements, the (tx, rx)
    arrays held in the narrow integer types acquisition files use (uint8 ... int64), timetraces in any order.  The expanded
    frame holds each ordered pair once, carrying the data of its recorded pair, and its image is the full-matrix image."""
    import arim
    from arim.im import tfm

    rng = ctx.rng
    for k in range(4 * ctx.scale):
        numel = int([12, 17, 24, 40][k % 4] if k < 8 else rng.integers(6, 41))
        idt = [np.uint8, np.int8, np.int16, np.uint16, np.uint32, np.int64][int(rng.integers(0, 6))]
        if numel - 1 > np.iinfo(idt).max:
            idt = np.int16
        ns = 6
        probe = arim.Probe.make_matrix_probe(numel, 0.5e-3, 1, np.nan, 5e6)
        G = sym_data(rng, numel, ns, False)
        order = ["canonical", "rx_major", "shuffled"][int(rng.integers(0, 3))]
        pairs = pairs_of(numel, "hmc")
        if order == "rx_major":
            pairs = sorted(pairs, key=lambda p: (p[1], p[0]))
        elif order == "shuffled":
            pairs = [pairs[i] for i in rng.permutation(len(pairs))]
        if rng.random() < 0.3:
            pairs = [(j, i) if rng.random() < 0.5 else (i, j) for i, j in pairs]     # a half matrix need not be the upper one
        tt = np.array([G[i, j] for i, j in pairs])
        t0, dt = 0.0, 1e-7
        fr = fixtures.make_frame(tt, t0, dt, np.array([i for i, _ in pairs], dtype=idt), np.array([j for _, j in pairs], dtype=idt), probe, None)
        cj = {"op": "expand_large", "numel": numel, "index_dtype": np.dtype(idt).name, "order": order, "pairs": [list(p) for p in pairs[:50]], "seed_data": "symmetric integers"}
        ctx.case(("expand_large", numel, np.dtype(idt).name, order), True, sample={"op": "expand_large", "numel": numel, "dtype": np.dtype(idt).name, "order": order})
        ctx.count("expand_large:" + np.dtype(idt).name)
        try:
            fe = fr.expand_frame_assuming_reciprocity()
        except Exception as e:
            ctx.violate(f"expand_frame_assuming_reciprocity raised {type(e).__name__}: {str(e)[:80]} on a half matrix with {np.dtype(idt).name} indices", cj, {"kind": "expand_large"})
            continue
        got = list(zip((int(a) for a in fe.tx), (int(b) for b in fe.rx)))
        if sorted(got) != pairs_of(numel, "fmc"):
            ctx.violate(f"expanded frame holds {len(got)} timetraces / {len(set(got))} distinct pairs instead of the {numel * numel} ordered pairs "
                        f"({numel} elements, {np.dtype(idt).name} indices, {order} order)", cj, {"kind": "expand_large"})
            continue
        bad = [(i, j) for m, (i, j) in enumerate(got) if not np.array_equal(np.asarray(fe.timetraces[m]), G[i, j])]
        if bad:
            ctx.violate(f"expanded frame: {len(bad)} timetraces do not carry the data of their recorded pair, first {bad[0]} "
                        f"({numel} elements, {np.dtype(idt).name} indices, {order} order)", cj, {"kind": "expand_large"})
            continue
        grid = arim.Grid(-1e-3, 1e-3, 0.0, 0.0, 2e-3, 2e-3, 2e-3)
        v = 6000.0
        ffull = make_frame(G, pairs_of(numel, "fmc"), t0, dt, probe)
        r_e = tfm.contact_tfm(fe, grid, v, interpolation="nearest").res
        r_f = tfm.contact_tfm(ffull, grid, v, interpolation="nearest").res
        if not close(r_e, r_f, np.abs(G).max() * 2, numel * numel):
            ctx.violate("expand-by-reciprocity then contact TFM differs from the full-matrix image (large probe)", cj, {"kind": "expand_large"})


def run(ctx):
    ctx.rule = ("random linear/matrix probes (1-10 elements, moved), grids of 1-9 points, velocities, time axes cutting the window, symmetric integer data "
                "(real/complex), FMC/HMC in random order, nearest/linear; immersion and contact views with 0-1 reflections ray-traced on 10-40 wall points, "
                "C/Fortran ray order; unit-spike data; distinct = distinct set-up; non-trivial = at least two elements / view differs from its reciprocal")
    check_contact(ctx)
    check_views(ctx)
    check_expand_large(ctx)
    ctx.assumptions += ["fill value 0 for the HMC=FMC identity (with a non-zero fill the two images differ by the fill's share, as the property's formula says)"]


def search(ctx):
    ctx.oracle_only = True
    ctx.rng = np.random.Generator(np.random.PCG64(ctx.seed + 7919))
    old = ctx.scale
    ctx.scale = max(3, 2 * old)
    try:
        run(ctx)
    finally:
        ctx.scale = old
