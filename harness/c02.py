"""C02 — delay-and-sum image equals its mathematical definition.

Correspondence: Lean `Arim.Das` kernels evaluated exactly on rationals (nearest, linear,
amplitudes / no amplitudes, weights, real/complex) and on doubles (Lanczos) by the driver vs
`arim.im.das.delay_and_sum`, plus the dispatcher table.
Oracle (independent of Lean): the definition (1/N) sum w A_tx A_rx g(tau) / fill written with
`fractions.Fraction`; amplitude-one = no amplitude; median / Huber certified through their
objective functions on the delayed samples.
"""
import itertools
from fractions import Fraction

import numpy as np

import fixtures
from common import fl, fmat, frac_s, il, parse_rat, ql

F = Fraction
DTYPES = [np.float64, np.float32, np.complex128, np.complex64]


def qmat(a):
    return ";".join(ql(r) for r in a) if len(a) else "-"


def gen_case(rng, boundary=False):
    numel = int(rng.integers(1, 6))
    tx, rx = fixtures.pairs(rng, numel, str(rng.choice(["fmc", "hmc", "rand"])))
    N = len(tx)
    ns = int(rng.integers(3, 16))
    npts = int(rng.integers(1, 9))
    dtype = DTYPES[int(rng.integers(0, 4))]
    cplx = np.dtype(dtype).kind == "c"
    tt = rng.integers(-8, 9, size=(N, ns)).astype(float)
    if cplx:
        tt = tt + 1j * rng.integers(-8, 9, size=(N, ns))
    tt = tt.astype(dtype)
    dt = float(2.0 ** -int(rng.integers(0, 6)))
    t0 = float(rng.integers(-40, 40)) * 2.0 ** -4
    far = rng.random() < 0.15
    if far:
        # an acquisition window that starts far from zero in units of the sampling step, at an instant a single-precision number
        # cannot hold (the start and the step of the time axis are double-precision numbers whatever the lookup times are)
        t0 = float(2 ** 10 + int(rng.integers(1, 8)) * 2.0 ** -15)
        dt = 2.0 ** -5
    q = dt / 4
    # lookup locations on quarter samples, from before the window to after it
    lo, hi = -6, 4 * ns + 6
    a = rng.integers(lo, hi, size=(npts, numel))
    b = rng.integers(-4, 8, size=(npts, numel))
    if far:
        # (times at or after the window start only: every single-precision lookup time then lies in [2^10, 2^11), where tx + rx
        #  sums are exact in single precision — the kernels add the two lookup times in their own precision)
        a, b = np.abs(a), np.abs(b)
    lt_tx = (a * q + t0).astype(float)
    lt_rx = (b * q).astype(float)
    if boundary:
        # push many pairs exactly onto the critical locations
        crit = [-4, -3, -2, -1, 0, 1, 2, 6, 10, 4 * ns - 6, 4 * ns - 4, 4 * ns - 2, 4 * ns - 1, 4 * ns]
        lt_tx = (rng.choice(crit, size=(npts, numel)) * q + t0).astype(float)
        lt_rx = (rng.choice([0, 0, 1, -1, 4], size=(npts, numel)) * q).astype(float)
        if far:
            lt_tx = (np.abs(rng.choice(crit, size=(npts, numel))) * q + t0).astype(float)
            lt_rx = (rng.choice([0, 0, 1, 4], size=(npts, numel)) * q).astype(float)
    ltdtype = np.float32 if rng.random() < (0.6 if far else 0.25) else np.float64
    lt_tx, lt_rx = lt_tx.astype(ltdtype), lt_rx.astype(ltdtype)
    amp = rng.random() < 0.45
    amp_tx = rng.integers(-3, 4, size=(npts, numel)).astype(float)
    amp_rx = rng.integers(-3, 4, size=(npts, numel)).astype(float)
    if amp and cplx and rng.random() < 0.5:
        amp_tx = amp_tx + 1j * rng.integers(-2, 3, size=(npts, numel))
        amp_rx = amp_rx.astype(complex)
    weights = None if rng.random() < 0.5 else rng.choice([1.0, 2.0, 0.5], size=N)
    fill = [0.0, float("nan"), 1.5, -2.0][int(rng.integers(0, 4))]
    interp = ["nearest", "linear"][int(rng.integers(0, 2))]
    prealloc = rng.random() < 0.3
    return dict(tx=tx, rx=rx, tt=tt, dt=dt, t0=t0, lt_tx=lt_tx, lt_rx=lt_rx, amp=amp, amp_tx=amp_tx, amp_rx=amp_rx,
                weights=weights, fill=fill, interp=interp, prealloc=prealloc)


def line(c, fill, mode="q"):
    enc_m = qmat if mode == "q" else fmat
    enc_l = ql if mode == "q" else fl
    enc_s = (lambda v: frac_s(F(v))) if mode == "q" else (lambda v: fl([v]))
    tt = np.asarray(c["tt"])
    it = {"nearest": "n", "linear": "l"}.get(c["interp"], None) or ("z" + str(c["interp"][1]))
    amp = c["amp"]
    z = np.zeros_like(np.asarray(c["amp_tx"], dtype=float))
    parts = ["das", mode, "1" if amp else "0", it, enc_s(np.real(fill)), enc_s(np.imag(fill)), enc_s(c["t0"]), enc_s(c["dt"]), il(c["tx"]), il(c["rx"]),
             enc_m(np.real(tt).astype(float)), enc_m(np.imag(tt).astype(float)), enc_m(np.asarray(c["lt_tx"], dtype=float)), enc_m(np.asarray(c["lt_rx"], dtype=float)),
             enc_m(np.real(c["amp_tx"]).astype(float)) if amp else "-", enc_m(np.imag(c["amp_tx"]).astype(float)) if amp else "-",
             enc_m(np.real(c["amp_rx"]).astype(float)) if amp else "-", enc_m(np.imag(c["amp_rx"]).astype(float)) if amp else "-",
             enc_l(c["weights"]) if c["weights"] is not None else "-"]
    return " ".join(parts)


def parse_q(ans):
    out = []
    for t in ans[3:].split(","):
        re, im = t.split(":")
        out.append(complex(float(parse_rat(re)), float(parse_rat(im))))
    return np.array(out)


def parse_f(ans):
    from common import b2f

    out = []
    for t in ans[3:].split(","):
        re, im = t.split(":")
        out.append(complex(b2f(re), b2f(im)))
    return np.array(out)


def run_impl(c, agg="mean", fill=None):
    from arim.im import das

    kw = dict(fillvalue=c["fill"] if fill is None else fill, interpolation=c["interp"])
    if agg != "mean":
        kw["aggregation"] = agg
    import zlib
    if c["weights"] is not None and np.asarray(c["tt"]).dtype.kind in "fc" and zlib.crc32(np.ascontiguousarray(c["tt"]).tobytes()) % 5 < 2:
        # a live-imaging session: the same Frame and FocalLaw objects were used for an earlier image of other data with
        # other weights; then the acquisition buffer was refilled in place and the weights re-assigned.  The image is
        # that of the data and weights as they are now.
        buf = np.array(c["tt"][::-1] * 3 + 1, copy=True)
        frame = fixtures.make_frame(buf, c["t0"], c["dt"], c["tx"], c["rx"])
        flaw = fixtures.make_focal_law(c["lt_tx"], c["lt_rx"], c["amp_tx"] if c["amp"] else None, c["amp_rx"] if c["amp"] else None,
                                       np.asarray(c["weights"])[::-1] * 2 + 1)
        try:
            das.delay_and_sum(frame, flaw, **kw)
        except Exception:
            pass
        frame.timetraces[...] = c["tt"]
        flaw.timetrace_weights = np.array(c["weights"], copy=True)
    else:
        frame = fixtures.make_frame(c["tt"], c["t0"], c["dt"], c["tx"], c["rx"])
        flaw = fixtures.make_focal_law(c["lt_tx"], c["lt_rx"], c["amp_tx"] if c["amp"] else None, c["amp_rx"] if c["amp"] else None, c["weights"])
    if c.get("prealloc"):
        dt = np.result_type(c["tt"], *( [c["amp_tx"]] if c["amp"] else []))
        res = np.full(c["lt_tx"].shape[0], 12345.0, dtype=dt)
        out = das.delay_and_sum(frame, flaw, result=res, **kw)
        assert out is res
        return out
    return das.delay_and_sum(frame, flaw, **kw)


def definition(c, fill):
    """the property's formula with exact rationals; returns (values as complex, used_fill mask, scale)"""
    tt = np.asarray(c["tt"])
    N, ns = tt.shape
    npts = c["lt_tx"].shape[0]
    t0, dt = F(c["t0"]), F(c["dt"])
    w = [F(1)] * N if c["weights"] is None else [F(float(x)) for x in c["weights"]]
    vals, used, scale = [], [], []
    for p in range(npts):
        acc_re, acc_im, uf, sc = F(0), F(0), False, F(0)
        for k in range(N):
            tau = F(float(c["lt_tx"][p, c["tx"][k]])) + F(float(c["lt_rx"][p, c["rx"][k]]))
            loc = (tau - t0) / dt
            g = lambda i: (F(float(tt[k, i].real)), F(float(tt[k, i].imag)))
            if c["interp"] == "nearest":
                fl_ = loc.numerator // loc.denominator
                d = loc - fl_
                i = fl_ if d < F(1, 2) else (fl_ + 1 if d > F(1, 2) else (fl_ if fl_ % 2 == 0 else fl_ + 1))
                v = g(i) if 0 <= i < ns else None
            else:
                i = loc.numerator // loc.denominator
                f = loc - i
                if 0 <= i and i + 1 < ns:
                    a, b = g(i), g(i + 1)
                    v = ((1 - f) * a[0] + f * b[0], (1 - f) * a[1] + f * b[1])
                else:
                    v = None
            if v is None:
                uf = True
                if fill is not None:
                    acc_re += F(fill.real)
                    acc_im += F(fill.imag)
                    sc += abs(F(fill.real)) + abs(F(fill.imag))
                continue
            vr, vi = v[0] * w[k], v[1] * w[k]
            if c["amp"]:
                A = complex(c["amp_tx"][p, c["tx"][k]]) * complex(c["amp_rx"][p, c["rx"][k]])
                ar, ai = F(A.real), F(A.imag)
                vr, vi = ar * vr - ai * vi, ar * vi + ai * vr
            acc_re += vr
            acc_im += vi
            sc += abs(vr) + abs(vi)
        vals.append(complex(float(acc_re / N), float(acc_im / N)))
        used.append(uf)
        scale.append(float(sc / N))
    return np.array(vals), np.array(used), np.array(scale)


def eps_of(c, res):
    return float(np.finfo(np.result_type(res.dtype, np.float32) if res.dtype.itemsize <= 8 and res.dtype.kind == "c" or res.dtype == np.float32 else res.dtype).eps)


def close(res, want, scale, eps, N):
    res = np.asarray(res, dtype=complex)
    tol = 8 * (N + 2) * eps * (scale + 1e-300)
    return np.abs(res - want) <= tol


def check_case(ctx, c, ans0, ans1):
    """ans0/ans1: model answers with fill 0 and fill 1 (to locate the points where a fill is used)"""
    cj = {k: (v.tolist() if isinstance(v, np.ndarray) else v) for k, v in c.items() if k != "tt"}
    cj["tt_re"], cj["tt_im"], cj["dtype"] = np.real(c["tt"]).tolist(), np.imag(c["tt"]).tolist(), str(c["tt"].dtype)
    N = len(c["tx"])
    try:
        res = run_impl(c)
    except Exception as e:
        ctx.violate(f"delay_and_sum raised {type(e).__name__}: {e}", cj, {"kind": "raises"})
        return
    # the same image through the view door (`tfm_for_view` takes the two lookup tables from the transmit and the receive path of a
    # view and applies no timetrace weights): the transmit table must stay the transmit table
    if c["weights"] is None and not c.get("prealloc") and not c["amp"]:
        import types
        from arim.im import tfm as _tfm
        view_ = types.SimpleNamespace(name="X-Y", tx_path=types.SimpleNamespace(rays=types.SimpleNamespace(times=np.ascontiguousarray(np.asarray(c["lt_tx"]).T))),
                                      rx_path=types.SimpleNamespace(rays=types.SimpleNamespace(times=np.ascontiguousarray(np.asarray(c["lt_rx"]).T))))
        grid_ = types.SimpleNamespace(shape=(np.asarray(c["lt_tx"]).shape[0],))
        try:
            rv = np.asarray(_tfm.tfm_for_view(fixtures.make_frame(c["tt"], c["t0"], c["dt"], c["tx"], c["rx"]), grid_, view_,
                                              fillvalue=c["fill"], interpolation=c["interp"]).res)
            same_ = rv.shape == np.shape(res) and np.array_equal(rv, np.asarray(res), equal_nan=True)
        except Exception as e:
            same_ = False
        ctx.count("view_door")
        if not same_:
            ctx.violate("tfm_for_view on a view holding the same two lookup tables gives another image than delay_and_sum with the focal law made of them", cj, {"kind": "view_door"})
    fill = c["fill"]
    isnan = fill != fill
    want0, used, scale = definition(c, None if isnan else complex(fill))
    if np.dtype(res.dtype).kind != "c":
        if np.abs(want0.imag).max() > 0:
            ctx.violate("real result for complex data", cj, {"kind": "dtype"})
            return
    eps = eps_of(c, res)
    tags = {"kind": "value", "interp": c["interp"], "amp": c["amp"]}
    # ---- oracle: the definition
    if isnan:
        okmask = np.isnan(res) == used
        ok = okmask.all() and close(res[~used], want0[~used], scale[~used], eps, N).all()
    else:
        ok = close(res, want0, scale, eps, N).all()
    if not ok:
        bad = int(np.argmax(~(close(res, want0, scale, eps, N)) if not isnan else ~(np.isnan(res) == used)))
        # which lookup locations does the bad point use?
        locs = [float((F(float(c["lt_tx"][bad, c["tx"][k]])) + F(float(c["lt_rx"][bad, c["rx"][k]])) - F(c["t0"])) / F(c["dt"])) for k in range(N)]
        tags["between_minus_one_and_zero"] = any(-1 < l < 0 for l in locs)
        ctx.violate(f"image point {bad}: delay_and_sum gives {res[bad]!r}, the definition gives {want0[bad]!r} (lookup locations {locs}, fill {fill})", cj, tags)
    # ---- correspondence with the Lean model (exact rationals)
    if ans0 is not None:
        if not (ans0.startswith("ok ") and ans1.startswith("ok ")):
            ctx.disagree("model rejected the case: " + ans0[:80], cj)
            return
        m0, m1 = parse_q(ans0), parse_q(ans1)
        m_used = m0 != m1
        if isnan:
            good = (np.isnan(res) == m_used).all() and close(res[~m_used], m0[~m_used], scale[~m_used], eps, N).all()
        else:
            mfill = m0 + (m1 - m0) * fill  # result is affine in the fill value
            good = close(res, mfill, scale, eps, N).all()
        if not good:
            ctx.disagree("delay_and_sum differs from the Lean model", cj)
    # ---- amplitudes identically one = no amplitudes
    if not c["amp"] and ctx.rng.random() < 0.3:
        c2 = dict(c)
        c2["amp"], c2["amp_tx"], c2["amp_rx"] = True, np.ones_like(c["amp_tx"].real), np.ones_like(c["amp_rx"].real)
        c2["prealloc"] = False
        r2 = run_impl(c2)
        r1 = res
        same = np.array_equal(np.isnan(r1), np.isnan(r2)) and np.all(close(r2[~np.isnan(r2)], np.asarray(r1, dtype=complex)[~np.isnan(r1)], scale[~np.isnan(r1)], eps, N))
        if not same:
            ctx.violate("amplitudes identically one do not give the image without amplitudes", cj, {"kind": "amp_one", "interp": c["interp"]})


# ------------------------------------------------------------------------------------------
def lanczos_cases(ctx):
    rng = ctx.rng
    cases = []
    for _ in range(25 * ctx.scale):
        c = gen_case(rng, boundary=rng.random() < 0.4)
        c["amp"], c["interp"], c["prealloc"] = False, ("lanczos", int(rng.integers(1, 4))), False
        c["fill"] = float(rng.choice([0.0, 1.5]))
        if rng.random() < 0.5:
            # generic (non-dyadic) lookup times
            c["lt_tx"] = rng.uniform(c["t0"] - c["dt"], c["t0"] + c["tt"].shape[1] * c["dt"], size=c["lt_tx"].shape)
            c["lt_rx"] = rng.uniform(0, c["dt"], size=c["lt_rx"].shape)
        cases.append(c)
    lines = [line(c, c["fill"], "f") for c in cases]
    answers = ctx.drive(lines) if ctx.lean.driver_ok and not ctx.oracle_only else [None] * len(cases)
    for c, a in zip(cases, answers):
        cj = {"op": "lanczos", "a": c["interp"][1], "shape": list(c["tt"].shape), "dtype": str(c["tt"].dtype)}
        ctx.case(("lz", c["tt"].tobytes(), c["lt_tx"].tobytes(), c["interp"][1]), True)
        ctx.count("lanczos")
        res = np.asarray(run_impl(c), dtype=complex)
        # oracle: reproduces the samples at integer locations inside the window (sinc 0 = 1, sinc k = 0)
        tt = np.asarray(c["tt"], dtype=complex)
        N, ns = tt.shape
        w = np.ones(N) if c["weights"] is None else c["weights"]
        want = np.zeros(len(res), dtype=complex)
        for p in range(len(res)):
            for k in range(N):
                loc = (float(c["lt_tx"][p, c["tx"][k]]) + float(c["lt_rx"][p, c["rx"][k]]) - c["t0"]) * (1 / c["dt"])
                if loc < 0 or loc >= ns:
                    want[p] += c["fill"]
                else:
                    a_ = c["interp"][1]
                    fl_ = int(np.floor(loc))
                    for i in range(fl_ - a_ + 1, fl_ + a_ + 1):
                        want[p] += w[k] * tt[k, i % ns] * np.sinc(loc - i) * np.sinc((loc - i) / a_)
            want[p] /= N
        eps = 1e-6 if c["tt"].dtype.itemsize <= 8 and c["tt"].dtype.kind == "c" or c["tt"].dtype == np.float32 else 1e-11
        scale = np.abs(tt).max() * np.abs(w).max() * 4 + abs(c["fill"]) + 1e-300
        if not (np.abs(res - want) <= eps * scale).all():
            ctx.violate("Lanczos delay-and-sum differs from its definition", {**cj, "case": {k: (v.tolist() if isinstance(v, np.ndarray) else v) for k, v in c.items()}}, {"kind": "lanczos"})
        if a is not None:
            if not a.startswith("ok ") or not (np.abs(res - parse_f(a)) <= eps * scale).all():
                ctx.disagree("Lanczos delay-and-sum differs from the Lean model (Float)", cj)


def robust_cases(ctx):
    """median / Huber on complex128 data: certified through the objective on the delayed samples"""
    rng = ctx.rng
    for _ in range(12 * ctx.scale):
        c = gen_case(rng)
        c["amp"], c["prealloc"], c["weights"] = False, False, None
        c["tt"] = (rng.normal(size=c["tt"].shape) + 1j * rng.normal(size=c["tt"].shape)).astype(np.complex128)
        kind = str(rng.choice(["median-nearest", "median-lanczos", "huber-lanczos"]))
        agg = "median" if kind.startswith("median") else ("huber", float(rng.uniform(0.3, 2.0)))
        c["interp"] = "nearest" if kind.endswith("nearest") else ("lanczos", int(rng.integers(1, 4)))
        fill_choice = rng.random()
        c["fill"] = 0.0 if fill_choice < 0.4 else complex(rng.normal(), rng.normal())
        cj = {"op": kind, "shape": list(c["tt"].shape), "fill": c["fill"], "case": {k: (v.tolist() if isinstance(v, np.ndarray) else v) for k, v in c.items() if k != "tt"},
              "tt_re": c["tt"].real.tolist(), "tt_im": c["tt"].imag.tolist()}
        ctx.case(("rb", kind, c["tt"].tobytes(), c["lt_tx"].tobytes()), True)
        ctx.count(kind)
        N, ns = c["tt"].shape
        # delayed samples (independent computation)
        samples = np.zeros((c["lt_tx"].shape[0], N), dtype=complex)
        outside = np.zeros((c["lt_tx"].shape[0], N), dtype=bool)
        for p in range(samples.shape[0]):
            for k in range(N):
                loc = (float(c["lt_tx"][p, c["tx"][k]]) + float(c["lt_rx"][p, c["rx"][k]]) - c["t0"]) * (1 / c["dt"])
                if c["interp"] == "nearest":
                    i = int(np.round(loc))
                    out = i < 0 or i >= ns
                    v = c["fill"] if out else c["tt"][k, i]
                else:
                    a_ = c["interp"][1]
                    out = loc < 0 or loc >= ns
                    if out:
                        v = c["fill"]
                    else:
                        fl_ = int(np.floor(loc))
                        v = sum(c["tt"][k, i % ns] * np.sinc(loc - i) * np.sinc((loc - i) / a_) for i in range(fl_ - a_ + 1, fl_ + a_ + 1))
                samples[p, k], outside[p, k] = v, out
        def degenerate(d):
            """configurations on which Newton's method for the geometric median is ill-posed"""
            if (d == 0).any():
                return "sample_equals_initial_iterate"
            if len(d) == 1:
                return "single_sample"
            pts = np.stack([d.real, d.imag], axis=1)
            if np.linalg.matrix_rank(pts - pts.mean(axis=0), tol=1e-9 * (np.abs(d).max() + 1e-300)) < 2:
                return "collinear_samples"
            for j in range(len(d)):
                others = d[np.abs(d - d[j]) > 0]
                mult = len(d) - len(others)
                if abs(((d[j] - others) / np.abs(d[j] - others)).sum()) <= mult + 1e-9:
                    return "median_at_a_sample"
            return "none"

        def irls_slow(d, tau):
            """does the documented fixed-point iteration itself need more than 600 steps (xtol 1e-9)?"""
            z = 0j
            for _ in range(600):
                with np.errstate(all="ignore"):
                    w_ = np.minimum(1.0, tau / np.abs(z - d))
                z1 = (w_ * d).sum() / w_.sum()
                if abs(z.real - z1.real) + abs(z.imag - z1.imag) <= 1e-9:
                    return False
                z = z1
            return True

        is_median = kind.startswith("median")
        try:
            res = run_impl(c, agg=agg)
        except Exception as e:
            if is_median:
                degs = sorted({degenerate(samples[p]) for p in range(samples.shape[0])} - {"none"})
                deg = degs[0] if degs else "none"
            else:
                deg = "fixed_point_iteration_needs_more_than_600_steps" if any(irls_slow(samples[p], agg[1]) for p in range(samples.shape[0])) else "none"
            ctx.violate(f"{kind}: delay_and_sum raised {type(e).__name__}: {str(e)[:100]}", cj,
                        {"kind": "robust_raises", "aggregation": "median" if is_median else "huber", "degenerate": deg})
            continue
        for p in range(len(res)):
            d = samples[p]
            z = res[p]
            if is_median:
                f = lambda w_: np.abs(w_ - d).sum()
            else:
                tau = agg[1]
                f = lambda w_: np.where(np.abs(w_ - d) <= tau, 0.5 * np.abs(w_ - d) ** 2, tau * (np.abs(w_ - d) - 0.5 * tau)).sum()
            # certificate: no nearby or far point has a smaller objective
            cand = [z + r * np.exp(1j * t) for r in (1e-6, 1e-3, 1e-1, 1.0) for t in np.linspace(0, 2 * np.pi, 12, endpoint=False)] + list(d) + [d.mean()]
            best = min(f(w_) for w_ in cand)
            # Huber: the location is the fixed point of the documented reweighting map (Lean: `src_huber_fixed_point_optimal`); the
            # solver stops when one step moves the iterate by less than xtol = 1e-9 (l1), so one more step from the returned
            # value moves it by less than that again — 1e-7 leaves two decades for rounding (the objective alone is flat at
            # its minimum and cannot see a location error of 1e-5)
            resid = 0.0
            if not is_median and np.isfinite(z):
                with np.errstate(all="ignore"):
                    w_ = np.minimum(1.0, agg[1] / np.abs(z - d))
                w_ = np.where(np.isfinite(w_), w_, 1.0)
                z1_ = (w_ * d).sum() / w_.sum()
                resid = abs((z1_ - z).real) + abs((z1_ - z).imag)
            if not np.isfinite(z) or f(z) > best + 1e-6 * (np.abs(d).max() + 1e-12) * len(d) or resid > 1e-7:
                deg = degenerate(d) if is_median else ("fixed_point_iteration_needs_more_than_600_steps" if irls_slow(d, agg[1]) else "n/a")
                if is_median and deg == "none" and np.isfinite(z) and np.abs(z - d).min() <= 1e-8 * (np.abs(d).max() + 1e-300):
                    deg = "returned_value_is_a_sample"  # the Newton iterate got trapped on a delayed sample that is not the median
                ctx.violate(f"{kind}: value {z!r} is not the minimiser of its objective over the delayed samples {d.tolist()} (f={f(z)}, better {best}"
                            + (f"; one more reweighting step moves it by {resid:.2e}, the documented stopping tolerance is 1e-9" if resid > 1e-7 else "") + ")", cj,
                            {"kind": "robust_value", "aggregation": "median" if is_median else "huber", "degenerate": deg})
                break


def dispatch_cases(ctx):
    from arim.im import das

    rng = ctx.rng
    c0 = gen_case(rng)
    interps = [("nearest", "n"), ("linear", "l"), (("lanczos", 2), "z2"), ("cubic", None)]
    aggs = [("mean", "mean"), ("median", "median"), (("huber", 1.0), "huber")]
    lines, meta = [], []
    for amp, (it, itc), (ag, agc), c128 in itertools.product([False, True], interps, aggs, [False, True]):
        if itc is None:
            continue
        lines.append(f"dasdispatch {1 if amp else 0} {agc} {itc} {1 if c128 else 0}")
        meta.append((amp, it, ag, c128))
    answers = ctx.drive(lines) if ctx.lean.driver_ok and not ctx.oracle_only else [None] * len(lines)
    for (amp, it, ag, c128), a in zip(meta, answers):
        c = dict(c0)
        c["amp"], c["interp"], c["prealloc"], c["weights"] = amp, it, False, None
        c["fill"] = 1.25 + 0.5j if c128 else 1.25
        c["tt"] = (np.asarray(c0["tt"]).real + (0.5j if c128 else 0)).astype(np.complex128 if c128 else np.float64) + (np.arange(c0["tt"].shape[1]) * (0.37 + 0.11j if c128 else 0.37))
        c["amp_tx"], c["amp_rx"] = c0["amp_tx"].real, c0["amp_rx"].real
        cj = {"op": "dispatch", "amp": amp, "interp": str(it), "agg": str(ag), "c128": c128}
        ctx.case(("disp", amp, str(it), str(ag), c128), True)
        try:
            run_impl(c, agg=ag)
            got = "ok"
        except NotImplementedError as e:
            got = "err:typing" if isinstance(e, TypeError) else "err:notImplemented"
        except ValueError:
            got = "err:value"
        except AttributeError:
            got = "err:attribute"
        except Exception as e:
            # an exception raised inside a numba kernel: the combination was dispatched, the solver failed on this data
            got = "ok"
            ctx.count("dispatch:solver-exception")
            ctx.notes.append(f"dispatch {cj}: kernel raised {type(e).__name__}: {str(e)[:200]}")
        if a is not None:
            m = a[3:]
            # error kinds are not part of the property: compare accepted / refused
            if (not m.startswith("err:")) != (got == "ok"):
                ctx.disagree(f"dispatcher: arim {got}, model {m}", cj)
        # the property lists the combinations that must be accepted
        must = (amp and ag == "mean" and it in ("nearest", "linear")) or (not amp and ag == "mean") or \
               (not amp and c128 and ag == "median" and it != "linear") or (not amp and c128 and ag != "mean" and ag != "median" and it == ("lanczos", 2))
        if must and got != "ok" and not got.startswith("err:Exception") and not got.startswith("err:SystemError"):
            ctx.violate(f"dispatcher refuses a supported combination ({got})", cj, {"kind": "dispatch", "got": got})


def weights_option_cases(ctx):
    """the optional timetrace weights as the imaging entry points take them: `contact_tfm(timetrace_weights=...)` with
    "default", `None` (= all ones, documented), an explicit array; the image is the weighted definition with exactly those
    weights.  Reference: `delay_and_sum` with a FocalLaw carrying the weights (itself tied to the definition above)."""
    import arim
    import arim.geometry as g
    from arim import ut
    from arim.im import das, tfm

    rng = ctx.rng
    for it in range(6 * ctx.scale):
        numel = int(rng.integers(2, 6))
        probe = arim.Probe.make_matrix_probe(numel, 1e-3, 1, np.nan, 5e6)
        kind = ["hmc", "fmc", "rand"][it % 3]
        tx, rx = fixtures.pairs(rng, numel, kind)
        ns, dt, v = 64, 5e-8, 6000.0
        tt = rng.integers(-9, 10, size=(len(tx), ns)).astype(float)
        fr = fixtures.make_frame(tt, 0.0, dt, tx, rx, probe, None)
        grid = g.Grid(-1e-3, 1e-3, 0.0, 0.0, 2e-3, 5e-3, 1e-3)
        lookup = g.distance_pairwise(grid.to_1d_points(), probe.locations) / v
        dflt = ut.default_timetrace_weights(tx, rx)
        expl = rng.choice([0.5, 1.0, 2.0, 3.0], size=len(tx))
        options = [("'default'", "default", dflt), ("None", None, None)]
        for label, opt, w in options:
            cj = {"op": "contact_tfm_weights", "capture": kind, "numel": numel, "timetrace_weights": label, "tx": tx.tolist(), "rx": rx.tolist()}
            ctx.case(("cw", it, label), True)
            ctx.count("contact_tfm_weights:" + label)
            try:
                got = tfm.contact_tfm(fr, grid, v, timetrace_weights=opt, interpolation="nearest", fillvalue=0.0).res.ravel()
            except Exception as e:
                ctx.violate(f"contact_tfm(timetrace_weights={label}) raised {type(e).__name__}: {str(e)[:80]}", cj, {"kind": "weights_option"})
                continue
            want = das.delay_and_sum(fr, fixtures.make_focal_law(lookup, lookup, None, None, w), interpolation="nearest", fillvalue=0.0)
            if not np.allclose(got, want, rtol=1e-12, atol=1e-12):
                ctx.violate(f"contact_tfm(timetrace_weights={label}) on a {kind} frame is not the image weighted by {'the default weights' if w is not None else 'ones'} "
                            f"(max difference {np.abs(got - want).max():.3g})", cj, {"kind": "weights_option"})


def run(ctx):
    rng = ctx.rng
    ctx.rule = ("frames FMC/HMC/random subsets of 1-5 elements, integer samples (float32/64, complex64/128), lookup locations on quarter samples from 1.5 samples "
                "before the window to 1.5 after (boundary stream at -1, -3/4, -1/2, -1/4, 0, .., n-1, n), optional amplitudes (real/complex), weights, fill 0/NaN/1.5/-2, "
                "preallocated result; Lanczos on generic times; median/Huber on random complex data; the whole dispatcher table; "
                "distinct = distinct request; non-trivial = at least one in-window and the interpolation is exercised")
    weights_option_cases(ctx)
    n = 120 * ctx.scale
    cases = [gen_case(rng, boundary=(k % 3 == 0)) for k in range(n)]
    l0 = [line(c, 0.0) for c in cases]
    l1 = [line(c, 1.0) for c in cases]
    if ctx.lean.driver_ok and not ctx.oracle_only:
        ans = ctx.drive(l0 + l1)
        a0, a1 = ans[:n], ans[n:]
    else:
        a0 = a1 = [None] * n
    for c, x, y, l in zip(cases, a0, a1, l0):
        ctx.case(l, True, sample={"interp": c["interp"], "amp": c["amp"], "dtype": str(c["tt"].dtype), "N": len(c["tx"]), "npts": int(c["lt_tx"].shape[0]), "fill": str(c["fill"])})
        ctx.count(f"{c['interp']}/{'amp' if c['amp'] else 'noamp'}")
        ctx.count("dtype:" + str(c["tt"].dtype))
        check_case(ctx, c, x, y)
    lanczos_cases(ctx)
    dispatch_cases(ctx)
    robust_cases(ctx)
    ctx.assumptions += ["fastmath reassociation: the implementation may differ from the exact model by 8(N+2) ulp of the summed magnitudes (dyadic inputs make most cases exact)",
                        "Lanczos kernel values, median and Huber solvers are compared through definitions/objectives evaluated in double precision"]


def search(ctx):
    ctx.oracle_only = True
    ctx.rng = np.random.Generator(np.random.PCG64(ctx.seed + 7919))
    old = ctx.scale
    ctx.scale = max(3, 2 * old)
    try:
        run(ctx)
    finally:
        ctx.scale = old
