#!/bin/bash
# usage: harness/seed_retry_private.sh <seeded name> <check id> [more ids]  — run checks against a stored seeded change on
# private copies of /verif and /repo (nothing in the real trees is touched; several can run side by side)
NAME=$1; shift
OUT=/verif/seeded/$NAME
W=/root/work/rt_$NAME
rm -rf $W; mkdir -p $W
cp -r /verif $W/verif; cp -r /repo $W/repo
git -C $W/repo checkout -q -- .; git -C $W/repo apply $OUT/patch.diff || { echo "$NAME: patch does not apply"; exit 2; }
for c in "$@"; do
  (cd $W/verif && ARIM_REPO=$W/repo ./check $c > $OUT/check_$c.txt 2>&1); rc=$?
  line=$(grep -m1 "^VIOLATION" $OUT/check_$c.txt)
  if [ -n "$line" ]; then
    rp=$(echo "$line" | sed 's/.*replay=\([^ ]*\).*/\1/' | sed "s|^/verif/|$W/verif/|")
    [ -f "$rp" ] && cp "$rp" $OUT/replay_$c.json
  fi
  echo "$NAME check $c rc=$rc $line"
done
rm -rf $W
