"""Regenerate /verif/MANIFEST.json from the table below (python3 harness/manifest.py)."""
import json
from pathlib import Path

VERIF = Path(__file__).resolve().parent.parent

# pid -> (technique, level text, level note, design ref)
CHECKS = {}
NOT_YET = {}


def add(pid, technique, text, note):
    CHECKS[pid] = (technique, text, note)


import manifest_table  # noqa: E402  (fills CHECKS / NOT_YET)

manifest_table.fill(add, NOT_YET)

import sys  # noqa: E402
sys.path.insert(0, str(Path(__file__).resolve().parent))
import srcspecs  # noqa: E402


def translated(pid):
    own = sorted({sp.name for sp in srcspecs.SPECS.get(pid, [])})
    used = sorted({sp.name for u in srcspecs.USES.get(pid, []) for sp in srcspecs.SPECS.get(u, [])} - set(own))
    return own, used


checks = []
for pid in sorted(CHECKS):
    technique, text, note = CHECKS[pid]
    own, used = translated(pid)
    if own or used:
        technique += (" + source translators (harness/py2lean.py, py2lean_cache.py, py2lean_weights.py): " + ", ".join(own + [u + " (via another property's file)" for u in used])
                      + " regenerated from /repo/src on every run (ArimProofs/Generated/Src*.lean) and tied to the model by kernel-checked theorems (ArimProofs/Tie/*.lean); "
                      "the main theorems are restated on the translated definitions")
        note = note.replace("the hand-written Lean model, tied to /repo/src only by this check's correspondence run",
                            "the hand-written Lean model, tied to /repo/src by this check's correspondence run and, for the translated functions, by the translator "
                            "(its reading of the Python subset and harness/srcspecs.py are trusted) plus tie theorems")
    checks.append({
        "property_id": pid,
        "quick_cmd": f"./check {pid} --tier quick",
        "thorough_cmd": f"./check {pid} --tier thorough",
        "evidence_file": f"/verif/evidence/{pid}.json",
        "replay_cmd_template": f"./check {pid} --replay {{path}}",
        "engine": "lean4-model+correspondence",
        "level_claimed": {"category": "proof", "text": text, "design_ref": f"DESIGN.md section 6, {pid}"},
        "level_note": note,
        "technique": technique,
    })

man = {
    "version": 1,
    "setup_cmd": "/venv/bin/python harness/regen.py && cd lean && lake build ArimModel ArimProofs driver srcdriver",
    "hooks": {
        "guard": "ARIM_VERIF",
        "enable": "checks set ARIM_VERIF=1; no hook inside /repo is needed (environments are substituted from outside)",
        "baseline_off_cmd": "cd /repo && /venv/bin/python -m pytest -ra -q -p no:cacheprovider --timeout=900 --continue-on-collection-errors",
        "source_commits": [],
        "add_only": True,
    },
    "engines": [{
        "name": "lean4-model+correspondence",
        "path": "lean/ (Lean 4 project: ArimModel = executable model, ArimProofs = theorems, Driver = line protocol) + harness/ (Python correspondence, oracles, evidence)",
        "serves_properties": sorted(CHECKS),
        "kind_free_text": "machine-checked proof in Lean 4 about an executable model; model tied to /repo/src (a) by a translator that regenerates the numeric kernels as Lean definitions on every run, with tie theorems generated = model, and (b) by a differential correspondence run and an independent property oracle on every check",
    }],
    "checks": checks,
    "notes": "See DESIGN.md. known_findings.json lists genuine defects recorded or fixed.",
    "not_applicable": [{"property_id": p, "reason": r} for p, r in sorted(NOT_YET.items())],
}
(VERIF / "MANIFEST.json").write_text(json.dumps(man, indent=1) + "\n")
print("wrote MANIFEST.json with", len(checks), "checks;", len(NOT_YET), "not claimed")
