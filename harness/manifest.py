"""Regenerate /verif/MANIFEST.json from the table below (python3 harness/manifest.py)."""
import json
from pathlib import Path

VERIF = Path(__file__).resolve().parent.parent

# pid -> (technique, level text, level note, design ref)
CHECKS = {}
NOT_YET = {}


def add(pid, technique, text, note):
    CHECKS[pid] = (technique, text, note)


import manifest_table  # noqa: E402  (fills CHECKS / NOT_YET)

manifest_table.fill(add, NOT_YET)

checks = []
for pid in sorted(CHECKS):
    technique, text, note = CHECKS[pid]
    checks.append({
        "property_id": pid,
        "quick_cmd": f"./check {pid} --tier quick",
        "thorough_cmd": f"./check {pid} --tier thorough",
        "evidence_file": f"/verif/evidence/{pid}.json",
        "replay_cmd_template": f"./check {pid} --replay {{path}}",
        "engine": "lean4-model+correspondence",
        "level_claimed": {"category": "proof", "text": text, "design_ref": f"DESIGN.md section 6, {pid}"},
        "level_note": note,
        "technique": technique,
    })

man = {
    "version": 1,
    "setup_cmd": "/venv/bin/python harness/regen.py && cd lean && lake build ArimModel ArimProofs driver",
    "hooks": {
        "guard": "ARIM_VERIF",
        "enable": "checks set ARIM_VERIF=1; no hook inside /repo is needed (environments are substituted from outside)",
        "baseline_off_cmd": "cd /repo && /venv/bin/python -m pytest -ra -q -p no:cacheprovider --timeout=900 --continue-on-collection-errors",
        "source_commits": [],
        "add_only": True,
    },
    "engines": [{
        "name": "lean4-model+correspondence",
        "path": "lean/ (Lean 4 project: ArimModel = executable model, ArimProofs = theorems, Driver = line protocol) + harness/ (Python correspondence, oracles, evidence)",
        "serves_properties": sorted(CHECKS),
        "kind_free_text": "machine-checked proof in Lean 4 about an executable model; model tied to /repo/src by a differential correspondence run and an independent property oracle on every check",
    }],
    "checks": checks,
    "notes": "See DESIGN.md. known_findings.json lists genuine defects recorded or fixed.",
    "not_applicable": [{"property_id": p, "reason": r} for p, r in sorted(NOT_YET.items())],
}
(VERIF / "MANIFEST.json").write_text(json.dumps(man, indent=1) + "\n")
print("wrote MANIFEST.json with", len(checks), "checks;", len(NOT_YET), "not claimed")
