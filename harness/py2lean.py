"""py2lean — a small translator from the Python sources of arim (in /repo/src, *current working tree*) to Lean 4
definitions (lean/ArimProofs/Generated/Src<pid>.lean).

The hand-written models of lean/ArimModel are what the theorems of ArimProofs/Cxx.lean speak about; the files
ArimProofs/Tie/Cxx.lean prove, for every translated function, `generated definition = hand-written model` (for all
inputs).  Because the generated file is rewritten from the source on every run, those tie theorems are re-checked by
the Lean kernel against what the code says *now*: an edit of a translated function that changes its meaning breaks a
tie theorem (the check then searches for a failing input); the property theorems are transported to the generated
definitions by rewriting with the ties.

Supported subset (anything else raises TranslateError, which the check reports as "the translator cannot read the
source any more" and treats like a broken proof): straight-line numeric code — assignments, augmented assignments,
tuple returns, `if/elif/else` (with `return`/`continue` in branches), `for v in range(..)` loops (translated to
`List.foldl` over the range, the state being the variables the body assigns), list `append`, indexing of arrays and
lists, calls of the numerical routines listed in CALLS, calls of other translated functions; `assert`s and docstrings
are skipped, `x.copy()`, `np.asarray(x)` are the identity.  Numba kernels made of a nest of loops over output cells
are translated *per output cell* (`cell` mode): the outer loops become parameters, `out[i, j]` becomes a scalar
variable.

Types: K (time/angle scalar), D (sample data), I (Python int -> Int), N (sizes, loop indices -> Nat), B (bool),
('L', t) lists, ('A', t, ndim) arrays (curried functions of Nat), ('F', [argtypes], ret) environment functions.
Python has no types: the FuncSpec gives those of the parameters and, where a literal initialises a variable, of locals.
"""
from __future__ import annotations

import ast
import re
from fractions import Fraction
from pathlib import Path


class TranslateError(Exception):
    pass


K, D, I, N, B = "K", "D", "I", "N", "B"


def L(t):
    return ("L", t)


def A(t, nd):
    return ("A", t, nd)


def F(args, ret):
    return ("F", tuple(args), ret)


class Lit:
    def __init__(self, v):
        self.v = v


# numerical routines: python callee (as written in the source) -> (Ops field, result type)
CALLS = {
    "sin": "sin", "np.sin": "sin", "math.sin": "sin", "numpy.sin": "sin",
    "cos": "cos", "np.cos": "cos", "math.cos": "cos", "numpy.cos": "cos",
    "np.arcsin": "asin", "arcsin": "asin", "math.asin": "asin",
    "np.sqrt": "sqrt", "math.sqrt": "sqrt", "sqrt": "sqrt",
    "np.exp": "exp", "math.exp": "exp", "exp": "exp",
    "np.sinc": "sinc",
}
IDENTITY_CALLS = {"np.asarray", "np.asanyarray", "np.ascontiguousarray"}


class FuncSpec:
    def __init__(self, file, name, lean, params, pyparams=None, bind=None, given=(), absent=(), locals=None,
                 cell=None, skip=(), doc="", which=-1, ret=None, zero_of=None, raises=False, gen=False, static=None, objects=(), only=()):
        self.only = tuple(only)             # translate only the assignments to these local names (an elementwise formula inside a
                                            # larger function); the value of the last one is returned
        self.raises = raises                # `raise` -> `none`, `return x` -> `some x`
        self.static = dict(static or {})    # python parameter -> value known at translation time (enum member as written, str, bool)
        self.objects = set(objects)         # parameters that are objects: only their attributes (see `bind`) are used
        self.gen = gen                      # generator of index tuples `(…, slice(a, b), …)`: the list of (position, a, b)
        self.file, self.name, self.lean = file, name, lean
        self.params = params                # [(lean name, type)] explicit parameters of the generated definition
        self.pyparams = pyparams or {}      # python parameter -> (lean expr, type); default: same name in params
        self.bind = bind or {}              # python expression (ast.unparse) -> (lean expr, type)
        self.given, self.absent = set(given), set(absent)   # optional parameters known not-None / None
        self.locals = locals or {}
        self.cell = cell                    # {"loops": [var,...], "arrays": {name: (type, (idx vars))}}
        self.skip = set(skip)               # statements (ast.unparse, first line) that are bookkeeping only
        self.doc = doc
        self.which = which                  # which definition when the name is defined more than once
        self.ret = ret
        self.zero_of = zero_of or {}


M = "M"   # 3x3 matrix of K (model type Arim.Geo.M3)
V = "V"   # 3-vector of K (model type Arim.P3): one point / one row of an (..., 3) array
TY = {K: "K", D: "D", I: "Int", N: "Nat", B: "Bool", M: "Arim.Geo.M3 K", V: "Arim.P3 K"}


def lean_type(t):
    if isinstance(t, str):
        return TY[t]
    if t[0] == "L":
        return f"List {lean_type(t[1])}"
    if t[0] == "A":
        return " → ".join(["Nat"] * t[2] + [lean_type(t[1])])
    if t[0] == "F":
        return " → ".join([lean_type(a) for a in t[1]] + [lean_type(t[2])])
    if t[0] == "T":
        return "(" + " × ".join(lean_type(x) for x in t[1]) + ")"
    raise TranslateError(f"type {t}")


class Tr:
    """translation of one function"""

    def __init__(self, spec: FuncSpec, registry, fn: ast.FunctionDef):
        self.s, self.reg, self.fn = spec, registry, fn
        self.env = {}
        for n, t in spec.params:
            self.env[n] = (n, t)
        for p, (e, t) in spec.pyparams.items():
            self.env[p] = (e, t)
        self.notes = []
        self.columns = {}       # cell mode: output arrays whose leading axis is free (see run())
        self.buflen = {}        # symbolic length of the lists standing for scratch / column arrays
        self.buffers = {}       # local 1-d scratch arrays `b = np.empty(n, ..)`, filled in index order by a loop: lists
        self.loops = []         # enclosing `for v in range(n)` loops: (v, source of n)
        self.uses_order = False
        self.uses_eq = False
        self._range_type = N

    # ---------------------------------------------------------------- expressions
    def err(self, node, msg):
        raise TranslateError(f"{self.s.file}:{self.s.name}: line {getattr(node, 'lineno', '?')}: {msg}: "
                             f"{ast.unparse(node)[:120]}")

    def lit(self, v, target, node=None):
        if target == K:
            q = Fraction(v).limit_denominator(10 ** 9) if isinstance(v, float) else Fraction(v)
            if isinstance(v, float) and float(q) != v:
                self.err(node, "float literal is not a small rational")
            s = f"o.ofNat {abs(q.numerator)}" if q.denominator == 1 else f"(o.ofNat {abs(q.numerator)} / o.ofNat {q.denominator})"
            return f"(-({s}))" if q < 0 else f"({s})"
        if target == D:
            if v == 0:
                return "d.zero"
            self.err(node, "non-zero literal used as sample data")
        if target == I:
            if v != int(v):
                self.err(node, "non-integral literal used as integer")
            return f"({int(v)} : Int)"
        if target == N:
            if v != int(v) or v < 0:
                self.err(node, "literal used as natural number")
            return f"({int(v)} : Nat)"
        self.err(node, f"literal as {target}")

    def coerce(self, s, t, target, node=None):
        if t == target:
            return s
        if isinstance(t, Lit):
            return self.lit(t.v, target, node)
        if target == K and t == N:
            return f"(o.ofNat {s})"
        if target == K and t == I:
            return f"(o.ofInt {s})"
        if target == I and t == N:
            return f"(({s} : Nat) : Int)"
        self.err(node, f"cannot use {t} as {target}")

    @staticmethod
    def join(t1, t2):
        order = [K, I, N]
        if isinstance(t1, Lit) and isinstance(t2, Lit):
            return None
        if isinstance(t1, Lit):
            return t2
        if isinstance(t2, Lit):
            return t1
        if t1 == t2:
            return t1
        if t1 in order and t2 in order:
            return order[min(order.index(t1), order.index(t2))]
        return None

    def expr(self, e):
        """-> (lean string, type)"""
        src = ast.unparse(e)
        if src in self.s.bind:
            return self.s.bind[src]
        if src in ("np.pi", "math.pi", "numpy.pi"):
            return ("o.pi", K)
        if isinstance(e, ast.Constant):
            if isinstance(e.value, bool) or not isinstance(e.value, (int, float)):
                self.err(e, "constant")
            return (None, Lit(e.value))
        if isinstance(e, ast.Name):
            if e.id not in self.env:
                self.err(e, "unknown name")
            return self.env[e.id]
        if isinstance(e, ast.UnaryOp) and isinstance(e.op, ast.USub):
            s, t = self.expr(e.operand)
            if isinstance(t, Lit):
                return (None, Lit(-t.v))
            if t in (K, I):
                return (f"(-{s})", t)
            if t == D:
                return (f"(d.sub d.zero {s})", D)
            self.err(e, "negation")
        if isinstance(e, ast.UnaryOp) and isinstance(e.op, ast.Not):
            s, t = self.expr(e.operand)
            return (f"(¬ {s})", B)
        if isinstance(e, ast.BinOp):
            return self.binop(e)
        if isinstance(e, ast.Compare):
            return self.compare(e)
        if isinstance(e, ast.BoolOp):
            parts = [self.expr(v) for v in e.values]
            if any(t != B for _, t in parts):
                self.err(e, "boolean operator on non-boolean")
            op = " ∨ " if isinstance(e.op, ast.Or) else " ∧ "
            return ("(" + op.join(s for s, _ in parts) + ")", B)
        if isinstance(e, ast.IfExp):
            c, tc = self.expr(e.test)
            a, ta = self.expr(e.body)
            b, tb = self.expr(e.orelse)
            t = self.join(ta, tb)
            if tc != B or t is None:
                self.err(e, "conditional expression")
            return (f"(if {c} then {self.coerce(a, ta, t, e)} else {self.coerce(b, tb, t, e)})", t)
        if isinstance(e, ast.Call):
            return self.call(e)
        if isinstance(e, ast.Subscript):
            return self.subscript(e)
        if isinstance(e, ast.Tuple):
            parts = [self.expr(v) for v in e.elts]
            for (s, t), v in zip(parts, e.elts):
                if isinstance(t, Lit):
                    self.err(v, "literal in a tuple")
            return ("(" + ", ".join(s for s, _ in parts) + ")", ("T", tuple(t for _, t in parts)))
        self.err(e, "unsupported expression")

    def binop(self, e):
        a, ta = self.expr(e.left)
        b, tb = self.expr(e.right)
        op = type(e.op)
        if op is ast.MatMult:
            if ta == M and tb == M:
                return (f"(Arim.Geo.mmul {a} {b})", M)
            self.err(e, "matrix product of non-matrices")
        # 3-vectors (one point of an (..., 3) array): componentwise sum and difference
        if ta == V or tb == V:
            if ta == V and tb == V and op in (ast.Add, ast.Sub):
                return (f"(Arim.Geo.{'vadd' if op is ast.Add else 'vsub'} {a} {b})", V)
            self.err(e, "operation on 3-vectors other than + and -")
        # sample data
        if ta == D or tb == D:
            if op in (ast.Add, ast.Sub) and (ta == D or isinstance(ta, Lit)) and (tb == D or isinstance(tb, Lit)):
                f = "d.add" if op is ast.Add else "d.sub"
                return (f"({f} {self.coerce(a, ta, D, e)} {self.coerce(b, tb, D, e)})", D)
            if op is ast.Mult and ta == D and tb == D:
                return (f"(d.mul {a} {b})", D)
            if op is ast.Mult and ta == D:
                return (f"(d.smul {self.coerce(b, tb, K, e)} {a})", D)
            if op is ast.Mult and tb == D:
                return (f"(d.smul {self.coerce(a, ta, K, e)} {b})", D)
            if op is ast.Div and ta == D and tb == N:
                return (f"(d.divNat {a} {b})", D)
            self.err(e, "operation on sample data")
        if isinstance(ta, Lit) and isinstance(tb, Lit):
            v = {ast.Add: lambda x, y: x + y, ast.Sub: lambda x, y: x - y, ast.Mult: lambda x, y: x * y}.get(op)
            if v is None:
                self.err(e, "constant folding")
            return (None, Lit(v(ta.v, tb.v)))
        if op is ast.Pow:
            if isinstance(tb, Lit) and tb.v == 2 and ta == K:
                return (f"({a} * {a})", K)
            if isinstance(tb, Lit) and tb.v == 3 and ta == K:
                return (f"(({a} * {a}) * {a})", K)
            self.err(e, "power")
        t = self.join(ta, tb)
        if t is None:
            self.err(e, f"operand types {ta} {tb}")
        if op is ast.Div:
            t = K  # true division always gives a float
        a2, b2 = self.coerce(a, ta, t, e), self.coerce(b, tb, t, e)
        if op is ast.Add:
            return (f"({a2} + {b2})", t)
        if op is ast.Sub:
            return (f"({a2} - {b2})", t)
        if op is ast.Mult:
            return (f"({a2} * {b2})", t)
        if op is ast.Div:
            return (f"({a2} / {b2})", K)
        if op is ast.FloorDiv:
            if t == K:   # Python float //: floor of the quotient, as a float
                return (f"(o.ofInt (o.floor ({a2} / {b2})))", K)
            return (f"({a2} / {b2})", t)   # Int./ and Nat./ round towards minus infinity for a positive divisor
        if op is ast.Mod:
            if t == K:   # Python float %: x - floor(x/y)*y
                return (f"({a2} - (o.ofInt (o.floor ({a2} / {b2}))) * {b2})", K)
            return (f"({a2} % {b2})", t)
        self.err(e, "operator")

    def compare(self, e):
        parts = []
        left = e.left
        for op, right in zip(e.ops, e.comparators):
            if isinstance(op, (ast.Is, ast.IsNot)):
                self.err(e, "identity test outside an optional-parameter guard")
            a, ta = self.expr(left)
            b, tb = self.expr(right)
            t = self.join(ta, tb)
            if t is None:
                self.err(e, f"comparison of {ta} and {tb}")
            sym = {ast.Lt: "<", ast.LtE: "≤", ast.Gt: ">", ast.GtE: "≥", ast.Eq: "=", ast.NotEq: "≠"}.get(type(op))
            if sym is None:
                self.err(e, "comparison operator")
            if t == K:
                if isinstance(op, (ast.Eq, ast.NotEq)):
                    self.uses_eq = True
                else:
                    self.uses_order = True
            parts.append(f"{self.coerce(a, ta, t, e)} {sym} {self.coerce(b, tb, t, e)}")
            left = right
        return ("(" + " ∧ ".join(parts) + ")", B)

    def call(self, e):
        fsrc = ast.unparse(e.func)
        if fsrc in ("np.array", "numpy.array") and len(e.args) == 1 and isinstance(e.args[0], ast.Tuple) \
                and len(e.args[0].elts) == 3 and all(isinstance(r, ast.Tuple) and len(r.elts) == 3 for r in e.args[0].elts) \
                and all(k.arg == "dtype" and ast.unparse(k.value) in ("float", "np.float64") for k in e.keywords):
            rows = []
            for r in e.args[0].elts:
                rows.append("⟨" + ", ".join(self.coerce(*self.expr(x), K, x) for x in r.elts) + "⟩")
            return ("(⟨" + ", ".join(rows) + "⟩ : Arim.Geo.M3 K)", M)
        if fsrc in ("np.einsum", "numpy.einsum") and len(e.args) == 3 and not e.keywords and isinstance(e.args[0], ast.Constant) and isinstance(e.args[0].value, str):
            # one 3x3 matrix (per point) applied to one 3-vector (per point): the subscripts decide which index is summed
            sub = e.args[0].value.replace(" ", "")
            mm = re.fullmatch(r"\.\.\.([a-z])([a-z]),\.\.\.([a-z])->\.\.\.([a-z])", sub)
            m_, tm = self.expr(e.args[1])
            v_, tv = self.expr(e.args[2])
            if not mm or tm != M or tv != V:
                self.err(e, "einsum other than '...ab,...c->...d' of a 3x3 matrix and a 3-vector")
            r_, c_, k_, o_ = mm.groups()
            if r_ == c_:
                self.err(e, "einsum with a repeated matrix index")
            if k_ == c_ and o_ == r_:      # out_r = sum_c M[r][c] v[c]
                return (f"(Arim.Geo.mulVec {m_} {v_})", V)
            if k_ == r_ and o_ == c_:      # out_c = sum_r v[r] M[r][c]
                return (f"(Arim.Geo.vecMul {v_} {m_})", V)
            self.err(e, f"einsum subscripts {sub!r} are not a matrix-vector product")
        if e.keywords and fsrc not in self.reg:
            self.err(e, "keyword arguments")
        if fsrc in self.s.bind:
            fs, ft = self.s.bind[fsrc]
            if ft[0] != "F" or len(ft[1]) != len(e.args):
                self.err(e, "environment function arity")
            args = [self.coerce(*self.expr(a), at, a) for a, at in zip(e.args, ft[1])]
            return ("(" + " ".join([fs] + args) + ")", ft[2])
        if fsrc in IDENTITY_CALLS and len(e.args) == 1:
            return self.expr(e.args[0])
        if isinstance(e.func, ast.Attribute) and e.func.attr == "copy" and not e.args:
            return self.expr(e.func.value)
        if fsrc in CALLS and len(e.args) == 1:
            a, ta = self.expr(e.args[0])
            return (f"(o.{CALLS[fsrc]} {self.coerce(a, ta, K, e)})", K)
        if fsrc == "np.reciprocal" and len(e.args) == 1:
            a, ta = self.expr(e.args[0])
            return (f"(o.ofNat 1 / {self.coerce(a, ta, K, e)})", K)
        if fsrc in ("min", "max") and len(e.args) == 2:
            a, ta = self.expr(e.args[0])
            b, tb = self.expr(e.args[1])
            t = self.join(ta, tb)
            if t not in (K, I, N):
                self.err(e, "min/max of these types")
            if t == K:
                self.uses_order = True
            fn = "pyMin" if fsrc == "min" else "pyMax"
            return (f"({fn} {self.coerce(a, ta, t, e)} {self.coerce(b, tb, t, e)})", t)
        if fsrc == "round" and len(e.args) == 1:
            a, ta = self.expr(e.args[0])
            return (f"(o.round {self.coerce(a, ta, K, e)})", I)
        if fsrc == "math.ceil" and len(e.args) == 1 and isinstance(e.args[0], ast.BinOp) and isinstance(e.args[0].op, ast.Div):
            a, ta = self.expr(e.args[0].left)
            b, tb = self.expr(e.args[0].right)
            if ta == N and tb == N:
                return (f"(pyCeilDiv {a} {b})", N)
            self.err(e, "math.ceil of a quotient of non-naturals")
        if fsrc in ("math.floor", "np.floor") and len(e.args) == 1:
            a, ta = self.expr(e.args[0])
            if fsrc == "np.floor":
                return (f"(o.ofInt (o.floor {self.coerce(a, ta, K, e)}))", K)
            return (f"(o.floor {self.coerce(a, ta, K, e)})", I)
        if fsrc == "int" and len(e.args) == 1:
            a, ta = self.expr(e.args[0])
            if ta in (I, N):
                return (a, ta)
            return (f"(o.trunc {self.coerce(a, ta, K, e)})", I)
        if fsrc in self.reg:
            variants = self.reg[fsrc] if isinstance(self.reg[fsrc], list) else [self.reg[fsrc]]
            pnames0 = [a.arg for a in variants[0]._fn0.args.args]
            if len(e.args) > len(pnames0):
                self.err(e, "too many arguments")
            amap = dict(zip(pnames0, e.args))
            for kw in e.keywords:
                if kw.arg is None:
                    self.err(e, "unexpanded ** argument")
                amap[kw.arg] = kw.value
            supplied = {k for k, v in amap.items() if not (isinstance(v, ast.Constant) and v.value is None)}
            # the translation of the callee for this pattern of optional arguments (given / left to their default None)
            fits = [v for v in variants if v.given <= supplied and not (v.absent & supplied) and not v.static]
            if len(fits) != 1:
                self.err(e, f"no single translated variant of {fsrc} for the arguments supplied ({sorted(supplied)})")
            sp = fits[0]
            out = [sp.lean, "o"] + (["d"] if sp._uses_d else [])
            for ln, lt in sp.params:
                py = sp._param_py.get(ln, ln)
                if py not in amap:
                    self.err(e, f"argument {py} of {fsrc} not supplied")
                out.append(self.coerce(*self.expr(amap[py]), lt, e))
            return ("(" + " ".join(out) + ")", sp.ret)
        self.err(e, "unsupported call")

    def subscript(self, e):
        idx = e.slice.elts if isinstance(e.slice, ast.Tuple) else [e.slice]
        if self.s.cell and isinstance(e.value, ast.Name) and e.value.id in self.s.cell["arrays"]:
            t, ivars = self.s.cell["arrays"][e.value.id]
            if [ast.unparse(i) for i in idx] != list(ivars):
                self.err(e, "output array accessed outside the current cell")
            name = "cell_" + e.value.id
            if name not in self.env:
                self.err(e, "output cell read before it is written")
            return self.env[name]
        v, tv = self.expr(e.value)
        if isinstance(tv, tuple) and tv[0] == "A":
            if len(idx) > tv[2]:
                self.err(e, "number of indices")
            app = "(" + " ".join([v] + [self.index(i) for i in idx]) + ")"
            return (app, tv[1]) if len(idx) == tv[2] else (app, ("A", tv[1], tv[2] - len(idx)))
        if isinstance(tv, tuple) and tv[0] == "L":
            if len(idx) != 1:
                self.err(e, "list index")
            zero = {K: "(o.ofNat 0)", D: "d.zero", N: "0", I: "0"}[tv[1]]
            return (f"(pyGet {v} {self.index(idx[0])} {zero})", tv[1])
        self.err(e, "subscript of a non-array")

    def index(self, i):
        s, t = self.expr(i)
        if isinstance(t, Lit):
            return self.lit(t.v, N, i)
        if t == N:
            return s
        if t == I:
            return f"({s}).toNat"
        self.err(i, "index type")

    # ---------------------------------------------------------------- statements
    def assigned(self, stmts):
        """names (environment keys) assigned anywhere in a statement list, in order of first assignment"""
        out = []

        def add(n):
            if n not in out:
                out.append(n)

        def tgt(t):
            if isinstance(t, ast.Name):
                add(t.id)
            elif isinstance(t, ast.Tuple):
                for x in t.elts:
                    tgt(x)
            elif isinstance(t, ast.Subscript) and isinstance(t.value, ast.Name):
                if self.s.cell and t.value.id in self.s.cell["arrays"]:
                    add("cell_" + t.value.id)
                elif t.value.id in self.buffers:
                    add(t.value.id)
                else:
                    self.err(t, "store into an array")
            else:
                self.err(t, "assignment target")

        def walk(ss):
            for st in ss:
                if isinstance(st, ast.Assign):
                    for t in st.targets:
                        tgt(t)
                elif isinstance(st, ast.AugAssign):
                    tgt(st.target)
                elif isinstance(st, ast.If):
                    walk(st.body)
                    walk(st.orelse)
                elif isinstance(st, ast.For):
                    walk(st.body)
                elif isinstance(st, ast.Expr) and isinstance(st.value, ast.Call) and isinstance(st.value.func, ast.Attribute) \
                        and st.value.func.attr == "append" and isinstance(st.value.func.value, ast.Name):
                    add(st.value.func.value.id)
                elif isinstance(st, ast.Expr) and isinstance(st.value, ast.Yield):
                    add("out_")

        walk(stmts)
        return out

    @staticmethod
    def jumps(stmts):
        """does the block end every path with return / continue?"""
        if not stmts:
            return False
        last = stmts[-1]
        if isinstance(last, (ast.Return, ast.Continue, ast.Raise)):
            return True
        if isinstance(last, ast.If):
            return Tr.jumps(last.body) and Tr.jumps(last.orelse)
        return False

    def state_tuple(self, names):
        vals = [self.env[n][0] for n in names]
        return vals[0] if len(vals) == 1 else "(" + ", ".join(vals) + ")"

    def pattern(self, names):
        return names[0] if len(names) == 1 else "(" + ", ".join(names) + ")"

    def bind_state(self, names, types):
        for n, t in zip(names, types):
            self.env[n] = (n if not n.startswith("cell_") else n, t)

    def block(self, stmts, ind, k_cont, k_ret):
        """translate a statement list; `k_cont()` gives the expression that ends a block falling off its end (the
        loop state, or an error for function bodies), `k_ret(expr node)` the one for `return`."""
        pad = " " * ind
        if not stmts:
            return pad + k_cont()
        st, rest = stmts[0], stmts[1:]
        first = ast.unparse(st).split("\n")[0]
        if first in self.s.skip:
            return self.block(rest, ind, k_cont, k_ret)
        if isinstance(st, ast.Expr) and isinstance(st.value, ast.Constant):
            return self.block(rest, ind, k_cont, k_ret)   # docstring
        if isinstance(st, (ast.Assert, ast.Pass)):
            if isinstance(st, ast.Assert):
                self.notes.append("assert skipped: " + ast.unparse(st.test)[:80])
            return self.block(rest, ind, k_cont, k_ret)
        if isinstance(st, ast.Return):
            if st.value is None:
                return pad + k_cont()
            return pad + k_ret(st.value)
        if isinstance(st, ast.Continue):
            return pad + k_cont()
        if isinstance(st, ast.Raise):
            if not self.s.raises:
                self.err(st, "raise in a function not declared as raising (FuncSpec.raises)")
            self.notes.append("raise -> none: " + ast.unparse(st)[:80])
            return pad + "none"
        if isinstance(st, ast.Assign):
            if len(st.targets) != 1:
                self.err(st, "chained assignment")
            t = st.targets[0]
            if isinstance(t, ast.Tuple):
                s, ty = self.expr(st.value)
                if not (isinstance(ty, tuple) and ty[0] == "T" and len(ty[1]) == len(t.elts)):
                    self.err(st, "tuple unpacking")
                names = []
                for x, xt in zip(t.elts, ty[1]):
                    if not isinstance(x, ast.Name):
                        self.err(st, "tuple target")
                    names.append(x.id)
                    self.env[x.id] = (x.id, xt)
                return pad + f"let ({', '.join(names)}) := {s}\n" + self.block(rest, ind, k_cont, k_ret)
            if isinstance(t, ast.Subscript) and isinstance(t.value, ast.Name) and t.value.id in self.buffers:
                # `buf[v] = x` inside `for v in range(len(buf))`: iteration v appends element v; a store at the index equal to
                # the current length appends too.  Anything else is refused.
                b = t.value.id
                idx_src = ast.unparse(t.slice)
                if b in self.columns:
                    els = t.slice.elts if isinstance(t.slice, ast.Tuple) else [t.slice]
                    if [ast.unparse(x) for x in els[1:]] != list(self.columns[b][1]):
                        self.err(st, "output column written outside the current cell")
                    idx_src = ast.unparse(els[0])
                in_loop = bool(self.loops) and idx_src == self.loops[-1][0]
                if in_loop:
                    if self.buffers[b][1] is not None and self.loops[-1][1] != self.buffers[b][1]:
                        self.err(st, "a scratch array is only filled at the index of the innermost loop over its whole length")
                    if self.loops[-1][2].get(b, self.buflen.get(b, "0")) != "0":
                        self.err(st, "a list is filled by a loop only from its start")
                    self.loops[-1][3].add(b)
                elif idx_src == self.buflen.get(b):
                    self.buflen[b] = f"({idx_src}) + 1"
                else:
                    self.err(st, f"store at index {idx_src}: neither the innermost loop variable nor the current length {self.buflen.get(b)}")
                x, tx_ = self.expr(st.value)
                return pad + f"let {b} := {b} ++ [{self.coerce(x, tx_, self.buffers[b][0], st)}]\n" + self.block(rest, ind, k_cont, k_ret)
            if isinstance(t, ast.Name) and isinstance(st.value, ast.Call) and ast.unparse(st.value.func) in ("np.empty", "numpy.empty") and st.value.args:
                want_b = self.s.locals.get(t.id)
                if not (isinstance(want_b, tuple) and want_b[0] == "L"):
                    self.err(st, "element type of a scratch array must be given in FuncSpec.locals")
                self.buffers[t.id] = (want_b[1], ast.unparse(st.value.args[0]))
                self.buflen[t.id] = "0"
                self.env[t.id] = (t.id, want_b)
                return pad + f"let {t.id} : {lean_type(want_b)} := []\n" + self.block(rest, ind, k_cont, k_ret)
            name = self.target_name(t)
            if ast.unparse(st.value).startswith("(slice(None),) * "):
                k, tk = self.expr(st.value.right)
                self.env[name] = (self.coerce(k, tk, N, st), "FILL")
                return self.block(rest, ind, k_cont, k_ret)
            want = self.s.locals.get(name)
            if isinstance(st.value, ast.List) and not st.value.elts:
                if not (isinstance(want, tuple) and want[0] == "L"):
                    self.err(st, "type of an empty list must be given in FuncSpec.locals")
                self.env[name] = (name, want)
                return pad + f"let {name} : {lean_type(want)} := []\n" + self.block(rest, ind, k_cont, k_ret)
            s, ty = self.expr(st.value)
            if isinstance(ty, Lit):
                if want is None:
                    want = self.env[name][1] if name in self.env else None
                if want is None:
                    self.err(st, "type of a variable initialised by a literal must be given in FuncSpec.locals")
                s, ty = self.lit(ty.v, want, st), want
            elif want is not None and ty != want:
                s, ty = self.coerce(s, ty, want, st), want
            elif name in self.env and self.env[name][1] != ty and not isinstance(self.env[name][1], Lit):
                # re-assignment with another type (allowed when the old value is dead, e.g. `axis = list(...)[axis]`)
                pass
            self.env[name] = (name, ty)
            return pad + f"let {name} := {s}\n" + self.block(rest, ind, k_cont, k_ret)
        if isinstance(st, ast.AugAssign) and self.s.cell and self.s.cell.get("slice_add") and isinstance(st.target, ast.Subscript) \
                and isinstance(st.target.value, ast.Name) and st.target.value.id in self.s.cell["slice_add"]:
            # `out[i, a:b] += src[i]`: the row `src[i]` is added onto the window [a, b) of row `i` of the output; the cell of the
            # translation is the pair of window bounds as written (NumPy resolves negative bounds and clips them when it slices)
            name = st.target.value.id
            src_name, loopvar = self.s.cell["slice_add"][name]
            sl = st.target.slice
            ok = (isinstance(st.op, ast.Add) and isinstance(sl, ast.Tuple) and len(sl.elts) == 2 and isinstance(sl.elts[0], ast.Name) and sl.elts[0].id == loopvar
                  and isinstance(sl.elts[1], ast.Slice) and sl.elts[1].step is None and sl.elts[1].lower is not None and sl.elts[1].upper is not None
                  and ast.unparse(st.value) == f"{src_name}[{loopvar}]")
            if not ok:
                self.err(st, f"the write into {name} is not `{name}[{loopvar}, a:b] += {src_name}[{loopvar}]`")
            lo, tlo = self.expr(sl.elts[1].lower)
            hi, thi = self.expr(sl.elts[1].upper)
            lo, hi = self.coerce(lo, tlo, I, st), self.coerce(hi, thi, I, st)
            self.env["cell_" + name] = ("cell_" + name, ("T", (I, I)))
            return pad + f"let cell_{name} : Int × Int := ({lo}, {hi})\n" + self.block(rest, ind, k_cont, k_ret)
        if isinstance(st, ast.AugAssign):
            name = self.target_name(st.target)
            load = ast.copy_location(ast.BinOp(left=self.as_load(st.target), op=st.op, right=st.value), st)
            s, ty = self.expr(load)
            old = self.env[name][1]
            if ty != old:
                s, ty = self.coerce(s, ty, old, st), old
            self.env[name] = (name, ty)
            return pad + f"let {name} := {s}\n" + self.block(rest, ind, k_cont, k_ret)
        if isinstance(st, ast.Expr) and isinstance(st.value, ast.Call) and isinstance(st.value.func, ast.Attribute) \
                and st.value.func.attr == "append" and isinstance(st.value.func.value, ast.Name) and len(st.value.args) == 1:
            name = st.value.func.value.id
            lt = self.env[name][1]
            s, ty = self.expr(st.value.args[0])
            return pad + f"let {name} := {name} ++ [{self.coerce(s, ty, lt[1], st)}]\n" + self.block(rest, ind, k_cont, k_ret)
        if isinstance(st, ast.Expr) and isinstance(st.value, ast.Yield):
            if not self.s.gen:
                self.err(st, "yield in a function not declared as a generator (FuncSpec.gen)")
            return pad + f"let out_ := out_ ++ [{self.index_tuple(st.value.value)}]\n" + self.block(rest, ind, k_cont, k_ret)
        if isinstance(st, ast.If):
            return self.if_stmt(st, rest, ind, k_cont, k_ret)
        if isinstance(st, ast.For):
            return self.for_stmt(st, rest, ind, k_cont, k_ret)
        self.err(st, "unsupported statement")

    def index_tuple(self, v):
        """a yielded NumPy index tuple with exactly one `slice(a, b)`: -> `(position, a, b)`; what precedes the slice fixes
        its position: nothing (0), `...` (last axis: `ndim - 1`), `*fillers` with `fillers = (slice(None),) * k` (k)"""
        if not isinstance(v, ast.Tuple):
            self.err(v, "yielded value is not a tuple")
        pos, sl, after = None, None, []
        before = []
        for el in v.elts:
            if isinstance(el, ast.Call) and ast.unparse(el.func) == "slice" and len(el.args) == 2 and sl is None:
                sl = el
            elif sl is None:
                before.append(el)
            else:
                after.append(el)
        if sl is None:
            self.err(v, "no slice(a, b) in the yielded tuple")
        is_ell = lambda x: isinstance(x, ast.Constant) and x.value is Ellipsis
        if any(not is_ell(x) for x in after) or len(after) > 1:
            self.err(v, "what follows the slice is not `...`")
        if not before:
            if not after:
                self.err(v, "a bare slice is ambiguous for arrays of more than one dimension")
            pos = "(0 : Nat)"
        elif len(before) == 1 and is_ell(before[0]) and not after:
            if "ndim" not in self.env:
                self.err(v, "`...` before the slice needs `ndim`")
            pos = f"({self.env['ndim'][0]} - 1)"
        elif len(before) == 1 and isinstance(before[0], ast.Starred) and isinstance(before[0].value, ast.Name) \
                and self.env.get(before[0].value.id, (None, None))[1] == "FILL" and after:
            pos = self.env[before[0].value.id][0]
        else:
            self.err(v, "index tuple form")
        a, ta = self.expr(sl.args[0])
        b, tb = self.expr(sl.args[1])
        return f"({pos}, {self.coerce(a, ta, N, v)}, {self.coerce(b, tb, N, v)})"

    def target_name(self, t):
        if isinstance(t, ast.Name):
            return t.id
        if isinstance(t, ast.Subscript) and isinstance(t.value, ast.Name) and self.s.cell and t.value.id in self.s.cell["arrays"]:
            ty, ivars = self.s.cell["arrays"][t.value.id]
            idx = t.slice.elts if isinstance(t.slice, ast.Tuple) else [t.slice]
            if [ast.unparse(i) for i in idx] != list(ivars):
                self.err(t, "output array written outside the current cell")
            name = "cell_" + t.value.id
            if name not in self.env:
                self.env[name] = (name, ty)
            self.s.locals.setdefault(name, ty)
            return name
        self.err(t, "assignment target")

    @staticmethod
    def as_load(t):
        t2 = ast.parse(ast.unparse(t), mode="eval").body
        return t2

    def optional_guard(self, test):
        """`x is None` / `x is not None` on a parameter declared given/absent -> True/False, else None"""
        if isinstance(test, ast.Compare) and len(test.ops) == 1 and isinstance(test.left, ast.Name) \
                and isinstance(test.comparators[0], ast.Constant) and test.comparators[0].value is None:
            n = test.left.id
            isnone = isinstance(test.ops[0], ast.Is)
            if n in self.s.given:
                return not isnone
            if n in self.s.absent:
                return isnone
        return None

    def if_stmt(self, st, rest, ind, k_cont, k_ret):
        pad = " " * ind
        g = self.optional_guard(st.test)
        if g is not None:
            taken = st.body if g else st.orelse
            if g and isinstance(st.test.left, ast.Name) and st.test.left.id in self.s.absent:
                # the parameter is None: it gets its value from the branch
                pass
            return self.block(list(taken) + list(rest), ind, k_cont, k_ret)
        c, tc = self.expr(st.test)
        if tc != B:
            self.err(st, "condition is not boolean")
        jb, jo = self.jumps(st.body), self.jumps(st.orelse)
        if jb or jo:
            # at least one branch leaves: the rest of the block belongs to the other branch(es)
            env0 = dict(self.env)
            b = self.block(list(st.body) + ([] if jb else list(rest)), ind + 4, k_cont, k_ret)
            self.env = dict(env0)
            o_ = self.block(list(st.orelse) + ([] if jo else list(rest)), ind + 4, k_cont, k_ret)
            self.env = env0
            return pad + f"if {c} then\n{b}\n{pad}else\n{o_}"
        # variables first assigned inside a branch are local to it (a later use is an unknown name and is refused)
        # a variable assigned in BOTH branches is defined after the conditional even if it was not before
        in_both = [n for n in self.assigned(list(st.body)) if n in self.assigned(list(st.orelse))]
        names = [n for n in self.assigned([st]) if n in self.env or n in in_both]
        if not names:
            self.err(st, "conditional without effect on the variables defined before it")
        env0 = dict(self.env)
        b = self.block(list(st.body), ind + 4, lambda: self.state_tuple(names), k_ret)
        types = [self.env[n][1] for n in names]
        self.env = dict(env0)
        o_ = self.block(list(st.orelse), ind + 4, lambda: self.state_tuple(names), k_ret)
        if [self.env[n][1] for n in names] != types:
            self.err(st, "a variable gets different types in the two branches")
        self.env = env0
        self.bind_state(names, types)
        return (pad + f"let {self.pattern(names)} := (if {c} then\n{b}\n{pad}  else\n{o_})\n"
                + self.block(rest, ind, k_cont, k_ret))

    def range_of(self, it, node):
        if not (isinstance(it, ast.Call) and ast.unparse(it.func) in ("range", "numba.prange", "prange")) or it.keywords:
            self.err(node, "loop is not over range(..)")
        args = [self.expr(a) for a in it.args]
        if any(t == I for _, t in args):
            # a range over Python ints that may be negative
            cs = [self.coerce(s, t, I, node) for s, t in args]
            if len(cs) == 2:
                self._range_type = I
                return f"(pyRangeI {cs[0]} {cs[1]})"
            self.err(node, "integer range form")
        self._range_type = N
        cs = [self.coerce(s, t, N, node) for s, t in args]
        if len(cs) == 1:
            return f"(List.range {cs[0]})"
        if len(cs) == 2:
            return f"(pyRange {cs[0]} {cs[1]})"
        self.err(node, "range with a step")

    def for_stmt(self, st, rest, ind, k_cont, k_ret):
        pad = " " * ind
        if st.orelse or not isinstance(st.target, ast.Name):
            self.err(st, "for loop form")
        rng = self.range_of(st.iter, st)
        v = st.target.id
        names = self.assigned(st.body)
        # variables that are local to one iteration (first assigned inside, never read after the loop) are not state
        state = [n for n in names if n in self.env]
        if not state:
            self.err(st, "loop without state")
        types = [self.env[n][1] for n in state]
        env0 = dict(self.env)
        init = "(" + ", ".join(env0[n][0] for n in state) + ")" if len(state) > 1 else env0[state[0]][0]
        self.env[v] = (v, self._range_type)
        self.bind_state(state, types)

        def no_return(_):
            self.err(st, "return inside a loop")

        bound = ast.unparse(st.iter.args[0]) if len(st.iter.args) == 1 else None
        self.loops.append((v, bound, dict(self.buflen), set()))
        body = self.block(list(st.body), ind + 6, lambda: self.state_tuple(state), no_return)
        _, _, _, stored = self.loops.pop()
        for b in stored:
            if bound is None:
                self.err(st, "a list is filled by a loop over range(n) only")
            self.buflen[b] = bound
        self.env = env0
        self.bind_state(state, types)
        return (pad + f"let {self.pattern(state)} := {rng}.foldl (fun {self.pattern(state)} {v} =>\n{body}) {init}\n"
                + self.block(rest, ind, k_cont, k_ret))

    # ---------------------------------------------------------------- whole function
    def run(self):
        body = list(self.fn.body)
        s = self.s
        if s.cell:
            # peel the nest of loops over the output cells
            for var in s.cell["loops"]:
                pre = []
                loop = None
                for st in body:
                    first = ast.unparse(st).split("\n")[0]
                    if isinstance(st, ast.For) and isinstance(st.target, ast.Name) and st.target.id == var:
                        loop = st
                        break
                    pre.append(st)
                if loop is None:
                    raise TranslateError(f"{s.file}:{s.name}: no loop over {var}")
                after = body[body.index(loop) + 1:]
                if any(not isinstance(x, ast.Return) or x.value is not None for x in after):
                    raise TranslateError(f"{s.file}:{s.name}: statements after the loop over {var}")
                if not (isinstance(loop.iter, ast.Call) and ast.unparse(loop.iter.func) in ("range", "numba.prange", "prange")
                        and len(loop.iter.args) == 1 and not loop.iter.keywords):
                    raise TranslateError(f"{s.file}:{s.name}: the loop over {var} is not over range(n)")
                self._cell_ranges = getattr(self, "_cell_ranges", []) + [(var, ast.unparse(loop.iter))]
                body = pre + list(loop.body)
            for name, (t, ivars) in s.cell["arrays"].items():
                if s.cell.get("init", {}).get(name):
                    self.env["cell_" + name] = (s.cell["init"][name], t)
            outs = ["cell_" + n for n in s.cell["arrays"]]
            # output arrays with a leading free axis: the cell is the column `out[:, i, j]`, built front to back
            for name, (t, ivars) in s.cell.get("columns", {}).items():
                self.columns[name] = (t, tuple(ivars))
                self.buffers[name] = (t, None)
                self.buflen[name] = "0"
                self.env[name] = (name, ("L", t))
                outs.append(name)

            def k_cont():
                for n in outs:
                    if n not in self.env:
                        raise TranslateError(f"{s.file}:{s.name}: output {n} is never written")
                return self.state_tuple(outs)

            def k_ret(_):
                raise TranslateError(f"{s.file}:{s.name}: return with a value in a kernel")

            txt = "".join(f"  let {n} : List {lean_type(t)} := []\n" for n, (t, _) in s.cell.get("columns", {}).items()) + self.block(body, 2, k_cont, k_ret)
            rt = [s.cell["arrays"][n][0] for n in s.cell["arrays"]] + [("L", t) for t, _ in s.cell.get("columns", {}).values()]
            s.ret = rt[0] if len(rt) == 1 else ("T", tuple(rt))
        elif s.gen:
            self.env["out_"] = ("out_", ("L", ("T", (N, N, N))))
            s.ret = ("L", ("T", (N, N, N)))

            def k_cont():
                return "out_"

            def k_ret(v):
                raise TranslateError(f"{s.file}:{s.name}: return with a value in a generator")

            txt = "  let out_ : List (Nat × Nat × Nat) := []\n" + self.block(body, 2, k_cont, k_ret)
        else:
            if s.only:
                kept = [st for st in body if isinstance(st, ast.Assign) and len(st.targets) == 1 and isinstance(st.targets[0], ast.Name) and st.targets[0].id in s.only]
                found = [st.targets[0].id for st in kept]
                if sorted(set(found)) != sorted(set(s.only)) or len(found) != len(s.only):
                    raise TranslateError(f"{s.file}:{s.name}: expected exactly one top-level assignment to each of {list(s.only)}, found {found}")
                body = kept + [ast.copy_location(ast.Return(value=ast.Name(id=s.only[-1], ctx=ast.Load())), kept[-1])]

            def k_cont():
                raise TranslateError(f"{s.file}:{s.name}: a path through the function returns nothing")

            def k_ret(v):
                x, t = self.expr(v)
                if isinstance(t, Lit):
                    if s.ret is None:
                        raise TranslateError(f"{s.file}:{s.name}: literal returned, FuncSpec.ret needed")
                    return self.lit(t.v, s.ret, v)
                if s.ret is None:
                    s.ret = t
                elif s.ret != t:
                    x = self.coerce(x, t, s.ret, v)
                return f"some {x}" if s.raises else x

            txt = self.block(body, 2, k_cont, k_ret)
        return txt


class _Specialise(ast.NodeTransformer):
    """partial evaluation of a function on its *static* arguments (enum members, unit strings, flags): conditions on them are
    decided and the dead branches dropped; local aliases of object parameters are resolved; `dict(...)` literals passed as
    `**name` are expanded; `obj.velocity(mode)` with a static mode becomes the velocity attribute it selects"""

    def __init__(self, spec):
        self.sp = spec
        self.alias = {}     # local name -> object parameter
        self.dicts = {}     # local name -> [(key, value expr)]
        self.consts = {}    # local name -> True / False / None assigned on the path taken
        self.funcs = {}     # local name -> name of the module-level function it was bound to

    def sym(self, e):
        """the static 'symbol' an expression denotes, or None"""
        if isinstance(e, ast.Name) and e.id in self.sp.static:
            return self.sp.static[e.id]
        if isinstance(e, ast.Constant) and isinstance(e.value, (str, bool)):
            return e.value
        if isinstance(e, ast.Attribute):
            return ast.unparse(e)
        if isinstance(e, ast.Call) and isinstance(e.func, ast.Attribute) and e.func.attr == "lower" and not e.args:
            v = self.sym(e.func.value)
            return v.lower() if isinstance(v, str) else None
        return None

    def decide(self, t):
        if isinstance(t, ast.Name) and t.id in self.sp.static and isinstance(self.sp.static[t.id], bool):
            return self.sp.static[t.id]
        if isinstance(t, ast.Name) and isinstance(self.consts.get(t.id), bool):
            return self.consts[t.id]
        if isinstance(t, ast.Constant) and isinstance(t.value, bool):
            return t.value
        if isinstance(t, ast.UnaryOp) and isinstance(t.op, ast.Not):
            v = self.decide(t.operand)
            return None if v is None else not v
        if isinstance(t, ast.BoolOp):
            vs = [self.decide(v) for v in t.values]
            if isinstance(t.op, ast.And):
                return False if any(v is False for v in vs) else (True if all(v is True for v in vs) else None)
            return True if any(v is True for v in vs) else (False if all(v is False for v in vs) else None)
        if isinstance(t, ast.Compare) and len(t.ops) == 1 and isinstance(t.ops[0], (ast.Is, ast.IsNot, ast.Eq, ast.NotEq)):
            involves_static = any(isinstance(x, ast.Name) and x.id in self.sp.static for x in ast.walk(t))
            a, b = self.sym(t.left), self.sym(t.comparators[0])
            if involves_static and a is not None and b is not None:
                eq = (a == b)
                return eq if isinstance(t.ops[0], (ast.Is, ast.Eq)) else not eq
        return None

    def stmts(self, body):
        out = []
        for st in body:
            if isinstance(st, ast.If):
                v = self.decide(st.test)
                if v is not None:
                    out += self.stmts(st.body if v else st.orelse)
                    if out and isinstance(out[-1], (ast.Return, ast.Raise)):
                        break
                    continue
                st = ast.If(test=self.visit(st.test), body=self.stmts(st.body), orelse=self.stmts(st.orelse))
                out.append(ast.fix_missing_locations(st))
                continue
            if isinstance(st, ast.With):
                out += self.stmts(st.body)
                if out and isinstance(out[-1], (ast.Return, ast.Raise)):
                    break
                continue
            if isinstance(st, ast.Assign) and len(st.targets) == 1 and isinstance(st.targets[0], ast.Name):
                n, v = st.targets[0].id, st.value
                if isinstance(v, ast.Constant) and (v.value is None or isinstance(v.value, bool)):
                    self.consts[n] = v.value
                    continue
                if isinstance(v, ast.Name) and v.id in self.sp.known_functions:
                    self.funcs[n] = v.id
                    continue
                self.consts.pop(n, None)
                if isinstance(v, ast.Name) and (v.id in self.sp.objects or v.id in self.alias):
                    self.alias[n] = self.alias.get(v.id, v.id)
                    continue
                if isinstance(v, ast.Call) and ast.unparse(v.func) == "dict" and not v.args and all(k.arg for k in v.keywords):
                    self.dicts[n] = [(k.arg, self.visit(k.value)) for k in v.keywords]
                    continue
            out.append(self.visit(st))
            if isinstance(st, (ast.Return, ast.Raise)):
                break
        return out

    def visit_Attribute(self, node):
        self.generic_visit(node)
        if isinstance(node.value, ast.Name) and node.value.id in self.alias:
            node.value = ast.Name(id=self.alias[node.value.id], ctx=ast.Load())
        return node

    def visit_Call(self, node):
        self.generic_visit(node)
        # obj.velocity(mode) with a static mode
        if isinstance(node.func, ast.Attribute) and node.func.attr == "velocity" and len(node.args) == 1:
            m = self.sym(node.args[0])
            which = {"c.Mode.L": "longitudinal_vel", "c.Mode.T": "transverse_vel", "c.Mode.longitudinal": "longitudinal_vel", "c.Mode.transverse": "transverse_vel"}.get(m)
            if which:
                return ast.copy_location(ast.Attribute(value=node.func.value, attr=which, ctx=ast.Load()), node)
        if isinstance(node.func, ast.Name) and node.func.id in self.funcs:
            node.func = ast.copy_location(ast.Name(id=self.funcs[node.func.id], ctx=ast.Load()), node.func)
        kws = []
        for k in node.keywords:
            if k.arg is None and isinstance(k.value, ast.Name) and k.value.id in self.dicts:
                kws += [ast.keyword(arg=a, value=v) for a, v in self.dicts[k.value.id]]
            else:
                kws.append(k)
        node.keywords = kws
        return node

    def visit_Name(self, node):
        if isinstance(node.ctx, ast.Load) and node.id in self.consts:
            return ast.copy_location(ast.Constant(value=self.consts[node.id]), node)
        if isinstance(node.ctx, ast.Load) and node.id in self.sp.static and isinstance(self.sp.static[node.id], (bool, str)) \
                and not self.sp.static[node.id].__class__ is str:
            return ast.copy_location(ast.Constant(value=self.sp.static[node.id]), node)
        return node


def specialise(fn, spec):
    import copy as _copy
    fn2 = _copy.deepcopy(fn)
    sp_ = _Specialise(spec)
    fn2.body = sp_.stmts(fn2.body)
    fn2.args.args = [a for a in fn2.args.args if a.arg not in spec.static]
    fn2.args.defaults = []
    return ast.fix_missing_locations(fn2)


def ret_type(t):
    if isinstance(t, tuple) and t[0] == "T":
        return " × ".join(lean_type(x) for x in t[1])
    return lean_type(t)


def find_function(tree, name, which=-1):
    found = [n for n in ast.walk(tree) if isinstance(n, ast.FunctionDef) and n.name == name]
    if not found:
        return None
    found.sort(key=lambda n: n.lineno)
    return found[which]


def translate(specs, src_root: Path, header: str):
    """-> (lean text, notes). Raises TranslateError."""
    registry = {}
    out = [header, "namespace Arim.Src", "set_option linter.unusedVariables false", ""]
    notes = []
    trees = {}
    for sp in specs:
        p = src_root / sp.file
        if sp.file not in trees:
            trees[sp.file] = ast.parse(p.read_text())
        fn = find_function(trees[sp.file], sp.name, sp.which)
        if fn is None:
            raise TranslateError(f"{sp.file}: function {sp.name} not found")
        sp._fn0 = fn
        sp.known_functions = {x.name for x in specs}
        if sp.static:
            fn = specialise(fn, sp)
        sp._fn = fn
        # a decorator changes what the name denotes (a memo hands out shared storage, a wrapper may do anything): only
        # the JIT decorators, which keep the meaning of the body, are read through
        for dec in fn.decorator_list:
            dsrc = ast.unparse(dec)
            if not (dsrc.startswith(("numba.", "njit", "jit", "nb.")) or dsrc in ("staticmethod",)):
                raise TranslateError(f"{sp.file}:{sp.name}: decorator `{dsrc[:60]}` is outside the translated subset "
                                     "(the function is no longer just its body)")
        # python parameters must all be accounted for
        for a in fn.args.args:
            if a.arg not in sp.pyparams and a.arg not in dict(sp.params) and a.arg not in sp.given | sp.absent \
                    and a.arg not in sp.bind and not any(k.startswith(a.arg + ".") for k in sp.bind) \
                    and not (sp.cell and (a.arg in sp.cell["arrays"] or a.arg in sp.cell.get("columns", {}))) and a.arg not in sp.objects:
                raise TranslateError(f"{sp.file}:{sp.name}: parameter {a.arg} has no declared type")
        sp._param_py = {}
        tr = Tr(sp, registry, fn)
        body = tr.run()
        # instance requirements of the translated functions this one calls
        import re as _re
        for sp2 in [v for vs in registry.values() for v in vs]:
            if _re.search(r"(?<![A-Za-z0-9_.])" + _re.escape(sp2.lean) + r"(?![A-Za-z0-9_])", body):
                tr.uses_order = tr.uses_order or sp2._uses_order
                tr.uses_eq = tr.uses_eq or sp2._uses_eq
        sp._uses_order, sp._uses_eq = tr.uses_order, tr.uses_eq
        uses_d = bool(_re.search(r"(?<![A-Za-z0-9_.])d(?![A-Za-z0-9_])", body))
        sp._uses_d = uses_d
        binders = "(o : Ops K)" + (" (d : Arim.Das.Data K D)" if uses_d else "")
        params = " ".join(f"({n} : {lean_type(t)})" for n, t in sp.params)
        doc = f"/-- generated from `{sp.file}`, function `{sp.name}` (line {fn.lineno}){': ' + sp.doc if sp.doc else ''} -/"
        def mentions_d(t):
            return t == D or (isinstance(t, tuple) and any(mentions_d(x) for x in t if not isinstance(x, int)))
        has_d_type = uses_d or any(mentions_d(t) for _, t in sp.params) or mentions_d(sp.ret)
        tyvars = "{K : Type}" + (" {D : Type}" if has_d_type else "")
        out.append(doc)
        rt = "Option (" + ret_type(sp.ret) + ")" if sp.raises else ret_type(sp.ret)
        order = (" [LT K] [DecidableLT K] [LE K] [DecidableLE K]" if tr.uses_order else "") + (" [DecidableEq K]" if tr.uses_eq else "")
        sp._order = order
        out.append(f"def {sp.lean} {tyvars} [Add K] [Sub K] [Mul K] [Div K] [Neg K]{order}\n"
                   f"    {binders} {params} : {rt} :=\n{body}\n")
        registry.setdefault(sp.name, []).append(sp)
        notes += [f"{sp.name}: {n}" for n in tr.notes]
        if sp.cell:
            notes.append(f"{sp.name}: per-cell translation; cell loops " + ", ".join(f"{v} in {r}" for v, r in tr._cell_ranges))
    out.append("end Arim.Src")
    return "\n".join(out) + "\n", notes
