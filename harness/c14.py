"""C14 — ray-geometry caching is transparent for every sequence of queries.

Correspondence: Lean state machine `Arim.RayCache` (wrapper + 17 methods + clears + precompute
+ the query sequences of the model functions) vs a cached `arim.ray.RayGeometry` driven by the
same random history: after every operation the answer classes / error kinds, the set of cache
keys and the set of final keys must coincide with the model.
Oracle (the property itself): every answer equals, bit for bit, the answer of a fresh
uncached object; arrays handed out are read-only and refuse writes.
"""
import numpy as np


def BITS(a):
    """the bytes of an array, whatever its memory layout (a result may legitimately be Fortran-ordered or strided)"""
    return np.ascontiguousarray(np.asarray(a)).view(np.uint8)

import fixtures

METHS = ["leg_points", "orientations_of_legs_points", "inc_leg_size", "inc_leg_cartesian", "inc_leg_radius", "inc_leg_polar",
         "inc_leg_azimuth", "inc_angle", "signed_inc_angle", "conventional_inc_angle", "out_leg_cartesian", "out_leg_radius",
         "out_leg_polar", "out_leg_azimuth", "out_angle", "signed_out_angle", "conventional_out_angle"]


def gen_q(rng, n):
    m = str(rng.choice(METHS))
    r = int(rng.integers(-n - 1, n + 1))
    if rng.random() < 0.25:
        r = int(rng.choice([0, -n, n - 1, -1]))
    return (m, r, bool(rng.integers(0, 2)))


def gen_history(rng, n, length):
    ops = []
    for _ in range(length):
        x = rng.random()
        if x < 0.62:
            ops.append(("q",) + gen_q(rng, n))
        elif x < 0.70:
            ops.append(("ci",))
        elif x < 0.74:
            ops.append(("ca",))
        elif x < 0.82:
            ops.append(("pc", [gen_q(rng, n) for _ in range(int(rng.integers(0, 4)))]))
        elif x < 0.88:
            ops.append(("bs",))
        elif x < 0.91:
            ops.append(("rbs",))
        else:
            # forward / reverse transmission-reflection product with its options (they change the result, not the queries)
            ops.append((str(rng.choice(["tr", "rtr"])), bool(rng.random() < 0.6), str(rng.choice(["stress", "displacement"]))))
    return ops


def enc_q(q):
    return f"{q[0]}:{q[1]}:{1 if q[2] else 0}"


def enc_op(op):
    if op[0] == "q":
        return "q=" + enc_q(op[1:])
    if op[0] == "pc":
        return "pc=" + "+".join(enc_q(q) for q in op[1]) if op[1] else "pc"
    return op[0]


def enc_full(op):
    """for the replay record: the model functions with their options"""
    return enc_op(op) + (f"(force_complex={op[1]},unit={op[2]})" if op[0] in ("tr", "rtr") and len(op) == 3 else "")


def flagc(v):
    return "N" if v is None else ("T" if v else "F")


def cls_of(x):
    return "none" if x is None else "val"


def arrays_of(x):
    from arim import geometry as g

    if x is None:
        return []
    if isinstance(x, np.ndarray):
        return [x]
    if isinstance(x, g.Points):
        return [x.coords]
    return [a for y in x for a in arrays_of(y)]


def same_value(a, b):
    A, B = arrays_of(a), arrays_of(b)
    if (a is None) != (b is None) or len(A) != len(B):
        return False
    return all(x.shape == y.shape and x.dtype == y.dtype and np.array_equal(BITS(x), BITS(y)) for x, y in zip(A, B))


def call(fn):
    try:
        return "ok", fn()
    except IndexError:
        return "eIndex", None
    except ValueError:
        return "eValue", None
    except Exception as e:  # any other exception kind is reported under its own name
        return "e" + type(e).__name__, None


def run_history(ctx, path, ops, cj):
    """returns the per-op observation strings (same format as the driver)"""
    from arim import model, ray

    rg = ray.RayGeometry.from_path(path, use_cache=True)
    obs = []

    def fresh():
        return ray.RayGeometry.from_path(path, use_cache=False)

    def do_query(q):
        m, r, fin = q
        # the index as callers spell it: a Python int, or (one query in five) a 0-d integer array / NumPy scalar taken from an index array
        r_model = r
        sel = (abs(r) * 3 + len(m) + len(obs)) % 10
        r = np.array(r_model) if sel == 0 else (np.int64(r_model) if sel == 1 else r_model)
        st, val = call(lambda: getattr(rg, m)(r, is_final=fin))
        st0, val0 = call(lambda: getattr(fresh(), m)(r))
        if st != st0 or (st == "ok" and not same_value(val, val0)):
            ctx.violate(f"{m}({r!r}) after this history answers {st if st != 'ok' else cls_of(val)}, a fresh uncached object answers {st0 if st0 != 'ok' else cls_of(val0)}"
                        + ("" if st != st0 else " with different values"), cj, {"kind": "transparency", "method": m, "index_is_minus_n": r_model == -path.numinterfaces})
        if st == "ok":
            for a in arrays_of(val):
                if a.flags.writeable:
                    ctx.violate(f"{m}({r}) hands out a writeable array", cj, {"kind": "readonly"})
                else:
                    try:
                        a[...] = 0
                        ctx.violate(f"{m}({r}): write into a cached array succeeded", cj, {"kind": "readonly"})
                    except ValueError:
                        pass
            return cls_of(val)
        return st

    def do_queries(qs):
        out = []
        for q in qs:
            a = do_query(q)
            out.append(a)
            if a.startswith("e"):
                break
        return out

    for op in ops:
        if op[0] == "q":
            ans = [do_query(op[1:])]
        elif op[0] == "ci":
            rg.clear_intermediate_results()
            ans = []
        elif op[0] == "ca":
            rg.clear_all_results()
            ans = []
        elif op[0] == "pc":
            ans = []
            try:
                with rg.precompute():
                    for q in op[1]:
                        a = do_query(q)
                        ans.append(a)
                        if a.startswith("e"):
                            raise RuntimeError(a)
            except RuntimeError:
                pass
        else:
            opt = dict(force_complex=op[1], unit=op[2]) if len(op) == 3 else {}
            fn = {"bs": lambda g_: model.beamspread_2d_for_path(g_), "rbs": lambda g_: model.reverse_beamspread_2d_for_path(g_),
                  "tr": lambda g_: model.transmission_reflection_for_path(path, g_, **opt),
                  "rtr": lambda g_: model.reverse_transmission_reflection_for_path(path, g_, **opt)}[op[0]]
            with np.errstate(all="ignore"):
                st, val = call(lambda: fn(rg))
                st0, val0 = call(lambda: fn(fresh()))
            if st != st0 or (st == "ok" and not same_value(val, val0)):
                ctx.violate(f"{op[0]}{opt or ''} on the cached object differs from a fresh uncached object"
                            + (f" (dtype {arrays_of(val)[0].dtype} vs {arrays_of(val0)[0].dtype})" if st == st0 == "ok" and arrays_of(val) and arrays_of(val0) else ""), cj, {"kind": "transparency_model_function"})
            ans = None  # the individual answers are not observable; compare the state only
        keys = sorted(rg._cache.keys())
        finals = sorted(rg._final_keys)
        obs.append((ans, ",".join(keys), ",".join(finals)))
    return obs


def compare(ctx, obs, answer, cj):
    if not answer.startswith("ok "):
        ctx.disagree("model rejected the history: " + answer, cj)
        return
    parts = answer[3:].split(";")
    if len(parts) != len(obs):
        ctx.disagree("model answered a different number of steps", cj)
        return
    for k, ((ans, keys, finals), p) in enumerate(zip(obs, parts)):
        ma, mk, mf = p.split("|")
        if ans is not None and "+".join(ans) != ma:
            ctx.disagree(f"op {k}: answers {ans} vs model {ma}", {**cj, "op_index": k})
            return
        if ans is None and ("eValue" in ma or "eIndex" in ma):
            pass
        if keys != mk or finals != mf:
            ctx.disagree(f"op {k}: cache keys/final keys differ from the model: impl [{keys}] / [{finals}] model [{mk}] / [{mf}]", {**cj, "op_index": k})
            return


def one_case(ctx, rng, length):
    n = int(rng.integers(2, 6))
    flags = None
    if rng.random() < 0.35:
        # some undeclared normal sides, to reach the ValueError branches
        flags = [(None if rng.random() < 0.3 else bool(rng.integers(0, 2)), None if rng.random() < 0.3 else bool(rng.integers(0, 2))) for _ in range(n)]
    path = fixtures.generic_path(rng, n, flags=flags)
    ops = gen_history(rng, n, length)
    inc = "".join(flagc(i.are_normals_on_inc_rays_side) for i in path.interfaces)
    out = "".join(flagc(i.are_normals_on_out_rays_side) for i in path.interfaces)
    line = f"rgcache {n} {inc} {out} 0 " + " ".join(enc_op(o) for o in ops)
    cj = {"numinterfaces": n, "inc_flags": inc, "out_flags": out, "ops": [enc_full(o) for o in ops]}
    nv = len(ctx.violations)
    obs = run_history(ctx, path, ops, cj)
    if len(ctx.violations) > nv and len(ops) > 1:
        # shrink the failing history: delete operations while a fresh cached object still disagrees with an uncached one
        from common import ProbeCtx, shrink_ops

        def fails(sub):
            pc = ProbeCtx(ctx)
            run_history(pc, path, sub, {})
            return bool(pc.violations)
        small = shrink_ops(ops, fails)
        pc = ProbeCtx(ctx)
        cjs = {"numinterfaces": n, "inc_flags": inc, "out_flags": out, "ops": [enc_full(o) for o in small], "shrunk_from": len(ops)}
        run_history(pc, path, small, cjs)
        if pc.violations:
            v = pc.violations[0]
            ctx.violations.insert(0, {"what": v["what"] + f" [history shrunk from {len(ops)} to {len(small)} operations]", "case": cjs, "tags": v["tags"]})
    return line, obs, cj, ops


def check_cache_helpers(ctx):
    """`arim.helpers.Cache` is a dict that counts hits and misses; `NoCache` looks like one and retains nothing (an object
    built with `use_cache=False` relies on that to be the uncached reference of this property)"""
    import warnings

    from arim.helpers import Cache, NoCache

    rng = ctx.rng
    for it in range(10 * ctx.scale):
        c, ref, hits, misses = Cache(), {}, 0, 0
        n = NoCache()
        ops = []
        for _ in range(int(rng.integers(5, 40))):
            k = ("m" + str(int(rng.integers(0, 4))), int(rng.integers(0, 3)))
            u = rng.random()
            ops.append((k, round(float(u), 2)))
            if u < 0.35:
                v = float(rng.normal())
                with warnings.catch_warnings():
                    warnings.simplefilter("ignore")     # re-assigning a cached key warns; the new value is stored
                    c[k] = v
                n[k] = v
                ref[k] = v
            elif u < 0.7:
                try:
                    got = c[k]
                    hits += 1
                    ok = k in ref and got == ref[k]
                except KeyError:
                    misses += 1
                    ok = k not in ref
                if not ok:
                    ctx.violate("Cache[key] does not return the stored value / does not raise KeyError for a key never stored", {"op": "cache_helper", "ops": ops}, {"kind": "cache_helper"})
                    break
            elif u < 0.9:
                got = c.get(k, None)
                if got is None:
                    misses += 1
                else:
                    hits += 1
                if got != ref.get(k):
                    ctx.violate("Cache.get does not return the stored value", {"op": "cache_helper", "ops": ops}, {"kind": "cache_helper"})
                    break
            else:
                c.clear()
                ref, hits, misses = {}, 0, 0
            if (len(c), c.hits, c.misses) != (len(ref), hits, misses) or set(c.keys()) != set(ref):
                ctx.violate(f"Cache bookkeeping (len, hits, misses) = {(len(c), c.hits, c.misses)} after a history whose true counts are {(len(ref), hits, misses)}",
                            {"op": "cache_helper", "ops": ops}, {"kind": "cache_helper"})
                break
            if len(n) != 0 or k in n:
                ctx.violate("NoCache retained a value", {"op": "cache_helper", "ops": ops}, {"kind": "cache_helper"})
                break
        ctx.case(("cachehelper", it), True)
    ctx.count("cache_helper_histories", 10 * ctx.scale)


def run(ctx):
    check_cache_helpers(ctx)
    rng = ctx.rng
    ctx.rule = ("random histories (length <= 40 quick, <= 200 thorough) over the 17 query methods with raw indices in [-n-1, n], both is_final values, "
                "clear_intermediate_results, clear_all_results, precompute blocks, beamspread / reverse beamspread / transmission-reflection calls, "
                "paths with 2-5 interfaces, 35% with undeclared normal sides; distinct = distinct request line; non-trivial = at least 3 operations")
    ncases = 150 * ctx.scale
    maxlen = 40 if ctx.tier == "quick" else 200
    runs = [one_case(ctx, rng, int(rng.integers(1, maxlen + 1))) for _ in range(ncases)]
    lines = [r[0] for r in runs]
    answers = ctx.drive(lines) if ctx.lean.driver_ok and not ctx.oracle_only else [None] * ncases
    for (line, obs, cj, ops), a in zip(runs, answers):
        ctx.case(line, len(ops) >= 3, sample={"line": line[:400]} if 3 <= len(ops) <= 8 else None)
        for o in ops:
            ctx.count("op:" + o[0])
        ctx.count(f"n={cj['numinterfaces']}")
        if a is not None:
            compare(ctx, obs, a, cj)
    ctx.assumptions.append("values are compared with a fresh uncached RayGeometry bit for bit; the model carries answer classes, error kinds, cache keys and final keys")


def search(ctx):
    ctx.oracle_only = True
    ctx.rng = np.random.Generator(np.random.PCG64(ctx.seed + 7919))
    old = ctx.scale
    ctx.scale = max(3, 2 * old)
    try:
        run(ctx)
    finally:
        ctx.scale = old
