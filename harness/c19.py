"""C19 — front-wall registration recovers the true probe standoff and tilt.

Correspondence: Lean `Arim.Reg` (pulse-echo selection, closed-form least squares, rotate then
translate, detect_surface_from_extrema) on doubles vs `move_probe_over_flat_surface`,
`find_probe_loc_from_frontwall`, `detect_surface_from_extrema`.
Oracle: after the call every element lies below z = 0 at exactly its measured distance and the
reported (z_o, theta) equal the generating pose, whatever the order of the timetraces and the
values on non-pulse-echo timetraces; the surface time is the time of the largest |sample| in
the window.
"""
import numpy as np

import fixtures
from common import b2f, f2b, fl


def make_pose(rng, reuse=None):
    """`reuse`: a probe that already went through a registration (it was read, moved, tilted); the next registration of
    the same object, after choosing another reference element and putting it back on the global frame, must be as exact
    as the first one"""
    import arim

    if reuse is not None:
        probe, numel = reuse, reuse.numelements
        _ = probe.locations_pcs, probe.orientations_pcs     # what a user (or a previous registration) has looked at
    else:
        numel = int(rng.integers(2, 9))
        pitch = float(rng.choice([-1, 1]) * rng.uniform(0.3e-3, 1.5e-3))
        probe = arim.Probe.make_matrix_probe(numel, pitch, 1, np.nan, 5e6)
    ref = rng.choice(["first", "last", "mean", "idx"])
    refarg = str(ref) if ref != "idx" else int(rng.integers(0, numel))
    probe.set_reference_element(refarg)
    probe.translate_to_point_O()
    probe.reset_position()
    theta = float(np.deg2rad(rng.uniform(-44, 44)))
    standoff = float(rng.uniform(5e-3, 60e-3))
    return probe, numel, theta, standoff, refarg


def true_distances(probe, theta, standoff):
    """elements on Ox (PCS = GCS); after rotation by theta about Oy and translation to z = -standoff
    the distance of element k to the plane z = 0 is standoff + x_k sin(theta)"""
    x = probe.locations.x
    return standoff + x * np.sin(theta)


def run(ctx):
    fixtures.check_time_objects(ctx)
    import arim
    from arim import measurement

    rng = ctx.rng
    ctx.rule = ("linear probes with 2-8 elements, positive or negative pitch, reference element first/last/mean/index, tilts in (-44, 44) deg, standoffs 5-60 mm, "
                "FMC or HMC frames in random timetrace order, garbage on non-pulse-echo timetraces, up to numel-2 dead elements; time windows for the surface detection; "
                "distinct = distinct pose/frame; non-trivial = at least 3 elements or a dead element")
    lines, meta = [], []
    last_probe = None
    for _ in range(80 * ctx.scale):
        reuse = last_probe if (last_probe is not None and rng.random() < 0.4) else None
        probe, numel, theta, standoff, refarg = make_pose(rng, reuse)
        if reuse is not None:
            ctx.count("same_probe_registered_again")
            refarg = f"{refarg} (same probe object as the previous registration)"
        d_el = true_distances(probe, theta, standoff)
        if np.any(d_el <= 0):
            last_probe = None
            continue
        tx, rx = fixtures.pairs(rng, numel, str(rng.choice(["fmc", "hmc"])))
        perm = rng.permutation(len(tx))
        tx, rx = tx[perm], rx[perm]
        dead = np.zeros(numel, dtype=bool)
        if numel >= 4 and rng.random() < 0.4:
            dead[rng.permutation(numel)[: int(rng.integers(1, numel - 2))]] = True
        how_dead = "attribute"
        if reuse is None and rng.random() < 0.6:
            # the dead elements declared where the library documents it, at construction, as per-element flags in the containers
            # acquisition files use: booleans, 0/1 integers (uint8, int64), a plain list
            how_dead = ["bool array", "uint8 flags", "int64 flags", "list of 0/1", "list of bools"][int(rng.integers(0, 5))]
            flags = {"bool array": dead.copy(), "uint8 flags": dead.astype(np.uint8), "int64 flags": dead.astype(np.int64),
                     "list of 0/1": [int(b) for b in dead], "list of bools": [bool(b) for b in dead]}[how_dead]
            probe = arim.Probe(probe.locations.coords.copy(), probe.frequency, orientations=None if probe.orientations is None else probe.orientations.coords.copy(),
                               dead_elements=flags, pcs=probe.pcs.copy())
        else:
            probe.dead_elements = dead
        ctx.count("dead_elements_given_as:" + how_dead)
        # whatever values on the timetraces the registration does not use (non-pulse-echo, dead elements): positive,
        # negative, sentinels, NaN, huge
        def garbage():
            kind = int(rng.integers(0, 5))
            g_ = [rng.uniform(0, 1, size=len(tx)), rng.uniform(-1, 1, size=len(tx)), np.full(len(tx), -1.0), np.full(len(tx), np.nan),
                  rng.choice([1e30, -1e30, 0.0], size=len(tx))][kind]
            ctx.count(f"garbage_kind={kind}")
            return g_
        dist = np.where(tx == rx, d_el[tx], garbage())
        dist = np.where(dead[tx] | dead[rx], garbage(), dist)
        x0 = probe.locations.x.copy()
        fr = fixtures.make_frame(np.zeros((len(tx), 4)), 0.0, 1e-8, tx, rx, probe, None)
        cj = {"op": "move_probe_over_flat_surface", "numel": numel, "x": x0.tolist(), "theta": theta, "standoff": standoff, "tx": tx.tolist(), "rx": rx.tolist(),
              "dist": dist.tolist(), "dead": dead.tolist(), "dead_elements_given_as": how_dead, "reference": refarg}
        try:
            fr2, iso = measurement.move_probe_over_flat_surface(fr, dist.copy(), full_output=True)
        except Exception as e:
            ctx.violate(f"move_probe_over_flat_surface raised {type(e).__name__}: {e}", cj, {"kind": "raises"})
            continue
        last_probe = fr2.probe
        loc = fr2.probe.locations.coords
        ctx.case(("reg", x0.tobytes(), theta, standoff, tx.tobytes(), dead.tobytes()), numel >= 3 or dead.any(), sample={k: cj[k] for k in ("numel", "theta", "standoff", "reference")})
        ctx.count(f"numel={numel}")
        ctx.count("dead" if dead.any() else "alldead-free")
        tol = 1e-11 * (standoff + np.abs(x0).max())
        ok = (np.all(np.abs(-loc[:, 2] - d_el) <= tol) and np.all(np.abs(loc[:, 1]) <= tol) and np.all(loc[:, 2] < 0)
              and abs(iso.theta - theta) <= 1e-9 and abs(-iso.z_o - standoff) <= tol)
        if not ok:
            ctx.violate(f"registration: elements at z={loc[:, 2].tolist()} but measured distances {d_el.tolist()}; reported (z_o, theta)=({iso.z_o}, {iso.theta}), pose ({-standoff}, {theta})",
                        cj, {"kind": "registration"})
        lines.append(f"register {fl(x0)} {''.join('1' if b else '0' for b in dead)} " + ",".join(f"{a}:{b}:{f2b(d)}" for a, b, d in zip(tx, rx, dist)))
        meta.append(("reg", (iso.z_o, np.sin(iso.theta), loc[:, [0, 2]]), cj, standoff + np.abs(x0).max()))
    # end-to-end through the echo times
    for _ in range(15 * ctx.scale):
        probe, numel, theta, standoff, refarg = make_pose(rng)
        d_el = true_distances(probe, theta, standoff)
        if np.any(d_el <= 1e-3):
            continue
        c = 1480.0
        capture = ["fmc", "hmc", "hmc_expanded"][int(rng.integers(0, 3))]
        tx, rx = fixtures.pairs(rng, numel, capture[:3])
        order = ["canonical", "rx_major", "shuffled"][int(rng.integers(0, 3))]
        o_ = {"canonical": np.arange(len(tx)), "rx_major": np.lexsort((tx, rx)), "shuffled": rng.permutation(len(tx))}[order]
        tx, rx = tx[o_], rx[o_]
        ctx.count("frontwall_capture:" + capture + "/" + order)
        dt, ns = 2e-8, 6000
        tt = rng.normal(size=(len(tx), ns)) * 0.05
        for k, (i, j) in enumerate(zip(tx, rx)):
            if i == j:
                tt[k, int(round(2 * d_el[i] / c / dt))] = 3.0 * rng.choice([-1, 1])
        # stronger signals outside the front-wall echo, to be excluded by the time window the caller gives: the excitation
        # breakthrough before the echoes, a later (back-wall) echo after them; each bound of the window is optional on its own
        t_echo = 2 * d_el / c
        t_before, t_after = float(t_echo.min() - 40 * dt), float(t_echo.max() + 40 * dt)
        variant = ["none", "tmin", "tmax", "both"][_ % 4]
        if variant in ("tmin", "both") and t_before > 30 * dt:
            tt[:, int(rng.integers(1, int(t_before / dt) - 10))] = 9.0
        if variant in ("tmax", "both"):
            tt[:, int(rng.integers(int(t_after / dt) + 10, ns - 1))] = -9.0
        kw_win = {"none": {}, "tmin": {"tmin": t_before}, "tmax": {"tmax": t_after}, "both": {"tmin": t_before, "tmax": t_after}}[variant]
        if variant in ("tmin", "both") and t_before <= 30 * dt:
            kw_win, variant = {}, "none"
            tt[np.abs(tt) > 8] = 0.0
        t_start = 0.0
        if variant == "none" and _ % 8 == 0:
            # pre-trigger samples and a window bound exactly at the trigger (0.0): the breakthrough before zero is excluded
            npre = 200
            tt = np.concatenate([rng.normal(size=(len(tx), npre)) * 0.05, tt], axis=1)
            tt[:, int(rng.integers(5, npre - 5))] = 9.0
            t_start, kw_win, variant = -npre * dt, {"tmin": [0.0, 0, -0.0][int(rng.integers(0, 3))]}, "tmin_exactly_zero"
        ctx.count("frontwall_window:" + variant)
        fr = fixtures.make_frame(tt, t_start, dt, tx, rx, probe, None)
        couplant = arim.Material(c, density=1000.0, state_of_matter="liquid")
        try:
            if capture == "hmc_expanded":
                # as the library's own immersion example does: the half matrix (in whatever order it was recorded) is expanded
                # by reciprocity first, then registered
                fr = fr.expand_frame_assuming_reciprocity()
            z, th, times = measurement.find_probe_loc_from_frontwall(fr, couplant, **kw_win)
        except Exception as e:
            ctx.violate(f"find_probe_loc_from_frontwall({sorted(kw_win)}) raised {type(e).__name__}: {str(e)[:80]}",
                        {"op": "find_probe_loc_from_frontwall", "numel": numel, "theta": theta, "standoff": standoff, "window": kw_win}, {"kind": "frontwall"})
            continue
        loc = fr.probe.locations.coords
        cj = {"op": "find_probe_loc_from_frontwall", "numel": numel, "theta": theta, "standoff": standoff, "window": kw_win, "capture": capture,
              "tx": [int(a) for a in tx], "rx": [int(b) for b in rx]}
        ctx.case(("e2e", numel, theta, standoff), True)
        # sampling of the echo time limits the accuracy to c dt / 2 per element
        if not (np.all(np.abs(-loc[:, 2] - d_el) <= 2 * c * dt) and abs(th - theta) <= 0.05 and abs(-z - standoff) <= 4 * c * dt):
            ctx.violate("find_probe_loc_from_frontwall does not recover the pose from the pulse-echo front-wall times", cj, {"kind": "frontwall"})
    # surface detection
    for _ in range(60 * ctx.scale):
        ns = int(rng.integers(3, 40))
        t0, dt = float(rng.uniform(-1e-6, 1e-6)), float(rng.uniform(1e-8, 1e-7))
        tr = rng.integers(-5, 6, size=(2, ns)).astype(float) if rng.random() < 0.5 else rng.normal(size=(2, ns))
        fr = fixtures.make_frame(tr, t0, dt, [0, 0], [0, 1], None, None)
        smp = fr.time.samples
        tmin = None if rng.random() < 0.3 else float(rng.choice(smp) + rng.choice([0, 0, dt / 3, -dt / 3]))
        tmax = None if rng.random() < 0.3 else float(rng.choice(smp) + rng.choice([0, 0, dt / 3, -dt / 3]))
        # limits outside the recorded interval (a window may start before the record or end after it)
        dur = float(smp[-1] - smp[0]) + dt
        u = rng.random()
        if u < 0.2:
            tmin = float(smp[0] - rng.uniform(0.05, 0.95) * dur)
            ctx.count("detect:tmin_before_record")
        elif u < 0.3:
            tmin = float(smp[0] - rng.uniform(2, 50) * dur)
            ctx.count("detect:tmin_far_before_record")
        v = rng.random()
        if v < 0.2:
            tmax = float(smp[-1] + rng.uniform(0.05, 0.95) * dur)
            ctx.count("detect:tmax_after_record")
        elif v < 0.25:
            tmax = float(smp[-1] + rng.uniform(2, 50) * dur)
        # limits that are exactly zero (0.0, -0.0, integer 0) on a record with pre-trigger samples, the largest sample lying
        # on the excluded side: zero is a time like any other
        z = rng.random()
        if z < 0.25 and ns >= 4:
            k0 = int(rng.integers(1, ns - 1))
            t0z = -k0 * dt
            fr = fixtures.make_frame(tr, t0z, dt, [0, 0], [0, 1], None, None)
            smp = fr.time.samples
            zero = [0.0, -0.0, 0][int(rng.integers(0, 3))]
            if rng.random() < 0.5:
                tmin, tmax = zero, (None if rng.random() < 0.5 else float(smp[-1]))
                tr[:, int(rng.integers(0, k0))] = 50.0 * rng.choice([-1, 1])     # breakthrough before time zero
            else:
                tmin, tmax = (None if rng.random() < 0.5 else float(smp[0])), zero
                tr[:, int(rng.integers(k0 + 1, ns))] = 50.0 * rng.choice([-1, 1])
            fr = fixtures.make_frame(tr, t0z, dt, [0, 0], [0, 1], None, None)
            ctx.count("detect:limit_exactly_zero")
        cj = {"op": "detect_surface_from_extrema", "samples": smp.tolist(), "trace": tr.tolist(), "tmin": tmin, "tmax": tmax}
        sel = np.ones(ns, dtype=bool)
        if tmin is not None:
            sel &= smp >= tmin
        if tmax is not None:
            sel &= smp <= tmax
        ctx.case(("det", smp.tobytes(), tr.tobytes(), tmin, tmax), sel.sum() >= 2)
        if sel.sum() == 0:
            continue
        try:
            got = measurement.detect_surface_from_extrema(fr, tmin, tmax)
        except Exception as e:   # the window contains samples: the call must succeed
            ctx.violate(f"detect_surface_from_extrema raises {type(e).__name__} although {int(sel.sum())} samples lie in the window [{tmin}, {tmax}]", cj, {"kind": "detect"})
            continue
        for k in range(2):
            w = np.abs(tr[k][sel])
            want = smp[sel][int(np.argmax(w))]
            if got[k] != want and not (np.abs(tr[k][np.searchsorted(smp, got[k])]) == w.max() and sel[np.searchsorted(smp, got[k])]):
                ctx.violate(f"detect_surface_from_extrema gives {got[k]}, the largest |sample| in the window is at {want}", cj, {"kind": "detect"})
            enc = lambda v: "-" if v is None else str(f2b(v))
            lines.append(f"detect {fl(smp)} {fl(tr[k])} {enc(tmin)} {enc(tmax)}")
            meta.append(("det", float(got[k]), cj, 1.0))
    answers = ctx.drive(lines) if ctx.lean.driver_ok and not ctx.oracle_only else []
    for (what, val, cj, scale), a in zip(meta, answers):
        if what == "reg":
            z0, s1, xz = val
            if not a.startswith("ok ") or a == "ok E":
                ctx.disagree("model rejected the registration: " + a, cj)
                continue
            mz, ms, mp = a[3:].split("|")
            mxz = np.array([[b2f(v) for v in t.split(":")] for t in mp.split(",")])
            if not (abs(b2f(mz) - z0) <= 1e-10 * scale and abs(b2f(ms) - s1) <= 1e-10 and np.all(np.abs(mxz - xz) <= 1e-10 * scale)):
                ctx.disagree("registration differs from the model", cj)
        else:
            if not a.startswith("ok ") or a == "ok N" or np.float64(b2f(a[3:])).view(np.uint64) != np.float64(val).view(np.uint64):
                ctx.disagree(f"detect_surface_from_extrema {val} differs from the model {a}", cj)
    ctx.assumptions.append("np.polyfit is an external least-squares routine (compared with the closed form to 1e-10); arcsin/cos/sin are libm")


def search(ctx):
    ctx.oracle_only = True
    ctx.rng = np.random.Generator(np.random.PCG64(ctx.seed + 7919))
    old = ctx.scale
    ctx.scale = max(3, 2 * old)
    try:
        run(ctx)
    finally:
        ctx.scale = old
