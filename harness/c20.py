"""C20 — configuration merging and file loading are deterministic and lossless.

Correspondence: Lean `Arim.Config` (merge, loadConf = fold over the fragments sorted by file
name) vs `Config.merge` and `load_conf` on generated directories, with the directory
enumeration substituted from outside (every permutation of the listing).
Oracle: independent recursive merge in sorted order; field-by-field comparison of objects built
from configurations; BRAIN .mat round trip.
"""
import itertools
import pathlib
import shutil

import numpy as np

from common import CACHE

KEYS = ["a", "b", "c", "d", "e"]


def gen_tree(rng, depth=0):
    """nested mapping with string leaves"""
    d = {}
    for k in rng.permutation(KEYS)[: int(rng.integers(0, 4))]:
        if depth < 2 and rng.random() < 0.4:
            d[str(k)] = gen_tree(rng, depth + 1)
        else:
            u = rng.random()
            # leaves of every YAML scalar kind: mostly strings, but also null, numbers, booleans, lists (a list is a leaf for the merge)
            if u < 0.6:
                d[str(k)] = "v" + str(int(rng.integers(0, 50)))
            elif u < 0.72:
                d[str(k)] = None
            elif u < 0.8:
                d[str(k)] = int(rng.integers(-3, 4))
            elif u < 0.86:
                d[str(k)] = float(rng.integers(-8, 9)) / 4
            elif u < 0.92:
                d[str(k)] = bool(rng.integers(0, 2))
            else:
                d[str(k)] = [int(v) for v in rng.integers(0, 9, size=int(rng.integers(0, 3)))]
    return d


def tok(v):
    """a leaf value as the opaque token the model carries (the merge never looks inside a leaf)"""
    if isinstance(v, str):
        return v
    if v is None:
        return "~"
    if isinstance(v, bool):
        return "!T" if v else "!F"
    if isinstance(v, (int, float)):
        return "#" + repr(v)
    if isinstance(v, (list, tuple)):
        return "@" + "|".join(tok(x) for x in v)
    raise TypeError(type(v))


def tok_tree(t):
    return {k: tok_tree(v) for k, v in t.items()} if isinstance(t, dict) else tok(t)


def enc(t):
    if isinstance(t, dict):
        return "(" + ";".join(f"{k}={enc(v)}" for k, v in t.items()) + ")"
    return "'" + tok(t)


def dec(s):
    pos = 0

    def parse():
        nonlocal pos
        if s[pos] == "'":
            j = pos + 1
            while j < len(s) and s[j] not in ";)":
                j += 1
            v = s[pos + 1: j]
            pos = j
            return v
        assert s[pos] == "("
        pos += 1
        d = {}
        while s[pos] != ")":
            j = s.index("=", pos)
            k = s[pos:j]
            pos = j + 1
            d[k] = parse()
            if s[pos] == ";":
                pos += 1
        pos += 1
        return d

    return parse()


def ref_merge(base, top):
    """independent statement of the documented merge: later wins key by key, mappings merge"""
    out = dict(base)
    for k, v in top.items():
        if k in out and isinstance(out[k], dict) and isinstance(v, dict):
            out[k] = ref_merge(out[k], v)
        else:
            out[k] = v
    return out


def plain(c):
    return {k: plain(v) for k, v in c.items()} if isinstance(c, dict) else c


def check_merge(ctx):
    import copy

    from arim import config

    rng = ctx.rng
    cases = [(gen_tree(rng), gen_tree(rng)) for _ in range(300 * ctx.scale)]
    lines = [f"merge {enc(a)} {enc(b)}" for a, b in cases]
    answers = ctx.drive(lines) if ctx.lean.driver_ok and not ctx.oracle_only else [None] * len(cases)
    for (a, b), ans in zip(cases, answers):
        c = config.Config(copy.deepcopy(a))
        c.merge(copy.deepcopy(b))
        got = plain(c)
        cj = {"op": "merge", "base": a, "top": b}
        ctx.case(("merge", enc(a), enc(b)), bool(set(a) & set(b)), sample=cj if set(a) & set(b) else None)
        if ans is not None and (not ans.startswith("ok ") or dec(ans[3:]) != tok_tree(got)):
            ctx.disagree(f"Config.merge gives {got}, model {ans}", cj)
        if got != ref_merge(a, b):
            ctx.violate("merge is not the recursive update (later wins, mappings merged, untouched keys survive)", cj, {"kind": "merge"})
        c2 = config.Config(copy.deepcopy(got))
        c2.merge(copy.deepcopy(b))
        if plain(c2) != got:
            ctx.violate("merge is not idempotent", cj, {"kind": "idempotent"})
        c3 = config.Config(copy.deepcopy(a))
        c3.merge(None)
        if plain(c3) != a:
            ctx.violate("merge(None) changed the configuration", cj, {"kind": "merge_none"})


class glob_order:
    """make Path.glob('conf.d/*.yaml') return its results in a chosen order"""

    def __init__(self, names):
        self.names = names

    def __enter__(self):
        self.old = pathlib.Path.glob
        names = self.names
        old = self.old

        def glob(self_path, pattern, *a, **k):
            res = list(old(self_path, pattern, *a, **k))
            if pattern == "conf.d/*.yaml":
                by = {p.name: p for p in res}
                assert sorted(by) == sorted(names), (sorted(by), sorted(names))
                return iter([by[n] for n in names])
            return iter(res)

        pathlib.Path.glob = glob
        return self

    def __exit__(self, *exc):
        pathlib.Path.glob = self.old
        return False


NAME_POOL = ["10_a", "9_b", "05_z", "30_c", "20_b", "a", "B", "a_b", "a.b", "zz", "00", "1", "Z1"]


def strip_extra(c):
    d = plain(c)
    for k in ("dataset_name", "root_dir", "result_dir"):
        d.pop(k, None)
    return d


def check_load_conf(ctx):
    import yaml

    from arim.io import native

    rng = ctx.rng
    root = CACHE / f"c20-{ctx.seed}-{ctx.tier}"
    shutil.rmtree(root, ignore_errors=True)
    ndirs = 40 * ctx.scale
    jobs = []
    for d in range(ndirs):
        nfrag = int(rng.integers(0, 6))
        names = [str(n) + ".yaml" for n in rng.permutation(NAME_POOL)[:nfrag]]
        base = gen_tree(rng) if rng.random() < 0.85 else None
        frags = {n: gen_tree(rng) for n in names}
        ddir = root / f"d{d}.arim"
        (ddir / "conf.d").mkdir(parents=True)
        if base is not None:
            (ddir / "conf.yaml").write_text(yaml.safe_dump(base))
        # creation order on the real file system is random too
        for n in rng.permutation(names):
            (ddir / "conf.d" / str(n)).write_text(yaml.safe_dump(frags[str(n)]) if frags[str(n)] else "{}\n")
        jobs.append((ddir, base or {}, frags, names))
    lines = []
    for ddir, base, frags, names in jobs:
        lines.append("loadconf " + enc(base) + "".join(f" {n} {enc(frags[n])}" for n in names))
    answers = ctx.drive(lines) if ctx.lean.driver_ok and not ctx.oracle_only else [None] * len(jobs)
    for (ddir, base, frags, names), ans in zip(jobs, answers):
        want = dict(base)
        for n in sorted(names):
            want = ref_merge(want, frags[n])
        model = dec(ans[3:].split(" ")[0]) if ans is not None and ans.startswith("ok ") else None
        if ans is not None and model is None:
            ctx.disagree("model rejected " + str(ans), {"dir": str(ddir)})
        perms = list(itertools.permutations(names))
        if len(perms) > 24 and ctx.tier == "quick":
            perms = [perms[i] for i in rng.permutation(len(perms))[:24]] + [tuple(sorted(names)), tuple(sorted(names, reverse=True))]
        cj = {"op": "load_conf", "base": base, "fragments": frags}
        ctx.case(("lc", enc(base), tuple((n, enc(frags[n])) for n in sorted(names))), len(names) >= 2,
                 sample={"op": "load_conf", "names": names} if len(names) >= 3 else None)
        ctx.count(f"fragments={len(names)}")
        # the real enumeration order of this file system
        real = strip_extra(native.load_conf(ddir))
        results = {"<fs order>": real}
        for perm in perms:
            with glob_order(list(perm)):
                results[perm] = strip_extra(native.load_conf(ddir))
            ctx.count("listing")
        for order, got in results.items():
            if model is not None and tok_tree(got) != model:
                ctx.disagree(f"load_conf with listing {order} differs from the model", {**cj, "listing": list(order) if order != "<fs order>" else order})
                model_bad = True
            if got != want:
                ctx.violate(f"load_conf depends on the enumeration order of conf.d: listing {order} gives {got}, alphabetical merge is {want}",
                            {**cj, "listing": list(order) if order != "<fs order>" else order}, {"kind": "load_order"})
                break
    shutil.rmtree(root, ignore_errors=True)


def check_load_conf_extras(ctx):
    """what `load_conf` adds to the merged mappings: `dataset_name` (directory name without `.arim`), `root_dir`, `result_dir`
    (the directory itself, or the configured one resolved against it), and the file-path keys (`filename`, `datafile`, at
    any depth, in the base file or in a fragment) made absolute against the directory — and nothing else changed"""
    import pathlib

    import yaml

    from arim.io import native

    rng = ctx.rng
    root = CACHE / f"c20x-{ctx.seed}-{ctx.tier}"
    shutil.rmtree(root, ignore_errors=True)
    for it in range(12 * ctx.scale):
        name = f"set{it}" + (".arim" if it % 2 == 0 else "")
        d = root / name
        (d / "conf.d").mkdir(parents=True)
        (d / "out" / "deep").mkdir(parents=True)
        base = {"frame": {"datafile": "data/a.mat", "instrument_delay": 0}, "scat": {"filename": "s.mat", "kind": "file"}, "other": {"name": "x/y", "file_name": "untouched.txt"}}
        frag = {"frame": {"datafile": "data/b.mat"}, "extra": {"deep": {"filename": "../up.mat"}}}
        use_result = it % 3
        if use_result == 1:
            base["result_dir"] = "out"
        elif use_result == 2:
            frag["result_dir"] = "out/deep"
        (d / "conf.yaml").write_text(yaml.safe_dump(base))
        (d / "conf.d" / "20_f.yaml").write_text(yaml.safe_dump(frag))
        cj = {"op": "load_conf_extras", "dir": name, "base": base, "fragment": frag}
        ctx.case(("lcx", it), True)
        ctx.count("load_conf_extras")
        try:
            c = native.load_conf(d)
            c_raw = native.load_conf(d, filepath_keys=False)
        except Exception as e:
            ctx.violate(f"load_conf raised {type(e).__name__}: {str(e)[:100]}", cj, {"kind": "load_extras"})
            continue
        rd = d.resolve()
        want_result = rd if use_result == 0 else (rd / ("out" if use_result == 1 else "out/deep"))
        ok = (c["dataset_name"] == f"set{it}" and pathlib.Path(c["root_dir"]) == rd and pathlib.Path(c["result_dir"]) == want_result
              and c["frame"]["datafile"] == str(rd / "data/b.mat") and c["scat"]["filename"] == str(rd / "s.mat")
              and c["extra"]["deep"]["filename"] == str(rd / "../up.mat") and c["other"] == base["other"] and c["frame"]["instrument_delay"] == 0
              and c["scat"]["kind"] == "file")
        ok_raw = (c_raw["frame"]["datafile"] == "data/b.mat" and c_raw["scat"]["filename"] == "s.mat" and c_raw["extra"]["deep"]["filename"] == "../up.mat"
                  and c_raw["dataset_name"] == f"set{it}")
        if not ok:
            ctx.violate(f"load_conf: dataset_name / root_dir / result_dir / absolute file paths are not as documented: got dataset_name={c['dataset_name']!r}, "
                        f"result_dir={c['result_dir']}, frame.datafile={c['frame']['datafile']!r}, scat.filename={c['scat']['filename']!r}, other={c['other']}", cj, {"kind": "load_extras"})
        if not ok_raw:
            ctx.violate("load_conf(filepath_keys=False) still rewrites file paths (or loses keys)", cj, {"kind": "load_extras"})
    shutil.rmtree(root, ignore_errors=True)


def check_builders(ctx):
    import arim
    from arim.io import native

    rng = ctx.rng
    for _ in range(60 * ctx.scale):
        numx, numy = int(rng.integers(1, 7)), int(rng.choice([1, 1, 2, 3]))
        pitch_x, pitch_y = float(rng.uniform(-2e-3, 2e-3)) or 1e-3, float(rng.uniform(0.1e-3, 2e-3))
        freq = float(rng.uniform(1e6, 10e6))
        dims = [float(v) for v in rng.uniform(0.1e-3, 1e-3, size=3)]
        conf = {"probe": {"numx": numx, "pitch_x": pitch_x, "numy": numy, "pitch_y": pitch_y, "frequency": freq, "dimensions": dims}}
        cj = {"op": "probe_from_conf", "conf": conf}
        ctx.case(("probe", repr(conf)), True, sample=cj)
        p = native.probe_from_conf(conf, apply_probe_location=False)
        ok = p.numelements == numx * numy and p.frequency == freq and np.allclose(p.dimensions.coords, np.tile(dims, (numx * numy, 1)), rtol=0, atol=0)
        if numx > 1:
            xs = p.locations.x.reshape(numy, numx)
            ok = ok and np.allclose(np.diff(xs, axis=1), pitch_x, rtol=1e-12, atol=0) and abs(xs.mean()) < 1e-15
        if numy > 1:
            ys = p.locations.y.reshape(numy, numx)
            ok = ok and np.allclose(np.diff(ys, axis=0), pitch_y, rtol=1e-12, atol=0)
        if not ok:
            ctx.violate("probe_from_conf does not carry the configured values", cj, {"kind": "probe_from_conf"})
        # probe location: reference element (name or index, 0 included), tilt, standoff — each optional
        import arim.geometry as g
        nel = numx * numy
        loc_conf = {}
        if rng.random() < 0.85:
            loc_conf["ref_element"] = [ "first", "last", "mean", 0, nel - 1, -1, int(rng.integers(0, nel))][int(rng.integers(0, 7))]
        if rng.random() < 0.7:
            loc_conf["angle_deg"] = float(rng.choice([0.0, rng.uniform(-40, 40)]))
        if rng.random() < 0.7:
            loc_conf["standoff"] = float(rng.choice([0.0, -rng.uniform(1e-3, 40e-3)]))
        conf2 = {**conf, "probe_location": loc_conf}
        cj2 = {"op": "probe_from_conf", "conf": conf2}
        ctx.case(("probe-loc", repr(conf2)), True)
        ctx.count("probe_location:ref=" + str(type(loc_conf.get("ref_element", None)).__name__))
        try:
            p2 = native.probe_from_conf(conf2)
            base = np.array(p.locations.coords)
            want = base.copy()
            if "ref_element" in loc_conf:
                r = loc_conf["ref_element"]
                ref = {"first": base[0], "last": base[-1], "mean": base.mean(axis=0)}[r] if isinstance(r, str) else base[r]
                want = base - ref
            if "angle_deg" in loc_conf:
                want = want @ g.rotation_matrix_y(np.deg2rad(loc_conf["angle_deg"])).T
            if "standoff" in loc_conf:
                want = want + np.array([0.0, 0.0, loc_conf["standoff"]])
            if not np.allclose(p2.locations.coords, want, rtol=0, atol=1e-12):
                ctx.violate("probe_from_conf does not place the probe as configured (reference element at O, then tilt about Oy, then standoff)", cj2, {"kind": "probe_location"})
        except Exception as e:
            ctx.violate(f"probe_from_conf raises {type(e).__name__} on a valid probe_location", cj2, {"kind": "probe_location"})
        # probe from the library of known probes: a fresh object each time, same as the registry's; both keys together are refused
        if _ % 10 == 0:
            import arim as _ar
            from arim import config as _cfg
            for key in list(_ar.probes.keys())[:3]:
                ctx.count("probe_key")
                p_a = native.probe_from_conf({"probe_key": key}, apply_probe_location=False)
                p_b = _ar.probes[key]
                if p_a is p_b or not (np.array_equal(p_a.locations.coords, p_b.locations.coords) and p_a.frequency == p_b.frequency and p_a.numelements == p_b.numelements):
                    ctx.violate(f"probe_from_conf(probe_key={key!r}) is not a fresh copy of the library probe", {"op": "probe_key", "key": key}, {"kind": "probe_from_conf"})
                p_a.translate([0.0, 0.0, -1e-2])
                p_c = native.probe_from_conf({"probe_key": key}, apply_probe_location=False)
                if not np.array_equal(p_c.locations.coords, p_b.locations.coords):
                    ctx.violate(f"moving a probe built from probe_key={key!r} changed the next probe built from the same key", {"op": "probe_key", "key": key}, {"kind": "conf_aliased"})
                try:
                    native.probe_from_conf({"probe_key": key, "probe": conf["probe"]}, apply_probe_location=False)
                    ctx.violate("probe_from_conf accepts 'probe' and 'probe_key' together (documented as mutually exclusive)", {"op": "probe_key", "key": key}, {"kind": "probe_from_conf"})
                except Exception:
                    pass   # (the unchanged code refuses with AttributeError: `config.InvalidConf` does not exist; a refusal all the same)
        # material
        vl, vt, rho = float(rng.uniform(1000, 7000)), float(rng.uniform(500, 3500)), float(rng.uniform(500, 9000))
        mconf = {"longitudinal_vel": vl, "transverse_vel": vt, "density": rho, "state_of_matter": str(rng.choice(["solid", "liquid"])),
                 "metadata": {"long_name": "M"}}
        # (0.0 is a configured value like any other: a lossless reference run switches the attenuation off with the bare float 0.0)
        att = 0.0 if rng.random() < 0.25 else float(rng.uniform(0, 100))
        tatt = [None, 0.0, float(rng.uniform(0, 50))][int(rng.integers(0, 3))]
        if tatt is not None:
            mconf["transverse_att"] = tatt
        if rng.random() < 0.5:
            mconf["longitudinal_att"] = att
        elif rng.random() < 0.5:
            mconf["longitudinal_att"] = {"kind": "polynomial", "coeffs": [att, 2.0, 0.5]}
        m = native.material_from_conf(mconf)
        cj = {"op": "material_from_conf", "conf": mconf}
        ctx.case(("mat", repr(mconf)), True)
        ok = m.longitudinal_vel == vl and m.transverse_vel == vt and m.density == rho and m.state_of_matter.name == mconf["state_of_matter"]
        la = mconf.get("longitudinal_att")
        if isinstance(la, float):
            ok = ok and m.longitudinal_att(3e6) == la
        elif isinstance(la, dict):
            ok = ok and abs(m.longitudinal_att(3e6) - (att + 2.0 * 3 + 0.5 * 9)) < 1e-9
        else:
            ok = ok and m.longitudinal_att is None
        ok = ok and ((m.transverse_att is None) if tatt is None else (m.transverse_att is not None and m.transverse_att(3e6) == tatt))
        ctx.count("material_att:" + ("zero" if (la == 0.0 or tatt == 0.0) else "other"))
        if not ok:
            ctx.violate("material_from_conf does not carry the configured values (velocities, density, state, attenuation laws incl. a configured 0.0)", cj, {"kind": "material_from_conf"})
        # the configuration is read, never shared: annotating what was built (metadata of materials / probes / examination
        # objects, as load_expdata itself does with metadata["from_brain"]) leaves the configuration as loaded, and what is
        # built next carries the configured values again
        import copy
        meta_conf = {"long_name": "Steel", "source": {"book": "K&K", "page": 12}}
        solid_m = {"longitudinal_vel": vl, "transverse_vel": vt, "density": rho, "state_of_matter": "solid", "metadata": copy.deepcopy(meta_conf)}
        fluid_m = {"longitudinal_vel": 1480.0, "density": 1000.0, "state_of_matter": "liquid", "metadata": {"long_name": "Water"}}
        full_conf = arim.config.Config({"probe": dict(conf["probe"], metadata={"serial": "A1"}), "block_material": solid_m, "couplant_material": fluid_m,
                                        "frontwall": {"xmin": -0.01, "xmax": 0.02, "z": 0.0, "numpoints": 3},
                                        "backwall": {"xmin": -0.01, "xmax": 0.02, "z": 0.03, "numpoints": 3}})
        snap = copy.deepcopy(dict(full_conf))
        cjm = {"op": "builders_do_not_share_the_configuration", "conf": snap}
        ctx.case(("alias", repr(snap)), True)

        def annotate(obj):
            for tgt in [getattr(obj, "metadata", None)] + [getattr(getattr(obj, a, None), "metadata", None) for a in ("block_material", "couplant_material", "material")]:
                if isinstance(tgt, dict):
                    tgt["annotated_by_user"] = True
                    tgt["long_name"] = "EDITED"
                    if isinstance(tgt.get("source"), dict):
                        tgt["source"]["page"] = -1

        builders = [("material_from_conf", lambda: native.material_from_conf(full_conf["block_material"])),
                    ("examination_object_from_conf", lambda: native.examination_object_from_conf(full_conf)),
                    ("block_in_immersion_from_conf", lambda: native.block_in_immersion_from_conf(full_conf)),
                    ("probe_from_conf", lambda: native.probe_from_conf(full_conf, apply_probe_location=False))]
        for bname, bld in builders:
            try:
                o1 = bld()
                annotate(o1)
                o2 = bld()
            except Exception as e:
                ctx.violate(f"{bname} raised {type(e).__name__}: {str(e)[:80]}", cjm, {"kind": "builder_raises", "builder": bname})
                continue
            ctx.count("alias:" + bname)
            if dict(full_conf) != snap:
                ctx.violate(f"{bname}: annotating the metadata of the object that was built changed the configuration itself "
                            "(the object shares a mapping with the configuration)", cjm, {"kind": "conf_aliased", "builder": bname})
                full_conf = arim.config.Config(copy.deepcopy(snap))
                continue
            mat2 = o2 if bname == "material_from_conf" else getattr(o2, "block_material", None)
            if mat2 is not None and mat2.metadata.get("long_name") != "Steel":
                ctx.violate(f"{bname}: a second object built from the same configuration carries the first object's edited metadata", cjm, {"kind": "conf_aliased", "builder": bname})
        # grid
        xmin, zmin = float(rng.uniform(-0.02, 0)), float(rng.uniform(0, 0.01))
        xmax, zmax = xmin + float(rng.uniform(1e-3, 0.03)), zmin + float(rng.uniform(1e-3, 0.03))
        px = float(rng.uniform(0.2e-3, 1e-3))
        gconf = {"grid": {"xmin": xmin, "xmax": xmax, "zmin": zmin, "zmax": zmax, "pixel_size": px}}
        # the y extent is optional, each bound on its own (a missing bound is 0)
        yvar = ["none", "ymin", "ymax", "both"][_ % 4]
        ylo, yhi = -float(rng.uniform(1e-3, 5e-3)), float(rng.uniform(1e-3, 5e-3))
        if yvar in ("ymin", "both"):
            gconf["grid"]["ymin"] = ylo
        if yvar in ("ymax", "both"):
            gconf["grid"]["ymax"] = yhi
        want_ymin, want_ymax = gconf["grid"].get("ymin", 0.0), gconf["grid"].get("ymax", 0.0)
        gkeep = copy.deepcopy(gconf)
        gr = native.grid_from_conf(gconf)
        cj = {"op": "grid_from_conf", "conf": gconf}
        ctx.case(("grid", repr(gconf)), True)
        ctx.count("grid_y:" + yvar)
        if not (gr.xmin == xmin and gr.xmax == xmax and gr.zmin == zmin and gr.zmax == zmax and gr.ymin == want_ymin and gr.ymax == want_ymax
                and gr.numx == round((xmax - xmin + px) / px) and gr.numz == round((zmax - zmin + px) / px)
                and gr.numy == (round((want_ymax - want_ymin + px) / px) if want_ymax != want_ymin else 1) and gconf == gkeep):
            ctx.violate(f"grid_from_conf does not carry the configured values (y bounds configured: {yvar}; got ymin={gr.ymin}, ymax={gr.ymax}, numy={gr.numy})", cj, {"kind": "grid_from_conf"})
        # examination objects
        wall = lambda z: {"xmin": -0.01, "xmax": 0.02, "z": z, "numpoints": int(rng.integers(2, 9))}
        solid = {"longitudinal_vel": vl, "transverse_vel": vt, "density": rho, "state_of_matter": "solid"}
        fluid = {"longitudinal_vel": 1480.0, "density": 1000.0, "state_of_matter": "liquid"}
        econf = {"block_material": solid, "couplant_material": fluid, "frontwall": wall(0.0), "backwall": wall(0.03)}
        eo = native.examination_object_from_conf(econf)
        ok = (type(eo).__name__ == "BlockInImmersion" and eo.block_material.longitudinal_vel == vl and eo.couplant_material.longitudinal_vel == 1480.0
              and len(eo.frontwall.points) == econf["frontwall"]["numpoints"] and len(eo.backwall.points) == econf["backwall"]["numpoints"]
              and eo.backwall.points.z[0] == 0.03 and eo.frontwall.points.x[0] == -0.01 and eo.frontwall.points.x[-1] == 0.02)
        econf2 = {"block_material": solid}
        if rng.random() < 0.5:
            econf2["backwall"] = wall(0.02)
        if rng.random() < 0.5:
            econf2["under_material"] = fluid
        eo2 = native.examination_object_from_conf(econf2)
        ok = ok and type(eo2).__name__ == "BlockInContact" and (eo2.backwall is None) == ("backwall" not in econf2) and (eo2.under_material is None) == ("under_material" not in econf2) and eo2.frontwall is None
        ctx.case(("exobj", repr(econf), repr(econf2)), True)
        if not ok:
            ctx.violate("examination_object_from_conf does not carry the configured values", {"op": "exobj", "conf": econf, "conf2": econf2}, {"kind": "exobj_from_conf"})


def write_expdata(path, numel, pairs, timetraces, time, locs, fortran):
    import scipy.io as sio

    def col(v):
        return np.asarray(v, dtype=float).reshape(-1, 1)

    half = 0.25e-3
    array = {"centre_freq": np.array([[5e6]]), "el_xc": col(locs[:, 0]), "el_yc": col(locs[:, 1]), "el_zc": col(locs[:, 2]),
             "el_x1": col(locs[:, 0] - half), "el_x2": col(locs[:, 0] + half), "el_y1": col(locs[:, 1] - 2 * half), "el_y2": col(locs[:, 1] + 2 * half),
             "el_z1": col(locs[:, 2]), "el_z2": col(locs[:, 2])}
    td = np.asarray(timetraces, dtype=float)
    # Matlab stores time_data as (numsamples, numtimetraces)
    td_m = np.asfortranarray(td.T) if fortran else np.ascontiguousarray(td.T)
    exp_data = {"tx": np.array([[a + 1 for a, _ in pairs]], dtype=float), "rx": np.array([[b + 1 for _, b in pairs]], dtype=float),
                "time_data": td_m, "time": col(time), "ph_velocity": np.array([[6300.0]]), "array": array}
    sio.savemat(str(path), {"exp_data": exp_data}, format="5")


def check_brain(ctx):
    import arim
    from arim.io import brain, native

    rng = ctx.rng
    root = CACHE / f"c20b-{ctx.seed}-{ctx.tier}"
    shutil.rmtree(root, ignore_errors=True)
    root.mkdir(parents=True)
    for k in range(30 * ctx.scale):
        numel = int(rng.integers(1, 7))
        kind = rng.choice(["fmc", "hmc", "perm", "tx_subaperture", "rx_subaperture", "subset"])
        allp = [(i, j) for i in range(numel) for j in range(numel) if kind != "hmc" or i <= j]
        if kind == "perm":
            allp = [allp[i] for i in rng.permutation(len(allp))]
        elif kind in ("tx_subaperture", "rx_subaperture") and numel >= 2:
            # a few (low-numbered or arbitrary) elements fire / listen, all the others do the opposite
            sub = sorted(int(v) for v in rng.permutation(numel)[: int(rng.integers(1, numel))]) if rng.random() < 0.5 else list(range(int(rng.integers(1, numel))))
            allp = [(i, j) for i, j in allp if (i if kind == "tx_subaperture" else j) in sub]
            if rng.random() < 0.5:
                allp = sorted(allp, key=lambda p_: (p_[1], p_[0]))       # receiver-major storage
        elif kind == "subset":
            allp = [allp[i] for i in rng.permutation(len(allp))[: int(rng.integers(1, len(allp) + 1))]]
        ns = int(rng.integers(2, 12))
        tt = rng.normal(size=(len(allp), ns))
        t0, dt = float(rng.uniform(-1e-6, 5e-6)), float(rng.choice([1e-8, 4e-8, 2.0**-24]))
        time = t0 + dt * np.arange(ns)
        locs = np.zeros((numel, 3))
        locs[:, 0] = (np.arange(numel) - (numel - 1) / 2) * 0.6e-3
        locs[:, 1] = rng.normal(size=numel) * 1e-4
        fortran = bool(rng.integers(0, 2))
        f = root / f"e{k}.mat"
        write_expdata(f, numel, allp, tt, time, locs, fortran)
        cj = {"op": "load_expdata", "numel": numel, "pairs": allp, "numsamples": ns, "fortran": fortran, "t0": t0, "dt": dt}
        single = numel == 1 or len(allp) == 1
        ctx.case(("brain", numel, kind, ns, fortran), not single, sample=cj if not single else None)
        ctx.count(f"brain:numel={numel}")
        try:
            fr = brain.load_expdata(str(f))
        except Exception as e:
            ctx.violate(f"load_expdata rejects a valid exp_data file ({type(e).__name__}: {e})", cj,
                        {"kind": "brain_rejects", "single_element_or_timetrace": single})
            continue
        ok = (list(fr.tx) == [a for a, _ in allp] and list(fr.rx) == [b for _, b in allp] and fr.timetraces.shape == tt.shape
              and np.array_equal(fr.timetraces, tt) and np.allclose(fr.time.samples, time, rtol=0, atol=1e-6 * dt)
              and abs(fr.time.start - t0) == 0 and np.array_equal(fr.probe.locations.coords, locs))
        if not ok:
            ctx.violate("load_expdata altered samples / time axis / element positions / indices", cj, {"kind": "brain_roundtrip"})
        # the same file through `frame_from_conf` (the door the scripts use): samples / indices unchanged, the time axis shifted by
        # the configured instrument delay, and — independently of each other — the probe and the examination object taken from the
        # configuration when asked, from the file otherwise
        if k % 3 == 0 and numel >= 2:
            cprobe = {"frequency": 4e6, "numx": numel + 1, "pitch_x": 0.7e-3, "numy": 1, "pitch_y": float("nan"), "dimensions": [0.5e-3, 5e-3, float("nan")]}
            vel_c = 6400.0 + 10.0 * k
            conf_f = arim.config.Config({"frame": {"datafile": str(f), "instrument_delay": 2e-7}, "probe": cprobe, "probe_location": {"ref_element": "mean"},
                                         "block_material": {"longitudinal_vel": vel_c, "transverse_vel": 3100.0, "density": 2700.0, "state_of_matter": "solid"},
                                         "backwall": {"xmin": -0.01, "xmax": 0.02, "z": 0.04, "numpoints": 3}})
            for up in (True, False):
                for ue in (True, False):
                    cjf = {"op": "frame_from_conf", "use_probe_from_conf": up, "use_examination_object_from_conf": ue, "numel_in_file": numel}
                    ctx.case(("ffc", k, up, ue), True)
                    ctx.count("frame_from_conf")
                    try:
                        ff = native.frame_from_conf(conf_f, use_probe_from_conf=up, use_examination_object_from_conf=ue)
                    except Exception as e:
                        ctx.violate(f"frame_from_conf raised {type(e).__name__}: {str(e)[:80]}", cjf, {"kind": "frame_from_conf"})
                        continue
                    okf = (np.array_equal(ff.timetraces, tt) and list(ff.tx) == [a for a, _ in allp] and list(ff.rx) == [b for _, b in allp]
                           and abs(ff.time.start - (t0 - 2e-7)) <= 1e-9 * dt and ff.time.step == fr.time.step)
                    okp = (ff.probe.numelements == numel + 1 and abs(ff.probe.frequency - 4e6) == 0) if up else np.array_equal(ff.probe.locations.coords, locs)
                    blk = getattr(ff.examination_object, "material", None)
                    is_conf_exam = isinstance(ff.examination_object, arim.BlockInContact) and blk is not None and blk.longitudinal_vel == vel_c \
                        and ff.examination_object.backwall is not None
                    oke = is_conf_exam if ue else not is_conf_exam
                    if not (okf and okp and oke):
                        ctx.violate(f"frame_from_conf(use_probe_from_conf={up}, use_examination_object_from_conf={ue}): "
                                    + ("samples / indices / time axis differ from the file; " if not okf else "")
                                    + ("the probe is not the one asked for; " if not okp else "")
                                    + ("the examination object is not the one asked for" if not oke else ""), cjf, {"kind": "frame_from_conf"})
    shutil.rmtree(root, ignore_errors=True)


def run(ctx):
    ctx.rule = ("random nested mappings over 5 keys (depth <= 3) for merge; directories with 0-5 fragments whose names exercise string order "
                "(10_a < 9_b, case, punctuation), every permutation of the listing (24 sampled when more, quick) + the real file-system order; "
                "random probe/material/grid/examination-object parameters; exp_data .mat v7 files (1-6 elements, FMC/HMC/permuted, both storage orders); "
                "non-trivial = overlapping keys / >= 2 fragments / >= 2 elements")
    check_merge(ctx)
    check_load_conf(ctx)
    check_load_conf_extras(ctx)
    check_builders(ctx)
    check_brain(ctx)
    ctx.assumptions += ["YAML parsing, scipy.io.loadmat/savemat and the OS are external", "HDF5 (v7.3) exp_data files cannot be exercised: h5py is not installed"]


def search(ctx):
    ctx.oracle_only = True
    ctx.rng = np.random.Generator(np.random.PCG64(ctx.seed + 7919))
    old = ctx.scale
    ctx.scale = max(3, 2 * old)
    try:
        run(ctx)
    finally:
        ctx.scale = old
