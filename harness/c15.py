"""C15 — frame bookkeeping never mis-attributes a timetrace to an element pair.

Correspondence: Lean `Arim.Frame` model (fmc, hmc, inferCapture, defaultWeights, expand,
subframe, subframeFromElements with NumPy index kinds) vs arim.ut / arim.core.Frame / Probe on
random operation histories; exact comparison of (tx, rx, payload), probe element identities,
capture method, weights, completeness after every operation.
Oracle: the set / multiset statements of the property evaluated on the implementation.
"""
import numpy as np


def enc_idx(ix):
    kind = ix[0]
    if kind == "s":
        _, a, b, c = ix
        f = lambda v: "n" if v is None else str(v)
        return f"s_{f(a)}_{f(b)}_{c}"
    if kind == "m":
        return "m_" + "".join("1" if b else "0" for b in ix[1])
    return "i_" + (",".join(str(v) for v in ix[1]) if ix[1] else "-")


def py_idx(ix):
    if ix[0] == "s":
        return slice(ix[1], ix[2], ix[3])
    if ix[0] == "m":
        return np.array(ix[1], dtype=bool)
    return list(ix[1]) if len(ix[1]) else np.array([], dtype=int)


def gen_idx(rng, n, allow_bad=True):
    k = rng.integers(0, 3)
    if k == 0:
        lim = n + 2
        a = None if rng.random() < 0.3 else int(rng.integers(-lim, lim + 1))
        b = None if rng.random() < 0.3 else int(rng.integers(-lim, lim + 1))
        c = int(rng.choice([1, 1, 2, 3, -1, -2]))
        return ("s", a, b, c)
    if k == 1:
        m = [bool(x) for x in rng.integers(0, 2, size=n)]
        if allow_bad and rng.random() < 0.03:
            m = m + [True]
        return ("m", m)
    size = int(rng.integers(1, n + 1)) if n else 0
    sel = [int(v) for v in rng.permutation(n)[:size]]
    sel = [v - n if rng.random() < 0.3 else v for v in sel]
    if allow_bad and rng.random() < 0.03 and sel:
        sel[0] = n + int(rng.integers(0, 2)) if rng.random() < 0.5 else -n - 1
    return ("i", sel)


def gen_history(rng):
    numel = int(rng.integers(1, 10))
    allp = [(i, j) for i in range(numel) for j in range(numel)]
    kind = rng.choice(["fmc", "hmc", "hmc2", "rand", "rand"])
    if kind == "fmc":
        ps = allp
    elif kind == "hmc":
        ps = [(i, j) for i, j in allp if i <= j]
    elif kind == "hmc2":
        ps = [(i, j) for i, j in allp if i >= j]
    else:
        k = int(rng.integers(1, len(allp) + 1))
        ps = [allp[i] for i in rng.permutation(len(allp))[:k]]
    if rng.random() < 0.6:
        ps = [ps[i] for i in rng.permutation(len(ps))]
    data = list(rng.permutation(len(ps) * 3)[: len(ps)] + 1)
    frame = [(int(a), int(b), int(d)) for (a, b), d in zip(ps, data)]
    return numel, frame


def gen_op(rng, ntt, nel):
    r = rng.random()
    if r < 0.25:
        return ("expand",)
    if r < 0.35:
        return ("filt",)
    if r < 0.6:
        return ("sub", gen_idx(rng, max(ntt, 1)))
    return ("subel", gen_idx(rng, nel), bool(rng.integers(0, 2)))


def line(numel, frame, ops):
    fr = ",".join(f"{a}:{b}:{d}" for a, b, d in frame) or "-"
    toks = []
    for op in ops:
        if op[0] in ("expand", "filt"):
            toks.append(op[0])
        elif op[0] == "sub":
            toks.append("sub=" + enc_idx(op[1]))
        else:
            toks.append(f"subel={enc_idx(op[1])}={1 if op[2] else 0}")
    return f"frame {numel} {fr} " + " ".join(toks)


PITCH = 1e-3


# the rigid motion (R, t) applied to the probe of the current history after it was built (None: probe at rest, PCS = GCS);
# element identities are read back through it
_MOTION = None


def build(numel, frame):
    import arim

    locs = np.zeros((numel, 3))
    locs[:, 0] = np.arange(numel) * PITCH
    probe = arim.Probe(locs, 1e6)
    if _MOTION is not None:
        probe.rotate(_MOTION[0])
        probe.translate(_MOTION[1])
    tt = np.array([[d, d + 0.5] for _, _, d in frame], dtype=float).reshape(len(frame), 2)
    time = arim.Time(0.0, 1.0, 2)
    return arim.Frame(tt, time, [a for a, _, _ in frame], [b for _, b, _ in frame], probe, None)


def ids_of(probe):
    """which physical element sits at each index: its position, brought back through the known motion of the probe, in pitches"""
    c = np.asarray(probe.locations.coords, dtype=float)
    if _MOTION is not None:
        c = (c - _MOTION[1]) @ _MOTION[0]          # R^T (x - t), row-vector form
    ids = c[:, 0] / PITCH
    off = np.abs(ids - np.round(ids)).max(initial=0.0) + np.abs(c[:, 1:]).max(initial=0.0) / PITCH
    return [int(round(x)) for x in ids] if off < 1e-6 else [-999 - k for k in range(len(ids))]   # not at any physical element


def state_of(fr):
    from arim import ut

    tx, rx = [int(v) for v in fr.tx], [int(v) for v in fr.rx]
    data = [int(round(v)) for v in fr.timetraces[:, 0]] if fr.numtimetraces else []
    ok = fr.numtimetraces == 0 or np.array_equal(fr.timetraces[:, 1], fr.timetraces[:, 0] + 0.5)
    try:
        inf = ut.infer_capture_method(fr.tx, fr.rx)
    except Exception:
        inf = "err"
    if fr.numtimetraces and inf != "err":
        cm = fr.capture_method
        if getattr(cm, "name", str(cm)) != inf:
            inf = f"{inf}!=Frame.capture_method:{getattr(cm, 'name', cm)}"   # shows up as a disagreement with the model
    w = [int(v) for v in ut.default_timetrace_weights(fr.tx, fr.rx)] if fr.numtimetraces else []
    comp = fr.is_complete_assuming_reciprocity()
    s = ",".join(f"{a}:{b}:{d}" for a, b, d in zip(tx, rx, data)) + "|" + ",".join(map(str, ids_of(fr.probe))) + "|" + inf + "|" + ",".join(map(str, w)) + "|" + ("1" if comp else "0")
    return s, ok


class IdentityFilter:
    def __call__(self, x):
        return np.array(x, copy=True)


def oracle_weights(ctx, fr, cj):
    """default weights of any frame (complete or not): 1 where the reciprocal pair is recorded, 2 otherwise"""
    from arim import ut

    if not fr.numtimetraces:
        return
    tx, rx = [int(v) for v in fr.tx], [int(v) for v in fr.rx]
    ps = set(zip(tx, rx))
    want = [1 if (b, a) in ps else 2 for a, b in zip(tx, rx)]
    got = [float(v) for v in ut.default_timetrace_weights(fr.tx, fr.rx)]
    if got != [float(v) for v in want]:
        ctx.violate(f"default timetrace weights {got} are not 1 where the reciprocal pair is recorded and 2 otherwise ({want}) for tx={tx} rx={rx}",
                    cj, {"kind": "weights"})
    # the former names of the same things (kept by the library as deprecated aliases) answer the same
    import warnings
    with warnings.catch_warnings():
        warnings.simplefilter("ignore")
        try:
            old = [float(v) for v in ut.default_scanline_weights(fr.tx, fr.rx)]
            alias_ok = old == got and fr.numscanlines == fr.numtimetraces and np.array_equal(np.asarray(fr.scanlines), np.asarray(fr.timetraces))
        except Exception as e:
            alias_ok, old = False, repr(e)
    ctx.count("deprecated_aliases")
    if not alias_ok:
        ctx.violate(f"a deprecated alias answers differently from the function it stands for: default_scanline_weights -> {old}, default_timetrace_weights -> {got} "
                    f"(or numscanlines / scanlines differ from numtimetraces / timetraces) for tx={tx} rx={rx}", cj, {"kind": "alias"})


def oracle_get_timetrace(ctx, fr, cj):
    """`Frame.get_timetrace(i, j)` is the timetrace recorded for exactly that ordered pair; a pair that was not recorded
    is refused (never another pair's data, never the mirror's)."""
    n = fr.probe.numelements
    if not fr.numtimetraces or n == 0:
        return
    pairs = list(zip(map(int, fr.tx), map(int, fr.rx)))
    rng = np.random.default_rng(len(pairs) * 7919 + n)
    asked = [pairs[int(k)] for k in rng.integers(0, len(pairs), size=min(4, len(pairs)))]
    asked += [(b, a) for a, b in asked[:2]] + [(int(rng.integers(0, n)), int(rng.integers(0, n))) for _ in range(2)]
    for (i, j) in asked:
        try:
            got = fr.get_timetrace(i, j)
        except IndexError:
            got = None
        except Exception as e:
            ctx.violate(f"get_timetrace({i},{j}) raised {type(e).__name__}", cj, {"kind": "get_timetrace"})
            continue
        if (i, j) in pairs:
            want = fr.timetraces[pairs.index((i, j))]
            if got is None or not np.array_equal(got, want):
                ctx.violate(f"get_timetrace({i},{j}) does not return the timetrace recorded for that pair (tx={pairs})", cj, {"kind": "get_timetrace"})
        elif got is not None:
            ctx.violate(f"get_timetrace({i},{j}) returned data although the pair was not recorded (tx/rx={pairs})", cj, {"kind": "get_timetrace"})
        import warnings
        with warnings.catch_warnings():
            warnings.simplefilter("ignore")
            try:
                old = fr.get_scanline(i, j)
            except IndexError:
                old = None
            except Exception as e:
                old = e
        if (old is None) != (got is None) or (got is not None and not (isinstance(old, np.ndarray) and np.array_equal(old, got))):
            ctx.violate(f"get_scanline({i},{j}) (deprecated alias) does not answer what get_timetrace({i},{j}) answers (tx/rx={pairs})", cj, {"kind": "alias"})
    ctx.count("get_timetrace", len(asked))


def check_duplicates(ctx):
    """`Frame.__init__` refuses a pair recorded twice (the premise 'distinct pairs' of every other clause is enforced)"""
    import arim

    rng = ctx.rng
    for _ in range(20 * ctx.scale):
        numel = int(rng.integers(1, 7))
        k = int(rng.integers(2, numel * numel + 2))
        ps = [(int(rng.integers(0, numel)), int(rng.integers(0, numel))) for _ in range(k)]
        dup = len(set(ps)) < len(ps)
        fr3 = [(a, b, d + 1) for d, (a, b) in enumerate(ps)]
        try:
            build(numel, fr3)
            raised = False
        except ValueError:
            raised = True
        ctx.count("dup:" + ("refused" if raised else "accepted"))
        if dup != raised:
            ctx.violate(f"Frame.__init__ {'accepted a frame with a repeated pair' if dup else 'refused a frame of distinct pairs'}: {ps}",
                        {"numel": numel, "pairs": ps}, {"kind": "duplicates"})
        # mirrors are not duplicates
    ps = [(0, 1), (1, 0)]
    try:
        build(2, [(0, 1, 1), (1, 0, 2)])
    except Exception as e:
        ctx.violate(f"a pair and its mirror were refused as duplicates: {e}", {"pairs": ps}, {"kind": "duplicates"})


def oracle_op(ctx, before, after, op, cj):
    """the property statement for one operation, on the implementation's objects"""
    b_pairs = list(zip(map(int, before.tx), map(int, before.rx)))
    a_pairs = list(zip(map(int, after.tx), map(int, after.rx)))
    b_data = {p: before.timetraces[k].copy() for k, p in enumerate(b_pairs)}
    if op[0] == "expand":
        want = sorted(set(b_pairs) | {(j, i) for i, j in b_pairs})
        if sorted(a_pairs) != want or len(set(a_pairs)) != len(a_pairs):
            ctx.violate("expand: pairs are not the union of the recorded pairs and their mirrors", cj, {"kind": "expand_pairs"})
            return
        for k, (i, j) in enumerate(a_pairs):
            src = b_data.get((i, j), b_data.get((j, i)))
            if not np.array_equal(after.timetraces[k], src):
                ctx.violate(f"expand: timetrace ({i},{j}) does not carry the data of its recorded pair", cj, {"kind": "expand_payload"})
                return
        if ids_of(after.probe) != ids_of(before.probe):
            ctx.violate("expand changed the probe", cj, {"kind": "expand_probe"})
    elif op[0] == "subel":
        n = before.probe.numelements
        retained = list(np.arange(n)[py_idx(op[1])])
        old_ids, new_ids = ids_of(before.probe), ids_of(after.probe)
        want = [(old_ids[i], old_ids[j], b_data[(i, j)]) for (i, j) in b_pairs if i in retained and j in retained]
        got = [(new_ids[i], new_ids[j], after.timetraces[k]) for k, (i, j) in enumerate(a_pairs)]
        same = len(want) == len(got) and all(w[0] == g[0] and w[1] == g[1] and np.array_equal(w[2], g[2]) for w, g in zip(want, got))
        if not same:
            ctx.violate("subframe_from_probe_elements: kept timetraces are not exactly those with both elements retained, at the same physical elements", cj, {"kind": "subel"})
        if op[2] and new_ids != [old_ids[i] for i in retained]:
            ctx.violate("subprobe elements are not the retained elements in index order", cj, {"kind": "subprobe"})
    elif op[0] == "sub":
        sel = np.arange(len(b_pairs))[py_idx(op[1])]
        want = [b_pairs[k] for k in sel]
        if a_pairs != want or any(not np.array_equal(after.timetraces[m], before.timetraces[k]) for m, k in enumerate(sel)):
            ctx.violate("subframe: not the selected timetraces", cj, {"kind": "subframe"})


def run_history(ctx, numel, frame, ops, answer=None, rng=None):
    """run a history on the implementation; if `ops` is None they are generated on the fly from
    the current frame / probe sizes. Returns (ops, states)."""
    global _MOTION
    cj = {"numel": numel, "frame": frame, "ops": []}
    if rng is not None and rng.random() < 0.5:
        import fixtures
        _MOTION = (fixtures.rot3(rng), rng.normal(size=3) * 2e-2)       # the probe was tilted and lifted before the acquisition
        cj["probe_motion"] = [_MOTION[0].tolist(), _MOTION[1].tolist()]
    elif rng is not None:
        _MOTION = None
    elif _MOTION is not None:
        cj["probe_motion"] = [_MOTION[0].tolist(), _MOTION[1].tolist()]
    try:
        fr = build(numel, frame)
    except Exception as e:
        # the generated frames consist of distinct pairs: refusing one is a violation with this frame as the failing input
        ctx.violate(f"Frame.__init__ refused a frame of distinct (tx, rx) pairs: {type(e).__name__}: {str(e)[:80]} — pairs {[(a, b) for a, b, _ in frame]}", cj, {"kind": "frame_refused"})
        return [], ["E"], cj
    states = []
    s, ok = state_of(fr)
    states.append(s)
    oracle_weights(ctx, fr, cj)
    oracle_get_timetrace(ctx, fr, cj)
    nops = int(rng.integers(1, 6)) if ops is None else len(ops)
    done = []
    for k in range(nops):
        op = gen_op(rng, fr.numtimetraces, fr.probe.numelements) if ops is None else ops[k]
        done.append(op)
        cj["ops"] = [list(o) for o in done]
        before = fr
        try:
            if op[0] == "expand":
                fr = fr.expand_frame_assuming_reciprocity()
            elif op[0] == "filt":
                fr = fr.apply_filter(IdentityFilter())
            elif op[0] == "sub":
                fr = fr.subframe(py_idx(op[1]))
            else:
                fr = fr.subframe_from_probe_elements(py_idx(op[1]), make_subprobe=op[2])
        except (IndexError, ValueError) as e:
            states.append("E")
            ctx.count("err:" + type(e).__name__)
            if op[0] in ("expand", "filt"):
                ctx.violate(f"{op[0]} raised {type(e).__name__} on a valid frame", cj, {"kind": "raises", "op": op[0]})
            break
        except Exception as e:
            states.append("E")
            ctx.violate(f"{op[0]} raised {type(e).__name__}: {str(e)[:80]} on a valid frame", cj, {"kind": "raises", "op": op[0]})
            break
        s, ok = state_of(fr)
        states.append(s)
        if not ok:
            ctx.violate("timetrace samples got mixed between timetraces", cj, {"kind": "payload"})
        oracle_op(ctx, before, fr, op, cj)
        oracle_weights(ctx, fr, cj)
        oracle_get_timetrace(ctx, fr, cj)
        if fr.numtimetraces == 0:
            break
    return done, states, cj


def compare(ctx, states, answer, cj):
    model = answer[3:] if answer.startswith("ok ") else answer
    # the model keeps going after an empty frame; compare the common prefix of states
    m_states = model.split(";")[: len(states)]
    if m_states != states:
        k = next((i for i, (a, b) in enumerate(zip(m_states, states)) if a != b), min(len(m_states), len(states)))
        ctx.disagree(f"state after op {k} differs: impl {states[k] if k < len(states) else None!r} model {m_states[k] if k < len(m_states) else None!r}", cj)


def check_enums(ctx):
    from arim import ut

    ns = list(range(0, 12))
    ans = ctx.drive([f"enum fmc {n}" for n in ns] + [f"enum hmc {n}" for n in ns]) if ctx.lean.driver_ok else None
    for k, n in enumerate(ns):
        for kind, fn in (("fmc", ut.fmc), ("hmc", ut.hmc)):
            tx, rx = fn(n)
            got = ",".join(f"{a}:{b}" for a, b in zip(tx, rx))
            ctx.case((kind, n), n >= 2)
            if ans is not None:
                a = ans[k + (0 if kind == "fmc" else len(ns))]
                if a[3:] != got and not (a.strip() == "ok" and got == ""):
                    ctx.disagree(f"{kind}({n}) differs from the model", {"op": kind, "n": n})
            ps = list(zip(map(int, tx), map(int, rx)))
            want = [(i, j) for i in range(n) for j in range(n) if kind == "fmc" or i <= j]
            if sorted(ps) != want or len(set(ps)) != len(ps):
                ctx.violate(f"{kind}({n}) does not list every pair exactly once", {"op": kind, "n": n}, {"kind": "enum"})
            if n >= 1:
                # recognised in any order
                perm = ctx.rng.permutation(len(ps))
                t2, r2 = np.asarray(tx)[perm], np.asarray(rx)[perm]
                exp = "fmc" if kind == "fmc" and n >= 2 else "hmc"
                if ut.infer_capture_method(t2, r2) != exp:
                    ctx.violate(f"permuted {kind}({n}) not recognised", {"op": kind, "n": n, "perm": perm.tolist()}, {"kind": "infer"})
                if kind == "hmc" and ut.infer_capture_method(r2, t2) != "hmc":
                    ctx.violate(f"mirrored hmc({n}) not recognised", {"op": kind, "n": n}, {"kind": "infer"})
                w = ut.default_timetrace_weights(t2, r2)
                wexp = [1 if (j, i) in set(ps) else 2 for i, j in zip(t2, r2)]
                if list(w) != wexp:
                    ctx.violate("default weights are not 1 where the mirror is present and 2 otherwise", {"op": kind, "n": n}, {"kind": "weights"})


def check_index_dtypes(ctx):
    """element indices may be held in any integer type that can hold them (uint8 files of a 64-element array, int16, lists):
    complete captures are recognised, weights and completeness are the same as with int64 indices"""
    from arim import ut

    rng = ctx.rng
    for n in (3, 11, 12, 16, 17, 23):
        for kind, fn in (("fmc", ut.fmc), ("hmc", ut.hmc)):
            tx0, rx0 = fn(n)
            perm = rng.permutation(len(tx0))
            tx0, rx0 = np.asarray(tx0)[perm], np.asarray(rx0)[perm]
            ref_w = [float(v) for v in ut.default_timetrace_weights(tx0.astype(np.int64), rx0.astype(np.int64))]
            for dt in (np.uint8, np.int8, np.int16, np.uint16, np.int32, np.uint32, np.int64, "list"):
                if dt != "list" and n - 1 > np.iinfo(dt).max:
                    continue
                tx = [int(v) for v in tx0] if dt == "list" else tx0.astype(dt)
                rx = [int(v) for v in rx0] if dt == "list" else rx0.astype(dt)
                name = dt if dt == "list" else np.dtype(dt).name
                cj = {"op": "index_dtype", "capture": kind, "n": n, "dtype": name}
                ctx.case(("idxdtype", kind, n, name), True)
                ctx.count("index_dtype:" + name)
                try:
                    with np.errstate(all="ignore"):
                        import warnings
                        with warnings.catch_warnings():
                            warnings.simplefilter("ignore")
                            got = ut.infer_capture_method(tx, rx)
                            w = [float(v) for v in ut.default_timetrace_weights(tx, rx)]
                except Exception as e:
                    ctx.violate(f"{kind}({n}) with indices held as {name}: {type(e).__name__}: {str(e)[:80]}", cj, {"kind": "index_dtype"})
                    continue
                if got != kind:
                    ctx.violate(f"a complete (permuted) {kind} of {n} elements with indices held as {name} is reported as '{got}'", cj, {"kind": "index_dtype"})
                if w != ref_w:
                    ctx.violate(f"default weights depend on the integer type of the indices ({name}, {kind}({n}))", cj, {"kind": "index_dtype"})


def check_fresh_enums(ctx):
    import fixtures
    from arim import ut

    for n in (1, 2, 3, 5, 8):
        fixtures.check_fresh(ctx, "fmc", lambda: ut.fmc(n), {"op": "fresh", "fn": "fmc", "n": n})
        fixtures.check_fresh(ctx, "hmc", lambda: ut.hmc(n), {"op": "fresh", "fn": "hmc", "n": n})
        tx, rx = ut.hmc(n)
        fixtures.check_fresh(ctx, "default_timetrace_weights", lambda: ut.default_timetrace_weights(tx, rx), {"op": "fresh", "fn": "default_timetrace_weights", "n": n})
    # a frame built directly on the enumeration, then edited by its owner, must not change the next enumeration
    import arim
    tx, rx = ut.fmc(3)
    fr = build(3, [(int(a), int(b), k + 1) for k, (a, b) in enumerate(zip(tx, rx))])
    try:
        fr.tx[...] = 0
    except Exception:
        pass
    t2, r2 = ut.fmc(3)
    if [int(v) for v in t2] != [0, 0, 0, 1, 1, 1, 2, 2, 2] or [int(v) for v in r2] != [0, 1, 2] * 3:
        ctx.violate("fmc(3) is no longer the full-matrix enumeration after a frame's tx array was edited", {"op": "fresh", "fn": "fmc"}, {"kind": "shared_result"})


def run(ctx):
    rng = ctx.rng
    ctx.rule = ("random frames (1-9 elements; FMC, HMC both orientations, random subsets; shuffled), histories of 1-5 operations among "
                "expand / identity filter / subframe(index) / subframe_from_probe_elements(index, make_subprobe) with slices (negative, None, steps), "
                "boolean masks, integer lists with negative entries (3% malformed); distinct = distinct request line; non-trivial = at least 2 timetraces and one op succeeded")
    check_enums(ctx)
    check_duplicates(ctx)
    check_fresh_enums(ctx)
    check_index_dtypes(ctx)
    check_expand_large(ctx)
    n = 700 * ctx.scale
    runs = []
    for _ in range(n):
        numel, frame = gen_history(rng)
        nv = len(ctx.violations)
        ops, states, cj = run_history(ctx, numel, frame, None, rng=rng)
        if len(ctx.violations) > nv and len(ops) > 1:
            from common import ProbeCtx, shrink_ops

            def fails(sub):
                pc = ProbeCtx(ctx)
                run_history(pc, numel, frame, sub)
                return bool(pc.violations)
            small = shrink_ops(ops, fails)
            pc = ProbeCtx(ctx)
            _, _, cjs = run_history(pc, numel, frame, small)
            if pc.violations:
                v = pc.violations[0]
                cjs["shrunk_from"] = len(ops)
                ctx.violations.insert(0, {"what": v["what"] + f" [history shrunk from {len(ops)} to {len(small)} operations]", "case": cjs, "tags": v["tags"]})
        runs.append((line(numel, frame, ops), states, cj, ops, frame))
    lines = [r[0] for r in runs]
    answers = ctx.drive(lines) if ctx.lean.driver_ok and not ctx.oracle_only else [None] * n
    for (l, states, cj, ops, frame), a in zip(runs, answers):
        if a is not None and not a.startswith("ok"):
            ctx.disagree("model rejected: " + a, {"line": l})
        elif a is not None:
            compare(ctx, states, a, cj)
        for op in ops:
            ctx.count("op:" + op[0] + ("/" + op[1][0] if len(op) > 1 else ""))
        ctx.case(l, len(frame) >= 2 and len(states) > 1 and states[1] != "E", sample={"line": l, "impl_states": states} if len(ops) >= 3 else None)
    ctx.assumptions.append("indices with repeated elements are outside the property's quantifier and are not generated")


def check_expand_large(ctx):
    import c12
    c12.check_expand_large(ctx)


def search(ctx):
    ctx.oracle_only = True
    ctx.rng = np.random.Generator(np.random.PCG64(ctx.seed + 7919))
    old = ctx.scale
    ctx.scale = max(3, 2 * old)
    try:
        run(ctx)
    finally:
        ctx.scale = old


def replay(ctx, body):
    cj = body["case"]
    if "frame" not in cj:
        return True
    ops = [tuple(tuple(x) if isinstance(x, list) and i == 1 else x for i, x in enumerate(o)) for o in cj["ops"]]
    ops = [(o[0],) if len(o) == 1 else ((o[0], tuple(o[1]) if o[1][0] == "s" else (o[1][0], o[1][1])) + tuple(o[2:])) for o in ops]
    global _MOTION
    _MOTION = (np.array(cj["probe_motion"][0]), np.array(cj["probe_motion"][1])) if cj.get("probe_motion") else None
    before = len(ctx.violations)
    run_history(ctx, cj["numel"], [tuple(t) for t in cj["frame"]], ops)
    for v in ctx.violations[before:]:
        print("  ", v["what"])
    return len(ctx.violations) == before
