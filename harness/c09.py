"""C09 — scattering functions satisfy reciprocity and their geometric symmetries.

Correspondence: Lean `Arim.ScatFn` side-drilled-hole modal sums on complex doubles, fed with
the modal coefficients computed by the same SciPy Hankel routines, vs `arim.scat.sdh_2d_scat`
(angle convention, which trigonometric function per key, prefactors, number of terms).
Oracle: S_LL, S_TT symmetric; v_T^2 S_LT(a,b) = -v_L^2 S_TL(b,a); 2 pi periodicity; the SDH
depends on b - a only; requested subsets equal the all-keys values - for the side-drilled
hole, the crack centre (general and optimised kernels) and the point source, through
`scat_factory` / `Scattering2d.__call__`.
"""
import math

import numpy as np

from common import b2f, f2b, fl

KEYS = ["LL", "LT", "TL", "TT"]


def sdh_coefs(frequency, radius, vl, vt, min_terms=10, term_factor=4):
    """modal coefficients (times epsilon_n), computed with the same SciPy routines as arim"""
    from scipy.special import hankel1, hankel2

    kl, kt = 2 * np.pi * frequency / vl, 2 * np.pi * frequency / vt
    alpha, beta = kl * radius, kt * radius
    beta2 = beta * beta
    maxn = max([int(min_terms), math.ceil(term_factor * alpha), math.ceil(term_factor * beta)])
    n = np.arange(0, maxn + 1)
    n2 = n * n
    eps = np.full(n.shape, 2.0)
    eps[0] = 1.0
    c1 = lambda x: (n2 + n - beta2 / 2) * hankel1(n, x) - x * hankel1(n - 1, x)
    c2 = lambda x: (n2 + n - beta2 / 2) * hankel2(n, x) - x * hankel2(n - 1, x)
    d1 = lambda x: (n2 + n) * hankel1(n, x) - n * x * hankel1(n - 1, x)
    d2 = lambda x: (n2 + n) * hankel2(n, x) - n * x * hankel2(n - 1, x)
    D = c1(alpha) * c1(beta) - d1(alpha) * d1(beta)
    aLL = eps * 1j / (2 * alpha) * (1 + (c2(alpha) * c1(beta) - d2(alpha) * d1(beta)) / D)
    bTT = eps * 1j / (2 * beta) * (1 + (c2(beta) * c1(alpha) - d2(beta) * d1(alpha)) / D)
    x = eps * (n2 - beta2 / 2 - 1) / D
    return alpha, beta, maxn, aLL, x, bTT


def cl(z):
    z = np.asarray(z, dtype=complex)
    return fl(np.stack([z.real, z.imag], axis=1).ravel())


def sym_checks(ctx, name, obj, vl, vt, freq, cj, tol, periodic_tol=None, shapes=True, sdh=False):
    """the relations of the property on one scatterer"""
    rng = ctx.rng
    shape_list = [((5,), (5,)), ((3, 1), (1, 4)), ((2, 3), (2, 3)), ((), (6,)), ((4, 1), (4, 3))] if shapes else [((4,), (4,)), ((3, 1), (1, 2)), ((2, 1), (2, 2)), ((), (3,))]
    # all ordered pairs of a few angles, as flat lists and as a table (the natural way to tabulate a scattering function): the
    # same angle then occurs several times, consecutively or not, in the incident and in the scattered list
    few = rng.uniform(-2 * np.pi, 2 * np.pi, size=3 if not shapes else 4)
    gx, gy = np.meshgrid(few, few, indexing="xy")
    arrays = [(rng.uniform(-2 * np.pi, 2 * np.pi, size=sa), rng.uniform(-2 * np.pi, 2 * np.pi, size=sb)) for sa, sb in shape_list]
    arrays += [(gx.ravel(), gy.ravel()), (gy, gx), (np.array([few[0], few[1], few[0], few[0], few[2], few[1]]), np.array([few[1], few[1], few[2], few[1], few[0], few[0]]))]
    for num_, (a, b) in enumerate(arrays):
        sa, sb = a.shape, b.shape
        if num_ >= len(shape_list):
            ctx.count(f"{name}:repeated_angles")
        r = obj(a, b, freq)
        rt = obj(b, a, freq)
        scale = max(np.abs(r[k]).max() for k in KEYS) + 1e-300
        ctx.count(f"{name}:shape{len(np.broadcast(a, b).shape)}d")
        bshape = np.broadcast(a, b).shape
        if any(np.shape(r[k]) != bshape for k in KEYS):
            ctx.violate(f"{name}: result shape is not the broadcast shape of the angles", cj, {"kind": "shape", "scatterer": name})
            continue
        if np.abs(r["LL"] - rt["LL"]).max() > tol * scale or np.abs(r["TT"] - rt["TT"]).max() > tol * scale:
            ctx.violate(f"{name}: S_LL or S_TT is not symmetric under exchange of incident and scattered angles", cj, {"kind": "symmetry", "scatterer": name})
        if np.abs(vt ** 2 * r["LT"] + vl ** 2 * rt["TL"]).max() > tol * scale * vl ** 2:
            ctx.violate(f"{name}: v_T^2 S_LT(a,b) != -v_L^2 S_TL(b,a)", cj, {"kind": "reciprocity", "scatterer": name})
        # broadcast semantics: the value at a position is the value of the scalar call with the angles at that position
        ab, bb = np.broadcast_arrays(a, b)
        for _ in range(2):
            pos = tuple(int(rng.integers(0, n)) for n in bshape)
            r1 = obj(float(ab[pos]), float(bb[pos]), freq)
            if max(abs(complex(np.asarray(r1[k]).ravel()[0]) - complex(r[k][pos])) for k in KEYS) > tol * scale:
                ctx.violate(f"{name}: the array call differs from the scalar call at position {pos} of angle shapes {sa} x {sb}", cj,
                            {"kind": "broadcast", "scatterer": name})
                break
        ptol = periodic_tol if periodic_tol is not None else tol
        k1, k2 = int(rng.integers(-2, 3)), int(rng.integers(-2, 3))
        rp = obj(a + 2 * np.pi * k1, b + 2 * np.pi * k2, freq)
        if max(np.abs(rp[k] - r[k]).max() for k in KEYS) > ptol * scale:
            ctx.violate(f"{name}: not 2 pi periodic in each angle", cj, {"kind": "periodicity", "scatterer": name})
        if sdh:
            delta = float(rng.uniform(-3, 3))
            rs = obj(a + delta, b + delta, freq)
            if max(np.abs(rs[k] - r[k]).max() for k in KEYS) > tol * scale:
                ctx.violate("side-drilled hole: values depend on more than the difference of the angles", cj, {"kind": "difference_only", "scatterer": name})
        # whole-radian angles held as integers (a Python int, an integer array) denote the same angles as their float values
        if num_ == 0:
            ai, bi = rng.integers(-6, 7, size=sa), rng.integers(-6, 7, size=sb)
            rf = obj(ai.astype(float), bi.astype(float), freq)
            for lab, (aa, bb) in (("integer arrays", (ai, bi)), ("an integer scattered angle only", (ai.astype(float), bi)), ("Python ints", (int(ai.ravel()[0]), int(bi.ravel()[0])))):
                try:
                    ri = obj(aa, bb, freq)
                except Exception as e:
                    ctx.violate(f"{name}: {type(e).__name__} for angles given as {lab}", cj, {"kind": "integer_angles", "scatterer": name})
                    continue
                ctx.count(f"{name}:integer_angles")
                ref_i = {k: (np.asarray(rf[k]).ravel()[0] if lab == "Python ints" else rf[k]) for k in KEYS}
                if any(np.abs(np.asarray(ri[k], dtype=complex) - ref_i[k]).max() > tol * scale for k in KEYS):
                    ctx.violate(f"{name}: angles given as {lab} give other values than the same angles as floats", cj, {"kind": "integer_angles", "scatterer": name})
        # subsets of keys
        # every non-empty subset of the four keys on the first shape, three subsets on the others
        import itertools
        all_subs = [list(c) for m_ in range(1, 5) for c in itertools.combinations(KEYS, m_)]
        for sub in (all_subs if num_ == 0 else ([["LL"], ["LT", "TL"], ["TT", "LL", "TL"]] if shapes else [["LT"]])):
            rsub = obj(a, b, freq, to_compute=set(sub))
            if any(k not in rsub or not np.array_equal(np.asarray(rsub[k]), np.asarray(r[k])) for k in sub):
                # optimised kernels may differ in rounding: allow 1e-12
                if any(k not in rsub or np.abs(np.asarray(rsub[k]) - np.asarray(r[k])).max() > 1e-12 * scale for k in sub):
                    ctx.violate(f"{name}: the values for the subset {sub} differ from the all-keys values", cj, {"kind": "subset", "scatterer": name})


def interface_checks(ctx, name, obj, freq, cj, tol):
    """Every entry point of the `Scattering2d` interface returns the values of the plain call, whatever was asked of the
    same object before: `as_single_freq_matrices` / `as_multi_freq_matrices` / `as_multi_freq_matrices_obj` with key
    subsets requested in sequence (small subsets first, then the complementary ones, then all four, then again),
    `as_angles_funcs`, `as_freq_angles_funcs`.  Reference: point-by-point scalar calls on the matrix grid [out, inc]."""
    import itertools

    import arim.scat as scat

    rng = ctx.rng
    n = int(rng.choice([4, 5, 7]))
    th = scat.make_angles(n)
    ref = {k: np.zeros((n, n), complex) for k in KEYS}
    for j in range(n):
        for i in range(n):
            r1 = obj(float(th[i]), float(th[j]), freq)
            for k in KEYS:
                ref[k][j, i] = complex(np.asarray(r1[k]).ravel()[0])
    scale = max(np.abs(ref[k]).max() for k in KEYS) + 1e-300
    subs = [set(c) for m_ in range(1, 5) for c in itertools.combinations(KEYS, m_)]
    order = [subs[int(i)] for i in rng.permutation(len(subs))[:6]]
    order = sorted(order, key=len)[:3] + [set(KEYS) - order[0] or set(KEYS)] + [set(KEYS)] + [order[-1]]
    freqs = [freq, freq * 1.25]
    for sub in order:
        ctx.count(f"{name}:matrices_subset{len(sub)}")
        m = obj.as_single_freq_matrices(freq, n, to_compute=set(sub))
        bad = [k for k in sub if k not in m or np.shape(m[k]) != (n, n) or np.abs(m[k] - ref[k]).max() > tol * scale]
        if bad:
            ctx.violate(f"{name}: as_single_freq_matrices(to_compute={sorted(sub)}) after the requests {[sorted(x) for x in order[:order.index(sub)]]} on the same object: "
                        f"entries [out, inc] of {bad} are not the function values", dict(cj, numangles=n, sequence=[sorted(x) for x in order]), {"kind": "matrix_sequence", "scatterer": name})
            return
        mm = obj.as_multi_freq_matrices(freqs, n, to_compute=set(sub))
        bad = [k for k in sub if k not in mm or np.shape(mm[k]) != (2, n, n) or np.abs(mm[k][0] - ref[k]).max() > tol * scale]
        if bad:
            ctx.violate(f"{name}: as_multi_freq_matrices(to_compute={sorted(sub)}): the first frequency slice of {bad} is not the function at that frequency",
                        dict(cj, numangles=n, sequence=[sorted(x) for x in order]), {"kind": "matrix_sequence", "scatterer": name})
            return
    a, b = rng.uniform(-4, 4, size=5), rng.uniform(-4, 4, size=5)
    r = obj(a, b, freq)
    f1, f2 = obj.as_angles_funcs(freq), obj.as_freq_angles_funcs()
    for k in KEYS:
        if np.abs(f1[k](a, b) - r[k]).max() > tol * scale or np.abs(f2[k](a, b, freq) - r[k]).max() > tol * scale:
            ctx.violate(f"{name}: as_angles_funcs / as_freq_angles_funcs ['{k}'] is not the '{k}' entry of the plain call", cj, {"kind": "funcs", "scatterer": name})
            return
    # a keyword given at call time overrides the bound frequency for that call only
    other = freq * 1.37
    r_other = obj(a, b, other)
    for k in KEYS:
        try:
            v_over = f1[k](a, b, frequency=other)
            v_again = f1[k](a, b)
        except Exception as e:
            ctx.violate(f"{name}: as_angles_funcs()['{k}'] refuses a frequency keyword at call time: {type(e).__name__}", cj, {"kind": "funcs", "scatterer": name})
            break
        if np.abs(v_over - r_other[k]).max() > tol * scale or np.abs(v_again - r[k]).max() > tol * scale:
            ctx.violate(f"{name}: as_angles_funcs(f0)['{k}'] called once with frequency=f1 — the override is not the value at f1, or later calls without "
                        "the keyword no longer answer for f0", cj, {"kind": "funcs_state", "scatterer": name})
            break
    try:
        data = obj.as_multi_freq_matrices_obj(freqs, n)
        rd = data(a, b, freq)
        ri = scat.interpolate_matrices if False else None
        md = data.as_single_freq_matrices(freq, n) if hasattr(data, "as_single_freq_matrices") else None
    except Exception as e:
        ctx.violate(f"{name}: as_multi_freq_matrices_obj raised {type(e).__name__}: {str(e)[:80]}", cj, {"kind": "matrix_obj", "scatterer": name})
        return
    om = data.orig_matrices
    if any(np.abs(np.asarray(om[k])[0] - ref[k]).max() > tol * scale for k in KEYS):
        ctx.violate(f"{name}: as_multi_freq_matrices_obj does not hold the function values at the sampled frequency", cj, {"kind": "matrix_obj", "scatterer": name})


def run(ctx):
    import arim
    import arim.scat as scat

    rng = ctx.rng
    ctx.rule = ("side-drilled holes (radius 0.1-2 mm, 1-10 MHz, random L/T velocities), crack centres (length 0.5-3 mm, general and optimised kernels), point sources; "
                "angle arrays of several broadcastable shapes over [-2 pi, 2 pi]; every relation of the property; distinct = distinct scatterer/angles; all cases non-trivial")
    lines, meta = [], []
    # every scatterer object built during the run is kept and questioned again at the end, after all the others have
    # been created and used: its values must be those it gave when it was new (and still satisfy the relations)
    keep = []
    probe_a, probe_b = rng.uniform(-3, 3, size=5), rng.uniform(-3, 3, size=5)
    for _ in range(12 * ctx.scale):
        vl = float(rng.uniform(4000, 6500))
        vt = float(vl * rng.uniform(0.45, 0.65))
        mat = arim.Material(vl, vt, density=float(rng.uniform(2000, 8000)), state_of_matter="solid")
        freq = float(rng.uniform(1e6, 10e6))
        radius = float(rng.uniform(0.1e-3, 2e-3))
        obj = scat.scat_factory("sdh", mat, radius)
        cj = {"op": "sdh", "vl": vl, "vt": vt, "frequency": freq, "radius": radius}
        keep.append(("sdh", obj, vl, vt, freq, cj, obj(probe_a, probe_b, freq)))
        ctx.case(("sdh", vl, vt, freq, radius), True, sample=cj)
        sym_checks(ctx, "sdh", obj, vl, vt, freq, cj, 1e-9, sdh=True)
        if _ % 3 == 0:
            interface_checks(ctx, "sdh", obj, freq, cj, 1e-10)
        if _ % 4 == 0:
            # the tabulated form of the same functions (single-frequency matrices on the regular grid): S_LL, S_TT symmetric,
            # v_T^2 S_LT = -v_L^2 S_TL^T — also after a caller has taken the grid of that size and shifted it in place
            n_ = int(rng.integers(5, 12))
            gi, go = scat.make_angles_grid(n_)
            gi += 0.37
            M_ = obj.as_single_freq_matrices(freq, n_)
            sc_ = max(np.abs(M_[k_]).max() for k_ in KEYS) + 1e-300
            ctx.count("sdh:matrices_after_grid_shift")
            if (np.abs(M_["LL"] - M_["LL"].T).max() > 1e-9 * sc_ or np.abs(M_["TT"] - M_["TT"].T).max() > 1e-9 * sc_
                    or np.abs(vt ** 2 * M_["LT"] + vl ** 2 * M_["TL"].T).max() > 1e-9 * sc_ * vl ** 2):
                ctx.violate("sdh: the single-frequency matrices are not reciprocal / symmetric once a caller has shifted, in place, an angle grid of the same size it had obtained from make_angles_grid",
                            {**cj, "numangles": n_}, {"kind": "matrices_symmetry", "scatterer": "sdh"})
        # correspondence of the modal sums
        alpha, beta, maxn, aLL, x, bTT = sdh_coefs(freq, radius, vl, vt)
        inc = rng.uniform(-2 * np.pi, 2 * np.pi, size=8)
        out = rng.uniform(-2 * np.pi, 2 * np.pi, size=8)
        r = obj(inc, out, freq)
        lines.append(f"sdh {f2b(alpha)} {f2b(beta)} {maxn} {cl(aLL)} {cl(x)} {cl(bTT)} {fl(inc)} {fl(out)}")
        meta.append((r, cj))
        pt = scat.scat_factory("point", mat)
        keep.append(("point", pt, vl, vt, freq, {"op": "point", "vl": vl, "vt": vt}, pt(probe_a, probe_b, freq)))
        ctx.case(("point", vl, vt), True)
        sym_checks(ctx, "point", pt, vl, vt, freq, {"op": "point", "vl": vl, "vt": vt}, 1e-12)
        if _ % 3 == 1:
            interface_checks(ctx, "point", pt, freq, {"op": "point", "vl": vl, "vt": vt}, 1e-12)
    for _ in range(3 * ctx.scale):
        vl = float(rng.uniform(5000, 6500))
        vt = float(vl * rng.uniform(0.48, 0.6))
        rho = float(rng.uniform(2000, 8000))
        mat = arim.Material(vl, vt, density=rho, state_of_matter="solid")
        freq = float(rng.uniform(2e6, 6e6))
        length = float(rng.uniform(0.5e-3, 2.5e-3))
        npw = int(rng.choice([8, 12, 20]))
        if _ % 3 == 2:
            # the coarsest meshes: a crack much shorter than the wavelength (or few nodes per wavelength) is discretised with 1, 2
            # or 3 Galerkin nodes; every relation holds for these too
            npw = 2
            length = float((vl / freq) * rng.choice([0.3, 0.8, 1.3]))
        cj = {"op": "crack_centre", "vl": vl, "vt": vt, "density": rho, "frequency": freq, "crack_length": length, "nodes_per_wavelength": npw}
        ctx.case(("crack", vl, vt, rho, freq, length, npw), True, sample=cj)
        obj = scat.scat_factory("crack_centre", mat, length, nodes_per_wavelength=npw)
        keep.append(("crack_centre", obj, vl, vt, freq, cj, obj(probe_a, probe_b, freq)))
        # exchange symmetries hold to rounding; periodicity only to 1e-5: basis_function switches between a series and a closed
        # form at |k| = 0.1 where the closed form loses about nine digits (conditioning of the implementation)
        sym_checks(ctx, "crack_centre", obj, vl, vt, freq, cj, 1e-9, periodic_tol=1e-5, shapes=False)
        interface_checks(ctx, "crack_centre", obj, freq, cj, 1e-9)
        # optimised kernel vs general kernel on a matrix of angles
        th = scat.make_angles(9)
        inc2, out2 = scat.make_angles_grid(9)
        # the optimised kernel is the one used for matrices (one incident angle per column: make_angles_grid layout)
        g1 = obj(inc2, out2, freq)
        g2 = obj.as_single_freq_matrices(freq, 9)
        sc = max(np.abs(g1[k]).max() for k in KEYS)
        if max(np.abs(g1[k] - g2[k]).max() for k in KEYS) > 1e-10 * sc:
            ctx.violate("crack centre: optimised and general kernels disagree", cj, {"kind": "crack_kernels"})
    for name, obj, vl, vt, freq, cj, first in keep:
        again = obj(probe_a, probe_b, freq)
        ctx.count("requestioned_after_other_scatterers")
        if any(not np.array_equal(np.asarray(again[k]), np.asarray(first[k])) for k in KEYS):
            ctx.violate(f"{name}: the values of a scatterer changed after other scatterers were created and used "
                        "(they no longer belong to its own material, size and frequency)", cj, {"kind": "state_isolation", "scatterer": name})
            continue
        rt = obj(probe_b, probe_a, freq)
        scale = max(np.abs(again[k]).max() for k in KEYS) + 1e-300
        if np.abs(vt ** 2 * again["LT"] + vl ** 2 * rt["TL"]).max() > 1e-9 * scale * vl ** 2:
            ctx.violate(f"{name}: v_T^2 S_LT(a,b) != -v_L^2 S_TL(b,a) when questioned again at the end of the run", cj, {"kind": "reciprocity", "scatterer": name})
    answers = ctx.drive(lines) if ctx.lean.driver_ok and not ctx.oracle_only else []
    for (r, cj), a in zip(meta, answers):
        if not a.startswith("ok "):
            ctx.disagree("model rejected the sdh request", cj)
            continue
        ok = True
        for q, t in enumerate(a[3:].split("|")):
            vals = [complex(b2f(x.split(",")[0]), b2f(x.split(",")[1])) for x in t.split(";")]
            for k, v in zip(KEYS, vals):
                scale = max(np.abs(r[kk]).max() for kk in KEYS)
                if abs(v - r[k][q]) > 1e-10 * scale:
                    ok = False
        if not ok:
            ctx.disagree("sdh_2d_scat differs from the modal-sum model", cj)
    ctx.assumptions += ["Hankel functions and the Galerkin integrals / linear solves of the crack are opaque: reciprocity is proved from the structure of the formulas",
                        "crack periodicity is checked to 1e-5 (loss of digits of basis_function's closed form near |k| = 0.1), everything else to 1e-9"]


def search(ctx):
    ctx.oracle_only = True
    ctx.rng = np.random.Generator(np.random.PCG64(ctx.seed + 7919))
    old = ctx.scale
    ctx.scale = max(2, 2 * old)
    try:
        run(ctx)
    finally:
        ctx.scale = old
