"""C01 — ray tracing returns the globally fastest discrete ray (Fermat).

Correspondence: Lean `solveR` (the constant `solve_optimal` is about) evaluated on Float /
Float32 by the compiled driver vs `arim.ray.FermatSolver`, `find_minimum_times`,
`ray_tracing_for_paths`.  Times are compared bit for bit, indices through the relation the
theorem needs (in range, realise the time).
Oracle (independent of Lean): brute force over all index tuples with left-associated sums,
reversal, grouping, Snell sandwich on flat walls.
"""
import itertools
import math

import numpy as np

from common import f2b, fmat, fl

SIZES = [1, 2, 3, 5, 8]


def gen_case(rng, boundary=False):
    nsets = int(rng.integers(2, 6))
    dim3 = bool(rng.integers(0, 2))
    sets = []
    for _ in range(nsets):
        n = int(rng.choice(SIZES))
        if boundary and rng.random() < 0.5:
            # many exact ties: points on a tiny integer lattice
            pts = rng.integers(-2, 3, size=(n, 3)).astype(float)
        else:
            pts = rng.normal(size=(n, 3)) * 10.0 ** rng.integers(-3, 2)
        if not dim3:
            pts[:, 1] = 0.0
        sets.append(pts)
    npaths = int(rng.integers(1, 7))
    paths = []
    vel_pool = [float(v) for v in rng.uniform(300, 7000, size=3)]
    base = None
    for _ in range(npaths):
        nlegs = int(rng.integers(1, 5))
        if base is not None and rng.random() < 0.6:
            # share a prefix with an earlier path (cache reuse)
            keep = int(rng.integers(1, len(base[0]) + 1))
            ids = list(base[0][:keep])
            vs = list(base[1][: keep - 1])
        else:
            ids, vs = [int(rng.integers(0, nsets))], []
        while len(ids) < nlegs + 1:
            ids.append(int(rng.integers(0, nsets)))
            vs.append(float(rng.choice(vel_pool)))
        ids, vs = ids[: nlegs + 1], vs[:nlegs]
        if len(ids) < 2:
            ids.append(int(rng.integers(0, nsets)))
            vs.append(float(rng.choice(vel_pool)))
        # cost bound: product of interior sizes <= 600
        while np.prod([len(sets[i]) for i in ids[1:-1]] or [1]) > 600:
            ids.pop(-2)
            vs.pop()
        paths.append((tuple(ids), tuple(vs)))
        base = paths[-1]
    f32 = rng.random() < 0.2
    return {"sets": sets, "paths": paths, "f32": f32}


def case_line(case):
    sets = "|".join(fmat(s) for s in case["sets"])
    ps = []
    for ids, vs in case["paths"]:
        toks = [str(ids[0])]
        for i, v in zip(ids[1:], vs):
            toks += [str(f2b(v)), str(i)]
        ps.append(":".join(toks))
    return f"fermat {'f32' if case['f32'] else 'f64'} {sets} " + " ".join(ps)


def parse_answer(ans, case):
    assert ans.startswith("ok "), ans
    outs = ans[3:].split(" ")
    res = []
    for (ids, vs), o in zip(case["paths"], outs):
        t, idx = o.split("/")
        n, p = len(case["sets"][ids[0]]), len(case["sets"][ids[-1]])
        times = np.array([int(x) for x in t.split(",")], dtype=np.uint64).view(np.float64).reshape(n, p)
        d = len(ids) - 2
        if d > 0:
            ind = np.array([[int(x) for x in c.split(",")] for c in idx.split(";")]).reshape(n, p, d)
            ind = np.moveaxis(ind, 2, 0)
        else:
            ind = np.zeros((0, n, p), dtype=int)
        res.append((times, ind))
    return res


def run_impl(case, arim):
    """solve all paths of the case with one FermatSolver"""
    from arim import geometry as g
    from arim import ray

    pts = [g.Points(s.copy(), f"S{k}") for k, s in enumerate(case["sets"])]
    fpaths = []
    for ids, vs in case["paths"]:
        seq = [pts[ids[0]]]
        for i, v in zip(ids[1:], vs):
            seq += [v, pts[i]]
        fpaths.append(ray.FermatPath(tuple(seq)))
    dtype = np.float32 if case["f32"] else np.float64
    solver = ray.FermatSolver(tuple(fpaths), dtype=dtype)
    res = solver.solve()
    return pts, fpaths, [res[fp] for fp in fpaths]


def leg_table(a, b, v, f32):
    """independent re-statement of consecutive_times in plain Python doubles"""
    t = np.empty((len(a), len(b)), dtype=np.float32 if f32 else np.float64)
    for i in range(len(a)):
        for j in range(len(b)):
            dx, dy, dz = a[i][0] - b[j][0], a[i][1] - b[j][1], a[i][2] - b[j][2]
            d = math.sqrt(dx * dx + dy * dy + dz * dz)
            if f32:
                t[i, j] = np.float32(d) / np.float32(v)
            else:
                t[i, j] = d / v
    return t


def brute(case, ids, vs):
    """minimum over all tuples of the left-associated cost; returns (min table, cost function)"""
    f32 = case["f32"]
    sets = case["sets"]
    tabs = [leg_table(sets[a], sets[b], v, f32) for a, b, v in zip(ids[:-1], ids[1:], vs)]
    n, p = len(sets[ids[0]]), len(sets[ids[-1]])
    inner = [range(len(sets[i])) for i in ids[1:-1]]

    def cost(i, ks, j):
        chain = [i, *ks, j]
        c = tabs[0][chain[0], chain[1]]
        for l in range(1, len(tabs)):
            c = c + tabs[l][chain[l], chain[l + 1]]
        return c

    best = np.empty((n, p), dtype=tabs[0].dtype)
    for i in range(n):
        for j in range(p):
            best[i, j] = min(cost(i, ks, j) for ks in itertools.product(*inner))
    return best, cost


def check_case(ctx, case, answer=None):
    """returns list of (kind, what) where kind in {'disagree','violate'}"""
    import arim

    out = []
    pts, fpaths, rays = run_impl(case, arim)
    model = parse_answer(answer, case) if answer is not None else None
    for k, ((ids, vs), r) in enumerate(zip(case["paths"], rays)):
        times = np.asarray(r.times, dtype=np.float64)
        interior = np.asarray(r.interior_indices)
        n, p = times.shape
        # ---- correspondence with the Lean model
        if model is not None:
            mt, mi = model[k]
            if not np.array_equal(mt.view(np.uint64), times.view(np.uint64)):
                out.append(("disagree", f"path {k}: times differ from the model (bitwise)"))
        # ---- oracle: indices layout, range, realise the time; time is the brute-force minimum
        best, cost = brute(case, ids, vs)
        full = np.asarray(r.indices)
        ok_layout = (
            full.shape == (len(ids), n, p)
            and all((full[0, i, :] == i).all() for i in range(n))
            and all((full[-1, :, j] == j).all() for j in range(p))
            and np.array_equal(full[1:-1], interior)
        )
        if not ok_layout:
            out.append(("violate", f"path {k}: indices layout wrong"))
            continue
        for d, sid in enumerate(ids[1:-1]):
            if interior[d].min() < 0 or interior[d].max() >= len(case["sets"][sid]):
                out.append(("violate", f"path {k}: interior index out of range"))
        if not np.array_equal(np.asarray(r.times).astype(best.dtype), best):
            i, j = np.argwhere(np.asarray(r.times).astype(best.dtype) != best)[0]
            out.append(("violate", f"path {k}: times[{i},{j}]={r.times[i, j]!r} is not the minimum {best[i, j]!r} over all tuples"))
        else:
            for i in range(n):
                for j in range(p):
                    c = cost(i, tuple(int(x) for x in interior[:, i, j]), j)
                    if c != r.times[i, j]:
                        out.append(("violate", f"path {k}: reported points of ray ({i},{j}) give {c!r}, time says {r.times[i, j]!r}"))
                        break
                else:
                    continue
                break
        # ---- grouping: same answer as solving the path alone
        from arim import ray

        solo = ray.FermatSolver((fpaths[k],), dtype=r.times.dtype.type).solve()[fpaths[k]]
        if not (np.array_equal(solo.times, r.times) and np.array_equal(solo.indices, r.indices)):
            out.append(("violate", f"path {k}: solved in a group differs from solved alone"))
        # ---- reversal: transposed times (to rounding), Rays.reverse exact
        rp = fpaths[k].reverse()
        rrev = ray.FermatSolver((rp,), dtype=r.times.dtype.type).solve()[rp]
        eps = np.finfo(r.times.dtype).eps
        tol = 4 * len(vs) * eps * np.abs(times)
        if not np.all(np.abs(np.asarray(rrev.times, dtype=np.float64).T - times) <= tol):
            out.append(("violate", f"path {k}: reversed path does not give transposed times"))
        rr = r.reverse()
        if not (np.array_equal(rr.times, r.times.T) and np.array_equal(
                rr.interior_indices, np.swapaxes(interior, 1, 2)[::-1])):
            out.append(("violate", f"path {k}: Rays.reverse is not the transposed ray set"))
    return out


# ------------------------------------------------------------------------------------------
# min-plus kernel alone, adversarial matrices and block sizes
# ------------------------------------------------------------------------------------------
def gen_minplus(rng):
    n, m, p = (int(rng.integers(1, 9)) for _ in range(3))
    kind = rng.integers(0, 3)
    if kind == 0:
        a, b = rng.integers(0, 3, size=(n, m)).astype(float), rng.integers(0, 3, size=(m, p)).astype(float)
    elif kind == 1:
        a, b = rng.normal(size=(n, m)), rng.normal(size=(m, p))
    else:
        a, b = np.zeros((n, m)), np.zeros((m, p))
        a[rng.random((n, m)) < 0.5] = -0.0
        b[rng.random((m, p)) < 0.3] = 1.0
    return a, b, int(rng.choice([1, 2, 3, 7, 1000]))


def check_minplus(ctx, a, b, block, answer):
    from arim import ray

    out = []
    order = ctx.rng.integers(0, 2)
    a_in = np.asfortranarray(a) if order else a
    t, idx = ray.find_minimum_times(a_in, b, block_size=block, numthreads=int(ctx.rng.integers(1, 5)))
    n, m = a.shape
    p = b.shape[1]
    cand = a[:, :, None] + b[None, :, :]
    best = cand.min(axis=1)
    if not np.array_equal(t, best):
        out.append(("violate", "find_minimum_times: not the minimum over k"))
    elif not (idx.min() >= 0 and idx.max() < m and np.array_equal(
            np.take_along_axis(cand, idx[:, None, :].astype(np.int64), axis=1)[:, 0, :], t)):
        out.append(("violate", "find_minimum_times: argmin does not realise the minimum"))
    mt, mi = answer[3:].split("/")
    mt = np.array([int(x) for x in mt.split(",")], dtype=np.uint64).view(np.float64).reshape(n, p)
    mi = np.array([int(x) for x in mi.split(",")]).reshape(n, p)
    # -0.0 and +0.0 compare equal: the value class is what matters here
    if not np.array_equal(mt, t):
        out.append(("disagree", "find_minimum_times: values differ from the model"))
    if not np.array_equal(mi, idx):
        out.append(("disagree-soft", "find_minimum_times: argmin tie-break differs from the model (first minimiser)"))
    return out


# ------------------------------------------------------------------------------------------
# sandwich on flat walls
# ------------------------------------------------------------------------------------------
def sandwich_case(rng):
    nwalls = int(rng.integers(1, 4))
    zs = np.sort(rng.uniform(5e-3, 40e-3, size=nwalls))
    zs = np.concatenate([[0.0], zs, [zs[-1] + rng.uniform(5e-3, 30e-3)]])
    vs = [float(v) for v in rng.uniform(1000, 6500, size=nwalls + 1)]
    src = np.array([[rng.uniform(-10e-3, 10e-3), 0.0, zs[0]]])
    dst = np.array([[rng.uniform(-10e-3, 10e-3), 0.0, zs[-1]]])
    walls = []
    for z in zs[1:-1]:
        npts = int(rng.choice([3, 5, 8, 20]))
        x = np.sort(rng.uniform(-30e-3, 30e-3, size=npts))
        w = np.zeros((npts, 3))
        w[:, 0], w[:, 2] = x, z
        walls.append(w)
    return src, walls, dst, vs, zs


def check_sandwich(ctx, sc):
    from scipy.optimize import minimize
    from arim import geometry as g, ray

    src, walls, dst, vs, zs = sc
    allsets = [src, *walls, dst]
    pts = [g.Points(s) for s in allsets]
    seq = [pts[0]]
    for v, pnt in zip(vs, pts[1:]):
        seq += [v, pnt]
    fp = ray.FermatPath(tuple(seq))
    r = ray.FermatSolver((fp,)).solve()[fp]
    t = float(r.times[0, 0])

    def T(xs):
        chain = np.concatenate([[src[0, 0]], xs, [dst[0, 0]]])
        return sum(math.hypot(chain[k + 1] - chain[k], zs[k + 1] - zs[k]) / vs[k] for k in range(len(vs)))

    x0 = np.linspace(src[0, 0], dst[0, 0], len(walls) + 2)[1:-1]
    opt = minimize(T, x0, method="Nelder-Mead", options={"xatol": 1e-12, "fatol": 1e-18, "maxiter": 4000})
    tc = min(opt.fun, T(x0))
    out = []
    # lower bound: unconstrained continuous optimum (convex problem); tolerance for the optimiser
    if t < tc * (1 - 1e-9):
        out.append(("violate", f"sandwich: discrete time {t} below the continuous Fermat time {tc}"))
    near = [int(np.argmin(np.abs(w[:, 0] - x))) for w, x in zip(walls, opt.x)]
    tn = T(np.array([w[k, 0] for w, k in zip(walls, near)]))
    if t > tn * (1 + 1e-12):
        out.append(("violate", f"sandwich: discrete time {t} above the time {tn} through the nearest samples"))
    return out


def check_solver_cache(ctx, case):
    """the solver's result cache holds exactly the multi-leg prefixes of the solved paths (model: solveAll)"""
    from arim import geometry as g
    from arim import ray

    pts = [g.Points(s.copy(), f"S{k}") for k, s in enumerate(case["sets"])]
    fpaths = []
    for ids, vs in case["paths"]:
        seq = [pts[ids[0]]]
        for i, v in zip(ids[1:], vs):
            seq += [v, pts[i]]
        fpaths.append(ray.FermatPath(tuple(seq)))
    solver = ray.FermatSolver(tuple(fpaths))
    solver.solve_no_clean()
    legid = {}

    def key_of(fp):
        out = []
        for k in range(0, len(fp) - 2, 2):
            leg = (id(fp[k]), fp[k + 1], id(fp[k + 2]))
            out.append(legid.setdefault(leg, len(legid)))
        return out
    keys = [key_of(fp) for fp in fpaths]
    got = sorted(",".join(map(str, key_of(k))) for k in solver.cached_result.keys())
    ans = ctx.drive(["fermatcache " + " ".join(",".join(map(str, k)) for k in keys)])[0]
    model = sorted(x for x in ans[3:].split(";") if x) if ans.startswith("ok") else None
    if model != got:
        ctx.disagree(f"solver cache keys {got} differ from the model {model}", case_json(case))



# ------------------------------------------------------------------------------------------
# the public entry points: ray_tracing_for_paths / ray_tracing write Path.rays
# ------------------------------------------------------------------------------------------
def gen_path_group(rng):
    """a list of arim.Path objects over shared point sets: distinct paths, the same Path object listed twice, and
    distinct Path objects that describe the same ray-tracing problem (equal FermatPath)"""
    import arim
    import arim.geometry as g

    couplant = arim.Material(float(rng.uniform(1200, 1700)), density=1000.0, state_of_matter="liquid")
    block = arim.Material(float(rng.uniform(5500, 6500)), float(rng.uniform(2800, 3300)), density=2700.0, state_of_matter="solid")
    nsets = int(rng.integers(3, 6))
    ifaces = []
    for k in range(nsets):
        n = int(rng.choice([1, 2, 3, 5]))
        pts = rng.normal(size=(n, 3)) * 1e-2
        pts[:, 1] = 0.0
        P = g.Points(pts, f"S{k}")
        ifaces.append(arim.Interface(P, g.default_orientations(P)))

    def one_path(name):
        nlegs = int(rng.integers(1, 4))
        ids = [int(rng.integers(0, nsets)) for _ in range(nlegs + 1)]
        mats = [couplant if (k == 0 and rng.random() < 0.5) else block for k in range(nlegs)]
        modes = ["L" if m is couplant else str(rng.choice(["L", "T"])) for m in mats]
        return arim.Path(tuple(ifaces[i] for i in ids), tuple(mats), tuple(modes), name=name)

    paths = [one_path(f"P{k}") for k in range(int(rng.integers(1, 5)))]
    kind = int(rng.integers(0, 4))
    if kind == 1:      # the same object twice
        k = int(rng.integers(0, len(paths)))
        paths.insert(int(rng.integers(0, len(paths) + 1)), paths[k])
    elif kind == 2:    # an equal problem under another Path object
        k = int(rng.integers(0, len(paths)))
        q = paths[k]
        paths.insert(int(rng.integers(0, len(paths) + 1)), arim.Path(q.interfaces, q.materials, q.modes, name=q.name + "bis"))
    elif kind == 3 and len(paths) > 1:   # a permutation of the list
        paths = [paths[i] for i in rng.permutation(len(paths))]
    return paths, kind


def check_path_api(ctx, paths, kind, fortran, via_views, retrace=None):
    """`retrace`: the paths were traced before (their `rays` are set) and the problem was changed since then, in place
    (interface points moved, materials / modes re-assigned on the same Path objects): tracing again must solve the
    problem as it is *now*, in the order requested *now*"""
    import arim
    from arim import ray

    if retrace is None:
        for p_ in paths:
            p_.rays = None
    else:
        kind = f"{kind}, re-traced after {retrace}"
    if via_views:
        views = [arim.View(p_, paths[(k + 1) % len(paths)], f"v{k}") for k, p_ in enumerate(paths)]
        ray.ray_tracing(views, convert_to_fortran_order=fortran)
    else:
        ray.ray_tracing_for_paths(list(paths), convert_to_fortran_order=fortran)
    out = []
    for k, p_ in enumerate(paths):
        # the problem as the Path states it *now*: its point sets and, for every leg, the velocity of the leg's mode read from the
        # documented attributes of the leg's material (not through any helper of the library)
        vels = [float(m_.longitudinal_vel if md_ is arim.Mode.L else m_.transverse_vel) for m_, md_ in zip(p_.materials, p_.modes)]
        fp = ray.FermatPath(tuple(x for q_, itf in enumerate(p_.interfaces) for x in ((itf.points,) if q_ == 0 else (vels[q_ - 1], itf.points))))
        solo = ray.FermatSolver((fp,)).solve()[fp]
        r = p_.rays
        if r is None:
            out.append(("violate", f"path {k} of {len(paths)} (group kind {kind}): no rays were attached by ray tracing"))
            continue
        if r.times.shape != solo.times.shape or not np.array_equal(r.times, solo.times) \
                or r.indices.shape != solo.indices.shape or not np.array_equal(r.indices, solo.indices):
            out.append(("violate", f"path {k} of {len(paths)} (group kind {kind}, fortran={fortran}, via_views={via_views}): "
                                   "rays attached by ray tracing differ from solving the path alone"))
            continue
        if r.fermat_path != fp:
            out.append(("violate", f"path {k}: attached rays belong to another path"))
        # secondary doors: the reported points as coordinates, the path as a FermatPath, the solver built from views
        if p_.to_fermat_path() != fp:
            out.append(("violate", f"path {k}: Path.to_fermat_path() is not the path's point sets and leg velocities"))
        ii, jj = r.times.shape[0] - 1, r.times.shape[1] - 1
        one = r.get_coordinates_one(ii, jj).coords
        want_one = np.array([itf.points.coords[int(r.indices[q_, ii, jj])] for q_, itf in enumerate(p_.interfaces)])
        if one.shape != want_one.shape or not np.array_equal(one, want_one):
            out.append(("violate", f"path {k}: get_coordinates_one({ii}, {jj}) is not the list of the reported points of that ray"))
        for q_ in range(len(p_.interfaces)):
            (x_, y_, z_), = list(r.get_coordinates(q_))
            pc = p_.interfaces[q_].points.coords[np.asarray(r.indices[q_])]
            if not (np.array_equal(x_, pc[..., 0]) and np.array_equal(y_, pc[..., 1]) and np.array_equal(z_, pc[..., 2])):
                out.append(("violate", f"path {k}: get_coordinates({q_}) is not the coordinates of the reported points at interface {q_}"))
                break
    if via_views and paths:
        views2 = [arim.View(p_, paths[(k + 1) % len(paths)], f"w{k}") for k, p_ in enumerate(paths)]
        try:
            res = ray.FermatSolver.from_views(views2).solve()
            for p_ in paths:
                fpv = p_.to_fermat_path()
                if fpv not in res or not np.array_equal(res[fpv].times, p_.rays.times):
                    out.append(("violate", "FermatSolver.from_views(views).solve() does not give, for each path of the views, the times ray tracing attached"))
                    break
        except Exception as e:
            out.append(("violate", f"FermatSolver.from_views raised {type(e).__name__}: {str(e)[:80]}"))
        if fortran and not (r.times.flags.f_contiguous and r.indices.flags.f_contiguous):
            out.append(("violate", f"path {k}: Fortran order requested, arrays are not Fortran-contiguous"))
    return out


def check_index_dtypes(ctx):
    """(unsigned index types are refused by `Rays.__init__` by design — `-1` marks "no ray" — and are not tried)
    rays_indices_layout for every index dtype the solver accepts and ray counts around the dtype limits: indices[0,i,j] = i,
    indices[-1,i,j] = j, interior rows realise the times — also when there are more rays than the index type can count
    (each *point set* still fits: the type only has to hold point numbers)"""
    import arim
    import arim.geometry as g
    from arim import ray

    rng = ctx.rng
    block = arim.Material(6300.0, 3100.0, density=2700.0, state_of_matter="solid")
    for dtype_idx, (n, p) in [(np.int16, (182, 181)), (np.int16, (40, 30)), (np.int32, (200, 170)), (np.int64, (50, 60)), (np.int8, (12, 11)),
                              (None, (2, 33000)), (None, (33000, 2))]:      # None: the default index type, a first / last point set beyond 2^15 points
        for nmid in (None, 3, (3, 11)):
            A = g.Points(np.c_[np.linspace(-0.02, 0.02, n), np.zeros(n), np.zeros(n)], "A")
            B = g.Points(np.c_[rng.uniform(-0.02, 0.02, p), np.zeros(p), rng.uniform(0.01, 0.03, p)], "B")
            mids = [] if nmid is None else ([nmid] if isinstance(nmid, int) else list(nmid))
            if len(mids) == 2 and n * p > 3000:
                continue
            sets = [A] + [g.Points(np.c_[rng.uniform(-0.01, 0.01, m_), np.zeros(m_), np.full(m_, 0.003 * (q_ + 1))], f"M{q_}") for q_, m_ in enumerate(mids)] + [B]
            fp = ray.FermatPath(tuple(x for k, s_ in enumerate(sets) for x in ((s_,) if k == 0 else (block.longitudinal_vel if k % 2 else block.transverse_vel, s_))))
            dname = "default" if dtype_idx is None else np.dtype(dtype_idx).name
            cj = {"op": "index_dtype", "dtype_indices": dname, "n": n, "p": p, "interior_points": mids}
            ctx.case(("idxdtype", dname, n, p, tuple(mids)), True)
            ctx.count("index_dtype:" + dname)
            try:
                rays = (ray.FermatSolver((fp,), dtype_indices=dtype_idx) if dtype_idx is not None else ray.FermatSolver((fp,))).solve()[fp]
            except Exception as e:
                ctx.violate(f"FermatSolver(dtype_indices={dname}) raised {type(e).__name__}: {str(e)[:80]} ({n} x {p} rays, every point set fits the type)", cj, {"kind": "index_dtype"})
                continue
            ix = np.asarray(rays.indices).astype(np.int64)
            ii, jj = np.meshgrid(np.arange(n), np.arange(p), indexing="ij")
            if ix.shape != (len(sets), n, p) or not np.array_equal(ix[0], ii) or not np.array_equal(ix[-1], jj):
                bad = int((ix[0] != ii).sum() + (ix[-1] != jj).sum()) if ix.shape == (len(sets), n, p) else -1
                ctx.violate(f"indices[0, i, j] != i or indices[-1, i, j] != j for {bad} rays with dtype_indices={dname} and {n} x {p} = {n * p} rays", cj, {"kind": "index_layout"})
                continue
            # the reported points realise the reported time (and it is the minimum over the interior set)
            pts = [s_.coords for s_ in sets]
            vs = [block.longitudinal_vel if k % 2 == 0 else block.transverse_vel for k in range(len(sets) - 1)]
            tot = np.zeros((n, p))
            for k in range(len(sets) - 1):
                a_, b_ = pts[k][ix[k]], pts[k + 1][ix[k + 1]]
                tot += np.sqrt(((a_ - b_) ** 2).sum(axis=-1)) / vs[k]
            if not np.allclose(tot, rays.times, rtol=1e-12, atol=0):
                ctx.violate(f"the reported points do not realise the reported times (dtype_indices={dname}, {n * p} rays)", cj, {"kind": "index_layout"})
            if len(mids) == 2:
                leg = lambda a_, b_, v_: np.sqrt(((a_[:, None] - b_[None, :]) ** 2).sum(-1)) / v_
                t01, t12, t23 = leg(pts[0], pts[1], vs[0]), leg(pts[1], pts[2], vs[1]), leg(pts[2], pts[3], vs[2])
                best = (t01[:, :, None, None] + t12[None, :, :, None] + t23[None, None, :, :]).min(axis=(1, 2))
                if not np.allclose(best, rays.times, rtol=1e-12, atol=0):
                    ctx.violate(f"times are not the minimum over the interior points (dtype_indices={dname}, two interior sets)", cj, {"kind": "index_dtype"})
            elif len(mids) == 1:
                nmid = mids[0]
                best = np.min([np.sqrt(((pts[0][:, None] - pts[1][m_][None, None]) ** 2).sum(-1)) / vs[0] + np.sqrt(((pts[1][m_][None, None] - pts[2][None, :]) ** 2).sum(-1)) / vs[1]
                               for m_ in range(nmid)], axis=0)
                if not np.allclose(best, rays.times, rtol=1e-12, atol=0):
                    ctx.violate(f"times are not the minimum over the interior points (dtype_indices={dname})", cj, {"kind": "index_dtype"})


def check_coordinate_dtypes(ctx):
    """the point sets may hold their coordinates in any real dtype (whole millimetres as integers, float32 from a file,
    mixed): the result is that of the same positions given as float64"""
    import arim.geometry as g
    from arim import ray

    rng = ctx.rng
    for it in range(12 * ctx.scale):
        nsets = int(rng.integers(2, 5))
        sizes = [int(rng.integers(1, 6)) for _ in range(nsets)]
        ints = [rng.integers(-40, 41, size=(n, 3)) for n in sizes]
        for a in ints:
            a[:, 1] = 0
        kinds = [[np.int64, np.int32, np.int16, np.float32, np.float64][int(rng.integers(0, 5))] for _ in range(nsets)]
        if it % 3 == 0:
            kinds = [np.int64] * nsets
        if it % 4 == 1:
            # unsigned containers (voxel indices): the same positions shifted to be non-negative
            ints = [a_ + 40 for a_ in ints]
            for a_ in ints:
                a_[:, 1] = 0
            kinds = [[np.uint8, np.uint16, np.uint32, np.uint64][int(rng.integers(0, 4))] for _ in range(nsets)]
        vs = [float(rng.uniform(1000, 6000)) for _ in range(nsets - 1)]
        for wdt in (np.float64, np.float32, None):      # None: the documented default working precision (float64), not passed
            res = {}
            for tag in ("typed", "float64"):
                sets = [g.Points(np.asarray(a, dtype=(k if tag == "typed" else np.float64)), f"S{i}") for i, (a, k) in enumerate(zip(ints, kinds))]
                fp = ray.FermatPath(tuple(x for k, s_ in enumerate(sets) for x in ((s_,) if k == 0 else (vs[k - 1], s_))))
                try:
                    res[tag] = (ray.FermatSolver((fp,), dtype=wdt) if wdt is not None else ray.FermatSolver((fp,))).solve()[fp]
                except Exception as e:
                    res[tag] = e
            wname = "default (not passed)" if wdt is None else np.dtype(wdt).name
            cj = {"op": "coordinate_dtypes", "coords": [a.tolist() for a in ints], "dtypes": [np.dtype(k).name for k in kinds], "velocities": vs, "working": wname}
            ctx.case(("coorddtype", it, wname), True)
            ctx.count("coords:" + "/".join(sorted({np.dtype(k).kind for k in kinds})))
            a_, b_ = res["typed"], res["float64"]
            if isinstance(b_, Exception):
                continue
            if isinstance(a_, Exception):
                ctx.violate(f"ray tracing raised {type(a_).__name__} for coordinates held as {[np.dtype(k).name for k in kinds]}", cj, {"kind": "coordinate_dtype"})
                continue
            # float32 coordinates are exactly these small integers, so every dtype denotes the same positions
            # (a float32 set makes the kernel take its square roots in single precision whatever the working precision:
            #  legitimate, and the first version of this check, with tolerance 0 there, raised a false alarm in the thorough tier)
            tol = 0 if (wdt in (np.float64, None) and np.float32 not in kinds) else 4e-7
            if not np.allclose(a_.times, b_.times, rtol=tol, atol=0):
                worst = float(np.max(np.abs(a_.times - b_.times) / np.abs(b_.times)))
                ctx.violate(f"travel times differ (relative {worst:.2e}) when the same positions are held as {[np.dtype(k).name for k in kinds]} instead of float64 "
                            f"(working precision {wname})", cj, {"kind": "coordinate_dtype"})


def emit(ctx, outs, case_json, tags=None):
    for kind, what in outs:
        if kind == "violate":
            ctx.violate(what, case_json, tags or {})
        elif kind == "disagree":
            ctx.disagree(what, case_json)
        else:
            ctx.count(what)


def case_json(case):
    return {"sets": [s.tolist() for s in case["sets"]], "paths": [[list(a), list(b)] for a, b in case["paths"]],
            "f32": case["f32"]}


def from_json(cj):
    return {"sets": [np.array(s, dtype=float).reshape(-1, 3) for s in cj["sets"]],
            "paths": [(tuple(a), tuple(b)) for a, b in cj["paths"]], "f32": cj["f32"]}


def run(ctx):
    rng = ctx.rng
    ctx.rule = ("random point clouds (1-4 legs, set sizes in {1,2,3,5,8}, 2-D/3-D, integer lattices for ties), "
                "groups of 1-6 paths sharing prefixes, float64/float32; distinct = distinct canonical case; "
                "non-trivial = at least one path with an interior interface of more than one point")
    ncases = 60 * ctx.scale
    cases = [gen_case(rng, boundary=(k % 3 == 0)) for k in range(ncases)]
    lines = [case_line(c) for c in cases]
    answers = ctx.drive(lines) if ctx.lean.driver_ok and not ctx.oracle_only else [None] * len(cases)
    for c, a in zip(cases, answers):
        nontriv = any(len(ids) > 2 and max(len(c["sets"][i]) for i in ids[1:-1]) > 1 for ids, _ in c["paths"])
        ctx.case(lines[cases.index(c)] if False else case_line(c), nontriv,
                 sample={"op": "fermat", "paths": [list(p[0]) for p in c["paths"]], "f32": c["f32"],
                         "set_sizes": [len(s) for s in c["sets"]]})
        ctx.count("f32" if c["f32"] else "f64")
        for ids, _ in c["paths"]:
            ctx.count(f"legs={len(ids) - 1}")
        if a is not None and not a.startswith("ok"):
            ctx.disagree("model rejected the case: " + a, case_json(c))
            a = None
        emit(ctx, check_case(ctx, c, a), case_json(c))
        if a is not None and ctx.lean.driver_ok:
            check_solver_cache(ctx, c)
    # kernel alone
    mp = [gen_minplus(rng) for _ in range(300 * ctx.scale)]
    mlines = [f"minplus {a.shape[0]} {a.shape[1]} {b.shape[1]} {fmat(a)} {fmat(b)}" for a, b, _ in mp]
    if ctx.lean.driver_ok and not ctx.oracle_only:
        mans = ctx.drive(mlines)
        for (a, b, blk), ans in zip(mp, mans):
            ctx.case(("mp", a.tobytes(), b.tobytes(), blk), a.shape[1] > 1)
            emit(ctx, check_minplus(ctx, a, b, blk, ans), {"op": "minplus", "a": a.tolist(), "b": b.tolist(), "block": blk})
    # sandwich
    for _ in range(40 * ctx.scale):
        sc = sandwich_case(rng)
        ctx.case(("sw", sc[0].tobytes(), sc[2].tobytes(), tuple(sc[3])), True)
        ctx.count("sandwich")
        emit(ctx, check_sandwich(ctx, sc), {"op": "sandwich", "src": sc[0].tolist(), "dst": sc[2].tolist(),
                                            "walls": [w.tolist() for w in sc[1]], "vs": sc[3], "zs": sc[4].tolist()})
    # public entry points on Path objects (duplicates, equal problems, permutations; C and Fortran order; via views)
    for k in range(40 * ctx.scale):
        paths, kind = gen_path_group(rng)
        fortran, via_views = bool(k % 2), bool((k // 2) % 2)
        ctx.case(("pathapi", k, kind, len(paths)), True)
        ctx.count(f"path_api_kind={kind}")
        emit(ctx, check_path_api(ctx, paths, kind, fortran, via_views),
             {"op": "path_api", "kind": kind, "fortran": fortran, "via_views": via_views, "stream_index": k,
              "paths": [[[i.points.coords.tolist() for i in p_.interfaces], [m.key() for m in p_.modes]] for p_ in paths]})
        # the same Path objects again after the problem changed in place
        import arim as _arim
        how = ["points moved in place", "materials re-assigned", "modes re-assigned", "nothing (other array order)"][k % 4]
        if k % 8 == 5:
            how = "velocities re-assigned on the same Material objects"
            for m_ in {id(m): m for p_ in paths for m in p_.materials}.values():
                m_.longitudinal_vel = float(m_.longitudinal_vel) * 1.21
                if m_.transverse_vel is not None:
                    m_.transverse_vel = float(m_.transverse_vel) * 0.83
        elif k % 4 == 0:
            q = paths[int(rng.integers(0, len(paths)))]
            tgt = q.interfaces[int(rng.integers(0, len(q.interfaces)))].points
            tgt.coords[..., 0] += float(rng.uniform(2e-3, 8e-3))
            tgt.coords[..., 2] -= float(rng.uniform(2e-3, 8e-3))
        elif k % 4 == 1:
            q = paths[int(rng.integers(0, len(paths)))]
            q.materials = tuple(_arim.Material(m.longitudinal_vel * 1.37, None if m.transverse_vel is None else m.transverse_vel * 0.81,
                                               density=m.density, state_of_matter=m.state_of_matter.name) for m in q.materials)
        elif k % 4 == 2:
            q = paths[int(rng.integers(0, len(paths)))]
            flipped = tuple((_arim.Mode.L if (md is _arim.Mode.T or mt.transverse_vel is None) else _arim.Mode.T) for md, mt in zip(q.modes, q.materials))
            q.modes = flipped
        ctx.count("path_api_retrace:" + how)
        emit(ctx, check_path_api(ctx, paths, kind, not fortran, via_views, retrace=how),
             {"op": "path_api_retrace", "kind": kind, "how": how, "fortran": not fortran, "via_views": via_views, "stream_index": k})
    check_index_dtypes(ctx)
    check_coordinate_dtypes(ctx)
    ctx.assumptions += [
        "IEEE-754: non-NaN doubles are linearly ordered and x -> fl(x + c) is monotone (transfers solve_optimal to doubles)",
        "velocities finite and positive, coordinates finite (no overflow to inf)",
    ]


def search(ctx):
    """proof or correspondence broken: look for an input on which the property itself fails"""
    ctx.oracle_only = True
    old = ctx.scale
    ctx.scale = max(4, old * 2)
    ctx.rng = np.random.Generator(np.random.PCG64(ctx.seed + 7919))
    try:
        run(ctx)
    finally:
        ctx.scale = old


def replay(ctx, body):
    cj = body.get("case", {})
    if "sets" in cj and "paths" in cj:
        outs = check_case(ctx, from_json(cj), None)
    elif cj.get("op") == "sandwich":
        outs = check_sandwich(ctx, (np.array(cj["src"]), [np.array(w) for w in cj["walls"]], np.array(cj["dst"]),
                                    cj["vs"], np.array(cj["zs"])))
    else:
        return True
    bad = [w for k, w in outs if k == "violate"]
    for w in bad:
        print("  ", w)
    return not bad
