"""C13 — results do not depend on threads, block sizes or task completion order.

Correspondence: Lean `chunks`, `minTimesTiles`, `distTiles` (the constants of
chunk_partition / tiles_partition / schedule_independent) vs `chunk_array` and the views that
`find_minimum_times` / `distance_pairwise` really hand to their executor (observed by
substituting the executor class from outside).
Oracle: bit-for-bit equality of the outputs under permuted / lazy / real executors, thread
counts, block sizes, numba thread counts; disjoint covering write tiles; inputs unchanged.
"""
import itertools

import numpy as np


def BITS(a):
    """the bytes of an array, whatever its memory layout (a result may legitimately be Fortran-ordered or strided)"""
    return np.ascontiguousarray(np.asarray(a)).view(np.uint8)

import fixtures
from fixtures import OrderedExecutor, patched_executors


def sel_range(sel, shape, axis):
    """(lo, hi) selected along `axis` by a chunk_array selector"""
    idx = np.arange(int(np.prod(shape))).reshape(shape)
    sub = idx[sel]
    # indices along axis that survive
    axis = range(len(shape))[axis]
    kept = np.unique(np.unravel_index(sub.ravel(), shape)[axis]) if sub.size else np.array([], dtype=int)
    if kept.size == 0:
        return None
    assert np.array_equal(kept, np.arange(kept[0], kept[-1] + 1))
    return int(kept[0]), int(kept[-1]) + 1


def check_chunks(ctx):
    from arim import helpers

    cases = []
    maxL = 24 if ctx.tier == "quick" else 48
    for L in range(0, maxL + 1):
        for b in list(range(1, L + 3)) + [L + 17, 10 * L + 1]:
            cases.append((L, b))
    answers = ctx.drive([f"chunks {L} {b}" for L, b in cases])
    shapes = [((None,), 0), ((None, 2), 0), ((2, None), 1), ((2, None), -1), ((2, None, 3), 1), ((None, 1, 2), 0), ((1, 2, None), 2)]
    for k, ((L, b), ans) in enumerate(zip(cases, answers)):
        model = [] if ans == "ok " or ans == "ok" else [tuple(int(x) for x in t.split(":")) for t in ans[3:].split(",")]
        shp, axis = shapes[k % len(shapes)]
        shape = tuple(L if s is None else s for s in shp)
        sels = list(helpers.chunk_array(shape, b, axis=axis))
        got = [sel_range(s, shape, axis) for s in sels]
        cj = {"op": "chunk_array", "shape": shape, "block": b, "axis": axis}
        ctx.case(("chunks", L, b, shp, axis), L > b, sample=cj if L > b else None)
        if got != model:
            ctx.disagree(f"chunk_array{shape, b, axis} = {got}, model {model}", cj)
        # oracle: non-empty, ordered, disjoint, cover [0,L)
        flat = []
        bad = False
        for g in got:
            if g is None or g[0] >= g[1]:
                bad = True
                break
            flat += list(range(*g))
        if bad or flat != list(range(L)):
            ctx.violate(f"chunk_array{shape, b, axis} does not partition the axis: {got}", cj, {"kind": "chunk_partition"})


def observed_tiles(log, out, which_arg):
    """tiles (row range x col range) of the output views handed to the tasks"""
    base = out.__array_interface__["data"][0]
    n, p = out.shape
    item = out.itemsize
    assert out.flags.c_contiguous
    tiles = []
    for _, args in log:
        v = args[which_arg]
        off = (v.__array_interface__["data"][0] - base) // item
        r0, c0 = divmod(off, p) if p else (0, 0)
        tiles.append(((r0, r0 + v.shape[0]), (c0, c0 + v.shape[1])))
    return tiles


def parse_tiles(ans):
    if ans.strip() == "ok":
        return []
    out = []
    for t in ans[3:].split(","):
        r, c = t.split("x")
        out.append((tuple(int(x) for x in r.split(":")), tuple(int(x) for x in c.split(":"))))
    return out


def tiles_partition_ok(tiles, n, p):
    cover = np.zeros((n, p), dtype=int)
    for (r0, r1), (c0, c1) in tiles:
        cover[r0:r1, c0:c1] += 1
    return bool((cover == 1).all())


def orders_for(ctx, ntasks):
    rng = ctx.rng
    if ntasks <= 4:
        perms = list(itertools.permutations(range(ntasks)))
    else:
        perms = [tuple(range(ntasks)), tuple(reversed(range(ntasks)))]
        perms += [tuple(rng.permutation(ntasks)) for _ in range(6 if ctx.tier == "quick" else 200)]
    return perms


def run_with_orders(ctx, fn, ref, ntasks, cj, label, inputs):
    """fn() must return a tuple of arrays; compare bitwise with ref under every schedule"""
    hashes = [a.tobytes() for a in inputs]

    def same(res):
        return all(np.array_equal(BITS(np.asarray(a)), BITS(np.asarray(b))) for a, b in zip(res, ref))

    for perm in orders_for(ctx, ntasks):
        OrderedExecutor.mode, OrderedExecutor.order_fn, OrderedExecutor.log = "perm", (lambda n, perm=perm: perm if n == len(perm) else range(n)), []
        with patched_executors(OrderedExecutor):
            res = fn()
        ctx.count(f"{label}:perm")
        if not same(res):
            ctx.violate(f"{label}: result differs when tasks run in order {perm}", {**cj, "order": list(perm)}, {"kind": "order"})
            return
    OrderedExecutor.mode, OrderedExecutor.order_fn, OrderedExecutor.log = "lazy", None, []
    with patched_executors(OrderedExecutor):
        res = fn()
    if not same(res):
        ctx.violate(f"{label}: result differs when tasks run lazily at result()", cj, {"kind": "order"})
    OrderedExecutor.mode = "perm"
    if [a.tobytes() for a in inputs] != hashes:
        ctx.violate(f"{label}: an input array was modified", cj, {"kind": "inputs"})


def check_min_times(ctx):
    from arim import ray

    rng = ctx.rng
    reqs, cases = [], []
    for _ in range(40 * ctx.scale):
        n, m, p = (int(rng.integers(1, 10)) for _ in range(3))
        block = int(rng.choice([1, 2, 3, 5, 7, m, 2 * m, 3 * m + 1, 5 * m, 100000]))
        a = rng.integers(0, 4, size=(n, m)).astype(float) if rng.random() < 0.5 else rng.normal(size=(n, m))
        b = rng.integers(0, 4, size=(m, p)).astype(float) if rng.random() < 0.5 else rng.normal(size=(m, p))
        cases.append((a, b, block))
        reqs.append(f"mtiles {n} {m} {p} {block}")
    answers = ctx.drive(reqs)
    for (a, b, block), ans in zip(cases, answers):
        n, m = a.shape
        p = b.shape[1]
        cj = {"op": "find_minimum_times", "a": a.tolist(), "b": b.tolist(), "block": block}
        OrderedExecutor.mode, OrderedExecutor.order_fn, OrderedExecutor.log = "perm", None, []
        with patched_executors(OrderedExecutor):
            t_ref, i_ref = ray.find_minimum_times(a, b, block_size=block, numthreads=1)
        log = OrderedExecutor.log
        tiles = observed_tiles(log, t_ref, 2)
        tiles_i = observed_tiles(log, i_ref, 3)
        ctx.case(("mt", a.tobytes(), b.tobytes(), block), len(tiles) > 1, sample={"op": "find_minimum_times", "shape": [n, m, p], "block": block, "tiles": tiles})
        ctx.count(f"mt:tasks={min(len(tiles), 9)}")
        if tiles != parse_tiles(ans) or tiles_i != tiles:
            ctx.disagree(f"find_minimum_times tiles {tiles} differ from the model {parse_tiles(ans)}", cj)
        if not tiles_partition_ok(tiles, n, p):
            ctx.violate(f"find_minimum_times: write tiles {tiles} do not partition the {n}x{p} output", cj, {"kind": "tiles"})
        for _, args in log:
            if np.shares_memory(args[0], t_ref) or np.shares_memory(args[1], t_ref) or np.shares_memory(args[0], i_ref):
                ctx.violate("find_minimum_times: a task input aliases the output", cj, {"kind": "alias"})
        run_with_orders(ctx, lambda: ray.find_minimum_times(a, b, block_size=block, numthreads=1), (t_ref, i_ref), len(tiles), cj, "find_minimum_times", [a, b])
        # real pools, several thread counts, and other block sizes give the same bits
        for nt in [1, 2, int(rng.integers(3, 17))]:
            for blk in [block, int(rng.integers(1, 3 * m * max(n, p) + 2))]:
                t, i = ray.find_minimum_times(a, b, block_size=blk, numthreads=nt)
                ctx.count("mt:real")
                if not (np.array_equal(t.view(np.uint64), t_ref.view(np.uint64)) and np.array_equal(i, i_ref)):
                    ctx.violate(f"find_minimum_times: block_size={blk} numthreads={nt} changes the result", {**cj, "block2": blk, "threads": nt}, {"kind": "block"})


def check_distance(ctx):
    from arim import geometry as g

    rng = ctx.rng
    reqs, cases = [], []
    for _ in range(30 * ctx.scale):
        n1, n2 = int(rng.integers(1, 12)), int(rng.integers(1, 12))
        block = int(rng.choice([1, 5, 6, 7, 12, 13, 18, 25, 500]))
        p1, p2 = rng.normal(size=(n1, 3)), rng.normal(size=(n2, 3))
        cases.append((p1, p2, block))
        reqs.append(f"dtiles {n1} {n2} {block}")
    answers = ctx.drive(reqs)
    for (p1, p2, block), ans in zip(cases, answers):
        P1, P2 = g.Points(p1.copy()), g.Points(p2.copy())
        cj = {"op": "distance_pairwise", "p1": p1.tolist(), "p2": p2.tolist(), "block": block}
        OrderedExecutor.mode, OrderedExecutor.order_fn, OrderedExecutor.log = "perm", None, []
        with patched_executors(OrderedExecutor):
            d_ref = g.distance_pairwise(P1, P2, block_size=block, numthreads=1)
        tiles = observed_tiles(OrderedExecutor.log, d_ref, 6)
        ctx.case(("dp", p1.tobytes(), p2.tobytes(), block), len(tiles) > 1, sample={"op": "distance_pairwise", "n": [len(p1), len(p2)], "block": block, "tiles": tiles})
        if tiles != parse_tiles(ans):
            ctx.disagree(f"distance_pairwise tiles {tiles} differ from the model {parse_tiles(ans)}", cj)
        if not tiles_partition_ok(tiles, len(p1), len(p2)):
            ctx.violate(f"distance_pairwise: write tiles {tiles} do not partition the output", cj, {"kind": "tiles"})
        run_with_orders(ctx, lambda: (g.distance_pairwise(P1, P2, block_size=block, numthreads=1),), (d_ref,), len(tiles), cj, "distance_pairwise", [P1.coords, P2.coords])
        for nt in [1, 3, int(rng.integers(4, 17))]:
            blk = int(rng.integers(1, 80))
            d = g.distance_pairwise(P1, P2, block_size=blk, numthreads=nt)
            if not np.array_equal(d.view(np.uint64), d_ref.view(np.uint64)):
                ctx.violate(f"distance_pairwise: block_size={blk} numthreads={nt} changes the result", {**cj, "block2": blk, "threads": nt}, {"kind": "block"})
        if not (np.array_equal(P1.coords, p1) and np.array_equal(P2.coords, p2)):
            ctx.violate("distance_pairwise modified its inputs", cj, {"kind": "inputs"})


def check_ray_tracing(ctx):
    """whole solver under varied settings and numba thread counts"""
    import numba
    from arim import settings as s

    import c01

    rng = ctx.rng
    saved = (s.BLOCK_SIZE_FIND_MIN_TIMES, s.BLOCK_SIZE_EUC_DISTANCE, s.NUMTHREADS)
    try:
        for _ in range(8 * ctx.scale):
            case = c01.gen_case(rng)
            case["f32"] = False
            s.BLOCK_SIZE_FIND_MIN_TIMES, s.BLOCK_SIZE_EUC_DISTANCE, s.NUMTHREADS = saved
            numba.set_num_threads(numba.config.NUMBA_NUM_THREADS)
            import arim

            _, _, ref = c01.run_impl(case, arim)
            ctx.case(("rt", c01.case_line(case)), True)
            for _ in range(3):
                s.BLOCK_SIZE_FIND_MIN_TIMES = int(rng.choice([1, 2, 7, 33, 50000]))
                s.BLOCK_SIZE_EUC_DISTANCE = int(rng.choice([1, 6, 13, 500]))
                s.NUMTHREADS = int(rng.integers(1, 17))
                nt = int(rng.integers(1, numba.config.NUMBA_NUM_THREADS + 1))
                numba.set_num_threads(nt)
                perm_seed = int(rng.integers(0, 2**31))
                OrderedExecutor.mode, OrderedExecutor.log = "perm", []
                OrderedExecutor.order_fn = lambda n, ps=perm_seed: np.random.default_rng(ps + n).permutation(n)
                use_fake = rng.random() < 0.5
                if use_fake:
                    with patched_executors(OrderedExecutor):
                        _, _, res = c01.run_impl(case, arim)
                else:
                    _, _, res = c01.run_impl(case, arim)
                ctx.count("rt:fake-executor" if use_fake else "rt:real-pool")
                for r0, r1 in zip(ref, res):
                    if not (np.array_equal(r0.times.view(np.uint64), r1.times.view(np.uint64)) and np.array_equal(r0.indices, r1.indices)):
                        ctx.violate("ray tracing result depends on block sizes / threads / task order",
                                    {**c01.case_json(case), "settings": [s.BLOCK_SIZE_FIND_MIN_TIMES, s.BLOCK_SIZE_EUC_DISTANCE, s.NUMTHREADS, nt]}, {"kind": "ray_tracing"})
    finally:
        s.BLOCK_SIZE_FIND_MIN_TIMES, s.BLOCK_SIZE_EUC_DISTANCE, s.NUMTHREADS = saved
        numba.set_num_threads(numba.config.NUMBA_NUM_THREADS)
        OrderedExecutor.order_fn = None


def das_case(rng):
    numel = int(rng.integers(1, 6))
    npts = int(rng.integers(1, 40))
    ns = int(rng.integers(4, 30))
    tx, rx = fixtures.pairs(rng, numel, rng.choice(["fmc", "hmc", "rand"]))
    cplx = rng.random() < 0.5
    tt = rng.normal(size=(len(tx), ns)) + (1j * rng.normal(size=(len(tx), ns)) if cplx else 0)
    dt = 0.25
    lt_tx = rng.uniform(-1, ns * dt / 2 + 1, size=(npts, numel))
    lt_rx = rng.uniform(-1, ns * dt / 2 + 1, size=(npts, numel))
    amp_tx, amp_rx = rng.normal(size=(npts, numel)), rng.normal(size=(npts, numel))
    return dict(tx=tx, rx=rx, tt=tt, dt=dt, t0=0.5, lt_tx=lt_tx, lt_rx=lt_rx, amp_tx=amp_tx, amp_rx=amp_rx)


def check_numba_threads(ctx):
    import numba
    from arim import _scat, signal
    from arim.im import das

    rng = ctx.rng
    maxt = numba.config.NUMBA_NUM_THREADS
    try:
        for _ in range(6 * ctx.scale):
            c = das_case(rng)
            frame = fixtures.make_frame(c["tt"], c["t0"], c["dt"], c["tx"], c["rx"])
            combos = [("noamp", "nearest"), ("noamp", "linear"), ("noamp", ("lanczos", 2)), ("amp", "nearest"), ("amp", "linear")]
            for amp, interp in combos:
                # timetrace weights other than one (as the default weights of a half-matrix capture are), or none
                wts = None if rng.random() < 0.3 else rng.choice([1.0, 2.0, 0.5], size=len(c["tx"]))
                fl = fixtures.make_focal_law(c["lt_tx"], c["lt_rx"], *( (c["amp_tx"], c["amp_rx"]) if amp == "amp" else (None, None)), weights=wts)
                numba.set_num_threads(1)
                tt_obj = frame.timetraces
                before = [x.tobytes() for x in (c["tt"], c["lt_tx"], c["lt_rx"], c["amp_tx"], c["amp_rx"], c["tx"], c["rx"], frame.timetraces)] + [None if wts is None else wts.tobytes()]
                ref = das.delay_and_sum(frame, fl, fillvalue=float(rng.choice([0.0, 1.5])), interpolation=interp) if False else None
                fv = float(rng.choice([0.0, 1.5]))
                ref = das.delay_and_sum(frame, fl, fillvalue=fv, interpolation=interp)
                cj = {"op": "delay_and_sum", "amp": amp, "interp": str(interp), "numel": int(c["lt_tx"].shape[1]), "npts": int(c["lt_tx"].shape[0])}
                ctx.case(("das", c["tt"].tobytes(), amp, str(interp)), True, sample=cj)
                for nt in sorted({2, int(rng.integers(1, maxt + 1)), maxt}):
                    numba.set_num_threads(nt)
                    res = das.delay_and_sum(frame, fl, fillvalue=fv, interpolation=interp)
                    ctx.count("das:threads")
                    if not np.array_equal(BITS(res), BITS(ref)):
                        ctx.violate(f"delay_and_sum({amp},{interp}) differs between 1 and {nt} numba threads", {**cj, "threads": nt}, {"kind": "numba_threads"})
                after = [x.tobytes() for x in (c["tt"], c["lt_tx"], c["lt_rx"], c["amp_tx"], c["amp_rx"], c["tx"], c["rx"], frame.timetraces)] + [None if wts is None else wts.tobytes()]
                if before != after or frame.timetraces is not tt_obj:
                    which = [n for n, b, a in zip(("timetraces", "lookup_times_tx", "lookup_times_rx", "amplitudes_tx", "amplitudes_rx", "tx", "rx", "frame.timetraces", "timetrace_weights"), before, after) if a != b]
                    ctx.violate(f"delay_and_sum modified its input array(s) {which} (weights {'given' if wts is not None else 'absent'}, dtype {c['tt'].dtype})", cj, {"kind": "inputs"})
        # robust aggregations (complex128 only): many image points so that several threads are busy at once
        for _ in range(2 * ctx.scale):
            numel = int(rng.integers(3, 5))
            tx, rx = fixtures.pairs(rng, numel, "fmc")
            ns, npts = 24, 3000
            tt = (rng.normal(size=(len(tx), ns)) + 1j * rng.normal(size=(len(tx), ns))).astype(np.complex128)
            lt_tx = rng.uniform(0.3, ns * 0.25 / 2 - 0.5, size=(npts, numel))
            lt_rx = rng.uniform(0.3, ns * 0.25 / 2 - 0.5, size=(npts, numel))
            # about one lookup in ten leaves the recorded window (before the first / after the last sample): the fill value
            # takes the place of the sample in the scratch array of that image point
            out_ = rng.random(size=(npts, numel)) < 0.05
            lt_tx = np.where(out_, rng.choice([-3.0, ns * 0.25 + 2.0], size=(npts, numel)), lt_tx)
            frame = fixtures.make_frame(tt, 0.0, 0.25, tx, rx)
            fl_ = fixtures.make_focal_law(lt_tx, lt_rx)
            for agg, interp in (("median", "nearest"), ("median", ("lanczos", 2)), (("huber", 1.0), ("lanczos", 2))):
                cj = {"op": "delay_and_sum", "aggregation": str(agg), "interp": str(interp), "npts": npts, "numtimetraces": len(tx)}
                ctx.case(("das-robust", tt.tobytes(), str(agg), str(interp)), True)
                outs = {}
                for nt in sorted({1, 2, int(rng.integers(3, maxt + 1)), maxt}):
                    numba.set_num_threads(nt)
                    try:
                        outs[nt] = das.delay_and_sum(frame, fl_, fillvalue=0.3 + 0.1j, interpolation=interp, aggregation=agg)
                    except Exception as e:
                        outs[nt] = "raised " + type(e).__name__
                    ctx.count("das-robust:threads")
                ref = outs[1]
                for nt, o in outs.items():
                    same = (isinstance(o, str) and isinstance(ref, str)) or (not isinstance(o, str) and not isinstance(ref, str) and np.array_equal(BITS(o), BITS(ref)))
                    if not same:
                        ctx.violate(f"delay_and_sum(aggregation={agg}, interpolation={interp}) differs between 1 and {nt} numba threads", {**cj, "threads": nt}, {"kind": "numba_threads"})
                        break
        # guvectorize(target=parallel) kernels
        for _ in range(10 * ctx.scale):
            n = int(rng.integers(2, 12))
            mat = rng.normal(size=(n, n)) + 1j * rng.normal(size=(n, n))
            inc, outa = rng.uniform(-10, 10, size=(7, 33)), rng.uniform(-10, 10, size=(7, 33))
            numba.set_num_threads(1)
            ref = _scat._interpolate_scattering_matrix_ufunc(mat, inc, outa)
            x = rng.normal(size=(9, 5)) + 1j * rng.normal(size=(9, 5))
            delays, freq = rng.uniform(0, 3, size=9), rng.uniform(0, 4, size=5)
            ref2 = signal.timeshift_spectra(x, delays, freq)
            ref3 = signal.timeshift_spectra(x[:, :1], delays, freq)
            guv_in = [a.tobytes() for a in (mat, inc, outa, x, delays, freq)]
            ctx.case(("guv", mat.tobytes()), True)
            for nt in sorted({2, int(rng.integers(1, maxt + 1)), maxt}):
                numba.set_num_threads(nt)
                ok = (np.array_equal(BITS(_scat._interpolate_scattering_matrix_ufunc(mat, inc, outa)), BITS(ref))
                      and np.array_equal(BITS(signal.timeshift_spectra(x, delays, freq)), BITS(ref2))
                      and np.array_equal(BITS(signal.timeshift_spectra(x[:, :1], delays, freq)), BITS(ref3)))
                ctx.count("guv:threads")
                if not ok:
                    ctx.violate(f"a guvectorize(parallel) kernel differs between 1 and {nt} threads", {"op": "guvectorize", "threads": nt}, {"kind": "numba_threads"})
            if guv_in != [a.tobytes() for a in (mat, inc, outa, x, delays, freq)]:
                ctx.violate("a guvectorize(parallel) kernel (matrix interpolation / spectrum time shift) modified one of its input arrays", {"op": "guvectorize"}, {"kind": "inputs"})
    finally:
        numba.set_num_threads(maxt)



def check_model_amplitudes(ctx):
    """model amplitudes (matrix and function route) and the sensitivity maps: bit-for-bit the same for every numba
    thread count, every block size and every repetition of the call; no input array is modified"""
    import numba
    from arim import model

    rng = ctx.rng
    maxt = numba.config.NUMBA_NUM_THREADS
    try:
        for _ in range(6 * ctx.scale):
            numel = int(rng.integers(1, 5))
            npts = int(rng.integers(2, 30))
            tx, rx = fixtures.pairs(rng, numel, rng.choice(["fmc", "hmc", "rand"]))
            tx, rx = np.asarray(tx), np.asarray(rx)
            nang = int(rng.integers(3, 12))
            mat = (rng.normal(size=(nang, nang)) + 1j * rng.normal(size=(nang, nang))).astype(np.complex128)
            txw = (rng.normal(size=(npts, numel)) + 1j * rng.normal(size=(npts, numel))).astype(np.complex128)
            rxw = (rng.normal(size=(npts, numel)) + 1j * rng.normal(size=(npts, numel))).astype(np.complex128)
            txa, rxa = rng.uniform(-4, 4, size=(npts, numel)), rng.uniform(-4, 4, size=(npts, numel))
            rot = float(rng.uniform(-2, 2))

            def sfun(inc, out):
                return np.exp(1j * (inc + 2 * out)) * (1.5 + np.cos(out))
            objs = {"matrix": model._ModelAmplitudesWithScatMatrix(tx, rx, mat, txw, rxw, txa, rxa, rot),
                    "function": model._ModelAmplitudesWithScatFunction(tx, rx, sfun, txw, rxw, txa, rxa, rot)}
            inputs = (tx, rx, mat, txw, rxw, txa, rxa)
            before = [x.tobytes() for x in inputs]
            w = rng.choice([1.0, 2.0], size=len(tx))
            wb = w.tobytes()
            for route, obj in objs.items():
                cj = {"op": "model_amplitudes", "route": route, "npts": npts, "numel": numel, "numtimetraces": int(len(tx))}
                ctx.case(("ma", route, txw.tobytes(), mat.tobytes()), True, sample=cj)
                numba.set_num_threads(1)
                ref = np.array(obj[...])
                for nt in sorted({2, int(rng.integers(1, maxt + 1)), maxt}):
                    numba.set_num_threads(nt)
                    got = np.concatenate([np.atleast_2d(obj[sl]) for sl in (slice(0, npts // 2), slice(npts // 2, None))]) if rng.random() < 0.5 else obj[...]
                    ctx.count("model_amplitudes:threads")
                    if not np.array_equal(BITS(np.asarray(got)), BITS(ref)):
                        ctx.violate(f"model amplitudes ({route}) differ between 1 and {nt} numba threads / between whole-grid and sliced evaluation",
                                    {**cj, "threads": nt}, {"kind": "numba_threads"})
                # sensitivity maps: block sizes, repeated calls, ndarray and ModelAmplitudes inputs
                arr = np.array(ref)          # a plain ndarray is a documented input type
                arr_before = arr.tobytes()
                for fn in (model.sensitivity_uniform_tfm, model.sensitivity_model_assisted_tfm):
                    base = fn(obj, w, block_size=4000)
                    for blk in sorted({1, 2, 3, max(1, npts - 1), npts, npts + 1, 4000}):
                        for inp, label in ((arr, "ndarray"), (obj, "ModelAmplitudes")):
                            res = fn(inp, w, block_size=blk)
                            ctx.count("sensitivity:block")
                            if not np.array_equal(BITS(res), BITS(base)):
                                ctx.violate(f"{fn.__name__}({label}) depends on the block size / on earlier calls (block_size={blk})",
                                            {**cj, "block": blk, "input": label}, {"kind": "block_size"})
                            if arr.tobytes() != arr_before:
                                ctx.violate(f"{fn.__name__} modified the model-amplitude array it was given (block_size={blk})",
                                            {**cj, "block": blk}, {"kind": "inputs"})
                                arr = np.array(ref)
                if [x.tobytes() for x in inputs] != before or w.tobytes() != wb:
                    ctx.violate("a model-amplitude / sensitivity call modified one of its input arrays", cj, {"kind": "inputs"})
    finally:
        numba.set_num_threads(maxt)


def run(ctx):
    ctx.rule = ("chunk_array: every (L, block) with L <= 24 (48 thorough) and block in 1..L+2 plus two larger ones, 7 shape/axis forms; "
                "find_minimum_times / distance_pairwise: random shapes <= 11, block sizes around the row length, every permutation of <= 4 tasks, "
                "random permutations otherwise, lazy executor, real pools 1..16 threads; ray tracing under varied settings; all mean DAS kernels and "
                "guvectorize kernels under numba thread counts; non-trivial = more than one task / chunk")
    if ctx.lean.driver_ok and not ctx.oracle_only:
        check_chunks(ctx)
        check_min_times(ctx)
        check_distance(ctx)
    else:
        ctx.notes.append("driver unavailable: tile correspondence skipped, oracle only")
    check_ray_tracing(ctx)
    check_numba_threads(ctx)
    check_model_amplitudes(ctx)
    ctx.assumptions += [
        "real interleavings inside numba prange / nogil kernels and the GIL are outside the model: explored, not proved",
        "a task reads only immutable inputs and its own output cells (checked: views handed to tasks do not alias other tiles)",
    ]


def search(ctx):
    ctx.rng = np.random.Generator(np.random.PCG64(ctx.seed + 7919))
    old = ctx.scale
    ctx.scale = max(4, 2 * old)
    try:
        # drive-free parts + the tile oracles (they need no model answer to judge partition / order independence)
        if ctx.lean.driver_ok:
            check_chunks(ctx)
            check_min_times(ctx)
            check_distance(ctx)
        check_ray_tracing(ctx)
        check_numba_threads(ctx)
        check_model_amplitudes(ctx)
    finally:
        ctx.scale = old
