"""C10 — scattering matrices faithfully represent, interpolate and rotate the functions.

Correspondence: Lean `Arim.ScatMat` (angle grid, matrix index convention, bilinear kernel with
wrap-around, rotation = index shift, linear frequency interpolation) evaluated exactly on
rationals (pi = the double np.pi as a rational) vs arim.scat / arim._scat.
Oracle: nodes reproduce entries, bilinear in a cell, periodic, rotation by whole grid steps =
shift of both indices, ScatFromData reproduces its data at sampled frequencies and interpolates
linearly, file round trip returns the stored matrices.
"""
from fractions import Fraction as F

import numpy as np

from common import CACHE, frac_s, ql
from c02 import parse_q, qmat


def asym_func(rng):
    """an asymmetric 2-pi periodic function S(inc, out) (random trigonometric polynomial)"""
    c = rng.normal(size=(3, 3)) + 1j * rng.normal(size=(3, 3))

    def S(inc, out):
        return sum(c[a, b] * np.exp(1j * (a * np.asarray(inc) + 2 * b * np.asarray(out))) * (1 + 0.3 * np.cos(np.asarray(out))) for a in range(3) for b in range(3))
    return S


class FuncScat:
    pass


def make_scat_obj(S):
    import arim.scat as scat

    class _Obj(scat.Scattering2d):
        def __call__(self, inc_theta, out_theta, frequency, to_compute=scat.SCAT_KEYS):
            # deliberately NOT linear in frequency: a wrong segment or sample order must change the interpolated value
            base = S(inc_theta, out_theta) * (1.5 + np.cos(frequency / 7e5) + (frequency / 2e6) ** 2)
            return {k: base * (i + 1) for i, k in enumerate(sorted(scat.SCAT_KEYS)) if k in to_compute}
    return _Obj()


def fixtures_block():
    import arim
    return arim.Material(6320.0, 3130.0, density=2700.0, state_of_matter="solid")


def run(ctx):
    import arim.scat as scat
    from arim import _scat
    from arim.io import scat as ioscat
    import scipy.io as sio

    rng = ctx.rng
    ctx.rule = ("matrix sizes n = 2..33, real and complex random matrices, query angles over several periods, exactly on nodes and on the +-pi seam, "
                "rotations by every whole number of grid steps in [-2n, 2n], 1-4 sampled frequencies (inside, on, outside the range), any subset of keys in data files; "
                "distinct = distinct query; non-trivial = query not on a node")
    PI = F(float(np.pi))
    # the angle vectors and grids belong to the caller (who may shift them in place to evaluate a rotated scatterer): the next
    # grid of the same size, and the matrices built on it, are unaffected
    import fixtures
    for n_ in (3, 8, int(rng.integers(9, 40))):
        fixtures.check_fresh(ctx, "make_angles", lambda n_=n_: scat.make_angles(n_), {"op": "make_angles", "n": n_})
        fixtures.check_fresh(ctx, "make_angles_grid", lambda n_=n_: scat.make_angles_grid(n_), {"op": "make_angles_grid", "n": n_})
        crack_ = scat.scat_factory("crack_centre", fixtures_block(), 1e-3, nodes_per_wavelength=6)
        fixtures.check_fresh(ctx, "as_single_freq_matrices", lambda n_=n_: crack_.as_single_freq_matrices(2e6, min(n_, 8)), {"op": "as_single_freq_matrices", "n": min(n_, 8)})
    lines, meta = [], []
    for k in range(40 * ctx.scale):
        n = int(rng.integers(2, 34))
        cplx = bool(rng.integers(0, 2))
        M = rng.integers(-8, 9, size=(n, n)).astype(float)
        if cplx:
            M = M + 1j * rng.integers(-8, 9, size=(n, n))
        theta = scat.make_angles(n)
        nq = 24
        inc = rng.uniform(-3 * np.pi, 3 * np.pi, size=nq)
        out = rng.uniform(-3 * np.pi, 3 * np.pi, size=nq)
        # nodes, seam, periods
        inc[:6] = theta[rng.integers(0, n, size=6)]
        out[:6] = theta[rng.integers(0, n, size=6)]
        inc[6:9] = [np.pi, -np.pi, np.nextafter(np.pi, 0)]
        out[9:12] = [np.pi, -np.pi, np.nextafter(-np.pi, 0)]
        inc[12:14] = inc[0] + 2 * np.pi * np.array([1, -1])
        out[12:14] = out[0]
        Mc = np.ascontiguousarray(M.astype(complex) if cplx else M)
        got = np.asarray(scat.interpolate_matrix(Mc)(inc, out), dtype=complex)
        cj = {"op": "interpolate_matrix", "n": n, "M_re": M.real.tolist(), "M_im": M.imag.tolist(), "inc": inc.tolist(), "out": out.tolist()}
        ctx.case(("interp", M.tobytes(), inc.tobytes(), out.tobytes()), True, sample={"op": "interpolate_matrix", "n": n, "complex": cplx} if k < 3 else None)
        ctx.count(f"interp:n<={10 * ((n + 9) // 10)}")
        lines.append(f"scatinterp {n} {frac_s(PI)} {qmat(M.real)} {qmat(M.imag)} {ql([F(float(x)) for x in inc])} {ql([F(float(x)) for x in out])}")
        meta.append(("interp", got, cj, np.abs(M).max() + 1))
        # ---- the same matrix in another container: single precision (the small integers are exact in it), Fortran order, integers,
        #      scalar and 0-d queries.  All denote the same matrix and the same angles.
        variants = [("fortran order", np.asfortranarray(Mc)), ("complex64" if cplx else "float32", Mc.astype(np.complex64 if cplx else np.float32))]
        # (nested lists are not ndarrays: `interpolate_matrix` documents an ndarray and refuses them on the unchanged tree — not tried)
        if not cplx:
            variants.append(("int64", Mc.astype(np.int64)))
        for vname_, Mv in variants:
            ctx.count("interp_container:" + vname_.split()[0])
            try:
                gv = np.asarray(scat.interpolate_matrix(Mv)(inc, out), dtype=complex)
            except Exception as e:
                ctx.violate(f"interpolate_matrix raised {type(e).__name__} for the matrix given as {vname_}", dict(cj, container=vname_), {"kind": "interp_container"})
                continue
            if np.abs(gv - got).max() > 1e-6 * (np.abs(M).max() + 1):
                ctx.violate(f"interpolate_matrix gives other values (max difference {np.abs(gv - got).max():.3g}) for the same matrix given as {vname_}", dict(cj, container=vname_),
                            {"kind": "interp_container"})
        g0 = complex(np.asarray(scat.interpolate_matrix(Mc)(float(inc[15]), np.array(out[15]))))
        if abs(g0 - got[15]) > 1e-12 * (np.abs(M).max() + 1):
            ctx.violate("interpolate_matrix: a scalar / 0-d query differs from the same query inside an array", cj, {"kind": "interp_container"})
        # ---- oracle
        # nodes reproduce the entries [out index j][inc index i]
        for q in range(6):
            i, j = int(np.argmin(np.abs(theta - inc[q]))), int(np.argmin(np.abs(theta - out[q])))
            if abs(got[q] - M[j, i]) > 1e-9 * (np.abs(M).max() + 1):
                ctx.violate(f"interpolation at node (inc {i}, out {j}) gives {got[q]} not M[{j},{i}] = {M[j, i]}", cj, {"kind": "node"})
                break
        # periodicity
        if abs(got[12] - got[0]) > 1e-9 * (np.abs(M).max() + 1) or abs(got[13] - got[0]) > 1e-9 * (np.abs(M).max() + 1):
            ctx.violate("interpolation is not 2 pi periodic in the incident angle", cj, {"kind": "periodic"})
        # bilinear inside a cell: second differences vanish along each argument
        d = 2 * np.pi / n
        i0, j0 = int(rng.integers(0, n)), int(rng.integers(0, n))
        a0, b0 = theta[i0] + 0.2 * d, theta[j0] + 0.3 * d
        h = 0.2 * d
        f = scat.interpolate_matrix(Mc)
        vals = np.array([complex(f(a0 + s * h, b0 + t * h)) for s in (0, 1, 2) for t in (0, 1, 2)]).reshape(3, 3)
        if np.abs(vals[0] - 2 * vals[1] + vals[2]).max() > 1e-9 * (np.abs(M).max() + 1) or np.abs(vals[:, 0] - 2 * vals[:, 1] + vals[:, 2]).max() > 1e-9 * (np.abs(M).max() + 1):
            ctx.violate("interpolation is not bilinear inside a cell", cj, {"kind": "bilinear"})
        corners = f(theta[i0] + d * np.array([0, 1, 0, 1]), theta[j0] + d * np.array([0, 0, 1, 1]))
        wantc = [M[j0, i0], M[j0, (i0 + 1) % n], M[(j0 + 1) % n, i0], M[(j0 + 1) % n, (i0 + 1) % n]]
        if np.abs(np.asarray(corners) - np.asarray(wantc)).max() > 1e-8 * (np.abs(M).max() + 1):
            ctx.violate("cell corners (with wrap-around) are not the neighbouring entries", cj, {"kind": "corners"})
        # ---- rotation by whole grid steps
        m_steps = int(rng.integers(-2 * n, 2 * n + 1))
        R = scat.rotate_matrix(Mc, 2 * np.pi * m_steps / n)
        want = np.roll(np.roll(M, m_steps, axis=0), m_steps, axis=1)
        ctx.case(("rot", M.tobytes(), m_steps), m_steps % n != 0)
        if np.abs(R - want).max() > 1e-10 * (np.abs(M).max() + 1) * n:
            ctx.violate(f"rotate_matrix by {m_steps} grid steps is not the matrix with both indices shifted", {**cj, "steps": m_steps}, {"kind": "rotate"})
        # the dict version rotates every matrix of the dict like rotate_matrix does (and leaves its argument alone)
        Mc_keep = np.array(Mc, copy=True)
        rd = scat.rotate_matrices({"LL": Mc, "TT": np.ascontiguousarray(Mc.T)}, 2 * np.pi * m_steps / n)
        if set(rd) != {"LL", "TT"} or np.abs(rd["LL"] - want).max() > 1e-10 * (np.abs(M).max() + 1) * n \
                or np.abs(rd["TT"] - np.roll(np.roll(M.T, m_steps, axis=0), m_steps, axis=1)).max() > 1e-10 * (np.abs(M).max() + 1) * n \
                or not np.array_equal(Mc, Mc_keep):
            ctx.violate(f"rotate_matrices by {m_steps} grid steps does not shift both indices of every matrix of the dict (or modifies its argument)", {**cj, "steps": m_steps}, {"kind": "rotate"})
        lines.append(f"rotshift {n} {qmat(M.real)} {m_steps}")
        meta.append(("rot", want.real, cj, 1.0))
    # ---- the angle grid for *every* size: n angles, the first is -pi, evenly spaced by 2 pi / n, the last is below +pi
    #      (the formula is evaluated in floating point: sizes at which a rounded quotient tips over matter, so none is skipped)
    sizes = list(range(2, 600 if ctx.tier == "quick" else 3000))
    for n in sizes:
        th = scat.make_angles(n)
        ok = (th.shape == (n,) and th[0] == -np.pi and th[-1] < np.pi and np.abs(th - (-np.pi + 2 * np.pi * np.arange(n) / n)).max() <= 8 * np.finfo(float).eps * np.pi)
        if ok and n <= 64:
            gi, go = scat.make_angles_grid(n)
            ok = gi.shape == (n, n) and go.shape == (n, n) and np.array_equal(gi[0], th) and np.array_equal(go[:, 0], th)
        if not ok:
            ctx.violate(f"make_angles({n}) is not the grid of {n} angles -pi + 2 pi i / {n} (got {th.shape[0]} angles from {th[0]!r} to {th[-1]!r})", {"op": "make_angles", "n": n}, {"kind": "angle_grid"})
            break
    ctx.count("make_angles_sizes", len(sizes))
    # ---- representation: M[j, i] = S(inc_i, out_j)
    for _ in range(10 * ctx.scale):
        S = asym_func(rng)
        obj = make_scat_obj(S)
        n = int(rng.integers(2, 20))
        freq = float(rng.uniform(1e6, 5e6))
        keys = [k for k in sorted(scat.SCAT_KEYS) if rng.random() < 0.7] or ["LT"]
        mats = obj.as_single_freq_matrices(freq, n, set(keys))
        th = scat.make_angles(n)
        cj = {"op": "as_single_freq_matrices", "n": n, "keys": keys}
        ctx.case(("asmat", n, freq, tuple(keys)), True)
        lines.append(f"scatangles {n} {frac_s(PI)}")
        meta.append(("angles", th, cj, 1.0))
        full = obj(th[None, :], th[:, None], freq)
        for k in keys:
            if np.abs(mats[k] - full[k]).max() > 1e-12 * np.abs(full[k]).max() or mats[k].shape != (n, n):
                ctx.violate(f"matrix {k}: entry [j, i] is not S(inc = theta_i, out = theta_j)", cj, {"kind": "representation"})
        fr = np.sort(rng.uniform(1e6, 6e6, size=int(rng.integers(1, 5))))
        # sampled frequencies in measurement order (not necessarily increasing) in half of the cases
        if rng.random() < 0.5:
            fr = fr[rng.permutation(len(fr))] if rng.random() < 0.7 else fr[::-1].copy()
            ctx.count("frequencies_unsorted" if len(fr) > 1 and np.any(np.diff(fr) < 0) else "frequencies_sorted")
        mm = obj.as_multi_freq_matrices(fr, n, set(keys))
        for k in keys:
            for a, f_ in enumerate(fr):
                if np.abs(mm[k][a] - obj(th[None, :], th[:, None], f_)[k]).max() > 1e-12 * np.abs(mm[k][a]).max():
                    ctx.violate("multi-frequency matrices do not hold the function values", cj, {"kind": "representation"})
        # ---- ScatFromData: linear in frequency, reproduces data, subset of keys; file round trip
        sfd = scat.ScatFromData.from_dict(fr, mm)
        q_inc, q_out = th[rng.integers(0, n, size=3)], th[rng.integers(0, n, size=3)]
        for a, f_ in enumerate(fr):
            r = sfd(q_inc, q_out, f_)
            for k in keys:
                i = [int(np.argmin(np.abs(th - x))) for x in q_inc]
                j = [int(np.argmin(np.abs(th - x))) for x in q_out]
                if np.abs(r[k] - mm[k][a][j, i]).max() > 1e-9 * np.abs(mm[k]).max() or set(r) != set(keys):
                    ctx.violate("ScatFromData does not reproduce its data at a sampled frequency / returns other keys", cj, {"kind": "scat_from_data"})
        if len(fr) >= 2:
            kk = keys[0]
            i, j = int(np.argmin(np.abs(th - q_inc[0]))), int(np.argmin(np.abs(th - q_out[0])))
            order = np.argsort(fr)
            frs, vals = fr[order], mm[kk][order, j, i]
            fnew = float(rng.uniform(frs[0] - 1e5, frs[-1] + 1e5))
            r = sfd(q_inc[:1], q_out[:1], fnew)
            seg = int(np.clip(np.searchsorted(frs, fnew) - 1, 0, len(frs) - 2))
            want = vals[seg] + (vals[seg + 1] - vals[seg]) * (fnew - frs[seg]) / (frs[seg + 1] - frs[seg])
            if abs(r[kk][0] - want) > 1e-9 * np.abs(vals).max():
                ctx.violate("ScatFromData is not linear in frequency between (or beyond) its samples", {**cj, "freqs": fr.tolist(), "f": fnew}, {"kind": "freq_linear"})
            lines.append(f"freqinterp {ql([F(float(x)) for x in frs])} {ql([F(float(x)) for x in vals.real])} {frac_s(F(fnew))}")
            meta.append(("freq", want.real, cj, np.abs(vals).max()))
        d = CACHE / f"c10-{ctx.seed}"
        d.mkdir(parents=True, exist_ok=True)
        fn = d / "scat.mat"
        sio.savemat(str(fn), {"frequencies": fr.reshape(1, -1) if rng.random() < 0.5 else fr.reshape(-1, 1), **{f"scattering_{k}": mm[k] for k in keys}})
        loaded = ioscat.load_scat_from_matlab(str(fn))
        ok = np.array_equal(loaded.frequencies, fr) and set(loaded.orig_matrices) == set(keys) and all(np.array_equal(loaded.orig_matrices[k], mm[k]) for k in keys)
        ctx.case(("file", n, tuple(keys), len(fr)), True)
        if not ok:
            ctx.violate("matrices stored to and loaded from a file are not returned unchanged", cj, {"kind": "file_roundtrip"})
        # the other two doors to the same file
        import arim
        mat_ = arim.Material(6300.0, 3100.0, density=2700.0, state_of_matter="solid")
        for door, ld in (("load_scat", lambda: ioscat.load_scat(str(fn))), ("load_scat(format='matlab')", lambda: ioscat.load_scat(str(fn), format="matlab")),
                         ("scat_factory('file')", lambda: scat.scat_factory("file", mat_, str(fn)))):
            try:
                l2 = ld()
                ok2 = np.array_equal(l2.frequencies, fr) and set(l2.orig_matrices) == set(keys) and all(np.array_equal(l2.orig_matrices[k], mm[k]) for k in keys)
            except Exception as e:
                ok2 = False
                door += f" raised {type(e).__name__}"
            ctx.count("file_door")
            if not ok2:
                ctx.violate(f"{door}: matrices stored to a file are not returned unchanged", cj, {"kind": "file_roundtrip"})
        # a single sampled frequency: the data are returned at every frequency (scalar or 1-element `frequencies`)
        import warnings
        k0 = keys[0]
        for fspec in (float(fr[0]), np.array([fr[0]])):
            with warnings.catch_warnings():
                warnings.simplefilter("ignore")
                one = scat.ScatFromData.from_dict(fspec, {k: mm[k][:1] for k in keys})
                r1 = one(q_inc, q_out, float(fr[0]))
                r2 = one(q_inc, q_out, float(fr[0]) * 1.7)
            i = [int(np.argmin(np.abs(th - x))) for x in q_inc]
            j = [int(np.argmin(np.abs(th - x))) for x in q_out]
            wantv = mm[k0][0][j, i]
            ctx.count("single_frequency_data")
            with warnings.catch_warnings():
                warnings.simplefilter("ignore")
                one32 = scat.ScatFromData.from_dict(fspec, {k: mm[k][:1].astype(np.complex64) for k in keys})
                r32 = one32(q_inc, q_out, float(fr[0]))
            if np.abs(r32[k0] - wantv).max() > 1e-5 * np.abs(mm[k0]).max():
                ctx.violate("ScatFromData holding single-precision complex data does not return its data", cj, {"kind": "scat_from_data"})
            if np.abs(r1[k0] - wantv).max() > 1e-9 * np.abs(mm[k0]).max() or np.abs(r2[k0] - wantv).max() > 1e-9 * np.abs(mm[k0]).max():
                ctx.violate("ScatFromData with a single sampled frequency does not return its data", cj, {"kind": "scat_from_data"})
    answers = ctx.drive(lines) if ctx.lean.driver_ok and not ctx.oracle_only else []
    for (what, val, cj, scale), a in zip(meta, answers):
        if not a.startswith("ok "):
            ctx.disagree(f"model rejected a {what} request", cj)
        elif what == "interp":
            m = parse_q(a)
            # the implementation evaluates // and % in floating point: next to a node it may pick the neighbouring
            # cell with fraction ~1 instead of ~0, which changes the value by rounding only (the kernel is continuous)
            if np.abs(m - val).max() > 1e-8 * scale:
                ctx.disagree("interpolate_matrix differs from the exact bilinear model", cj)
        elif what == "rot":
            rows = np.array([[float(F(x)) for x in r.split(",")] for r in a[3:].split(";")])
            if not np.array_equal(rows, val):
                ctx.disagree("index shift differs from the model", cj)
        elif what == "angles":
            m = np.array([float(F(x)) for x in a[3:].split(",")])
            if np.abs(m - val).max() > 4 * np.finfo(float).eps * np.pi:
                ctx.disagree("make_angles differs from the model", cj)
        elif what == "freq":
            if abs(float(F(a[3:])) - val) > 1e-9 * scale:
                ctx.disagree("frequency interpolation differs from the model", cj)
    ctx.assumptions += ["np.fft computes the DFT (rotation is compared with the index shift the DFT theorems predict)", "scipy.io.savemat/loadmat and interp1d are external"]


def search(ctx):
    ctx.oracle_only = True
    ctx.rng = np.random.Generator(np.random.PCG64(ctx.seed + 7919))
    old = ctx.scale
    ctx.scale = max(3, 2 * old)
    try:
        run(ctx)
    finally:
        ctx.scale = old
