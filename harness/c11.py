"""C11 — time-domain synthesis places each echo at its delay with the right waveform.

Correspondence: Lean `Arim.TD` (toneburst, toneburst2 layout, spectrum time-shift, analytic
signal weights + naive inverse DFT, documented delay split, slice placement) on doubles vs
make_toneburst(2), rfft_to_hilbert, timeshift_spectra, transfer_func_to_timetraces
(1e-10 of the signal scale; lengths, indices and peak positions exactly).
Oracle: the statements of the property evaluated on the implementation (circular shift for
whole-sample delays, Hilbert analytic signal, symmetric toneburst peaking at one at t0 and
vanishing outside its window, exact reproduction of the toneburst at sample-aligned delays,
envelope peak within half a sample otherwise).
"""
import numpy as np

import fixtures

from common import b2f, f2b, fl


def cl(z):
    z = np.asarray(z, dtype=complex).ravel()
    return fl(np.stack([z.real, z.imag], axis=1).ravel())


def parse_cx(s):
    out = []
    for t in s.split(";"):
        if not t:
            continue
        re, im = t.split(",")
        out.append(complex(b2f(re), b2f(im)))
    return np.array(out)


def check_tonebursts(ctx):
    from arim import model

    rng = ctx.rng
    lines, meta = [], []
    for _ in range(40 * ctx.scale):
        cycles = int(rng.integers(1, 8))
        dt = float(rng.choice([1e-8, 2e-8, 4e-8, 2.0 ** -24, 1e-7]))
        f = float(rng.uniform(0.5e6, 8e6))
        if _ % 10 == 9:
            # the shortest pulses: one, two, three samples (a coarse time step)
            cycles, f = 1, 5e6
            dt = float([200e-9, 100e-9, 70e-9][(_ // 10) % 3])
        if cycles / f / dt > 400:
            continue
        sig = model.make_toneburst(cycles, f, dt)
        if len(sig) <= 3:
            ctx.count(f"toneburst:len={len(sig)}")
            if not (np.all(np.isfinite(sig)) and abs(np.abs(sig).max() - 1.0) <= 1e-12):
                ctx.violate(f"make_toneburst({cycles}, {f}, {dt}) (a pulse of {len(sig)} sample(s)) is {np.asarray(sig).tolist()}: not finite with peak 1",
                            {"op": "make_toneburst", "cycles": cycles, "f": f, "dt": dt}, {"kind": "toneburst_short"})
                continue
        n = len(sig)
        extra = int(rng.integers(0, 12))
        wrap = bool(rng.integers(0, 2))
        full = model.make_toneburst(cycles, f, dt, num_samples=n + extra, wrap=wrap, analytical=True)
        full_r = model.make_toneburst(cycles, f, dt, num_samples=n + extra, wrap=wrap)
        cj = {"op": "make_toneburst", "cycles": cycles, "f": f, "dt": dt, "num_samples": n + extra, "wrap": wrap}
        ctx.case(("tb", cycles, f, dt, extra, wrap), True, sample=cj if len(ctx.samples) < 2 else None)
        lines.append(f"toneburst {cycles} {f2b(f)} {f2b(dt)} {n + extra} {1 if wrap else 0}")
        meta.append(("tb", (n, full), cj))
        # ---- oracle
        half = n // 2
        ok = n % 2 == 1 and n >= cycles / f / dt and n <= cycles / f / dt + 2
        ok = ok and np.allclose(sig, sig[::-1], rtol=0, atol=1e-12) and abs(sig[half] - 1.0) <= 1e-12 and np.abs(sig).max() <= 1 + 1e-12
        ok = ok and sig[0] == 0 and sig[-1] == 0 if n > 1 else ok
        ok = ok and np.allclose(full.real, full_r, rtol=0, atol=1e-14)
        if wrap:
            ok = ok and abs(full_r[0] - 1.0) <= 1e-12 and np.all(full_r[half + 1: len(full_r) - half] == 0)
        else:
            ok = ok and np.array_equal(full_r[:n], sig) and np.all(full_r[n:] == 0)
        if not ok:
            ctx.violate("make_toneburst is not symmetric / does not peak at one at its centre / does not vanish outside its window", cj, {"kind": "toneburst"})
        nb, na = int(rng.integers(0, 4)), int(rng.integers(0, 3))
        tt, tb, t0 = model.make_toneburst2(cycles, f, dt, num_before=nb, num_after=na, use_fast_len=bool(rng.integers(0, 2)))
        cj2 = {"op": "make_toneburst2", "cycles": cycles, "f": f, "dt": dt, "before": nb, "after": na}
        ctx.case(("tb2", cycles, f, dt, nb, na), True)
        lines.append(f"tb2 {cycles} {f2b(f)} {f2b(dt)} {nb} {na}")
        meta.append(("tb2", (len(tb), t0), cj2))
        ok = abs(tb[t0] - 1.0) <= 1e-12 and abs(tt.samples[t0]) <= 1e-9 * dt and np.all(tb[: nb * n] == 0) and np.all(tb[nb * n + n:] == 0) and np.allclose(tb[nb * n: nb * n + n], sig, rtol=0, atol=0)
        if not ok:
            ctx.violate("make_toneburst2: the peak (value 1) is not at the declared time-zero sample, or the toneburst leaks outside its window", cj2, {"kind": "toneburst2"})
    return lines, meta


def check_hilbert_shift(ctx):
    import scipy.signal
    from arim import signal

    rng = ctx.rng
    lines, meta = [], []
    for _ in range(40 * ctx.scale):
        n = int(rng.integers(1, 24))
        x = rng.normal(size=n)
        xf = np.fft.rfft(x)
        got = signal.rfft_to_hilbert(xf, n)
        want = scipy.signal.hilbert(x)
        cj = {"op": "rfft_to_hilbert", "x": x.tolist()}
        ctx.case(("hil", x.tobytes()), n >= 2)
        if np.abs(got - want).max() > 1e-12 * (np.abs(x).max() + 1):
            ctx.violate("rfft_to_hilbert is not the Hilbert analytic signal", cj, {"kind": "hilbert"})
        lines.append(f"hilbert {n} {cl(xf)}")
        meta.append(("hil", got, cj))
        # shifting a spectrum by a whole number of samples = circular shift
        m = int(rng.integers(-2 * n, 2 * n + 1))
        dt = float(rng.choice([1e-8, 0.1, 2.0 ** -20]))
        freqs = np.fft.fftfreq(n, dt)
        X = np.fft.fft(x)
        Y = signal.timeshift_spectra(X[None, :], np.array([m * dt]), freqs)[0]
        y = np.fft.ifft(Y)
        ctx.case(("shift", x.tobytes(), m, dt), m % n != 0)
        if np.abs(y - np.roll(x, m)).max() > 1e-9 * (np.abs(x).max() + 1):
            ctx.violate(f"shifting the spectrum by {m} samples and transforming back is not the circular shift", {"op": "timeshift_spectra", "x": x.tolist(), "m": m, "dt": dt}, {"kind": "shift"})
        Y1 = signal.timeshift_spectra(X[None, :1], np.array([m * dt]), freqs)[0]
        if np.abs(Y1 - X[0] * np.exp(-2j * np.pi * freqs * m * dt)).max() > 1e-12 * abs(X[0]) + 1e-300:
            ctx.violate("single-frequency timeshift_spectra is not X(f0) exp(-i omega tau)", {"op": "timeshift_spectra_single"}, {"kind": "shift"})
    return lines, meta


def check_tftt(ctx):
    from arim import model
    import arim

    rng = ctx.rng
    lines, meta = [], []
    for k in range(40 * ctx.scale):
        cycles = int(rng.integers(2, 6))
        dt = float(rng.choice([1e-8, 4e-8, 2.0 ** -24, 0.1]))
        f = float(rng.uniform(0.03, 0.12) / dt)
        tt_time, tb, t0idx = model.make_toneburst2(cycles, f, dt, num_before=int(rng.integers(1, 3)), num_after=1, use_fast_len=bool(rng.integers(0, 2)))
        ntone = len(tb)
        freqs = np.fft.rfftfreq(ntone, dt)
        tbf = np.fft.rfft(tb)
        nout = ntone + int(rng.integers(ntone, 4 * ntone))
        t0out = float(rng.choice([0.0, 0.0, rng.uniform(-5, 5) * dt, 13 * dt]))
        out_time = arim.Time(t0out, dt, nout)
        numtr = int(rng.integers(1, 4))
        numsc = int(rng.integers(1, 4))
        multi = bool(rng.integers(0, 2))
        nfr = len(freqs) if multi else 1
        tf = rng.normal(size=(numsc, numtr, nfr)) + 1j * rng.normal(size=(numsc, numtr, nfr))
        if multi:
            tf = tf[:, :, :1] * (1 + 0.05 * rng.normal(size=(numsc, numtr, nfr)))  # smooth transfer functions
        # delays for which the whole toneburst fits; a third exactly on samples, a third one ulp either side
        qmin, qmax = t0idx + 1, nout - (ntone - t0idx) - 1
        qs = rng.integers(qmin, qmax, size=(numsc, numtr))
        kind = rng.integers(0, 3, size=(numsc, numtr))
        # the extreme admissible positions: the (padded) toneburst starts on the first output sample / ends flush with the last one
        q_first, q_last = t0idx, nout - ntone + t0idx
        edge = rng.random(size=qs.shape)
        qs = np.where(edge < 0.15, q_first, np.where(edge > 0.85, q_last, qs))
        ctx.count("tftt:echo_at_window_edge", int(((edge < 0.15) | (edge > 0.85)).sum()))
        delays = np.where(kind == 0, t0out + (qs + rng.uniform(0.05, 0.95, size=qs.shape)) * dt, t0out + qs * dt)
        ulp_dir = np.where(qs == q_first, 1, rng.choice([-1, 1], size=qs.shape))   # one ulp below the first position does not fit
        # (only when the quotient really lands on the intended sample: with a non-zero time origin rounding may move it)
        delays = np.where(kind == 2, np.nextafter(delays, delays + ulp_dir), delays)
        fits = np.floor((delays - t0out) / dt) - t0idx
        bad = (fits < 0) | (fits + ntone > nout)
        delays = np.where(bad, t0out + (np.clip(qs, q_first + 1, q_last - 1) + 0.5) * dt, delays)
        kind = np.where(bad, 0, kind)
        if numsc == 1 and rng.random() < 0.5:
            got = model.transfer_func_to_timetraces(tf[0], delays[0], out_time, tt_time, freqs, tbf, t0idx)
        else:
            got = model.transfer_func_to_timetraces(tf, delays, out_time, tt_time, freqs, tbf, t0idx)
        # accumulation into a buffer the caller provides (several views / batches of scatterers summed into one frame), through
        # the function and through its former name `transfer_func_to_scanlines` (kept as a deprecated alias): previous content + echoes
        import warnings
        prev = (rng.normal(size=got.shape) + 1j * rng.normal(size=got.shape)).astype(np.complex128)
        for door in ("transfer_func_to_timetraces", "transfer_func_to_scanlines"):
            buf = prev.copy()
            with warnings.catch_warnings():
                warnings.simplefilter("ignore")
                try:
                    ret = getattr(model, door)(tf, delays, out_time, tt_time, freqs, tbf, t0idx, buf)
                except Exception as e:
                    ctx.violate(f"{door} with an output buffer raised {type(e).__name__}: {str(e)[:80]}", {"op": door, "dt": dt, "nout": nout}, {"kind": "buffer_door"})
                    continue
            ctx.count("buffer_door:" + door)
            okb = np.allclose(buf, prev + got, rtol=1e-12, atol=1e-12 * np.abs(got).max()) and np.allclose(np.asarray(ret), prev + got, rtol=1e-12, atol=1e-12 * np.abs(got).max())
            if not okb:
                ctx.violate(f"{door}(..., timetraces=buffer): the buffer / the returned array do not hold the previous content plus the synthesised echoes "
                            f"(max deviation {max(np.abs(buf - prev - got).max(), np.abs(np.asarray(ret) - prev - got).max()):.3e})",
                            {"op": door, "dt": dt, "f": f, "nout": nout, "delays": delays.tolist()}, {"kind": "buffer_door"})
        cj = {"op": "transfer_func_to_timetraces", "dt": dt, "f": f, "cycles": cycles, "t0out": t0out, "nout": nout, "ntone": ntone, "t0idx": int(t0idx),
              "delays": delays.tolist(), "multi_freq": multi, "tf_re": tf.real.tolist(), "tf_im": tf.imag.tolist()}
        ctx.case(("tftt", dt, f, delays.tobytes(), tf.tobytes()), True, sample={k_: cj[k_] for k_ in ("dt", "f", "cycles", "nout", "ntone", "multi_freq")} if len(ctx.samples) < 4 else None)
        ctx.count(f"tftt:dt={dt}")
        entries = " ".join(f"{j}:{f2b(delays[s_, j])}:{cl(tf[s_, j])}" for s_ in range(numsc) for j in range(numtr))
        lines.append(f"tftt {f2b(t0out)} {f2b(dt)} {nout} {t0idx} {ntone} {fl(freqs)} {cl(tbf)} {numtr} {entries}")
        meta.append(("tftt", got, cj))
        # ---- oracle, one scatterer at a time (linearity lets us isolate each echo)
        import scipy.signal
        analytic = scipy.signal.hilbert(tb)  # the analytic signal of the (padded) toneburst; its real part is the toneburst
        for s_ in range(numsc):
            for j in range(numtr):
                one = model.transfer_func_to_timetraces(tf[s_:s_ + 1, j:j + 1], delays[s_:s_ + 1, j:j + 1], out_time, tt_time, freqs, tbf, t0idx)[0]
                d = (delays[s_, j] - t0out) / dt
                coef = tf[s_, j, 0] if not multi else None
                peak = int(np.argmax(np.abs(one)))
                tags = {"kind": "echo", "aligned": bool(kind[s_, j] != 0), "dt": dt}
                if abs(peak - d) > 0.5 + 1e-6:
                    ctx.violate(f"echo with delay {d:.9f} samples has its envelope peak at sample {peak}", {**cj, "scatterer": s_, "trace": j}, tags)
                    continue
                if kind[s_, j] == 1 and not multi:
                    # delay exactly on a sample: the analytic toneburst scaled by the coefficient, sample for sample
                    q = int(round(d))
                    want = np.zeros(nout, dtype=complex)
                    want[q - t0idx: q - t0idx + ntone] = coef * analytic
                    # a delay one ulp below the sample is split as (q-1, ~dt): the response is then the analytic signal shifted
                    # circularly by one sample, which differs from the unshifted one only by its (tiny) Hilbert tail at the window edge
                    edge = 1.01 * max(abs(analytic[0]), abs(analytic[-1]))
                    if np.abs(one - want).max() > (1e-9 + edge) * abs(coef) or np.abs((one / coef).real[q - t0idx: q - t0idx + ntone] - tb).max() > 1e-9 + edge:
                        ctx.violate(f"delay exactly on sample {q}: the output is not the toneburst scaled by the transfer coefficient (max dev {np.abs(one - want).max():.3e})",
                                    {**cj, "scatterer": s_, "trace": j}, {**tags, "kind": "aligned_exact"})
    return lines, meta


def run(ctx):
    fixtures.check_time_objects(ctx)
    ctx.rule = ("tonebursts with 1-7 cycles, dt in {1e-8, 2e-8, 4e-8, 2^-24, 1e-7}, padding, wrap, analytic; toneburst2 layouts; random real signals of length 1-23 "
                "(odd/even) for the Hilbert transform and whole-sample shifts in [-2n, 2n]; transfer functions single/multi-frequency, 1-3 scatterers x 1-3 timetraces, "
                "non-zero time origins, dt in {0.1, 1e-8, 2^-24, 4e-8}, delays fractional, exactly on output samples, and one ulp either side; distinct = distinct input; non-trivial = all")
    l1, m1 = check_tonebursts(ctx)
    l2, m2 = check_hilbert_shift(ctx)
    l3, m3 = check_tftt(ctx)
    lines, meta = l1 + l2 + l3, m1 + m2 + m3
    answers = ctx.drive(lines) if ctx.lean.driver_ok and not ctx.oracle_only else []
    for (what, val, cj), a in zip(meta, answers):
        if not a.startswith("ok "):
            ctx.disagree(f"model rejected a {what} request: {a[:60]}", cj)
        elif what == "tb":
            n, full = val
            ln, body = a[3:].split("|")
            m = parse_cx(body)
            if int(ln) != n or len(m) != len(full) or np.abs(m - full).max() > 1e-12:
                ctx.disagree("make_toneburst differs from the model", cj)
        elif what == "tb2":
            ln, t0 = a[3:].split(" ")
            import scipy.fftpack
            if int(t0) != val[1] or val[0] not in (int(ln), scipy.fftpack.next_fast_len(int(ln))):
                ctx.disagree(f"make_toneburst2 layout {val} differs from the model {a[3:]}", cj)
        elif what == "hil":
            m = parse_cx(a[3:])
            if len(m) != len(val) or np.abs(m - val).max() > 1e-10 * (np.abs(val).max() + 1):
                ctx.disagree("rfft_to_hilbert differs from the model", cj)
        elif what == "tftt":
            rows = [parse_cx(r) for r in a[3:].split("|")]
            m = np.array(rows)
            if m.shape != val.shape or np.abs(m - val).max() > 1e-9 * (np.abs(val).max() + 1e-300):
                dev = np.abs(m - val).max() if m.shape == val.shape else None
                ctx.disagree(f"transfer_func_to_timetraces differs from the model (max deviation {dev}, scale {np.abs(val).max()})", cj)
    ctx.assumptions += ["np.fft / scipy.fftpack compute the DFT; the model uses a naive O(n^2) inverse DFT",
                        "the envelope-peak clause for fractional delays is checked numerically, not proved (it depends on the band-limited interpolant of a Hann burst)"]


def search(ctx):
    ctx.oracle_only = True
    ctx.rng = np.random.Generator(np.random.PCG64(ctx.seed + 7919))
    old = ctx.scale
    ctx.scale = max(2, 2 * old)
    try:
        run(ctx)
    finally:
        ctx.scale = old
