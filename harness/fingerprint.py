"""Source-change gate (DESIGN 3.4): which functions of the files a property is anchored in differ from the tree the
models were written against?

A difference is never an alarm.  It is recorded in the evidence and makes the check spend more: after the ordinary
stream the failing-input search (the oracle on a fresh, larger stream) is run as well, exactly as it would be after a
broken proof or correspondence.  Fingerprints are hashes of the function's AST without docstrings, so comments,
formatting and docstring edits do not count as changes.

    /venv/bin/python harness/fingerprint.py --write     # record the current /repo tree as the baseline (harness/fingerprints.json)
"""
import ast
import hashlib
import json
import os
import sys
from pathlib import Path

VERIF = Path(__file__).resolve().parent.parent
REPO = Path(os.environ.get("ARIM_REPO", "/repo"))
BASE = VERIF / "harness" / "fingerprints.json"
# files looked at in addition to the anchors of the property (callees of the anchored code)
EXTRA = {
    "C02": ["src/arim/im/das.py", "src/arim/im/tfm.py"],
    "C03": ["src/arim/model.py", "src/arim/models/block_in_immersion.py", "src/arim/scat.py", "src/arim/ray.py"],
    "C08": ["src/arim/model.py", "src/arim/models/block_in_immersion.py", "src/arim/models/block_in_contact.py"],
    "C12": ["src/arim/im/das.py", "src/arim/im/tfm.py", "src/arim/ray.py"],
    "C13": ["src/arim/im/das.py", "src/arim/ray.py", "src/arim/helpers.py"],
}


def _strip_doc(node):
    for n in ast.walk(node):
        if isinstance(n, (ast.FunctionDef, ast.AsyncFunctionDef, ast.ClassDef, ast.Module)) and n.body:
            b = n.body[0]
            if isinstance(b, ast.Expr) and isinstance(getattr(b, "value", None), ast.Constant) and isinstance(b.value.value, str):
                n.body = n.body[1:] or [ast.Pass()]
    return node


def file_prints(path: Path) -> dict:
    out = {}
    try:
        tree = ast.parse(path.read_text())
    except (OSError, SyntaxError) as e:
        return {"<unreadable>": str(type(e).__name__)}

    def visit(node, prefix):
        for ch in ast.iter_child_nodes(node):
            if isinstance(ch, (ast.FunctionDef, ast.AsyncFunctionDef)):
                out[prefix + ch.name] = hashlib.sha1(ast.unparse(_strip_doc(ch)).encode()).hexdigest()[:12]
            elif isinstance(ch, ast.ClassDef):
                visit(ch, prefix + ch.name + ".")
    visit(tree, "")
    # module-level statements other than definitions (constants, decorators' tables)
    rest = [n for n in tree.body if not isinstance(n, (ast.FunctionDef, ast.AsyncFunctionDef, ast.ClassDef, ast.Import, ast.ImportFrom))]
    out["<module level>"] = hashlib.sha1("\n".join(ast.unparse(_strip_doc(n)) for n in rest).encode()).hexdigest()[:12]
    return out


def anchor_files(pid: str) -> list:
    files = []
    for l in (VERIF / "properties.jsonl").read_text().splitlines():
        if l.strip():
            d = json.loads(l)
            if d["id"] == pid:
                files = list(d["anchors"]["files"])
    for f in EXTRA.get(pid, []):
        if f not in files:
            files.append(f)
    return [f for f in files if f.endswith(".py")]


def whole_tree_hash() -> str:
    """hash of every .py file under src/arim (same definition as common.src_hash)"""
    import hashlib
    h = hashlib.sha256()
    src = REPO / "src"
    for p in sorted((src / "arim").rglob("*.py")):
        h.update(str(p.relative_to(src)).encode())
        h.update(p.read_bytes())
    return h.hexdigest()[:16]


def tree_is_baseline() -> bool:
    """is the whole source tree byte-identical to the one the checks were last validated against (the baseline)?"""
    try:
        return json.loads(BASE.read_text()).get("src_hash") == whole_tree_hash()
    except (OSError, ValueError):
        return False


def changed(pid: str) -> list:
    """names of the anchored functions that differ from the baseline ('file::qualname'), [] if none"""
    try:
        doc = json.loads(BASE.read_text())
        base = doc["files"]
    except (OSError, ValueError, KeyError):
        return []
    if doc.get("python") != list(sys.version_info[:2]):
        return []  # normalised source text may differ between interpreter versions: no statement rather than a wrong one
    out = []
    for f in anchor_files(pid):
        now, then = file_prints(REPO / f), base.get(f, {})
        for k in sorted(set(now) | set(then)):
            if now.get(k) != then.get(k):
                out.append(f"{f}::{k}" + (" (new)" if k not in then else " (removed)" if k not in now else ""))
    return out


if __name__ == "__main__":
    if "--write" in sys.argv:
        import subprocess
        files = sorted({f for i in range(1, 21) for f in anchor_files(f"C{i:02d}")})
        head = subprocess.run(["git", "-C", str(REPO), "rev-parse", "--short", "HEAD"], capture_output=True, text=True).stdout.strip()
        dirty = subprocess.run(["git", "-C", str(REPO), "status", "--porcelain", "--", "src"], capture_output=True, text=True).stdout.strip()
        if dirty:
            sys.exit("refusing to record a baseline from a modified working tree:\n" + dirty)
        BASE.write_text(json.dumps({"repo_head": head, "python": list(sys.version_info[:2]), "src_hash": whole_tree_hash(),
                                    "files": {f: file_prints(REPO / f) for f in files}}, indent=1, sort_keys=True))
        print("baseline written for", len(files), "files at", head)
    else:
        for i in range(1, 21):
            print(f"C{i:02d}", changed(f"C{i:02d}"))
