"""C03 — the immersion forward model is reciprocal (view V, i->j == reciprocal view, j->i).

Correspondence: Lean path terms (`Arim.Weights`) + assembly (`Arim.Assembly`) on complex doubles
vs the transmit / receive ray weights of `ray_weights_for_views` on Snell-exact immersion
set-ups (every wall sample is an exact Snell crossing point of some ray).
Oracle: the modelled coefficient for transmitter i and receiver j in view X-Y equals the one for
transmitter j and receiver i in the reciprocal view, for every view incl. skip and double-skip
paths, for SDH / crack-centre / point scatterers and reciprocal scattering matrices; and the
structural fact behind it: for every path the ratio Q/Q' is the same for all elements and
scatterer positions, with ratio_L / ratio_T = -c_T^2 / c_L^2.
"""
import numpy as np

import fixtures
import pathterms
from common import b2f, f2b, fl


def run(ctx):
    import arim.models.block_in_immersion as bim
    import arim.scat as scat
    from arim import model, ray, ut

    rng = ctx.rng
    ctx.rule = ("Snell-exact immersion set-ups: random fluid/solid pairs with attenuation, 2-4 elements, tilted probe, 1-3 scatterer positions, 0-2 wall reflections "
                "(6 / 36 / 196 views), random frequency and element width; scatterers: side-drilled hole, point source, crack centre, reciprocal scattering matrices, random rotation "
                "for the matrices; directivity and attenuation switched on/off (beamspread and transmission/reflection on); distinct = distinct (set-up, view, scatterer); non-trivial = view with mode conversion or reflection")
    lines, meta = [], []
    nsetups = 3 * ctx.scale
    prev, prev_freq = None, None
    for rep in range(nsetups):
        nrefl = [0, 1, 2][rep % 3]
        # every other set-up re-uses the Material objects of the previous one with new velocities and densities assigned in place
        # (a velocity sweep on one examination object), at the same frequency: nothing of the previous evaluation may survive
        reuse = rep % 2 == 1
        s = fixtures.immersion_exact(rng, max_reflections=nrefl, reuse_materials=(prev["couplant"], prev["block"]) if reuse else None)
        ctx.count(f"materials:{'reassigned_in_place' if reuse else 'fresh'}")
        views, numel, block = s["views"], s["numel"], s["block"]
        freq = prev_freq if reuse else float(rng.uniform(2e6, 8e6))
        prev, prev_freq = s, freq
        width = float(rng.uniform(0.2e-3, 1e-3))
        use_dir, use_att = (True, True) if rep % 2 == 0 else (bool(rng.integers(0, 2)), bool(rng.integers(0, 2)))
        rw = bim.ray_weights_for_views(views, freq, probe_element_width=width, use_directivity=use_dir, use_attenuation=use_att, save_debug=True)
        tx, rx = ut.fmc(numel)
        scatterers = {"sdh": scat.scat_factory("sdh", block, float(rng.uniform(0.2e-3, 1e-3))).as_angles_funcs(freq),
                      "point": scat.scat_factory("point", block).as_angles_funcs(freq)}
        if rep % 3 == 0:
            scatterers["crack_centre"] = scat.scat_factory("crack_centre", block, float(rng.uniform(0.5e-3, 2e-3)), nodes_per_wavelength=8).as_angles_funcs(freq)
        sdh_obj = scat.scat_factory("sdh", block, 0.4e-3)
        scatterers["matrices"] = sdh_obj.as_single_freq_matrices(freq, int(rng.integers(24, 60)))
        names = list(views)
        pick = names if (ctx.tier == "thorough" or len(names) <= 36) else [names[i] for i in rng.permutation(len(names))[:40]]
        cjb = {"op": "reciprocity", "reflections": nrefl, "numel": numel, "frequency": freq, "width": width, "use_directivity": use_dir, "use_attenuation": use_att,
               "probe": s["probe"].locations.coords.tolist(), "scatterers": s["scat_pts"].tolist(), "H": s["H"],
               "couplant": [s["couplant"].longitudinal_vel, s["couplant"].density], "block": [block.longitudinal_vel, block.transverse_vel, block.density],
               "materials": "the Material objects of the previous set-up with these values assigned in place, same frequency" if reuse else "fresh"}
        ctx.count(f"ingredients:dir={int(use_dir)},att={int(use_att)}")
        # a rotated reciprocal scatterer S'(t1, t2) = S(t1 - a, t2 - a) is reciprocal: every scatterer is also run with a
        # random rotation (functions and precomputed matrices take different code paths for the rotation)
        rot = float(rng.uniform(-np.pi, np.pi))
        pick_rot = [pick[i] for i in rng.permutation(len(pick))[:12]]
        for sname, sc, a in [(n_, s_, 0.0) for n_, s_ in scatterers.items()] + [(n_, s_, rot) for n_, s_ in scatterers.items()]:
            if a != 0.0:
                ctx.count("rotated_scatterer")
            for vname in (pick if a == 0.0 else pick_rot):
                rname = ut.reciprocal_viewname(vname)
                A = model.model_amplitudes_factory(tx, rx, views[vname], rw, sc, scat_angle=a)[...]
                B = model.model_amplitudes_factory(tx, rx, views[rname], rw, sc, scat_angle=a)[...]
                ctx.case(("rec", rep, sname, vname, a), vname not in ("L-L",), sample={"view": vname, "scatterer": sname, "reflections": nrefl} if len(ctx.samples) < 4 and len(vname) > 3 else None)
                ctx.count("scat:" + sname)
                ctx.count(f"refl={nrefl}")
                worst = 0.0
                scale = np.abs(A).max() + 1e-300
                for i in range(numel):
                    for j in range(numel):
                        worst = max(worst, np.abs(A[:, i * numel + j] - B[:, j * numel + i]).max() / scale)
                if worst > 1e-9:
                    ctx.violate(f"view {vname} (i->j) and its reciprocal {rname} (j->i) differ by {worst:.3e} (relative) with scatterer '{sname}' rotated by {a}",
                                {**cjb, "view": vname, "scatterer": sname, "scat_angle": a}, {"kind": "reciprocity", "scatterer": sname})
        # ---- every other on/off combination of directivity and attenuation on the same set-up (side-drilled hole, views whose
        # two ends differ in mode first: the scattering normalisation sqrt(lambda_mode) only matters there)
        mixed = [n_ for n_ in names if n_.split("-")[0][-1] != n_.split("-")[1][0]]
        same = [n_ for n_ in names if n_ not in mixed]
        sub = [mixed[i] for i in rng.permutation(len(mixed))[:8]] + [same[i] for i in rng.permutation(len(same))[:3]]
        for ud, ua in [(True, True), (True, False), (False, True), (False, False)]:
            if (ud, ua) == (use_dir, use_att):
                continue
            rw2 = bim.ray_weights_for_views(views, freq, probe_element_width=width, use_directivity=ud, use_attenuation=ua)
            ctx.count(f"ingredients:dir={int(ud)},att={int(ua)}")
            for vname in sub:
                rname = ut.reciprocal_viewname(vname)
                A = model.model_amplitudes_factory(tx, rx, views[vname], rw2, scatterers["sdh"])[...]
                B = model.model_amplitudes_factory(tx, rx, views[rname], rw2, scatterers["sdh"])[...]
                ctx.case(("rec2", rep, ud, ua, vname), True)
                scale = np.abs(A).max() + 1e-300
                worst = max(np.abs(A[:, i * numel + j] - B[:, j * numel + i]).max() / scale for i in range(numel) for j in range(numel))
                if worst > 1e-9:
                    ctx.violate(f"view {vname} (i->j) and its reciprocal {rname} (j->i) differ by {worst:.3e} (relative) with use_directivity={ud}, use_attenuation={ua}",
                                {**cjb, "view": vname, "scatterer": "sdh", "use_directivity": ud, "use_attenuation": ua}, {"kind": "reciprocity", "scatterer": "sdh"})
        # ---- the same through the door of the full-time model (`scat_unshifted_transfer_functions`: H_ij = conj(Q_i Q'_j S)), which
        #      forwards the four switches itself: every on/off combination of directivity and attenuation
        sdh_door = scat.scat_factory("sdh", block, 0.5e-3)
        door_names = []
        for n_ in sub[:5]:
            for m_ in (n_, ut.reciprocal_viewname(n_)):
                if m_ not in door_names:
                    door_names.append(m_)
        door_views = {n_: views[n_] for n_ in door_names}
        for ud, ua in [(True, True), (True, False), (False, True), (False, False)]:
            try:
                outs = dict(zip(door_names, bim.scat_unshifted_transfer_functions(door_views, tx, rx, freq, sdh_door, probe_element_width=width,
                                                                                 use_directivity=ud, use_attenuation=ua)))
            except Exception as e:
                ctx.violate(f"scat_unshifted_transfer_functions raised {type(e).__name__}: {str(e)[:80]}", {**cjb, "use_directivity": ud, "use_attenuation": ua}, {"kind": "reciprocity_door"})
                continue
            ctx.count("transfer_function_door")
            for vname in sub[:5]:
                rname = ut.reciprocal_viewname(vname)
                A, B = outs[vname][0][..., 0], outs[rname][0][..., 0]
                ctx.case(("rec_door", rep, ud, ua, vname), True)
                scale = np.abs(A).max() + 1e-300
                worst = max(np.abs(A[:, i * numel + j] - B[:, j * numel + i]).max() / scale for i in range(numel) for j in range(numel))
                if worst > 1e-9:
                    ctx.violate(f"through scat_unshifted_transfer_functions, view {vname} (i->j) and its reciprocal {rname} (j->i) differ by {worst:.3e} (relative) "
                                f"with use_directivity={ud}, use_attenuation={ua}", {**cjb, "view": vname, "use_directivity": ud, "use_attenuation": ua}, {"kind": "reciprocity_door"})
                    break
        # ---- structure: Q / Q' is geometry independent and tied to the last mode
        ratios = {}
        for path in {v.tx_path for v in views.values()}:
            Q = rw.tx_ray_weights_dict[path]
            Qp = rw.rx_ray_weights_dict[path]
            r = Q / Qp
            ctx.case(("ratio", rep, path.name), True)
            if np.abs(r - r.ravel()[0]).max() > 1e-9 * abs(r.ravel()[0]):
                ctx.violate(f"path {path.name}: the ratio of transmit to receive weights varies with the element / scatterer position", {**cjb, "path": path.name}, {"kind": "ratio_constant"})
            ratios.setdefault(path.modes[-1].key(), []).append(complex(r.ravel()[0]))
        for k_, v_ in ratios.items():
            if np.abs(np.array(v_) - v_[0]).max() > 1e-9 * abs(v_[0]):
                ctx.violate(f"paths ending with mode {k_} have different transmit/receive weight ratios", cjb, {"kind": "ratio_mode"})
        if "L" in ratios and "T" in ratios:
            want = -(block.transverse_vel ** 2) / (block.longitudinal_vel ** 2)
            if abs(ratios["L"][0] / ratios["T"][0] - want) > 1e-9 * abs(want):
                ctx.violate("ratio_L / ratio_T is not -c_T^2 / c_L^2", cjb, {"kind": "ratio_modes"})
        # ---- correspondence of whole weights with the Lean model, a few rays per path
        for path in list({v.tx_path for v in views.values()})[: (4 if ctx.tier == "quick" else 14)]:
            rg = ray.RayGeometry.from_path(path)
            e, p = int(rng.integers(0, numel)), int(rng.integers(0, len(s["scat_pts"])))
            n = path.numinterfaces
            legs = [float(rg.inc_leg_size(k)[e, p]) for k in range(1, n)]
            ths = [float(rg.conventional_inc_angle(k)[e, p]) for k in range(1, n - 1)]
            alphas = [float(m.attenuation(md)(freq)) if use_att else 0.0 for m, md in zip(path.materials, path.modes)]
            c, b = s["couplant"], block
            lines.append(f"weights {fl(legs)} {fl([float(v) for v in path.velocities])} {fl(ths)} {pathterms.spec_tokens(path)} {fl(alphas)} "
                         f"{f2b(c.density)} {f2b(b.density)} {f2b(c.longitudinal_vel)} {f2b(b.longitudinal_vel)} {f2b(b.transverse_vel)}")
            d_tx = rw.tx_ray_weights_debug_dict[path]
            d_rx = rw.rx_ray_weights_debug_dict[path]
            meta.append((dict(beam=d_tx["beamspread"][e, p], rbeam=d_rx["beamspread"][e, p], tr=d_tx["transrefl"][e, p], rtr=d_rx["transrefl"][e, p],
                              att=d_tx["attenuation"][e, p]), {**cjb, "path": path.name, "element": e, "point": p}))
    answers = ctx.drive(lines) if ctx.lean.driver_ok and not ctx.oracle_only else []
    for (val, cj), a in zip(meta, answers):
        m = pathterms.parse_weights(a)
        ok = m is not None and pathterms.rel(val["beam"], m["beam"], 1e-10) and pathterms.rel(val["rbeam"], m["rbeam"], 1e-10)
        ok = ok and not isinstance(m["tr_d"], str) and pathterms.rel(val["tr"], m["tr_d"], 1e-10) and pathterms.rel(val["rtr"], m["rtr_d"], 1e-10)
        ok = ok and pathterms.rel(val["att"], m["att"], 1e-12)
        if not ok:
            ctx.disagree(f"ray weight factors of path {cj['path']} differ from the Lean path-term model: arim {val} model {m}", cj)
    ctx.assumptions += ["Snell-exactness of the Fermat rays is a hypothesis of reciprocity (true in the limit of fine walls, enforced exactly by the test geometry)",
                        "reciprocity is stated with beamspread and transmission/reflection both enabled (with only one of them the transmit/receive ratio is not geometry independent)"]


def search(ctx):
    ctx.oracle_only = True
    ctx.rng = np.random.Generator(np.random.PCG64(ctx.seed + 7919))
    old = ctx.scale
    ctx.scale = max(2, 2 * old)
    try:
        run(ctx)
    finally:
        ctx.scale = old
