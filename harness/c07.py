"""C07 — receive-side (reverse) terms equal transmit-side terms of the reversed path.

Correspondence: Lean `revBeamspread`, `revTransRefl`, `transRefl`, `attenuation` on (complex)
doubles vs arim.model's reverse_* / direct functions on Snell-exact single-ray paths, including
incidence beyond the critical angles (complex coefficients); relative 1e-10.
Oracle: reverse terms computed from the transmit-side geometry equal the direct terms evaluated
on `path.reverse()` with its reversed rays, in stress and displacement units; attenuation is
identical in the two directions.
"""
import numpy as np

import pathterms
from pathterms import rel


def run(ctx):
    from arim import model, ray
    import arim

    rng = ctx.rng
    ctx.rule = ("Snell-exact single-ray immersion paths with 0-2 wall reflections (3-5 interfaces) and contact paths, any L/T mode sequence, random materials, "
                "incidence up to 85 deg at the first wall (beyond the first critical angle for many), tilted walls; distinct = distinct geometry; non-trivial = complex coefficient somewhere")
    cases = pathterms.gen_paths(rng, 60 * ctx.scale, ns=(3, 4, 5, 3, 4, 5, 4, 5, 2), max_inc=85.0)
    # every fifth case is redrawn at the scale of a thin film (lengths x 1e-6: legs of some ten nanometres)
    for k_ in range(4, len(cases), 5):
        sc_ = pathterms.scaled(cases[k_][0], cases[k_][1], 1e-6)
        if sc_ is not None:
            cases[k_] = sc_
            ctx.count("thin_film_scale")
    lines, meta = [], []
    for path, info in cases:
        rg = ray.RayGeometry.from_path(path)
        alphas = [float(a) for a in rng.uniform(0, 40, size=path.numinterfaces - 1)]
        lines.append(pathterms.weights_line(path, rg, info, alphas))
        meta.append((path, info, rg, alphas))
    answers = ctx.drive(lines) if ctx.lean.driver_ok and not ctx.oracle_only else [None] * len(lines)
    for case_no, ((path, info, rg, alphas), l, a) in enumerate(zip(meta, lines, answers)):
        n = path.numinterfaces
        cj = {"op": "reverse_terms", "points": [p.tolist() for p in info["points"]], "vels": info["vels"], "modes": info["modes"], "tilts": info["tilts"], "line": l}
        with np.errstate(all="ignore"):
            rb = float(model.reverse_beamspread_2d_for_path(rg)[0, 0])
            b = float(model.beamspread_2d_for_path(rg)[0, 0])
            vals = {}
            for unit in ("stress", "displacement"):
                t = model.transmission_reflection_for_path(path, rg, unit=unit)
                rt = model.reverse_transmission_reflection_for_path(path, rg, unit=unit)
                vals[unit] = (None if t is None else complex(t[0, 0]), None if rt is None else complex(rt[0, 0]))
            # direct terms on the physically reversed path
            if case_no % 3 == 0:
                # history: the same Path object was traced before with other velocities (a calibration sweep), reversed then,
                # and traced again since: the reversal is about the rays the path holds NOW
                real = path.rays
                fp = real.fermat_path
                alt = ray.FermatPath(tuple(x * (1.0 + 0.09 * (k_ % 4)) if k_ % 2 else x for k_, x in enumerate(fp)))
                path.rays = ray.Rays(np.array(real.times) * 1.07, np.array(real.interior_indices), alt)
                stale = path.reverse()
                ray.RayGeometry.from_path(stale).inc_leg_size(1)
                path.rays = real
                ctx.count("history:reversed_before_retracing")
            rev = path.reverse()
            rrg = ray.RayGeometry.from_path(rev)
            b_rev = float(model.beamspread_2d_for_path(rrg)[0, 0])
            tvals = {}
            for unit in ("stress", "displacement"):
                t = model.transmission_reflection_for_path(rev, rrg, unit=unit)
                tvals[unit] = None if t is None else complex(t[0, 0])
        cplx = any(v[0] is not None and abs(v[0].imag) > 1e-12 for v in vals.values())
        ctx.case(l, cplx, sample={"numinterfaces": n, "modes": info["modes"], "thetas_deg": np.rad2deg(info["thetas_in"]).tolist(), "complex": cplx} if cplx else None)
        ctx.count(f"interfaces={n}")
        ctx.count("complex" if cplx else "real")
        # ---- oracle
        if not rel(rb, b_rev, 1e-7):
            ctx.violate(f"reverse beamspread {rb} differs from the beamspread of the reversed path {b_rev}", cj, {"kind": "rev_beamspread"})
        for unit in ("stress", "displacement"):
            rt, want = vals[unit][1], tvals[unit]
            # 1e-7: close to a critical angle arcsin amplifies the rounding of the Snell-exact geometry (1e-16) by 1/sqrt(1 - x^2) and
            # a coefficient that nearly vanishes there is a difference of nearly equal terms; measured worst case over the
            # thorough sweeps 1.1e-9 (a false alarm at the former 1e-9, seed 2), typical 1e-13
            if (rt is None) != (want is None) or (rt is not None and not rel(rt, want, 1e-7)):
                ctx.violate(f"reverse transmission-reflection ({unit}) {rt} differs from the direct product on the reversed path {want}", cj, {"kind": "rev_transrefl", "unit": unit})
        # attenuation: same in both directions (frequency-dependent laws on the two materials)
        att = None
        if n >= 2:
            mats_att = {}
            path2 = path
            # materials with attenuation
            blk = arim.Material(info["block"].longitudinal_vel, info["block"].transverse_vel, density=info["block"].density, state_of_matter="solid",
                                longitudinal_att=arim.material_attenuation_factory("constant", alphas[0]),
                                transverse_att=arim.material_attenuation_factory("polynomial", [alphas[-1], 1.5]))
            cpl = arim.Material(info["couplant"].longitudinal_vel, density=info["couplant"].density, state_of_matter="liquid",
                                longitudinal_att=arim.material_attenuation_factory("constant", alphas[0] / 3))
            mats = tuple(blk if m is info["block"] else cpl for m in path.materials)
            p_att = arim.Path(path.interfaces, mats, path.modes, name=path.name)
            p_att.rays = path.rays
            f = 2e6
            a1 = float(model.material_attenuation_for_path(p_att, rg, f)[0, 0])
            r_att = p_att.reverse()
            a2 = float(model.material_attenuation_for_path(r_att, ray.RayGeometry.from_path(r_att), f)[0, 0])
            legs = [float(rg.inc_leg_size(k)[0, 0]) for k in range(1, n)]
            coef = [m.attenuation(md)(f) for m, md in zip(mats, path.modes)]
            want = float(np.exp(-sum(c * d for c, d in zip(coef, legs))))
            if not (rel(a1, a2, 1e-12) and rel(a1, want, 1e-12)):
                ctx.violate(f"material attenuation {a1} (reversed path {a2}) is not exp(-sum alpha d) = {want}", cj, {"kind": "attenuation"})
            # the laws written out independently of the library (constant: alpha; polynomial [c0, c1]: c0 + c1 f/MHz)
            law = {("blk", "L"): alphas[0], ("blk", "T"): alphas[-1] + 1.5 * (f / 1e6), ("cpl", "L"): alphas[0] / 3}
            coef_ind = [law[("blk" if m is blk else "cpl", md.key() if hasattr(md, "key") else str(md))] for m, md in zip(mats, path.modes)]
            want_ind = float(np.exp(-sum(c * d for c, d in zip(coef_ind, legs))))
            if not rel(a1, want_ind, 1e-12):
                ctx.violate(f"material attenuation {a1} is not exp(-sum alpha_k(f) d_k) = {want_ind} with the documented constant / polynomial laws", cj, {"kind": "attenuation_law"})
            # the frequency may reach the function as a Python float, a NumPy scalar or an array the caller keeps: same answer,
            # forwards and backwards, the first time and the second time, and the caller's array is left alone
            for fc in (np.float64(f), np.array(f), np.array([f]), np.array([[f]])):
                keep = np.array(fc, copy=True)
                got = []
                for rep_ in range(2):
                    got.append(float(np.ravel(model.material_attenuation_for_path(p_att, rg, fc))[0]))
                    got.append(float(np.ravel(model.material_attenuation_for_path(r_att, ray.RayGeometry.from_path(r_att), fc))[0]))
                ctx.count("attenuation:frequency_as_" + type(fc).__name__ + str(np.shape(fc)))
                if not np.array_equal(np.asarray(fc), keep):
                    ctx.violate(f"material_attenuation_for_path modified the frequency array it was given ({keep.ravel()[0]} -> {np.asarray(fc).ravel()[0]})", cj, {"kind": "attenuation_input"})
                    break
                if not all(rel(g_, a1, 1e-12) for g_ in got):
                    ctx.violate(f"material attenuation depends on how the frequency is passed / on the call history: {got} vs {a1} (frequency as {type(fc).__name__}{np.shape(fc)})", cj, {"kind": "attenuation_input"})
                    break
            # a material that declares no attenuation for a mode contributes nothing
            blk_noT = arim.Material(blk.longitudinal_vel, blk.transverse_vel, density=blk.density, state_of_matter="solid",
                                    longitudinal_att=arim.material_attenuation_factory("constant", alphas[0]))
            mats3 = tuple(blk_noT if m is blk else cpl for m in mats)
            p3 = arim.Path(path.interfaces, mats3, path.modes, name=path.name)
            p3.rays = path.rays
            a3 = float(model.material_attenuation_for_path(p3, rg, f)[0, 0])
            want3 = float(np.exp(-sum((0.0 if (m is blk and (md.key() if hasattr(md, "key") else str(md)) == "T") else c) * d for c, d, m, md in zip(coef_ind, legs, mats, path.modes))))
            if not rel(a3, want3, 1e-12):
                ctx.violate(f"a mode without attenuation law must not attenuate: got {a3}, expected {want3}", cj, {"kind": "attenuation_none"})
            att = (a1, [float(c) for c in coef])
        # ---- correspondence
        if a is not None:
            m = pathterms.parse_weights(a)
            ok = m is not None and rel(rb, m["rbeam"], 1e-12) and rel(b, m["beam"], 1e-12)
            if ok:
                for unit, ks in (("stress", ("tr_s", "rtr_s")), ("displacement", ("tr_d", "rtr_d"))):
                    for got, key in zip(vals[unit], ks):
                        mv = m[key]
                        if got is None:
                            ok = ok and mv == "N"
                        else:
                            ok = ok and not isinstance(mv, str) and rel(got, mv, 1e-10)
            if not ok:
                ctx.disagree(f"path terms differ from the model: arim beam {b} rbeam {rb} {vals}; model {m}", cj)
    if ctx.lean.driver_ok and not ctx.oracle_only:
        # attenuation op of the model on explicit numbers
        for _ in range(20):
            k = int(rng.integers(1, 5))
            al, lg = rng.uniform(0, 50, size=k), rng.uniform(1e-3, 5e-2, size=k)
            from common import fl, f2b
            line = f"weights {fl(lg)} {fl([1000.0] * k)} {fl([0.1] * (k - 1))} - {fl(al)} {f2b(1000.0)} {f2b(2700.0)} {f2b(1480.0)} {f2b(6300.0)} {f2b(3100.0)}"
            m = pathterms.parse_weights(ctx.drive([line])[0])
            ctx.case(line, True)
            if m is None or not rel(m["att"], float(np.exp(-(al * lg).sum())), 1e-13):
                ctx.disagree("attenuation differs from exp(-sum alpha d)", {"op": "attenuation", "alphas": al.tolist(), "legs": lg.tolist()})
    ctx.assumptions.append("Snell-exactness of the traced rays is arranged by the geometry (exact crossing points among the wall samples); it is a hypothesis of the theorems")


def search(ctx):
    ctx.oracle_only = True
    ctx.rng = np.random.Generator(np.random.PCG64(ctx.seed + 7919))
    old = ctx.scale
    ctx.scale = max(3, 2 * old)
    try:
        run(ctx)
    finally:
        ctx.scale = old
