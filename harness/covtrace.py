"""Which lines of /repo/src/arim do the checks actually execute?  (blind-spot map for the generators)

Enabled by `VERIF_COV=<dir>`: every check process records, with `sys.monitoring` (Python 3.12; the callback disables
itself per line after the first hit, so the cost is negligible), the set of executed lines of the files under
/repo/src/arim and writes `<dir>/<pid>-<os pid>.json` at exit.  `python harness/covtrace.py report <dir>` merges the
files and lists, per property, the executable lines of the *anchored* functions (those of `fingerprint.py`) that no
check reached.  numba-compiled functions never run as Python code: they are listed separately (their coverage is by
the kernels' own correspondence runs).  This is a development aid and part of the evidence (`input_distribution`),
never a verdict.
"""
from __future__ import annotations

import ast
import atexit
import json
import os
import sys
from pathlib import Path


def install(pid: str, src_root: Path):
    out = os.environ.get("VERIF_COV")
    if not out or not hasattr(sys, "monitoring"):
        return
    mon = sys.monitoring
    tool = mon.COVERAGE_ID
    try:
        mon.use_tool_id(tool, "arimverif-cov")
    except ValueError:
        return
    prefix = str(src_root / "arim")
    hits = set()

    def on_line(code, line):
        fn = code.co_filename
        if fn.startswith(prefix):
            hits.add((fn[len(prefix) + 1:], line))
        return mon.DISABLE

    mon.register_callback(tool, mon.events.LINE, on_line)
    mon.set_events(tool, mon.events.LINE)

    def dump():
        d = Path(out)
        d.mkdir(parents=True, exist_ok=True)
        byfile = {}
        for f, l in hits:
            byfile.setdefault(f, []).append(l)
        (d / f"{pid}-{os.getpid()}.json").write_text(json.dumps({"pid": pid, "lines": {f: sorted(v) for f, v in byfile.items()}}))

    atexit.register(dump)


def executable_lines(path: Path):
    """function qualified name -> (set of executable lines, is_numba)"""
    src = path.read_text()
    tree = ast.parse(src)
    code = compile(src, str(path), "exec")
    out = {}

    def lines_of(co):
        ls = {l for _, _, l in co.co_lines() if l is not None}
        for c in co.co_consts:
            if hasattr(c, "co_lines"):
                ls |= lines_of(c)
        return ls

    def walk_code(co, qual):
        for c in co.co_consts:
            if hasattr(c, "co_lines"):
                q = (qual + "." if qual else "") + c.co_name
                if c.co_name.startswith("<") and c.co_name != "<lambda>":
                    walk_code(c, qual)
                    continue
                out[q] = [lines_of(c) - {c.co_firstlineno}, False, c.co_firstlineno]
                walk_code(c, q)

    walk_code(code, "")
    # numba-decorated functions
    for node in ast.walk(tree):
        if isinstance(node, ast.FunctionDef):
            decs = " ".join(ast.unparse(d) for d in node.decorator_list)
            if "numba" in decs or "njit" in decs or "jit(" in decs:
                for q, v in out.items():
                    if q.split(".")[-1] == node.name and min([node.lineno] + [d.lineno for d in node.decorator_list]) <= v[2] <= node.lineno:
                        v[1] = True
            # docstring lines are not executable statements of interest
    return out


def report(d: Path, src_root: Path, only=None):
    sys.path.insert(0, str(Path(__file__).resolve().parent))
    import fingerprint

    merged = {}
    per_pid = {}
    for p in d.glob("*.json"):
        j = json.loads(p.read_text())
        for f, ls in j["lines"].items():
            merged.setdefault(f, set()).update(ls)
            per_pid.setdefault(j["pid"], {}).setdefault(f, set()).update(ls)
    files = sorted({f for i in range(1, 21) for f in fingerprint.anchor_files(f"C{i:02d}")})
    res = {}
    for f in files:
        rel = f[len("src/arim/"):] if f.startswith("src/arim/") else f
        path = src_root / "arim" / rel
        if not path.exists():
            continue
        ex = executable_lines(path)
        hit = merged.get(rel, set())
        for q, (ls, is_numba, first) in sorted(ex.items(), key=lambda kv: kv[1][2]):
            if not ls:
                continue
            missed = sorted(ls - hit)
            res[f"{rel}:{q}"] = {"lines": len(ls), "missed": missed, "numba": is_numba, "first": first}
    return res


if __name__ == "__main__":
    if len(sys.argv) >= 3 and sys.argv[1] == "report":
        src = Path(os.environ.get("ARIM_REPO", "/repo")) / "src"
        r = report(Path(sys.argv[2]), src)
        tot = sum(v["lines"] for v in r.values() if not v["numba"])
        miss = sum(len(v["missed"]) for v in r.values() if not v["numba"])
        print(f"anchored python functions: {len(r)}; executable lines {tot}; never executed by any check: {miss}")
        for k, v in r.items():
            if v["numba"] or not v["missed"]:
                continue
            full = len(v["missed"]) == v["lines"]
            print(f"{'NEVER ' if full else 'part  '} {k} (line {v['first']}): {len(v['missed'])}/{v['lines']} missed: {v['missed'][:25]}")
