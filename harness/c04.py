"""C04 — interface coefficients obey Snell, energy conservation and Stokes relations.

Correspondence: Lean `Arim.Iface` (snell, N, fluid_solid, solid_l_fluid, solid_t_fluid,
transmission_at_interface, reflection_at_interface) evaluated on complex and real doubles vs
arim.model on random materials and angles (dense around both critical angles), relative 1e-10.
Oracle: energy balance, Stokes relations, normal-incidence impedance formulas, Snell's law,
evaluated on the implementation.
"""
import numpy as np

from common import b2f, f2b


def gen_media(rng):
    cL = float(rng.uniform(3000, 7000))
    cT = float(cL * rng.uniform(0.35, 0.7))  # c_T < c_L / sqrt(2)
    cF = float(rng.uniform(800, 2500)) if rng.random() < 0.8 else float(rng.uniform(2500, 8000))
    return dict(rhoF=float(rng.uniform(700, 1500)), rhoS=float(rng.uniform(1500, 9000)), cF=cF, cL=cL, cT=cT)


def gen_angles(rng, m, c_inc, n):
    """angles in [0, 89.9 deg] with a dense band around the critical angles for incidence velocity c_inc"""
    out = list(rng.uniform(0, np.deg2rad(89.9), size=n))
    for c in (m["cL"], m["cT"], m["cF"]):
        if c > c_inc:
            crit = np.arcsin(c_inc / c)
            out += list(np.clip(crit + rng.normal(size=4) * 1e-3, 0, np.deg2rad(89.9)))
            out += [float(np.clip(crit * (1 + e), 0, np.deg2rad(89.9))) for e in (-1e-6, 1e-6)]
    out += [0.0, 1e-9, np.deg2rad(89.9)]
    return [float(a) for a in out]


def parse_c(s):
    re, im = s.split(",")
    return complex(b2f(re), b2f(im))


def rel_close(a, b, tol=1e-10):
    a, b = complex(a), complex(b)
    if not (np.isfinite(a) and np.isfinite(b)):
        return (np.isnan(a.real) or np.isnan(a.imag)) == (np.isnan(b.real) or np.isnan(b.imag)) or a == b
    return abs(a - b) <= tol * max(1.0, abs(a), abs(b))


def media_args(m):
    return f"{f2b(m['rhoF'])} {f2b(m['rhoS'])} {f2b(m['cF'])} {f2b(m['cL'])} {f2b(m['cT'])}"


def materials(m):
    import arim

    fluid = arim.Material(m["cF"], density=m["rhoF"], state_of_matter="liquid")
    solid = arim.Material(m["cL"], m["cT"], density=m["rhoS"], state_of_matter="solid")
    return fluid, solid


def run(ctx):
    from arim import model
    import arim

    rng = ctx.rng
    ctx.rule = ("random fluid/solid pairs (c_T < c_L/sqrt(2), fluid slower or faster than the solid), incidence angles uniform in [0, 89.9 deg] plus a dense band "
                "(1e-3 rad, +-1e-6 relative) around every critical angle, complex and real dtypes, stress and displacement units, all (mode_in, mode_out, kind) triples; "
                "distinct = distinct (media, angle, function); non-trivial = beyond the first critical angle")
    lines, meta = [], []
    nm = 12 * ctx.scale
    for _ in range(nm):
        m = gen_media(rng)
        fluid, solid = materials(m)
        kw = dict(rho_fluid=m["rhoF"], rho_solid=m["rhoS"], c_fluid=m["cF"], c_l=m["cL"], c_t=m["cT"])
        for fn, c_inc, impl in (("fs", m["cF"], model.fluid_solid), ("slf", m["cL"], model.solid_l_fluid), ("stf", m["cT"], model.solid_t_fluid)):
            for a in gen_angles(rng, m, c_inc, 10):
                for cplx in (True, False):
                    ang = complex(a) if cplx else a
                    with np.errstate(all="ignore"):
                        r = impl(np.asarray(ang), **kw)
                    lines.append(f"iface {'c' if cplx else 'r'} {fn} {media_args(m)} {f2b(a)} {f2b(0.0)}")
                    meta.append(("coef", fn, m, a, cplx, [complex(x) for x in r]))
                # ---- oracle on the complex coefficients
                check_physics(ctx, fn, m, a, impl, kw)
        check_optional_angles(ctx, m, kw, model)
        check_material_reuse(ctx, m, model)
        check_exact_critical(ctx, m, kw, model)
        check_path_door(ctx, m, model)
        # helpers: all triples, both units
        for kind, mi, mo in (("fluid_solid", "L", "L"), ("fluid_solid", "L", "T"), ("solid_fluid", "L", "L"), ("solid_fluid", "T", "L")):
            c_inc = m["cF"] if kind == "fluid_solid" else (m["cL"] if mi == "L" else m["cT"])
            mat_inc, mat_out = (fluid, solid) if kind == "fluid_solid" else (solid, fluid)
            for a in gen_angles(rng, m, c_inc, 3):
                for disp in (False, True):
                    with np.errstate(all="ignore"):
                        v = model.transmission_at_interface(arim.InterfaceKind[kind], mat_inc, mat_out, arim.Mode[mi], arim.Mode[mo], np.asarray(a),
                                                            unit="displacement" if disp else "stress")
                    lines.append(f"iface c trans {media_args(m)} {f2b(a)} {f2b(0.0)} {kind} {mi} {mo} {1 if disp else 0}")
                    meta.append(("trans", (kind, mi, mo, disp), m, a, True, [complex(v)]))
                    check_helper(ctx, "trans", kind, mi, mo, disp, m, a, complex(v), model)
                    check_helper_dtypes(ctx, "trans", model.transmission_at_interface, arim.InterfaceKind[kind], mat_inc, mat_out, arim.Mode[mi], arim.Mode[mo], kind, mi, mo, disp, m, a, complex(v), model)
        for kind, mi, mo in (("solid_fluid", "L", "L"), ("solid_fluid", "L", "T"), ("solid_fluid", "T", "L"), ("solid_fluid", "T", "T"), ("fluid_solid", "L", "L")):
            c_inc = m["cF"] if kind == "fluid_solid" else (m["cL"] if mi == "L" else m["cT"])
            mat_inc, mat_ag = (fluid, solid) if kind == "fluid_solid" else (solid, fluid)
            for a in gen_angles(rng, m, c_inc, 3):
                for disp in (False, True):
                    with np.errstate(all="ignore"):
                        v = model.reflection_at_interface(arim.InterfaceKind[kind], mat_inc, mat_ag, arim.Mode[mi], arim.Mode[mo], np.asarray(a),
                                                          unit="displacement" if disp else "stress")
                    lines.append(f"iface c refl {media_args(m)} {f2b(a)} {f2b(0.0)} {kind} {mi} {mo} {1 if disp else 0}")
                    meta.append(("refl", (kind, mi, mo, disp), m, a, True, [complex(v)]))
                    check_helper(ctx, "refl", kind, mi, mo, disp, m, a, complex(v), model)
                    check_helper_dtypes(ctx, "refl", model.reflection_at_interface, arim.InterfaceKind[kind], mat_inc, mat_ag, arim.Mode[mi], arim.Mode[mo], kind, mi, mo, disp, m, a, complex(v), model)
    answers = ctx.drive(lines) if ctx.lean.driver_ok and not ctx.oracle_only else [None] * len(lines)
    for (what, fn, m, a, cplx, vals), l, ans in zip(meta, lines, answers):
        first_crit = min([np.arcsin(min(1.0, (m["cF"] if (fn == "fs" or (what != "coef" and fn[0] == "fluid_solid")) else m["cT"]) / c)) for c in (m["cL"],)] + [10])
        ctx.case(l, a > first_crit, sample={"line": l} if len(ctx.samples) < 3 else None)
        ctx.count(f"{what}:{fn if isinstance(fn, str) else fn[0]}:{'c' if cplx else 'r'}")
        if ans is None:
            continue
        cj = {"op": what, "fn": fn, "media": m, "angle": a, "complex": cplx}
        if not ans.startswith("ok ") or ans == "ok E":
            ctx.disagree("model rejected / errored: " + ans, cj)
            continue
        toks = ans[3:].split(";")
        mv = [parse_c(t) if cplx else complex(b2f(t)) for t in toks[: len(vals)]]
        # arcsin has a square-root singularity at every critical angle: one ulp in its argument is amplified by
        # 1/sqrt(1 - x^2); within 2e-3 rad of a critical angle the comparison is made at 1e-7 instead of 1e-10
        if what == "coef":
            c_inc = {"fs": m["cF"], "slf": m["cL"], "stf": m["cT"]}[fn]
        else:
            c_inc = m["cF"] if fn[0] == "fluid_solid" else (m["cL"] if fn[1] == "L" else m["cT"])
        crits = [np.arcsin(c_inc / c) for c in (m["cF"], m["cL"], m["cT"]) if c > c_inc]
        near = any(abs(a - cr) < 2e-3 for cr in crits)
        tolc = 1e-7 if near else 1e-10
        if not all(rel_close(x, y, tolc) for x, y in zip(vals, mv)):
            ctx.disagree(f"{what} {fn}: arim {vals} vs model {mv}", cj)
    ctx.assumptions.append("complex arcsin / sin / cos are external routines; the driver uses the C99 principal branches (Kahan) and agrees with NumPy to 1e-10 relative")


def check_physics(ctx, fn, m, a, impl, kw):
    """energy conservation, Stokes, Snell, normal incidence: on the implementation, complex dtype"""
    from arim import model

    with np.errstate(all="ignore"):
        ang = np.asarray(complex(a))
        Zf, Zl, Zt = m["rhoF"] * m["cF"], m["rhoS"] * m["cL"], m["rhoS"] * m["cT"]
        cj = {"op": "physics", "fn": fn, "media": m, "angle": a}
        tags = {"kind": "physics", "fn": fn}
        if fn == "fs":
            aF = ang
            aL, aT = model.snell_angles(aF, m["cF"], m["cL"]), model.snell_angles(aF, m["cF"], m["cT"])
            R, Tl, Tt = [complex(x) for x in impl(aF, **kw)]
            inc, refl_same = np.cos(aF).real / Zf, abs(R) ** 2
            out = np.cos(aL).real / Zl * abs(Tl) ** 2 + np.cos(aT).real / Zt * abs(Tt) ** 2
            lhs, rhs = inc * (1 - refl_same), out
            mag = abs(inc) * (1 + refl_same) + abs(np.cos(aL)) / Zl * abs(Tl) ** 2 + abs(np.cos(aT)) / Zt * abs(Tt) ** 2
        elif fn == "slf":
            aL = ang
            aF, aT = model.snell_angles(aL, m["cL"], m["cF"]), model.snell_angles(aL, m["cL"], m["cT"])
            Rl, Rt, T = [complex(x) for x in impl(aL, **kw)]
            lhs = np.cos(aL).real / Zl * (1 - abs(Rl) ** 2)
            rhs = np.cos(aT).real / Zt * abs(Rt) ** 2 + np.cos(aF).real / Zf * abs(T) ** 2
            mag = abs(np.cos(aL)) / Zl * (1 + abs(Rl) ** 2) + abs(np.cos(aT)) / Zt * abs(Rt) ** 2 + abs(np.cos(aF)) / Zf * abs(T) ** 2
        else:
            aT = ang
            aF, aL = model.snell_angles(aT, m["cT"], m["cF"]), model.snell_angles(aT, m["cT"], m["cL"])
            Rl, Rt, T = [complex(x) for x in impl(aT, **kw)]
            lhs = np.cos(aT).real / Zt * (1 - abs(Rt) ** 2)
            rhs = np.cos(aL).real / Zl * abs(Rl) ** 2 + np.cos(aF).real / Zf * abs(T) ** 2
            mag = abs(np.cos(aT)) / Zt * (1 + abs(Rt) ** 2) + abs(np.cos(aL)) / Zl * abs(Rl) ** 2 + abs(np.cos(aF)) / Zf * abs(T) ** 2
        # near N = 0 or grazing critical angles the coefficients are huge: scale the tolerance
        scale = mag + 1e-300
        if np.isfinite(lhs) and np.isfinite(rhs) and abs(lhs - rhs) > 1e-8 * scale:
            ctx.violate(f"{fn}: normal energy flux not conserved at {np.rad2deg(a):.6f} deg: in {lhs!r} out {rhs!r}", cj, {**tags, "law": "energy"})
        # Snell: c_inc sin(alpha_out) = c_out sin(alpha_inc)
        for a_out, c_out, c_in, a_in in ((aL, m["cL"], None, None), (aT, m["cT"], None, None), (aF, m["cF"], None, None)):
            c_in = {"fs": m["cF"], "slf": m["cL"], "stf": m["cT"]}[fn]
            if a_out is ang:
                continue
            if abs(c_in * np.sin(a_out) - c_out * np.sin(ang)) > 1e-9 * c_out:
                ctx.violate(f"{fn}: refracted angle violates Snell's law", cj, {**tags, "law": "snell"})
        # Stokes relations linking the two directions (stress units):
        #   T_l(s->f) = Zf cos(aL) / (Zl cos(aF)) * T_l(f->s),  T_t(s->f) = -Zf cos(aT) / (Zt cos(aF)) * T_t(f->s)
        if fn == "fs":
            _, _, T_lf = [complex(x) for x in model.solid_l_fluid(aL, alpha_fluid=aF, alpha_t=aT, **kw)]
            _, _, T_tf = [complex(x) for x in model.solid_t_fluid(aT, alpha_fluid=aF, alpha_l=aL, **kw)]
            s1 = Zf * np.cos(aL) / (Zl * np.cos(aF)) * Tl
            s2 = -Zf * np.cos(aT) / (Zt * np.cos(aF)) * Tt
            if not (rel_close(T_lf, s1, 1e-8) and rel_close(T_tf, s2, 1e-8)):
                ctx.violate(f"Stokes relations between fluid->solid and solid->fluid transmissions fail at {np.rad2deg(a):.6f} deg", cj, {**tags, "law": "stokes"})
        if a == 0.0:
            if fn == "fs":
                ok = rel_close(R, (Zl - Zf) / (Zl + Zf), 1e-12) and rel_close(Tl, 2 * Zl / (Zl + Zf), 1e-12) and abs(Tt) < 1e-12
            elif fn == "slf":
                ok = rel_close(Rl, (Zf - Zl) / (Zl + Zf), 1e-12) and rel_close(T, 2 * Zf / (Zl + Zf), 1e-12) and abs(Rt) < 1e-12
            else:
                ok = abs(Rl) < 1e-12 and abs(T) < 1e-12 and rel_close(Rt, -1.0, 1e-12)
            if not ok:
                ctx.violate(f"{fn}: normal incidence does not reduce to the acoustic-impedance formulas", cj, {**tags, "law": "normal_incidence"})


def check_helper(ctx, what, kind, mi, mo, disp, m, a, v, model):
    """the helpers return the coefficient of the requested modes, times the documented ratio in displacement units"""
    kw = dict(rho_fluid=m["rhoF"], rho_solid=m["rhoS"], c_fluid=m["cF"], c_l=m["cL"], c_t=m["cT"])
    ang = np.asarray(complex(a))
    vel = {"L": m["cL"], "T": m["cT"]}
    with np.errstate(all="ignore"):
        if kind == "fluid_solid":
            R, Tl, Tt = [complex(x) for x in model.fluid_solid(ang, **kw)]
            if what == "trans":
                want = (Tl if mo == "L" else Tt) * ((m["rhoF"] * m["cF"]) / (m["rhoS"] * vel[mo]) if disp else 1.0)
            else:
                want = R
        else:
            fn = model.solid_l_fluid if mi == "L" else model.solid_t_fluid
            Rl, Rt, T = [complex(x) for x in fn(ang, **kw)]
            if what == "trans":
                want = T * ((m["rhoS"] * vel[mi]) / (m["rhoF"] * m["cF"]) if disp else 1.0)
            else:
                want = (Rl if mo == "L" else Rt) * (vel[mi] / vel[mo] if disp else 1.0)
    if not rel_close(v, want, 1e-12):
        ctx.violate(f"{what}_at_interface({kind},{mi},{mo},{'displacement' if disp else 'stress'}) = {v!r}, expected {want!r}",
                    {"op": what, "kind": kind, "modes": [mi, mo], "disp": disp, "media": m, "angle": a}, {"kind": "helper"})


def check_helper_dtypes(ctx, what, helper, ikind, mat1, mat2, mode_in, mode_out, kind, mi, mo, disp, m, a, v_default, model):
    """the same coefficient whatever the dtype / container of the angles and the force_complex flag (real angles without
    force_complex: only where the real-valued coefficient exists, i.e. below the critical angles)"""
    unit = "displacement" if disp else "stress"
    cj = {"op": what, "kind": kind, "modes": [mi, mo], "disp": disp, "media": m, "angle": a}
    variants = [("complex scalar, force_complex=False", np.asarray(complex(a)), False),
                ("complex scalar, force_complex=True", np.asarray(complex(a)), True),
                ("complex 2x2 array, force_complex=False", np.full((2, 2), complex(a)), False),
                ("real 1d array, force_complex=True", np.full((3,), a), True),
                ("python float, force_complex=True", a, True)]
    for label, ang, fc in variants:
        ctx.count("helper_variant:" + label)
        with np.errstate(all="ignore"):
            v = np.asarray(helper(ikind, mat1, mat2, mode_in, mode_out, ang, unit=unit, force_complex=fc))
        if v.shape != np.shape(ang) or not all(rel_close(complex(x), v_default, 1e-12) for x in v.ravel()):
            ctx.violate(f"{what}_at_interface({kind},{mi},{mo},{unit}) with {label}: {v.ravel()[:2]!r} (shape {v.shape}), expected {v_default!r} (shape {np.shape(ang)})",
                        {**cj, "variant": label}, {"kind": "helper_dtype"})
            return
    # single-precision complex angles (complex64 container, kept as it is without force_complex): the same coefficient to single
    # precision, on either side of the critical angles (complex refracted angles, never NaN)
    with np.errstate(all="ignore"):
        v64 = np.asarray(helper(ikind, mat1, mat2, mode_in, mode_out, np.full((2,), a, dtype=np.complex64), unit=unit, force_complex=False))
    ctx.count("helper_variant:complex64 array, force_complex=False")
    # (arcsin amplifies the 1e-7 rounding of a single-precision angle by 1/sqrt(1 - x^2): close to a critical angle only
    #  finiteness is required, elsewhere agreement to a few per cent — a first version asked for 2e-3 everywhere and raised a false alarm)
    c_inc_ = m["cF"] if kind == "fluid_solid" else (m["cL"] if mi == "L" else m["cT"])
    crits_ = [np.arcsin(c_inc_ / c_) for c_ in (m["cF"], m["cL"], m["cT"]) if c_ > c_inc_]
    near_ = any(abs(a - cr_) < 5e-2 for cr_ in crits_) or a > 1.45
    if v64.shape != (2,) or not all(np.isfinite(complex(x)) and (near_ or abs(complex(x) - v_default) <= 5e-2 * max(abs(v_default), 1e-3) + 1e-3) for x in v64):
        ctx.violate(f"{what}_at_interface({kind},{mi},{mo},{unit}) with complex64 angles: {v64!r}, expected {v_default!r} to single precision",
                    {**cj, "variant": "complex64"}, {"kind": "helper_dtype_complex64"})
        return
    # real dtype kept real: equal to the complex coefficient wherever that one is real (all refracted angles real)
    with np.errstate(all="ignore"):
        v = np.asarray(helper(ikind, mat1, mat2, mode_in, mode_out, np.asarray(a), unit=unit, force_complex=False))
    ctx.count("helper_variant:real scalar, force_complex=False")
    if np.isfinite(v).all() and not rel_close(complex(v), v_default, 1e-9):
        ctx.violate(f"{what}_at_interface({kind},{mi},{mo},{unit}) with real angle and force_complex=False: {v!r}, expected {v_default!r}", {**cj, "variant": "real"}, {"kind": "helper_dtype"})


def check_path_door(ctx, m, model):
    """The coefficients as the path-level functions hand them out (`transmission_reflection_for_path` and
    `reverse_transmission_reflection_for_path`, the doors the forward models use): for a one-wall immersion path whose single
    ray meets the wall at a PRESCRIBED incidence angle (any angle in [0, 89.9 deg], on either side of the critical angles), the
    direct product is the fluid-to-solid helper at that angle, the reverse product is the solid-to-fluid helper at the Snell
    refracted (complex beyond critical incidence) angle — same units, same `force_complex`."""
    import arim
    import arim.geometry as g
    from arim import ray

    rng = ctx.rng
    fluid, solid = materials(m)
    for mode in ("L", "T"):
        c_mode = m["cL"] if mode == "L" else m["cT"]
        for a in gen_angles(rng, m, m["cF"], 4):
            if not (1e-6 < a < np.deg2rad(89.5)):
                continue
            src = g.Points(np.array([[-np.tan(a) * 1e-2, 0.0, -1e-2]]), "Probe")
            wall = g.Points(np.array([[0.0, 0.0, 0.0]]), "Wall")
            tgt = g.Points(np.array([[rng.uniform(-5e-3, 5e-3), 0.0, 8e-3]]), "Target")
            ifaces = (arim.Interface(src, g.default_orientations(src), are_normals_on_out_rays_side=True),
                      arim.Interface(wall, g.default_orientations(wall), kind="fluid_solid", transmission_reflection="transmission",
                                     are_normals_on_inc_rays_side=False, are_normals_on_out_rays_side=True),
                      arim.Interface(tgt, g.default_orientations(tgt), are_normals_on_inc_rays_side=True))
            path = arim.Path(ifaces, (fluid, solid), ("L", mode), name=mode)
            ray.ray_tracing_for_paths([path])
            rgeo = ray.RayGeometry.from_path(path)
            th = rgeo.conventional_inc_angle(1)
            two_wall = {}
            for mode2 in ("L", "T"):
                bw = g.Points(np.array([[float(tgt.coords[0, 0]), 0.0, 8e-3]]), "Backwall")
                t2 = g.Points(np.array([[float(tgt.coords[0, 0]) + rng.uniform(1e-3, 6e-3), 0.0, 3e-3]]), "Target2")
                if2 = (ifaces[0], ifaces[1],
                       arim.Interface(bw, g.default_orientations(bw), kind="solid_fluid", transmission_reflection="reflection", reflection_against=fluid,
                                      are_normals_on_inc_rays_side=False, are_normals_on_out_rays_side=False),
                       arim.Interface(t2, g.default_orientations(t2), are_normals_on_inc_rays_side=True))
                path2 = arim.Path(if2, (fluid, solid, solid), ("L", mode, mode2), name=mode + mode2)
                ray.ray_tracing_for_paths([path2])
                two_wall[mode2] = (path2, ray.RayGeometry.from_path(path2))
            for unit in ("stress", "displacement"):
                for fc in (True, False):
                    cj = {"op": "path_door", "media": m, "incidence": float(th[0, 0]), "mode": mode, "unit": unit, "force_complex": fc}
                    ctx.case(("path_door", media_args(m), float(a), mode, unit, fc), a > np.arcsin(min(1.0, m["cF"] / m["cL"])))
                    ctx.count("path_door:" + mode)
                    with np.errstate(all="ignore"):
                        try:
                            fwd = model.transmission_reflection_for_path(path, rgeo, force_complex=fc, unit=unit)
                            rev = model.reverse_transmission_reflection_for_path(path, rgeo, force_complex=fc, unit=unit)
                        except Exception as e:
                            ctx.violate(f"the path-level transmission functions raised {type(e).__name__}: {str(e)[:80]}", cj, {"kind": "path_door"})
                            continue
                        ang = np.asarray(th, dtype=complex) if fc else np.asarray(th)
                        want_f = model.transmission_at_interface(arim.InterfaceKind.fluid_solid, fluid, solid, arim.Mode.L, arim.Mode[mode], ang, force_complex=fc, unit=unit)
                        want_r = model.transmission_at_interface(arim.InterfaceKind.solid_fluid, solid, fluid, arim.Mode[mode], arim.Mode.L,
                                                                 model.snell_angles(ang, m["cF"], c_mode), force_complex=fc, unit=unit)
                    def same(x, y):
                        x, y = complex(np.ravel(x)[0]), complex(np.ravel(y)[0])
                        if np.isnan(x) or np.isnan(y):
                            return np.isnan(x) and np.isnan(y)
                        return rel_close(x, y, 1e-12)
                    # the same path prolonged by a reflection on a back wall (mode conversion L<->T included): the path-level
                    # product is the product of the two per-interface helpers, in the requested unit at BOTH interfaces
                    for mode2, (path2, rg2) in two_wall.items():
                        th1, th2 = rg2.conventional_inc_angle(1), rg2.conventional_inc_angle(2)
                        with np.errstate(all="ignore"):
                            got2 = model.transmission_reflection_for_path(path2, rg2, force_complex=fc, unit=unit)
                            a1 = np.asarray(th1, dtype=complex) if fc else np.asarray(th1)
                            a2 = np.asarray(th2, dtype=complex) if fc else np.asarray(th2)
                            w1 = model.transmission_at_interface(arim.InterfaceKind.fluid_solid, fluid, solid, arim.Mode.L, arim.Mode[mode], a1, force_complex=fc, unit=unit)
                            w2 = model.reflection_at_interface(arim.InterfaceKind.solid_fluid, solid, fluid, arim.Mode[mode], arim.Mode[mode2], a2, force_complex=fc, unit=unit)
                        ctx.count("path_door:two_walls")
                        if not same(got2, np.ravel(w1)[0] * np.ravel(w2)[0]):
                            ctx.violate(f"two-wall path {mode}{mode2} ({unit}): the path-level product {np.ravel(got2)[0]} is not transmission x reflection of the helpers "
                                        f"({np.ravel(w1)[0]} x {np.ravel(w2)[0]})", {**cj, "second_mode": mode2, "incidence_2": float(th2[0, 0])}, {"kind": "path_door"})
                            break
                    if fc and (np.isnan(complex(np.ravel(rev)[0])) or np.isnan(complex(np.ravel(fwd)[0]))):
                        ctx.violate(f"with force_complex the path-level coefficient is NaN at incidence {np.rad2deg(float(th[0, 0])):.3f} deg "
                                    f"(direct {np.ravel(fwd)[0]}, reverse {np.ravel(rev)[0]}): beyond critical incidence the refracted angle is complex, not undefined", cj, {"kind": "path_door"})
                    elif not (same(fwd, want_f) and same(rev, want_r)):
                        ctx.violate(f"path-level coefficients (direct {np.ravel(fwd)[0]}, reverse {np.ravel(rev)[0]}) are not the per-interface helpers at the same angles "
                                    f"({np.ravel(want_f)[0]}, {np.ravel(want_r)[0]})", cj, {"kind": "path_door"})


def check_optional_angles(ctx, m, kw, model):
    """The coefficient functions accept the refracted angles as optional arguments.  For every subset of them supplied by
    the caller (as arrays the caller keeps), the coefficients are those of the all-`None` call (the supplied angles are the
    Snell angles), the caller's arrays are left untouched, and a second call with the same arrays gives the same answer."""
    import itertools

    rng = ctx.rng
    table = (("fluid_solid", model.fluid_solid, m["cF"], {"alpha_l": m["cL"], "alpha_t": m["cT"]}),
             ("solid_l_fluid", model.solid_l_fluid, m["cL"], {"alpha_fluid": m["cF"], "alpha_t": m["cT"]}),
             ("solid_t_fluid", model.solid_t_fluid, m["cT"], {"alpha_fluid": m["cF"], "alpha_l": m["cL"]}))
    for name, fn, c_inc, opt in table:
        a = np.array(sorted(gen_angles(rng, m, c_inc, 4)), dtype=complex)
        with np.errstate(all="ignore"):
            ref = [np.asarray(x, dtype=complex) for x in fn(a.copy(), **kw)]
            snell = {k: np.asarray(model.snell_angles(a.copy(), c_inc, c), dtype=complex) for k, c in opt.items()}
        scale = max(np.abs(x).max() for x in ref) + 1e-300
        for r_ in range(1, len(opt) + 1):
            for sub in itertools.combinations(sorted(opt), r_):
                given = {k: snell[k].copy() for k in sub}
                kept = {k: v.copy() for k, v in given.items()}
                a_in = a.copy()
                cj = {"op": "optional_angles", "fn": name, "given": list(sub), "media": m, "angles": [float(x.real) for x in a]}
                ctx.case(("opt", name, sub, a.tobytes()), True)
                ctx.count(f"optional:{name}:{'+'.join(sub)}")
                outs = []
                for rep in range(2):
                    with np.errstate(all="ignore"):
                        outs.append([np.asarray(x, dtype=complex) for x in fn(a_in, **kw, **given)])
                    changed = [k for k in sub if not np.array_equal(given[k], kept[k], equal_nan=True)] + ([] if np.array_equal(a_in, a) else ["incidence angles"])
                    if changed:
                        ctx.violate(f"{name}({', '.join(k + '=array' for k in sub)}): the caller's array(s) {changed} were modified by the call "
                                    f"(call {rep + 1}); the angles no longer satisfy Snell's law", cj, {"kind": "inputs_modified", "fn": name})
                        break
                else:
                    for rep, o in enumerate(outs):
                        if any(np.abs(x - y).max() > 1e-9 * scale for x, y in zip(o, ref) if np.all(np.isfinite(y))):
                            ctx.violate(f"{name} with {list(sub)} supplied (Snell angles) differs from the call that refracts by itself (call {rep + 1})", cj,
                                        {"kind": "optional_angles", "fn": name})
                            break


def check_exact_critical(ctx, m, kw, model):
    """exactly on a critical angle (the value `arcsin(c_inc / c)` a user computes), real and complex dtype: the refracted
    angle is pi/2 (its sine is the velocity ratio times the incident sine), every coefficient is finite, and the energy balance
    holds — the boundary case between the sub- and post-critical regimes belongs to the quantifier"""
    table = (("fluid_solid", model.fluid_solid, m["cF"]), ("solid_l_fluid", model.solid_l_fluid, m["cL"]), ("solid_t_fluid", model.solid_t_fluid, m["cT"]))
    for name, fn, c_inc in table:
        for c in (m["cL"], m["cT"], m["cF"]):
            if c <= c_inc:
                continue
            crit = float(np.arcsin(c_inc / c))
            for a in (crit, float(np.nextafter(crit, 0)), float(np.nextafter(crit, 4))):
                for cplx in (False, True):
                    ang = np.asarray(complex(a) if cplx else a)
                    cj = {"op": "exact_critical", "fn": name, "media": m, "angle": a, "critical_angle_of_velocity": c, "complex": cplx}
                    ctx.case(("crit", name, a, cplx), True)
                    ctx.count("exact_critical:" + ("complex" if cplx else "real"))
                    with np.errstate(all="ignore"):
                        refr = np.asarray(model.snell_angles(ang, c_inc, c))
                        coefs = [complex(x) for x in fn(ang, **kw)]
                    s_ = complex(np.sin(refr))
                    want = c / c_inc * np.sin(a)
                    if not np.isfinite(s_) and (cplx or want <= 1.0):   # real dtype: one ulp above 1 has no real arcsine
                        ctx.violate(f"snell_angles at the critical angle {a!r} ({'complex' if cplx else 'real'} dtype) is not finite although the refracted sine is {want!r} <= 1", cj, {"kind": "exact_critical"})
                        continue
                    if np.isfinite(s_) and abs(s_ - want) > 1e-7 * max(1.0, abs(want)):
                        ctx.violate(f"snell_angles at the critical angle: sin(refracted) = {s_}, Snell's law gives {want}", cj, {"kind": "exact_critical"})
                    # real dtype beyond the critical angle legitimately gives NaN (no real refracted angle); at or below it, and
                    # for complex dtype everywhere, the coefficients are finite
                    others = {"fluid_solid": (m["cL"], m["cT"]), "solid_l_fluid": (m["cF"], m["cT"]), "solid_t_fluid": (m["cF"], m["cL"])}[name]
                    must_be_finite = cplx or all(c2 / c_inc * np.sin(a) <= 1.0 for c2 in others)
                    if must_be_finite and not all(np.isfinite(x) for x in coefs):
                        ctx.violate(f"{name} at the critical angle {a!r} ({'complex' if cplx else 'real'} dtype): coefficients {coefs} are not finite", cj, {"kind": "exact_critical"})


def check_material_reuse(ctx, m, model):
    """a temperature sweep: the same Material objects are used, their velocities re-assigned between calls (they are plain
    attributes).  Every helper answers for the materials as they are *now*: same value as with freshly built materials."""
    import arim

    rng = ctx.rng
    fluid, solid = materials(m)
    combos = [("transmission", "fluid_solid", fluid, solid, "L", "T"), ("transmission", "solid_fluid", solid, fluid, "T", "L"), ("transmission", "fluid_solid", fluid, solid, "L", "L"),
              ("reflection", "solid_fluid", solid, fluid, "L", "T"), ("reflection", "solid_fluid", solid, fluid, "T", "L")]
    a = np.asarray(float(rng.uniform(0.02, 0.25)))

    def call(what, kind, m_inc, m_oth, mi, mo, unit):
        fn = model.transmission_at_interface if what == "transmission" else model.reflection_at_interface
        with np.errstate(all="ignore"):
            return complex(fn(arim.InterfaceKind[kind], m_inc, m_oth, arim.Mode[mi], arim.Mode[mo], a, unit=unit))

    for step in range(3):
        for what, kind, m_inc, m_oth, mi, mo in combos:
            for unit in ("displacement", "stress"):
                got = call(what, kind, m_inc, m_oth, mi, mo, unit)
                f2 = arim.Material(fluid.longitudinal_vel, density=fluid.density, state_of_matter="liquid")
                s2 = arim.Material(solid.longitudinal_vel, solid.transverse_vel, density=solid.density, state_of_matter="solid")
                want = call(what, kind, f2 if m_inc is fluid else s2, s2 if m_oth is solid else f2, mi, mo, unit)
                ctx.count("material_reuse")
                if not rel_close(got, want, 1e-12):
                    ctx.violate(f"{what}_at_interface({kind}, {mi}->{mo}, unit={unit}) on Material objects whose velocities were re-assigned {step} time(s) gives {got}; "
                                f"freshly built materials with the same properties give {want}",
                                {"op": "material_reuse", "what": what, "kind": kind, "modes": [mi, mo], "unit": unit, "step": step, "media": m}, {"kind": "material_reuse"})
                    return
        # next temperature: same objects, other velocities / density
        fluid.longitudinal_vel *= 1.03
        solid.longitudinal_vel *= 0.985
        solid.transverse_vel *= 0.97
        solid.density *= 1.002
    for mat_, mode_, attr in ((solid, "L", "longitudinal_vel"), (solid, "T", "transverse_vel"), (fluid, "L", "longitudinal_vel")):
        if mat_.velocity(mode_) != getattr(mat_, attr) or mat_.velocity(arim.Mode[mode_]) != getattr(mat_, attr):
            ctx.violate(f"Material.velocity({mode_!r}) is not the material's current {attr}", {"op": "material_velocity", "mode": mode_}, {"kind": "material_reuse"})


def search(ctx):
    ctx.oracle_only = True
    ctx.rng = np.random.Generator(np.random.PCG64(ctx.seed + 7919))
    old = ctx.scale
    ctx.scale = max(3, 2 * old)
    try:
        run(ctx)
    finally:
        ctx.scale = old
