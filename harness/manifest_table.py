STD_NOTE = ("Trusted: Lean kernel + axioms propext/Classical.choice/Quot.sound (audited each run); the theorem statements as a "
            "reading of the property; the hand-written Lean model, tied to /repo/src only by this check's correspondence run "
            "(differential testing through the compiled driver) and independent oracle; floating-point rounding and external "
            "numerical routines are modelled, not verified. ")


def fill(add, not_yet):
    add("C01", "Lean 4 theorems (min-plus/split_queue recursion optimal in any linear order with monotone +c) + bit-exact Float/Float32 correspondence with FermatSolver",
        "Proof: solve_optimal/scanMin_spec/solve_sandwich hold for every number of legs, set sizes and time tables; the constants they speak about are executed by the driver and agree bit for bit with arim on every generated case; a brute-force oracle decides the property on the implementation.",
        STD_NOTE + "Transfer to IEEE doubles assumes monotonicity of fl(x+c) and a linear order on non-NaN doubles.")
    add("C13", "Lean 4 theorems (chunk_array partitions every axis for every block size; tiles partition the output; any interleaving of task programs gives the same array) + exact correspondence of chunk/tile lists + bitwise schedule exploration",
        "Proof for the decomposition logic (chunk_partition, tiles_partition, schedule_independent, untouched) for all sizes, block sizes and interleavings; the tile lists the theorems speak about are compared with the views arim really hands to its executor; bitwise equality is explored under permuted, lazy and real executors, thread counts, block sizes and numba thread counts.",
        STD_NOTE + "Real concurrency inside numba prange/nogil kernels and the thread pool is explored, not proved.")
    add("C15", "Lean 4 theorems about the frame model (enumerations, capture inference, weights, expansion by reciprocity, sub-frames by NumPy index kinds) + exact history correspondence with arim.core.Frame",
        "Proof of the bookkeeping laws on the executable model for all element counts, frames and indices; the model is run on the same random operation histories as arim (state compared exactly after every operation); the set/multiset statements of the property are evaluated on arim's own arrays.",
        STD_NOTE + "Indices with repeated elements are outside the property's quantifier.")
    add("C20", "Lean 4 theorems about recursive merge and sorted fragment loading + exact correspondence with Config.merge/load_conf under every directory-listing permutation + file round-trip oracles",
        "Proof on the tree model (merge laws, order independence of the sorted load, counter-witness for unsorted loading); load_conf is run with the conf.d enumeration substituted by every permutation and compared exactly with the model; builders and BRAIN files are compared field by field with the generating values.",
        STD_NOTE + "YAML, scipy.io and the OS are external; HDF5 (v7.3) files cannot be exercised (h5py absent).")
    add("C18", "wiring table regenerated from make_views' real output on every run and re-checked by the Lean kernel (decide) against the wiring model + Lean theorems (reverse twice, reciprocal involution, view ordering/uniqueness) + exact correspondence of make_viewnames / make_paths / Path.reverse",
        "Proof by translation: the views arim returns for every set-up (immersion, 8 contact variants, 0-2 reflections, unique on/off) are translated to a Lean table and `wired_ok` is re-proved by the kernel on every run, so a wiring change breaks the proof itself; general theorems cover name ordering, reciprocity classes and path reversal; an independent Python oracle restates the wiring rules.",
        STD_NOTE + "The translator (harness/c18.py: object identity -> wall/material names) is trusted.")
    add("C14", "Lean 4 state-machine model of the cache wrapper and the 17 methods + theorems (counter-history for the pre-fix code, transparency for the current code) + history correspondence (answers, cache keys, final keys) + bitwise comparison with a fresh uncached object",
        "Proof on the state machine that carries answer classes, error kinds, cache and final keys; random histories are run on a real cached RayGeometry and on the model and compared after every operation; every numerical answer is compared bit for bit with a fresh uncached object and every array is checked read-only.",
        STD_NOTE + "Numerical values are abstracted to classes in the model; their equality is checked against the uncached object, not proved.")
    add("C02", "Lean 4 theorems about the delay-and-sum model (mean = (1/N) sum of terms, interpolation specs, amplitude-one law, dispatcher table, geometric-median certificate) + exact-rational (nearest/linear) and Float (Lanczos) correspondence with delay_and_sum + Fraction oracle",
        "Proof on the polymorphic kernel model; the same definitions are evaluated exactly on rationals by the driver and compared with arim on dyadic data (tolerance 8(N+2) ulp of the summed magnitudes, zero in most cases), including a boundary stream around the window edges; median/Huber are certified through their objectives.",
        STD_NOTE + "fastmath reassociation, Lanczos kernel values and the two iterative solvers are outside the proofs; known findings K1a-K1e (geomed/huber degenerate inputs) are listed in known_findings.json.")
    add("C12", "Lean 4 theorems about the TFM pipeline model (contact = delay-and-sum with straight-ray tables and default weights; view = transposed ray times; HMC=FMC, reciprocal views, spike focus in exact arithmetic) + exact-rational correspondence with contact_tfm / tfm_for_view + bitwise lookup-table correspondence",
        "Proof on the composed model (C01 leg time, C15 weights, C02 kernels); contact_tfm and tfm_for_view are compared with the model evaluated exactly on rationals, the straight-ray table bit for bit; the identities of the property are evaluated on arim with real ray tracing (C/Fortran order).",
        STD_NOTE)
    add("C17", "Lean 4 theorems about the geometry model (to/from GCS inverse and isometric for orthonormal bases, proper rotation matrices, isometry construction, grid axis/ordering/box laws) + Float correspondence with arim.geometry (bit-exact for grid vectors, box selection, distances)",
        "Proof over any commutative ring / ordered field for the written-out einsum conventions and grid arithmetic; the same definitions run on doubles and are compared with arim (bitwise where the code performs the same rounded operations, 32-64 ulp where einsum chooses the summation order); the laws of the property are evaluated on arim directly.",
        STD_NOTE)
    add("C16", "Lean 4 theorems about the probe-motion state machine (invariants of translate/rotate/flip/reference/reset over any history) + Float history correspondence with arim.core.Probe + invariant oracle",
        "Proof of the rigid-motion invariants on the model for every operation and hence every history; the same state machine runs on doubles next to a real Probe on random histories (locations, normals, PCS, PCS coordinates compared after each operation); the invariants are also evaluated on arim directly.",
        STD_NOTE)
    add("C05", "Lean 4 theorems about the per-ray geometry model (signed/conventional rules, leg size, reversal, negative indices, travel time) + Float correspondence with the 17 RayGeometry queries (leg sizes and travel time bit for bit) + documented-rule oracle",
        "Proof on the model of one ray; the same definitions run on doubles and are compared with RayGeometry on ray-traced 3-D paths with random orthonormal frames (bitwise for leg sizes and travel time, a few ulp for einsum-based quantities, exact sign decisions away from the azimuth boundaries, which a separate boundary stream covers); the documented rules are evaluated on arim directly.",
        STD_NOTE + "arccos / arctan2 / sqrt are external routines.")
    for p in ["C03","C04","C06","C07","C08","C09","C10","C11","C19"]:
        not_yet[p] = "check not built yet in this round (work in progress; Lean-4 proof + correspondence planned, see DESIGN.md section 6)"
