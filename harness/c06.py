"""C06 — 2-D beamspread equals the geometric ray-tube divergence.

Correspondence: Lean `Arim.Weights.beamspread` (the gamma list / virtual distance loops) on
doubles vs `arim.model.beamspread_2d_for_path` on Snell-exact single-ray paths (1-4 legs, mode
conversions, parallel and tilted planar walls), relative 1e-12.
Oracle: a finite-difference ray tube (two neighbouring rays traced by the harness's own Snell
shooter), the single-medium law d = r, the scaling law, and dependence on (legs, velocities,
angles) only.
"""
import numpy as np

import pathterms
from pathterms import rel


def run(ctx):
    from arim import model, ray
    import arim

    rng = ctx.rng
    ctx.rule = ("single-ray paths whose wall point sets contain the exact Snell crossing point: 1-4 legs, L/T mode sequences, incidence up to 70 deg, "
                "parallel and tilted (+-0.15 rad) planar walls, rays within 3% of total reflection rejected; distinct = distinct geometry; non-trivial = at least one interface crossed")
    cases = pathterms.gen_paths(rng, 60 * ctx.scale, ns=(2, 3, 3, 4, 4, 4, 5, 5, 5, 5))
    lines, meta = [], []
    for path, info in cases:
        rg = ray.RayGeometry.from_path(path)
        lines.append(pathterms.weights_line(path, rg, info))
        meta.append((path, info, rg))
    answers = ctx.drive(lines) if ctx.lean.driver_ok and not ctx.oracle_only else [None] * len(lines)
    for (path, info, rg), l, a in zip(meta, lines, answers):
        n = path.numinterfaces
        cj = {"op": "beamspread", "points": [p.tolist() for p in info["points"]], "vels": info["vels"], "modes": info["modes"], "tilts": info["tilts"], "line": l}
        ctx.case(l, n >= 3, sample={"numinterfaces": n, "modes": info["modes"], "thetas_deg": np.rad2deg(info["thetas_in"]).tolist()} if n >= 4 else None)
        ctx.count(f"legs={n - 1}")
        ctx.count("tilted" if any(info["tilts"]) else "parallel")
        b = float(model.beamspread_2d_for_path(rg)[0, 0])
        if a is not None:
            m = pathterms.parse_weights(a)
            if m is None or not rel(b, m["beam"], 1e-12):
                ctx.disagree(f"beamspread {b!r} differs from the model {None if m is None else m['beam']!r}", cj)
        # ---- oracle
        d = 1.0 / b ** 2
        if n == 2:
            if not rel(d, info["legs"][0], 1e-12):
                ctx.violate(f"single medium: virtual distance {d} is not the leg length {info['legs'][0]}", cj, {"kind": "single_medium"})
        else:
            d_fd = pathterms.tube_virtual_distance(info)
            if not rel(d, d_fd, 2e-5):
                ctx.violate(f"beamspread gives virtual distance {d}, the ray tube launched at the source gives {d_fd}", cj, {"kind": "ray_tube", "legs": n - 1})
        # the receive-side term: the beamspread with the source at the last point of the same ray is the divergence of the
        # tube launched there and followed backwards through the same walls
        rb = float(model.reverse_beamspread_2d_for_path(rg)[0, 0])
        d_rev = 1.0 / rb ** 2
        ctx.count("reverse_tube")
        if n == 2:
            if not rel(d_rev, info["legs"][0], 1e-12):
                ctx.violate(f"single medium: reverse virtual distance {d_rev} is not the leg length {info['legs'][0]}", cj, {"kind": "single_medium_reverse"})
        else:
            d_fd_rev = pathterms.tube_virtual_distance(pathterms.reverse_info(info))
            if not rel(d_rev, d_fd_rev, 2e-5):
                ctx.violate(f"reverse beamspread gives virtual distance {d_rev}, the ray tube launched at the last point gives {d_fd_rev}", cj, {"kind": "ray_tube_reverse", "legs": n - 1})
        # scaling: the whole geometry times s -> beamspread / sqrt(s)
        s = float(rng.uniform(0.2, 5.0)) if len(meta) and (id(path) // 64) % 3 else float([1e-6, 1e-4, 3e-8][(id(path) // 64) % 3])
        import arim.geometry as g
        scaled_ifaces = []
        for i in path.interfaces:
            P = g.Points(i.points.coords * s, i.points.name)
            scaled_ifaces.append(arim.Interface(P, i.orientations, i.kind, i.transmission_reflection, i.reflection_against,
                                                i.are_normals_on_inc_rays_side, i.are_normals_on_out_rays_side))
        p2 = arim.Path(tuple(scaled_ifaces), path.materials, path.modes, name=path.name)
        arim.ray.ray_tracing_for_paths([p2])
        b2 = float(model.beamspread_2d_for_path(ray.RayGeometry.from_path(p2))[0, 0])
        ctx.count("scaling:" + ("ordinary" if s > 0.1 else "micro"))
        if not rel(b2, b / np.sqrt(s), 1e-9):
            ctx.violate(f"scaling the geometry by {s} does not scale the beamspread by 1/sqrt(s)", cj, {"kind": "scaling"})
        # another system of units (micrometres and picoseconds: lengths x 1e6, velocities x 1e-6): the beamspread only sees the
        # leg lengths (x 1e6) and the ratios of the velocities (unchanged)
        mats_u = {}
        for m_ in path.materials:
            if id(m_) not in mats_u:
                mats_u[id(m_)] = arim.Material(m_.longitudinal_vel * 1e-6, None if m_.transverse_vel is None else m_.transverse_vel * 1e-6,
                                               density=m_.density, state_of_matter=m_.state_of_matter.name)
        un_if = []
        for i in path.interfaces:
            P = g.Points(i.points.coords * 1e6, i.points.name)
            un_if.append(arim.Interface(P, i.orientations, i.kind, i.transmission_reflection, None if i.reflection_against is None else mats_u.get(id(i.reflection_against), i.reflection_against),
                                        i.are_normals_on_inc_rays_side, i.are_normals_on_out_rays_side))
        p_u = arim.Path(tuple(un_if), tuple(mats_u[id(m_)] for m_ in path.materials), path.modes, name=path.name)
        arim.ray.ray_tracing_for_paths([p_u])
        if np.array_equal(p_u.rays.indices, path.rays.indices):
            b_u = float(model.beamspread_2d_for_path(ray.RayGeometry.from_path(p_u))[0, 0])
            ctx.count("unit_system:um_ps")
            if not rel(b_u, b / np.sqrt(1e6), 1e-9):
                ctx.violate(f"the same inspection in micrometres and picoseconds gives beamspread {b_u!r} instead of {b / np.sqrt(1e6)!r}", cj, {"kind": "unit_system"})
        # rigid motion: the same inspection in another plane of the global frame (points, local frames rotated and
        # shifted together) has the same leg lengths, velocities and incidence angles, hence the same beamspread
        import fixtures
        R, shift = fixtures.rot3(rng), rng.normal(size=3) * 1e-2
        moved = []
        for i in path.interfaces:
            P = g.Points(i.points.coords @ R.T + shift, i.points.name)
            O = g.Points(i.orientations.coords @ R.T, i.orientations.name)
            moved.append(arim.Interface(P, O, i.kind, i.transmission_reflection, i.reflection_against,
                                        i.are_normals_on_inc_rays_side, i.are_normals_on_out_rays_side))
        p3 = arim.Path(tuple(moved), path.materials, path.modes, name=path.name)
        arim.ray.ray_tracing_for_paths([p3])
        same_ray = np.array_equal(p3.rays.indices, path.rays.indices)
        b3 = float(model.beamspread_2d_for_path(ray.RayGeometry.from_path(p3))[0, 0])
        ctx.count("rigid_motion")
        if same_ray and not rel(b3, b, 1e-9):
            ctx.violate(f"the same inspection rotated out of the Oxz plane gives beamspread {b3!r} instead of {b!r}: "
                        "it does not depend on leg lengths, velocities and incidence angles only", {**cj, "rotation": R.tolist()}, {"kind": "rigid_motion"})
        # the same walls described by ONE basis each (the documented shorthand for a planar wall) instead of one basis per point
        single = []
        for i in path.interfaces:
            O1 = g.Points(np.array(i.orientations.coords[0]), i.orientations.name)
            single.append(arim.Interface(i.points, O1, i.kind, i.transmission_reflection, i.reflection_against,
                                         i.are_normals_on_inc_rays_side, i.are_normals_on_out_rays_side))
        p4 = arim.Path(tuple(single), path.materials, path.modes, name=path.name)
        arim.ray.ray_tracing_for_paths([p4])
        b4 = float(model.beamspread_2d_for_path(ray.RayGeometry.from_path(p4))[0, 0])
        ctx.count("single_basis_per_wall")
        if np.array_equal(p4.rays.indices, path.rays.indices) and not rel(b4, b, 1e-12):
            ctx.violate(f"the same walls given one basis each instead of one basis per point give beamspread {b4!r} instead of {b!r}", {**cj, "tilts": info["tilts"]}, {"kind": "single_basis"})
    check_wall_door(ctx)
    check_large_target_set(ctx)
    ctx.assumptions.append("sin / cos / sqrt are external routines; the neighbourhood of total-reflection angles is excluded (the tube degenerates)")


def check_wall_door(ctx):
    """The beamspread as the library's own door for wall echoes returns it (`block_in_contact.ray_weights_for_wall`, which builds
    its own cached ray geometry and asks it for the directivity angles first), on a session of contact paths with 1-4 legs
    in the block evaluated one after the other: each is 1/sqrt(d) of its own ray tube."""
    import arim.models.block_in_contact as bic
    from arim import model, ray

    rng = ctx.rng
    session = []
    for i in range(16 * ctx.scale):
        n = int([3, 4, 5, 3, 5, 4, 3, 5][i % 8])
        for _ in range(80):
            r = fixtures_mod().snell_path(rng, n, tilt=rng.random() < 0.7, max_inc_deg=60.0, contact=True)
            if r is not None:
                session.append(r)
                break
    for path, info in session:
        n = path.numinterfaces
        cj = {"op": "beamspread_wall_door", "points": [p.tolist() for p in info["points"]], "vels": info["vels"], "modes": info["modes"], "tilts": info["tilts"],
              "session": [len(i_["points"]) for _, i_ in session]}
        ctx.case(("wall_door", tuple(np.concatenate(info["points"]).tolist())), n >= 3)
        ctx.count(f"wall_door:legs={n - 1}")
        use_dir = bool(rng.random() < 0.8)
        try:
            _, wd = bic.ray_weights_for_wall(path, 5e6, probe_element_width=1e-3, use_directivity=use_dir, use_transrefl=bool(rng.integers(0, 2)), use_attenuation=False)
        except Exception as e:
            ctx.violate(f"ray_weights_for_wall raised {type(e).__name__}: {str(e)[:80]} on a {n - 1}-leg wall-echo path", cj, {"kind": "wall_door"})
            continue
        b = float(np.asarray(wd["beamspread"])[0, 0])
        d = 1.0 / b ** 2
        d_want = info["legs"][0] if n == 2 else pathterms.tube_virtual_distance(info)
        b_direct = float(model.beamspread_2d_for_path(ray.RayGeometry.from_path(path, use_cache=False))[0, 0])
        if not rel(d, d_want, 2e-5 if n > 2 else 1e-12) or not rel(b, b_direct, 1e-12):
            ctx.violate(f"the beamspread returned by ray_weights_for_wall for a {n - 1}-leg contact path gives virtual distance {d}; its ray tube gives {d_want} "
                        f"(beamspread_2d_for_path on a fresh geometry: {1 / b_direct ** 2})", cj, {"kind": "wall_door", "legs": n - 1})


def check_large_target_set(ctx):
    """One source and more than 2^15 targets (a fine image grid) traced through the default door (`ray_tracing_for_paths`): for
    every target the beamspread is 1/sqrt(d) — in a single medium d is the distance source-target, through a planar wall the
    closed form of the ray tube of a refracted pencil."""
    import arim
    import arim.geometry as g
    from arim import model, ray

    rng = ctx.rng
    block = arim.Material(6320.0, 3130.0, density=2700.0, state_of_matter="solid")
    npts = 33000 + int(rng.integers(0, 500))
    src = g.Points(np.array([[0.0, 0.0, 0.0]]), "Source")
    tgt_xyz = np.c_[rng.uniform(-0.03, 0.03, npts), np.zeros(npts), rng.uniform(0.01, 0.05, npts)]
    tgt = g.Points(tgt_xyz, "Targets")
    path = arim.Path((arim.Interface(src, g.default_orientations(src), are_normals_on_out_rays_side=True),
                      arim.Interface(tgt, g.default_orientations(tgt), are_normals_on_inc_rays_side=True)), (block,), ("L",), name="L")
    ray.ray_tracing_for_paths([path])
    b = np.asarray(model.beamspread_2d_for_path(ray.RayGeometry.from_path(path)))[0]
    want = 1.0 / np.sqrt(np.sqrt((tgt_xyz ** 2).sum(axis=1)))
    ctx.case(("large_target_set", npts), True)
    ctx.count("large_target_set")
    bad = np.flatnonzero(~(np.abs(b - want) <= 1e-12 * want))
    if len(bad):
        ctx.violate(f"single medium, 1 source x {npts} targets traced with the default options: for {len(bad)} targets (first #{int(bad[0])}) the beamspread is not "
                    f"1/sqrt(distance) (got {b[bad[0]]!r}, expected {want[bad[0]]!r})", {"op": "large_target_set", "numtargets": npts, "first_bad_target": int(bad[0]),
                                                                                      "target": tgt_xyz[bad[0]].tolist()}, {"kind": "large_target_set"})


def fixtures_mod():
    import fixtures
    return fixtures


def search(ctx):
    ctx.oracle_only = True
    ctx.rng = np.random.Generator(np.random.PCG64(ctx.seed + 7919))
    old = ctx.scale
    ctx.scale = max(3, 2 * old)
    try:
        run(ctx)
    finally:
        ctx.scale = old
