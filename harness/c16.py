"""C16 — probe motions are rigid and keep the probe coordinate system attached.

Correspondence: Lean `Arim.Probe` state machine (translate, rotate about a centre, flip,
set_reference_element, translate_to_point_O, reset_position, make_matrix_probe) evaluated on
Float vs `arim.core.Probe` on random histories; locations, normals, PCS, PCS coordinates compared
after every operation (absolute 1e-10 x scale: einsum summation order is unspecified).
Oracle: the invariants of the property evaluated on the implementation.
"""
import numpy as np

import fixtures
from common import b2f, f2b, fl


def gen_ops(rng, numel, length):
    ops = []
    small_at = None
    for _ in range(length):
        x = rng.random()
        if x < 0.3:
            ops.append(("t", rng.normal(size=3) * 10.0 ** rng.integers(-3, 0)))
        elif x < 0.6:
            ypr = rng.uniform(-np.pi, np.pi, size=3)
            if rng.random() < 0.3:
                # a slight misalignment (1e-5 .. 5e-3 rad per axis, some axes not at all): still a rotation
                ypr = rng.choice([-1.0, 1.0], size=3) * 10.0 ** rng.uniform(-5, np.log10(5e-3), size=3) * (rng.random(3) < 0.7)
                small_at = len(ops)
            centre = None if rng.random() < 0.4 else rng.normal(size=3) * 1e-2
            ops.append(("r", ypr, centre))
        elif x < 0.68:
            ops.append(("flip",))
        elif x < 0.85:
            r = rng.choice(["first", "last", "mean", "idx"])
            ops.append(("ref", str(r) if r != "idx" else int(rng.integers(-numel, numel))))
        elif x < 0.93:
            ops.append(("toO",))
        else:
            ops.append(("reset",))
    if small_at is not None and not any(o[0] == "reset" for o in ops[small_at:]) and rng.random() < 0.7:
        ops.append(("reset",))
    return ops


def enc_op(op, R=None):
    if op[0] == "t":
        return "t=" + fl(op[1])
    if op[0] == "r":
        return "r=" + fl(R.ravel()) + "=" + (fl(op[2]) if op[2] is not None else "-")
    if op[0] == "ref":
        return "ref=" + str(op[1])
    return op[0]


def state_of(probe):
    cs = probe.pcs
    return (probe.locations.coords.copy(), probe.orientations.coords.copy(), np.stack([cs.origin, cs.i_hat, cs.j_hat, cs.k_hat]),
            probe.locations_pcs.coords.copy(), probe.orientations_pcs.coords.copy())


def parse_state(s):
    parts = s.split("|")
    out = []
    for p in parts:
        out.append(np.array([[b2f(x) for x in v.split(",")] for v in p.split(";")]) if p else np.zeros((0, 3)))
    return out


def pairdist(x):
    return np.linalg.norm(x[:, None, :] - x[None, :, :], axis=-1)


def apply_op(probe, op):
    import arim.geometry as g

    if op[0] == "t":
        probe.translate(op[1])
    elif op[0] == "r":
        probe.rotate(g.rotation_matrix_ypr(*op[1]), op[2])
    elif op[0] == "flip":
        probe.flip_probe_around_axis_Oz()
    elif op[0] == "ref":
        probe.set_reference_element(op[1])
    elif op[0] == "toO":
        probe.translate_to_point_O()
    else:
        probe.reset_position()


def check_coordinate_containers(ctx):
    """a probe described by a table of whole numbers (millimetres, counts of pitches) held as integers, or by single-precision
    coordinates, is the same probe as the one whose table holds the same numbers as float64: after every motion both are in
    the same place, with the same probe coordinate system and the same probe-frame coordinates"""
    import arim

    rng = ctx.rng
    for it in range(12 * ctx.scale):
        n = int(rng.integers(2, 7))
        table = np.zeros((n, 3))
        table[:, 0] = np.arange(n) * int(rng.integers(1, 4)) * (1 if it % 2 else -1)
        if it % 3 == 0:
            table[:, 1] = rng.integers(-2, 3, size=n)
        kinds = [np.int64, np.int32, np.float32]
        dt = kinds[it % 3]
        ops = gen_ops(rng, n, int(rng.integers(3, 12)))
        # at least one rotation about a centre that is not a lattice point
        ops.insert(int(rng.integers(0, len(ops) + 1)), ("r", rng.uniform(-np.pi, np.pi, size=3), table.mean(axis=0) + np.array([0.5, 0.25, -0.75])))
        try:
            normals = np.tile([0.0, 0.0, 1.0], (n, 1))
            pa = arim.Probe(table.astype(dt), 5e6, orientations=normals.copy())
            pb = arim.Probe(table.astype(np.float64), 5e6, orientations=normals.copy())
        except Exception as e:
            ctx.violate(f"Probe refuses a location table held as {np.dtype(dt).name}: {type(e).__name__}", {"op": "probe_table", "dtype": np.dtype(dt).name}, {"kind": "container"})
            continue
        cj = {"op": "probe_table_container", "dtype": np.dtype(dt).name, "table": table.tolist(), "ops": []}
        ctx.case(("container", it, np.dtype(dt).name), True)
        ctx.count("probe_table:" + np.dtype(dt).name)
        for op in ops:
            cj["ops"].append(enc_op(op, None) if op[0] != "r" else "r=ypr" + str([float(v) for v in op[1]]) + "=" + str(None if op[2] is None else [float(v) for v in op[2]]))
            try:
                apply_op(pa, op)
                apply_op(pb, op)
            except Exception as e:
                ctx.violate(f"{op[0]} raised {type(e).__name__} on a probe whose table is held as {np.dtype(dt).name}", cj, {"kind": "container"})
                break
            sa, sb = state_of(pa), state_of(pb)
            scale = max(1.0, float(np.abs(sb[0]).max()))
            tol = (1e-5 if dt is np.float32 else 1e-11) * scale
            bad = [nm for nm, x, y in zip(("locations", "orientations", "pcs", "locations_pcs", "orientations_pcs"), sa, sb) if not np.all(np.abs(x - y) <= tol)]
            if bad:
                ctx.violate(f"after {op[0]}: the probe whose table is held as {np.dtype(dt).name} differs from the float64 probe in {bad} "
                            f"(max {max(float(np.abs(x - y).max()) for x, y in zip(sa, sb)):.3g})", cj, {"kind": "container"})
                break


def run_history(ctx, rng, length):
    import arim
    import arim.geometry as g

    numx = int(rng.integers(1, 7))
    numy = 1 if rng.random() < 0.6 else int(rng.integers(1, 4))
    px = float(rng.choice([-1, 1]) * rng.uniform(0.2e-3, 2e-3))
    py = float(rng.choice([-1, 1]) * rng.uniform(0.2e-3, 2e-3))
    normal = np.array([0.0, 0.0, 1.0])
    probe = arim.Probe.make_matrix_probe(numx, px, numy, py, 5e6, orientations=normal)
    numel = probe.numelements
    ops = gen_ops(rng, numel, length)
    cj = {"numx": numx, "numy": numy, "pitch_x": px, "pitch_y": py, "ops": []}
    s0 = state_of(probe)
    d0, lp0, np0 = pairdist(s0[0]), s0[3], s0[4]
    states = [s0]
    toks = []
    scale = max(1e-3, np.abs(s0[0]).max())
    ref_shift = np.zeros(3)
    for op in ops:
        R = None
        before_lp = probe.locations_pcs.coords.copy()
        if op[0] == "t":
            probe.translate(op[1])
        elif op[0] == "r":
            R = g.rotation_matrix_ypr(*op[1])
            probe.rotate(R, op[2])
        elif op[0] == "flip":
            probe.flip_probe_around_axis_Oz()
        elif op[0] == "ref":
            probe.set_reference_element(op[1])
        elif op[0] == "toO":
            probe.translate_to_point_O()
        else:
            probe.reset_position()
        toks.append(enc_op(op, R))
        cj["ops"].append(toks[-1])
        st = state_of(probe)
        states.append(st)
        scale = max(scale, np.abs(st[0]).max())
        tol = 1e-10 * scale
        # ---- oracle: invariants
        if not np.all(np.abs(pairdist(st[0]) - d0) <= tol):
            ctx.violate(f"after {op[0]}: distances between elements changed", cj, {"kind": "rigid"})
        if not np.all(np.abs(np.linalg.norm(st[1], axis=1) - 1) <= 1e-12):
            ctx.violate(f"after {op[0]}: normals are no longer unit vectors", cj, {"kind": "normals"})
        B = st[2][1:]
        if not (np.all(np.abs(B @ B.T - np.eye(3)) <= 1e-12) and abs(np.linalg.det(B) - 1) <= 1e-12):
            ctx.violate(f"after {op[0]}: the probe coordinate system is no longer orthonormal and direct", cj, {"kind": "pcs"})
        if op[0] == "ref":
            # coordinates shift by a common vector; the chosen element (or the mean) is at the origin
            shift = st[3] - before_lp
            if not np.all(np.abs(shift - shift[0]) <= tol):
                ctx.violate("set_reference_element does not shift the PCS coordinates by a common vector", cj, {"kind": "reference"})
            k = op[1]
            target = st[3].mean(axis=0) if k == "mean" else st[3][0 if k == "first" else (-1 if k == "last" else k)]
            if not np.all(np.abs(target) <= tol):
                ctx.violate("set_reference_element: the chosen element is not at the PCS origin", cj, {"kind": "reference"})
            lp0 = st[3]
        else:
            if not np.all(np.abs(st[3] - lp0) <= tol):
                ctx.violate(f"after {op[0]}: element locations in the PCS changed", cj, {"kind": "locations_pcs"})
        if not np.all(np.abs(st[4] - np0) <= 1e-12):
            ctx.violate(f"after {op[0]}: element normals in the PCS changed", cj, {"kind": "orientations_pcs"})
        opts = probe.to_oriented_points()
        ori = opts.orientations.coords
        if not (np.array_equal(opts.points.coords, st[0]) and all(np.array_equal(ori[e], st[2][1:]) for e in range(numel))):
            ctx.violate("to_oriented_points does not carry the probe's own axes at every element", cj, {"kind": "oriented_points"})
        if op[0] == "reset":
            if not (np.all(np.abs(st[2] - np.vstack([np.zeros(3), np.eye(3)])) <= 1e-12 + tol) and np.all(np.abs(st[0] - st[3]) <= tol)):
                ctx.violate("reset_position does not bring the PCS back onto the GCS", cj, {"kind": "reset"})
    line = f"probe {numx} {f2b(px)} {numy} {f2b(py)} {fl(normal)} " + " ".join(toks)
    return line, states, cj, scale, ops


def run(ctx):
    rng = ctx.rng
    ctx.rule = ("linear and matrix probes (1-6 x 1-3 elements, positive or negative pitch), histories of up to 30 operations among translate, rotate(ypr, centre or none), "
                "flip, set_reference_element(first/last/mean/index incl. negative), translate_to_point_O, reset_position; distinct = distinct request; non-trivial = >= 2 elements and >= 3 operations")
    check_coordinate_containers(ctx)
    n = 120 * ctx.scale
    runs = [run_history(ctx, rng, int(rng.integers(1, 31))) for _ in range(n)]
    answers = ctx.drive([r[0] for r in runs]) if ctx.lean.driver_ok and not ctx.oracle_only else [None] * n
    for (line, states, cj, scale, ops), a in zip(runs, answers):
        ctx.case(line, len(states[0][0]) >= 2 and len(ops) >= 3, sample={"probe": [cj["numx"], cj["numy"]], "ops": [o[0] for o in ops]} if 3 <= len(ops) <= 6 else None)
        for o in ops:
            ctx.count("op:" + o[0])
        if a is None:
            continue
        if not a.startswith("ok "):
            ctx.disagree("model rejected the history", cj)
            continue
        ms = a[3:].split(" ")
        if len(ms) != len(states):
            ctx.disagree("model stopped early", cj)
            continue
        for k, (st, m) in enumerate(zip(states, ms)):
            pm = parse_state(m)
            ok = all(x.shape == y.shape and np.all(np.abs(x - y) <= 1e-10 * scale) for x, y in zip(st, pm))
            if not ok:
                ctx.disagree(f"state after operation {k} differs from the model", {**cj, "op_index": k})
                break
    ctx.assumptions.append("einsum/matmul summation order unspecified: states compared within 1e-10 x largest coordinate")


def search(ctx):
    ctx.oracle_only = True
    ctx.rng = np.random.Generator(np.random.PCG64(ctx.seed + 7919))
    old = ctx.scale
    ctx.scale = max(3, 2 * old)
    try:
        run(ctx)
    finally:
        ctx.scale = old
