"""Structural translator for the assembly of the ray weights (C03, C08): `tx_ray_weights` and `rx_ray_weights` of
`arim/models/block_in_immersion.py` are read on every run as *switchable products*: which factor is guarded by which
`use_*` switch, which model function provides it (forward or reverse, in which unit), in which order the factors are
multiplied, and whether the scattering normalisation `sqrt(lambda of the last mode)` is applied.  The generated Lean
definitions are proved equal to `Arim.Assembly.txWeight` / `rxWeight` in `ArimProofs/Tie/C03.lean`.

Read, statement by statement (anything else is refused):

    d = _init_ray_weights(path, frequency, probe_element_width, use_directivity)
    weights_dict = dict()
    one = np.ones(<shape>, order="F")
    if use_<switch>:  weights_dict["<key>"] = <model call>   else:  weights_dict["<key>"] = one            (x 4)
    scat_normalisation = np.sqrt(d.wavelengths_in_block[path.modes[-1]])                                    (optional)
    weights = weights_dict[..] * weights_dict[..] * weights_dict[..] * weights_dict[..]
    weights *= scat_normalisation                                                                           (optional)
    return (weights, weights_dict)
"""
from __future__ import annotations

import ast
from pathlib import Path


class TranslateError(Exception):
    pass


FILE = "arim/models/block_in_immersion.py"
ARGS = ["path", "ray_geometry", "frequency", "probe_element_width", "use_directivity", "use_beamspread", "use_transrefl", "use_attenuation"]
# model call as written -> field of `Factors`
CALLS = {
    "model.directivity_2d_rectangular_in_fluid_for_path(ray_geometry, probe_element_width, d.wavelength_in_couplant)": "directivity",
    "model.transmission_reflection_for_path(path, ray_geometry, unit='displacement')": "transrefl_fwd_displacement",
    "model.reverse_transmission_reflection_for_path(path, ray_geometry, unit='displacement')": "transrefl_rev_displacement",
    "model.transmission_reflection_for_path(path, ray_geometry, unit='stress')": "transrefl_fwd_stress",
    "model.reverse_transmission_reflection_for_path(path, ray_geometry, unit='stress')": "transrefl_rev_stress",
    "model.transmission_reflection_for_path(path, ray_geometry)": "transrefl_fwd_stress",
    "model.reverse_transmission_reflection_for_path(path, ray_geometry)": "transrefl_rev_stress",
    "model.beamspread_2d_for_path(ray_geometry)": "beamspread_fwd",
    "model.reverse_beamspread_2d_for_path(ray_geometry)": "beamspread_rev",
    "model.material_attenuation_for_path(path, ray_geometry, frequency)": "attenuation",
}
FIELDS = ["directivity", "transrefl_fwd_displacement", "transrefl_rev_displacement", "transrefl_fwd_stress", "transrefl_rev_stress",
          "beamspread_fwd", "beamspread_rev", "attenuation", "sqrt_lambda_last_mode"]
SWITCHES = ["use_directivity", "use_beamspread", "use_transrefl", "use_attenuation"]


class Named:
    def __init__(self, name):
        self.name = name


SPEC_NAMES = [Named("block_in_immersion.tx_ray_weights"), Named("block_in_immersion.rx_ray_weights")]


def _strip_doc(body):
    if body and isinstance(body[0], ast.Expr) and isinstance(body[0].value, ast.Constant) and isinstance(body[0].value.value, str):
        return body[1:]
    return body


def _one_function(fn):
    where = "block_in_immersion." + fn.name
    a = fn.args
    if [x.arg for x in a.args] != ARGS or a.vararg or a.kwarg or a.kwonlyargs:
        raise TranslateError(f"{where}: parameters are {[x.arg for x in a.args]}, expected {ARGS}")
    if fn.decorator_list:
        raise TranslateError(f"{where}: decorated")
    body = _strip_doc(fn.body)
    src = [ast.unparse(x) for x in body]
    k = 0

    def expect(text):
        nonlocal k
        if k >= len(src) or src[k] != text:
            raise TranslateError(f"{where}: statement {k + 1} is `{src[k][:90] if k < len(src) else ''}`, expected `{text}`")
        k += 1

    expect("d = _init_ray_weights(path, frequency, probe_element_width, use_directivity)")
    expect("weights_dict = dict()")
    if k >= len(body) or not (isinstance(body[k], ast.Assign) and ast.unparse(body[k].targets[0]) == "one" and ast.unparse(body[k].value).startswith("np.ones(")):
        raise TranslateError(f"{where}: statement {k + 1} is not `one = np.ones(...)`")
    k += 1
    factors = {}      # key -> (switch, field)
    while k < len(body) and isinstance(body[k], ast.If):
        st = body[k]
        sw = ast.unparse(st.test)
        if sw not in SWITCHES:
            raise TranslateError(f"{where}: a factor is guarded by `{sw}`, not by one of {SWITCHES}")
        ok = len(st.body) == 1 and len(st.orelse) == 1 and isinstance(st.body[0], ast.Assign) and isinstance(st.orelse[0], ast.Assign)
        if ok:
            t1, t2 = ast.unparse(st.body[0].targets[0]), ast.unparse(st.orelse[0].targets[0])
            ok = t1 == t2 and t1.startswith("weights_dict['") and ast.unparse(st.orelse[0].value) == "one"
        if not ok:
            raise TranslateError(f"{where}: the block guarded by `{sw}` is not `weights_dict[key] = <factor>` / `else: weights_dict[key] = one`")
        key = t1[len("weights_dict['"):-2]
        call = ast.unparse(st.body[0].value)
        if call not in CALLS:
            raise TranslateError(f"{where}: the factor `{key}` is `{call[:100]}`, not one of the model calls the translator knows")
        if key in factors:
            raise TranslateError(f"{where}: the factor `{key}` is assigned twice")
        factors[key] = (sw, CALLS[call])
        k += 1
    norm = False
    if k < len(src) and src[k] == "scat_normalisation = np.sqrt(d.wavelengths_in_block[path.modes[-1]])":
        norm = True
        k += 1
    if k >= len(body) or not (isinstance(body[k], ast.Assign) and ast.unparse(body[k].targets[0]) == "weights"):
        raise TranslateError(f"{where}: statement {k + 1} is not `weights = <product>`")
    order = []

    def flat(e):
        if isinstance(e, ast.BinOp) and isinstance(e.op, ast.Mult):
            flat(e.left)
            # left-associated product only: (a * b) * c, never a * (b * c) (same value, other rounding)
            if isinstance(e.right, ast.BinOp):
                raise TranslateError(f"{where}: the product of the factors is not left-associated")
            flat(e.right)
        else:
            s = ast.unparse(e)
            if not (s.startswith("weights_dict['") and s[len("weights_dict['"):-2] in factors):
                raise TranslateError(f"{where}: `{s}` in the product is not a factor assigned above")
            order.append(s[len("weights_dict['"):-2])

    flat(body[k].value)
    k += 1
    if sorted(order) != sorted(factors):
        raise TranslateError(f"{where}: the product uses {order}, the factors assigned are {sorted(factors)}")
    applied = False
    if k < len(src) and src[k] == "weights *= scat_normalisation":
        applied = True
        k += 1
    if norm != applied:
        raise TranslateError(f"{where}: the scattering normalisation is computed but not applied, or applied but not computed")
    if k >= len(src) or src[k] not in ("return (weights, weights_dict)", "return weights, weights_dict") or k + 1 != len(src):
        raise TranslateError(f"{where}: the function does not end with `return weights, weights_dict`")
    lines = [f"/-- generated from `{FILE}`, function `{fn.name}` (line {fn.lineno}): "
             + "; ".join(f"`{key}` = {fld} if {sw}" for key, (sw, fld) in factors.items())
             + f"; product in the order {order}" + ("; times sqrt(lambda of the last mode)" if norm else "") + " -/",
             f"def {fn.name} {{C : Type}} [Mul C] (use_directivity use_beamspread use_transrefl use_attenuation : Bool) (one : C) (f : Factors C) : C :="]
    for key, (sw, fld) in factors.items():
        lines.append(f"  let wd_{key} := if {sw} then f.{fld} else one")
    prod = " * ".join(f"wd_{key}" for key in order)
    if norm:
        lines.append(f"  let weights := {prod}")
        lines.append("  weights * f.sqrt_lambda_last_mode")
    else:
        lines.append(f"  {prod}")
    return "\n".join(lines) + "\n"


def translate(src_root: Path, header: str):
    tree = ast.parse((Path(src_root) / FILE).read_text())
    fns = {n.name: n for n in tree.body if isinstance(n, ast.FunctionDef)}
    parts = [header, "namespace Arim.SrcC03\nset_option linter.unusedVariables false\n",
             "/-- the values the model functions return for one ray (forward / reverse, stress / displacement units) -/\n"
             "structure Factors (C : Type) where\n" + "\n".join(f"  {f} : C" for f in FIELDS) + "\n"]
    for name in ("tx_ray_weights", "rx_ray_weights"):
        if name not in fns:
            raise TranslateError(f"{FILE}: `{name}` not found")
        parts.append(_one_function(fns[name]))
    parts.append("end Arim.SrcC03\n")
    return "\n".join(parts), [f"{FILE}: tx_ray_weights, rx_ray_weights read as switchable products"]
