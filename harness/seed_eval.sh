#!/bin/bash
# usage: harness/seed_eval.sh <seed worktree> <property id> <name> [extra check ids...]
# Confirms a seeded change (demo fails with it / passes without it, suite unchanged), stores it under
# /verif/seeded/<name>/, applies it to /repo, runs the property's check(s), undoes it.
set -u
WT=$1; PID=$2; NAME=$3; shift 3; EXTRA="$@"
OUT=/verif/seeded/$NAME
mkdir -p $OUT
git -C $WT diff -- src > $OUT/patch.diff
cp $WT/demo.py $OUT/demo.py 2>/dev/null
cp $WT/NOTES.md $OUT/NOTES.md 2>/dev/null
[ -s $OUT/patch.diff ] || { echo "empty patch"; exit 2; }
cd $WT
PYTHONPATH=$WT/src /venv/bin/python demo.py > $OUT/demo_with.txt 2>&1; DW=$?
git apply -R $OUT/patch.diff   # (git stash is shared between worktrees: never use it here)
PYTHONPATH=$WT/src /venv/bin/python demo.py > $OUT/demo_without.txt 2>&1; DWO=$?
git apply $OUT/patch.diff
PASSED=$(PYTHONPATH=$WT/src /venv/bin/python -m pytest -q -p no:cacheprovider --timeout=900 --continue-on-collection-errors 2>&1 | tail -1)
echo "demo with patch: exit $DW; without: exit $DWO; suite with patch: $PASSED"
cd /verif
git -C /repo apply $OUT/patch.diff || { echo "patch does not apply to /repo"; exit 2; }
RES=""
for c in $PID $EXTRA; do
  ./check $c > $OUT/check_$c.txt 2>&1; rc=$?
  line=$(grep -m1 "^VIOLATION" $OUT/check_$c.txt)
  RES="$RES $c:rc=$rc"
  echo "check $c rc=$rc $line"
  if [ -n "$line" ]; then
    rp=$(echo "$line" | sed 's/.*replay=\([^ ]*\).*/\1/')
    [ -f "$rp" ] && cp "$rp" $OUT/replay_$c.json
  fi
done
git -C /repo checkout -- .
git -C /repo status --short | head -3
python3 - "$OUT" "$PID" "$NAME" "$DW" "$DWO" "$PASSED" "$RES" <<'PY'
import json,sys
out,pid,name,dw,dwo,passed,res=sys.argv[1:8]
notes=open(out+'/NOTES.md').read() if __import__('os').path.exists(out+'/NOTES.md') else ''
meta={"property":pid,"name":name,"demo_exit_with_patch":int(dw),"demo_exit_without_patch":int(dwo),"suite_with_patch":passed,
      "checks_run":res.split(),"needs_to_manifest":"see NOTES.md","notes_excerpt":notes[:1500]}
json.dump(meta,open(out+'/meta.json','w'),indent=1)
PY
