#!/bin/bash
# usage: harness/seed_try.sh <seeded name> <check id> [more ids]   — apply a stored seeded change to /repo, run checks, undo
NAME=$1; shift
cd /verif
git -C /repo apply /verif/seeded/$NAME/patch.diff || exit 2
for c in "$@"; do
  ./check $c > seeded/$NAME/check_$c.txt 2>&1; rc=$?
  line=$(grep -m1 "^VIOLATION" seeded/$NAME/check_$c.txt)
  echo "$NAME check $c rc=$rc $line"
  if [ -n "$line" ]; then
    rp=$(echo "$line" | sed 's/.*replay=\([^ ]*\).*/\1/')
    [ -f "$rp" ] && cp "$rp" seeded/$NAME/replay_$c.json
  fi
done
git -C /repo checkout -- .
git -C /repo status --short | head -3
