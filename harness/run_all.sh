#!/bin/bash
# usage: harness/run_all.sh [tier] — every registered check on the current /repo tree, 5 at a time; prints the summary lines
TIER=${1:-quick}
cd /verif
mkdir -p .cache/runall
for c in C01 C02 C03 C04 C05 C06 C07 C08 C09 C10 C11 C12 C13 C14 C15 C16 C17 C18 C19 C20; do
  (./check $c --tier $TIER > .cache/runall/$c.txt 2>&1; echo "$c rc=$? $(tail -1 .cache/runall/$c.txt | cut -c1-170)") &
  while [ $(jobs -r | wc -l) -ge 5 ]; do sleep 1; done
done
wait
