"""Translation validation: what the translator (py2lean) made of a Python function, executed on doubles by the compiled
`srcdriver`, against what the Python function itself computes on the same inputs.

The tie theorems prove `generated definition = model`; the correspondence runs compare `model` with the code.  This module
closes the remaining link for the functions whose model is not (or not separately) driven: it checks the translator's
*reading of the source*.  A disagreement is reported as a correspondence disagreement ("translation ≠ code").
numba kernels compiled with fastmath may reassociate: comparisons allow a few ulp of the magnitudes involved.
"""
import numpy as np

from common import b2f, f2b, fl, fmat


def _floats(ans):
    return [b2f(x) for x in ans[3:].split(",")] if ans.startswith("ok ") and len(ans) > 3 else None


def _close(a, b, scale, ulps=64):
    a, b = np.asarray(a, dtype=float), np.asarray(b, dtype=float)
    return a.shape == b.shape and np.all(np.abs(a - b) <= ulps * np.finfo(float).eps * (scale + 1e-300))


def validate_c02(ctx):
    from arim.im import geomed, huber

    rng = ctx.rng
    lines, meta = [], []
    for _ in range(20 * ctx.scale):
        n = int(rng.integers(1, 9))
        data = np.ascontiguousarray(rng.normal(size=(n, 2)) * 10.0 ** rng.integers(-2, 3))
        tau = float(rng.uniform(0.1, 3.0) * np.abs(data).max())
        x0, y0 = (float(v) for v in rng.normal(size=2) * np.abs(data).max())
        hx, hy = huber._huber_iter(data, tau, x0, y0)
        lines.append(f"huber {fmat(data)} {f2b(tau)} {f2b(x0)} {f2b(y0)}")
        meta.append(("_huber_iter", [hx, hy], np.abs(data).max(), {"data": data.tolist(), "tau": tau, "x0": x0, "y0": y0}))
        z = np.array([x0, y0])
        f = geomed._f(data, z)
        g = geomed._gradf_and_inv_hessf(data, z)
        lines.append(f"geomed {fmat(data)} {f2b(x0)} {f2b(y0)}")
        # the inverse Hessian is a quotient of sums: scale of its entries
        meta.append(("_f/_gradf_and_inv_hessf", [f] + [float(v) for v in g], None, {"data": data.tolist(), "z": [x0, y0]}))
    ans = ctx.drive_src(lines)
    if ans is None:
        return
    for (name, want, scale, cj), a in zip(meta, ans):
        got = _floats(a)
        ctx.count("translation_validated:" + name)
        if got is None or len(got) != len(want):
            ctx.disagree(f"translation validation: the generated {name} cannot be evaluated ({a})", cj)
            continue
        if scale is None:
            # objective and gradient always; the inverse Hessian only where it is well conditioned (with one or two samples, or
            # collinear ones, the Hessian is singular and its "inverse" is rounding noise on both sides)
            n_ = len(cj["data"])
            upto = 6 if n_ >= 3 else 3
            ok = all(abs(x - y) <= 1e-7 * max(abs(x), abs(y), 1e-300) or abs(x - y) <= 1e-10 * max(map(abs, want[:upto])) for x, y in zip(got[:upto], want[:upto]))
        else:
            ok = _close(got, want, scale, ulps=256)
        if not ok:
            ctx.disagree(f"translation validation: the generated definition of {name} gives {got}, the Python function {want}", {"op": "srcval", "function": name, **cj})


def validate_c13(ctx):
    from arim import helpers

    rng = ctx.rng
    lines, meta = [], []
    for _ in range(60 * ctx.scale):
        ndim = int(rng.integers(1, 5))
        shape = tuple(int(v) for v in rng.integers(0, 12, size=ndim))
        axis = int(rng.integers(0, ndim))
        block = int(rng.integers(1, 15))
        sels = list(helpers.chunk_array(shape, block, axis if rng.random() < 0.5 else axis - ndim))
        want = []
        for sel in sels:
            # position of the slice(a, b) inside the index tuple, resolved against ndim
            pos = [k for k, s_ in enumerate(sel) if isinstance(s_, slice) and s_ != slice(None)]
            full = np.empty(shape, dtype=np.uint8)[tuple(sel)] if all(shape) else None
            sl = sel[pos[0]] if pos else None
            ell = [k for k, s_ in enumerate(sel) if s_ is Ellipsis]
            p_ = pos[0] if (not ell or ell[0] > pos[0]) else ndim - (len(sel) - pos[0])
            want.append((p_, sl.start, sl.stop))
        lines.append(f"chunks {','.join(map(str, shape))} {block} {axis}")
        meta.append((want, {"shape": list(shape), "block_size": block, "axis": axis}))
    ans = ctx.drive_src(lines)
    if ans is None:
        return
    for (want, cj), a in zip(meta, ans):
        ctx.count("translation_validated:chunk_array")
        got = [tuple(int(v) for v in t.split(":")) for t in a[3:].split(",")] if a.startswith("ok ") and len(a) > 3 else []
        if got != want:
            ctx.disagree(f"translation validation: the generated chunk_array yields {got}, the Python generator {want}", {"op": "srcval", "function": "chunk_array", **cj})


def validate_c17(ctx):
    import arim.geometry as g

    rng = ctx.rng
    lines, meta = [], []
    for _ in range(30 * ctx.scale):
        y, p, r = (float(v) for v in rng.uniform(-7, 7, size=3))
        for nm, fn, args in (("x", g.rotation_matrix_x, (y,)), ("y", g.rotation_matrix_y, (y,)), ("z", g.rotation_matrix_z, (y,)), ("ypr", g.rotation_matrix_ypr, (y, p, r))):
            lines.append("rot " + nm + " " + " ".join(str(f2b(v)) for v in args))
            meta.append((nm, np.asarray(fn(*args)).ravel(), {"angles": list(args)}))
    # the three einsum conventions on one point: a non-symmetric basis makes every transposition visible
    import fixtures
    for _ in range(20 * ctx.scale):
        B = fixtures.rot3(rng) if rng.random() < 0.7 else rng.normal(size=(3, 3))
        v, o_ = rng.normal(size=3), rng.normal(size=3)
        for which, val in (("to", g.to_gcs(v, B, o_)), ("from", g.from_gcs(v, B, o_)), ("rot0", g.rotate(v, B)), ("rotc", g.rotate(v, B, o_))):
            lines.append(f"frame {which} {fl(v)} {fl(B.ravel())} {fl(o_)}")
            meta.append(("frame_" + which, np.asarray(val, dtype=float).ravel(), {"point": v.tolist(), "matrix": B.tolist(), "origin_or_centre": o_.tolist()}))
    ans = ctx.drive_src(lines)
    if ans is None:
        return
    for (nm, want, cj), a in zip(meta, ans):
        got = _floats(a)
        if nm.startswith("frame_"):
            ctx.count("translation_validated:" + {"to": "to_gcs", "from": "from_gcs", "rot0": "rotate", "rotc": "rotate"}[nm[6:]])
            if got is None or not _close(got, want, float(np.abs(want).max()) + 5.0, ulps=16):
                ctx.disagree(f"translation validation: the generated {nm[6:]} convention gives {got}, the Python function {want.tolist()}", {"op": "srcval", "function": nm, **cj})
            continue
        ctx.count("translation_validated:rotation_matrix_" + nm)
        # x, y, z: the same libm calls, bit for bit; ypr: matmul may use another summation order
        ok = got is not None and (np.array_equal(np.asarray(got), want) if nm != "ypr" else _close(got, want, 1.0, ulps=8))
        if not ok:
            ctx.disagree(f"translation validation: the generated rotation_matrix_{nm} gives {got}, the Python function {want.tolist()}", {"op": "srcval", "function": "rotation_matrix_" + nm, **cj})


def validate_c05(ctx):
    from arim import ray

    rng = ctx.rng
    lines, meta = [], []
    for k in range(60 * ctx.scale):
        polar = float(rng.uniform(0, np.pi))
        az = float([rng.uniform(-np.pi, np.pi), np.pi / 2, -np.pi / 2, np.nextafter(np.pi / 2, 4), np.nextafter(-np.pi / 2, -4), 0.0, np.pi, -np.pi][k % 8])
        lines.append(f"signed {f2b(polar)} {f2b(az)}")
        meta.append((float(ray._signed_leg_angle(np.float64(polar), np.float64(az))), {"polar": polar, "azimuth": az}))
    ans = ctx.drive_src(lines)
    if ans is None:
        return
    for (want, cj), a in zip(meta, ans):
        got = _floats(a)
        ctx.count("translation_validated:_signed_leg_angle")
        if got is None or got[0] != want:
            ctx.disagree(f"translation validation: the generated _signed_leg_angle gives {got}, the Python function {want}", {"op": "srcval", "function": "_signed_leg_angle", **cj})


def validate_c01(ctx):
    from arim import ray

    rng = ctx.rng
    lines, meta = [], []
    for _ in range(25 * ctx.scale):
        d, n, m, p = int(rng.integers(0, 4)), int(rng.integers(1, 4)), int(rng.integers(1, 5)), int(rng.integers(1, 4))
        interior = np.ascontiguousarray(rng.integers(0, 7, size=(d, n, m)).astype(np.int64))
        new = np.ascontiguousarray(rng.integers(0, m, size=(n, p)).astype(np.int64))
        out = np.full((d + 1, n, p), -99, dtype=np.int64)
        ray._expand_rays(interior, new, out)
        i, j = int(rng.integers(0, n)), int(rng.integers(0, p))
        lines.append(f"expand {d} {n} {m} {p} {','.join(map(str, interior.ravel())) or '-'} {','.join(map(str, new.ravel()))} {i} {j}")
        meta.append(("_expand_rays", [int(v) for v in out[:, i, j]], {"interior": interior.tolist(), "new": new.tolist(), "ray": [i, j]}))
        # the min-plus kernel, one cell
        a_, b_ = rng.integers(0, 6, size=(n, m)).astype(float), rng.integers(0, 6, size=(m, p)).astype(float)
        t, ix = ray.find_minimum_times(a_, b_)
        lines.append(f"mincell {fmat(a_)} {fmat(b_)} {i} {j}")
        meta.append(("_find_minimum_times", (float(t[i, j]), int(ix[i, j])), {"time_1": a_.tolist(), "time_2": b_.tolist(), "cell": [i, j]}))
    ans = ctx.drive_src(lines)
    if ans is None:
        return
    for (name, want, cj), a in zip(meta, ans):
        ctx.count("translation_validated:" + name)
        if name == "_expand_rays":
            got = [int(v) for v in a[3:].split(",")] if a.startswith("ok ") and len(a) > 3 else None
            ok = got == want
        else:
            try:
                tt, kk = a[3:].split("/")
                got = (b2f(tt), int(kk))
            except Exception:
                got = None
            ok = got == want
        if not ok:
            ctx.disagree(f"translation validation: the generated {name} gives {got}, the Python function {want}", {"op": "srcval", "function": name, **cj})


def validate_c11(ctx):
    from arim import model

    rng = ctx.rng
    lines, meta = [], []
    for k in range(80 * ctx.scale):
        dt = float([1e-8, 2e-8, 4e-8, 5e-8, 1 / 30e6, 1 / 3][k % 6] if k % 2 else rng.uniform(1e-8, 1e-7))
        q = int(rng.integers(0, 150))
        delay = float(q * dt) if k % 3 else float(q * dt + rng.uniform(0, 1) * dt)     # on a sample two times out of three
        n, t0 = int(rng.integers(1, 6)), int(rng.integers(0, 4))
        size = 170
        resp = (np.arange(n) + 1.0).astype(complex)[None, :]
        out = np.zeros((1, size), dtype=complex)
        try:
            model._timeshift_timedomain(resp, np.array([delay]), dt, t0, out)
        except Exception:
            continue
        nz = np.flatnonzero(out[0])
        if len(nz) != n or int(math_floor_guard(delay, dt)) - t0 < 0:
            continue        # the window left the row (NumPy clips it): not the arithmetic under validation
        want_start = int(nz[0])
        # the caller's formula, evaluated by NumPy exactly as the source writes it
        d_ = np.array([delay])
        want_rem = float((d_ - np.floor(d_ / dt) * dt)[0])
        lines.append(f"tswin {f2b(delay)} {f2b(dt)} {t0} {n}")
        meta.append((want_start, n, want_rem, {"delay": delay, "dt": dt, "t0_idx": t0, "n": n}))
    ans = ctx.drive_src(lines)
    if ans is None:
        return
    for (start, n, rem, cj), a in zip(meta, ans):
        ctx.count("translation_validated:_timeshift_timedomain")
        try:
            win, r_ = a[3:].split("/")
            lo, hi = (int(v) for v in win.split(":"))
            got = (lo, hi, b2f(r_))
        except Exception:
            got = None
        if got is None or got[0] != start or got[1] != start + n or got[2] != rem:
            ctx.disagree(f"translation validation: the generated window / remainder of the delay split give {got}, the Python code window start {start}, "
                         f"length {n}, remainder {rem}", {"op": "srcval", "function": "_timeshift_timedomain / delays_remainder", **cj})


def math_floor_guard(delay, dt):
    import math
    return math.floor(delay / dt)


VALIDATORS = {"C11": validate_c11, "C01": validate_c01, "C02": validate_c02, "C05": validate_c05, "C13": validate_c13, "C17": validate_c17}


def validate(ctx, pid):
    fn = VALIDATORS.get(pid)
    if fn is None or ctx.oracle_only:
        return
    try:
        fn(ctx)
    except Exception as e:   # the validation must never mask or fake a verdict of the check proper
        import traceback
        ctx.disagree("translation validation crashed: " + traceback.format_exc()[-600:], {"op": "srcval", "property": pid})
