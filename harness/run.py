"""Entry point: python harness/run.py C07 [--tier quick|thorough] [--replay file]"""
import argparse
import importlib
import json
import os
import sys
import time
import traceback
from pathlib import Path

sys.path.insert(0, str(Path(__file__).resolve().parent))
import common


def main():
    ap = argparse.ArgumentParser()
    ap.add_argument("pid")
    ap.add_argument("--tier", default=os.environ.get("VERIF_TIER", "quick"))
    ap.add_argument("--replay")
    a = ap.parse_args()
    pid = a.pid.upper()
    tier = a.tier if a.tier in ("quick", "thorough") else "quick"
    seed = int(os.environ.get("VERIF_SEED", "0") or 0)
    common.setup_env()
    mod = importlib.import_module(pid.lower())
    lean = common.LeanSide()
    ctx = common.Ctx(pid, tier, seed, lean)
    if a.replay:
        body = json.loads(Path(a.replay).read_text())
        lean.build_driver()
        if not hasattr(mod, "replay"):
            print("no replay function for", pid)
            return 2
        ok = mod.replay(ctx, body)
        print("replay:", "property holds on this input" if ok else "property FAILS on this input")
        return 0 if ok else 1
    try:
        lean.build_driver()
        lean.build_and_audit(pid, pre_build=getattr(mod, "pre_build", None))
        if tier == "thorough" and lean.proofs_ok:
            common_leanchecker(lean, pid)
        try:
            mod.run(ctx)
        except Exception:
            # the harness itself failed: never silently pass
            traceback.print_exc()
            ctx.disagree("harness exception: " + traceback.format_exc()[-1500:], {})
        return common.finish(ctx, search=getattr(mod, "search", None))
    except Exception:
        traceback.print_exc()
        return 2


def common_leanchecker(lean, pid):
    import subprocess

    try:
        p = subprocess.run(
            ["lake", "env", "leanchecker", f"ArimProofs.{pid}"],
            cwd=common.LEAN, capture_output=True, text=True, timeout=1500,
        )
        if p.returncode != 0:
            lean.problems.append("leanchecker rejected ArimProofs." + pid + ": " + (p.stdout + p.stderr)[-400:])
    except subprocess.TimeoutExpired:
        lean.problems.append("leanchecker timed out")


if __name__ == "__main__":
    sys.exit(main())
