"""Entry point: python harness/run.py C07 [--tier quick|thorough] [--replay file]"""
import argparse
import importlib
import json
import os
import sys
import time
import traceback
from pathlib import Path

sys.path.insert(0, str(Path(__file__).resolve().parent))
import common


def main():
    ap = argparse.ArgumentParser()
    ap.add_argument("pid")
    ap.add_argument("--tier", default=os.environ.get("VERIF_TIER", "quick"))
    ap.add_argument("--replay")
    a = ap.parse_args()
    pid = a.pid.upper()
    tier = a.tier if a.tier in ("quick", "thorough") else "quick"
    seed = int(os.environ.get("VERIF_SEED", "0") or 0)
    common.setup_env()
    mod = importlib.import_module(pid.lower())
    lean = common.LeanSide()
    ctx = common.Ctx(pid, tier, seed, lean)
    if a.replay:
        body = json.loads(Path(a.replay).read_text())
        lean.build_driver()
        if not hasattr(mod, "replay"):
            # generic replay: the checks are deterministic in (seed, tier), so re-run the stream that produced
            # the replay and look for the recorded violation again
            ctx = common.Ctx(pid, body.get("tier", "quick"), int(body.get("seed", 0)), lean)
            mod.run(ctx)
            if not ctx.violations and body.get("kind") == "failing-input" and hasattr(mod, "search"):
                mod.search(ctx)
            same = [v for v in ctx.violations if v["what"] == body.get("what")]
            for v in (same or ctx.violations)[:5]:
                print("  ", v["what"][:300])
            ok = not ctx.violations
            print("replay:", "no violation on this stream any more" if ok else
                  ("the recorded violation reproduces" if same else "the stream still violates the property (different first case)"))
            return 0 if ok else 1
        ok = mod.replay(ctx, body)
        print("replay:", "property holds on this input" if ok else "property FAILS on this input")
        return 0 if ok else 1
    try:
        lean.build_driver()
        lean.build_and_audit(pid, pre_build=getattr(mod, "pre_build", None))
        lean.build_srcdriver()
        if tier == "thorough" and lean.proofs_ok:
            common_leanchecker(lean, pid)
        import fingerprint
        gate = fingerprint.changed(pid)
        if gate:
            ctx.notes.append("source gate: anchored code differs from the tree the model was written against: " + ", ".join(gate[:12])
                             + (" …" if len(gate) > 12 else "") + " — failing-input search run in addition to the ordinary stream")
            print(f"[{pid}] source gate: {len(gate)} anchored definition(s) changed: " + ", ".join(gate[:4]) + (" …" if len(gate) > 4 else ""))
        ctx.dist["source_gate_changed_definitions"] = len(gate)
        try:
            mod.run(ctx)
            import srcval
            srcval.validate(ctx, pid)
            if gate and not ctx.violations and not ctx.disagreements and hasattr(mod, "search"):
                # changed code that still agrees with the model on the ordinary stream: look further before passing
                saved = (ctx.rng, ctx.oracle_only)
                mod.search(ctx)
                ctx.rng, ctx.oracle_only = saved
        except Exception:
            # the harness itself failed: never silently pass
            traceback.print_exc()
            if fingerprint.tree_is_baseline():
                # the source tree is byte for byte the one the checks were validated against: the exception is a defect of the
                # harness (an unlucky seed, a missing import), not of arim — a harness error (exit 2), never a VIOLATION
                print(f"[{pid}] HARNESS ERROR on the baseline source tree (exit 2): " + traceback.format_exc().strip().splitlines()[-1])
                return 2
            ctx.disagree("harness exception: " + traceback.format_exc()[-1500:], {})
        return common.finish(ctx, search=getattr(mod, "search", None))
    except Exception:
        traceback.print_exc()
        return 2


def common_leanchecker(lean, pid):
    import subprocess

    try:
        p = subprocess.run(
            ["lake", "env", "leanchecker", f"ArimProofs.{pid}"],
            cwd=common.LEAN, capture_output=True, text=True, timeout=1500,
        )
        if p.returncode != 0:
            lean.problems.append("leanchecker rejected ArimProofs." + pid + ": " + (p.stdout + p.stderr)[-400:])
    except subprocess.TimeoutExpired:
        lean.problems.append("leanchecker timed out")


if __name__ == "__main__":
    sys.exit(main())
