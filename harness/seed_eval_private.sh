#!/bin/bash
# usage: harness/seed_eval_private.sh <seed worktree> <property id> <name> [extra check ids...]
# Like seed_eval.sh, but the checks run on private copies of /verif and /repo (ARIM_REPO), so that the real trees,
# the generated Lean files and the evidence are not disturbed and several evaluations can run side by side.
set -u
WT=$1; PID=$2; NAME=$3; shift 3; EXTRA="$@"
OUT=/verif/seeded/$NAME
W=/root/work/ev_$NAME
mkdir -p $OUT; rm -rf $W; mkdir -p $W
git -C $WT diff -- src > $OUT/patch.diff
cp $WT/demo.py $OUT/demo.py 2>/dev/null
cp $WT/NOTES.md $OUT/NOTES.md 2>/dev/null
[ -s $OUT/patch.diff ] || { echo "$NAME: empty patch"; exit 2; }
cd $WT
PYTHONPATH=$WT/src /venv/bin/python demo.py > $OUT/demo_with.txt 2>&1; DW=$?
git apply -R $OUT/patch.diff
PYTHONPATH=$WT/src /venv/bin/python demo.py > $OUT/demo_without.txt 2>&1; DWO=$?
git apply $OUT/patch.diff
PASSED=$(PYTHONPATH=$WT/src /venv/bin/python -m pytest -q -p no:cacheprovider --timeout=900 --continue-on-collection-errors 2>&1 | tail -1)
cp -r /verif $W/verif; cp -r /repo $W/repo
git -C $W/repo checkout -q -- .; git -C $W/repo apply $OUT/patch.diff || { echo "$NAME: patch does not apply"; exit 2; }
RES=""
for c in $PID $EXTRA; do
  (cd $W/verif && ARIM_REPO=$W/repo ./check $c > $OUT/check_$c.txt 2>&1); rc=$?
  line=$(grep -m1 "^VIOLATION" $OUT/check_$c.txt)
  RES="$RES $c:rc=$rc"
  if [ -n "$line" ]; then
    rp=$(echo "$line" | sed 's/.*replay=\([^ ]*\).*/\1/' | sed "s|^/verif/|$W/verif/|")
    [ -f "$rp" ] && cp "$rp" $OUT/replay_$c.json
  fi
  echo "$NAME demo with/without: $DW/$DWO; suite: $PASSED; check $c rc=$rc $line"
done
python3 - "$OUT" "$PID" "$NAME" "$DW" "$DWO" "$PASSED" "$RES" <<'PY'
import json,sys,os
out,pid,name,dw,dwo,passed,res=sys.argv[1:8]
notes=open(out+'/NOTES.md').read() if os.path.exists(out+'/NOTES.md') else ''
meta={"property":pid,"name":name,"demo_exit_with_patch":int(dw),"demo_exit_without_patch":int(dwo),"suite_with_patch":passed,
      "checks_run":res.split(),"needs_to_manifest":"see NOTES.md","notes_excerpt":notes[:1500]}
json.dump(meta,open(out+'/meta.json','w'),indent=1)
PY
rm -rf $W
