"""C17 — coordinate changes are exact isometries; grids and distances are as specified.

Correspondence: Lean `Arim.Geo` (einsum conventions written out, CoordinateSystem, rotation
matrices, isometry, linspace/Grid, rectbox) evaluated on Float by the driver vs arim.geometry;
bit-exact where the code performs the same correctly-rounded operations (grid vectors, box
selection, distances), a few ulp where einsum/BLAS chooses the summation order.
Oracle: the stated laws on the implementation (round trip, distance preservation, proper
rotations, frame mapping, brute-force distances, box membership, grid bounds / spacing / order).
"""
import itertools
import math

import numpy as np

import fixtures
from common import b2f, f2b, fl, fmat


def parse_v(s):
    return np.array([b2f(x) for x in s.split(",")]) if s else np.array([])


def near(a, b, scale=1.0, ulps=64):
    return np.all(np.abs(np.asarray(a) - np.asarray(b)) <= ulps * np.finfo(float).eps * (scale + 1e-300))


def rand_frame(rng):
    return fixtures.rot3(rng).T  # rows = basis vectors


def check_conversions(ctx):
    import arim.geometry as g

    rng = ctx.rng
    lines, checks = [], []
    for _ in range(150 * ctx.scale):
        B = rand_frame(rng)
        o = rng.normal(size=3) * 10.0 ** rng.integers(-3, 2)
        c = rng.normal(size=3) * 10.0 ** rng.integers(-3, 2)
        scale = np.abs(c).max() + np.abs(o).max()
        cj = {"op": "to/from_gcs", "coords": c.tolist(), "bases": B.tolist(), "origin": o.tolist()}
        ctx.case(("conv", c.tobytes(), B.tobytes(), o.tobytes()), True, sample=cj)
        tg = g.to_gcs(c, B, o)
        fg = g.from_gcs(c, B, o)
        lines += [f"geo togcs {fl(c)} {fl(B.ravel())} {fl(o)}", f"geo fromgcs {fl(c)} {fl(B.ravel())} {fl(o)}"]
        checks += [(tg, scale, cj, "to_gcs"), (fg, scale, cj, "from_gcs")]
        # oracle: mutually inverse, distance preserving
        if not (near(g.from_gcs(tg, B, o), c, scale) and near(g.to_gcs(fg, B, o), c, scale)):
            ctx.violate("to_gcs and from_gcs are not mutually inverse", cj, {"kind": "gcs_inverse"})
        c2 = rng.normal(size=3)
        if not near(np.linalg.norm(g.to_gcs(c, B, o) - g.to_gcs(c2, B, o)), np.linalg.norm(c - c2), scale + 3):
            ctx.violate("to_gcs does not preserve distances", cj, {"kind": "gcs_isometry"})
        # one basis per point, arbitrary shapes
        shape = [(), (4,), (2, 3)][int(rng.integers(0, 3))]
        Bs = np.stack([rand_frame(rng) for _ in range(int(np.prod(shape)) or 1)]).reshape(*shape, 3, 3)
        cs = rng.normal(size=(*shape, 3))
        os_ = rng.normal(size=(*shape, 3))
        tg2 = g.to_gcs(cs, Bs, os_)
        exp = np.einsum("...ij,...i->...j", Bs, cs) + os_
        if not (near(tg2, exp, 10) and near(g.from_gcs(tg2, Bs, os_), cs, 10)):
            ctx.violate("per-point bases: to_gcs/from_gcs are not mutually inverse", {"op": "per-point", "shape": list(shape)}, {"kind": "gcs_inverse"})
        # rotate
        R = fixtures.rot3(rng)
        centre = None if rng.random() < 0.4 else rng.normal(size=3)
        rt = g.rotate(c, R, centre)
        lines.append(f"geo rotate {fl(c)} {fl(R.ravel())} {fl(centre) if centre is not None else '-'}")
        checks.append((rt, scale + 3, cj, "rotate"))
        if centre is not None and not near(g.rotate(centre, R, centre), centre, 3):
            ctx.violate("rotate: the centre is not invariant", cj, {"kind": "rotate"})
        # point arrays with axes of length one (a single point stored as a vector, a 1 x n grid): the result has the shape of the input
        for shp in ((1,), (1, 4), (3, 1), (2, 1, 3)):
            cu = rng.normal(size=(*shp, 3))
            for cen in (None, rng.normal(size=3)):
                ru = g.rotate(cu, R, cen)
                ctx.count("rotate:unit_axes")
                want_u = (cu - (0 if cen is None else cen)) @ R.T + (0 if cen is None else cen)
                if np.shape(ru) != cu.shape or not near(ru, want_u, 10):
                    ctx.violate(f"rotate: points of shape {shp} come back with shape {np.shape(ru)[:-1] if np.ndim(ru) else ()} / other values",
                                {"op": "rotate_unit_axes", "shape": list(shp), "centre": None if cen is None else cen.tolist()}, {"kind": "rotate_shape"})
        # CoordinateSystem
        cs_ = g.CoordinateSystem(o, B[0], B[1])
        p = g.Points(c)
        cf = cs_.convert_from_gcs(p).coords
        ct = cs_.convert_to_gcs(p).coords
        lines += [f"geo csfrom {fl(o)} {fl(B[0])} {fl(B[1])} {fl(c)}", f"geo csto {fl(o)} {fl(B[0])} {fl(B[1])} {fl(c)}"]
        checks += [(cf, scale, cj, "convert_from_gcs"), (ct, scale, cj, "convert_to_gcs")]
        if not near(cs_.convert_to_gcs(g.Points(cf)).coords, c, scale):
            ctx.violate("CoordinateSystem: convert_to_gcs(convert_from_gcs(p)) != p", cj, {"kind": "cs_inverse"})
        if not near(cs_.k_hat, B[2], 1):
            ctx.violate("CoordinateSystem.k_hat is not i x j", cj, {"kind": "cs_khat"})
        cr = cs_.rotate(R, centre)
        lines.append(f"geo csrot {fl(o)} {fl(B[0])} {fl(B[1])} {fl(R.ravel())} {fl(centre) if centre is not None else '-'}")
        checks.append((np.concatenate([cr.origin, cr.i_hat, cr.j_hat]), scale + 3, cj, "CoordinateSystem.rotate"))
    answers = ctx.drive(lines) if ctx.lean.driver_ok and not ctx.oracle_only else []
    for (val, scale, cj, what), a in zip(checks, answers):
        m = np.concatenate([parse_v(x) for x in a[3:].split("|")]) if a.startswith("ok ") else None
        if m is None or not near(val, m, scale, ulps=32):
            ctx.disagree(f"{what} differs from the model", cj)



def check_cs_histories(ctx):
    """a CoordinateSystem whose origin / axes are re-assigned stays an orthonormal frame: after every step of a history
    of uses and re-assignments, conversions agree with a fresh object built from the current attributes, are mutually
    inverse and preserve distances"""
    import arim.geometry as g

    rng = ctx.rng

    def axis_rot(axis, ang):
        axis = axis / np.linalg.norm(axis)
        K = np.array([[0, -axis[2], axis[1]], [axis[2], 0, -axis[0]], [-axis[1], axis[0], 0]])
        return np.eye(3) + np.sin(ang) * K + (1 - np.cos(ang)) * (K @ K)

    for _ in range(25 * ctx.scale):
        B = rand_frame(rng)
        cs_ = g.CoordinateSystem(rng.normal(size=3), B[0], B[1])
        pts = rng.normal(size=(int(rng.integers(2, 6)), 3))
        hist = []
        for step in range(int(rng.integers(2, 8))):
            op = str(rng.choice(["use", "set_origin", "turn_about_i", "turn_about_j", "turn_about_k", "set_i_then_j", "set_j_then_i"]))
            hist.append(op)
            i, j = np.array(cs_.i_hat, dtype=float), np.array(cs_.j_hat, dtype=float)
            ang = float(rng.uniform(0.3, 2.5))
            if op == "use":
                cs_.convert_from_gcs(g.Points(pts)); cs_.basis_matrix; cs_.k_hat
            elif op == "set_origin":
                cs_.origin = rng.normal(size=3)
            elif op == "turn_about_i":       # only j_hat is re-assigned
                cs_.j_hat = axis_rot(i, ang) @ j
            elif op == "turn_about_j":       # only i_hat is re-assigned
                cs_.i_hat = axis_rot(j, ang) @ i
            elif op == "turn_about_k":
                R = axis_rot(np.cross(i, j), ang)
                cs_.i_hat, cs_.j_hat = R @ i, R @ j
            else:
                Bn = rand_frame(rng)
                if op == "set_i_then_j":
                    cs_.i_hat = Bn[0]; cs_.j_hat = Bn[1]
                else:
                    cs_.j_hat = Bn[1]; cs_.i_hat = Bn[0]
            fresh = g.CoordinateSystem(np.array(cs_.origin), np.array(cs_.i_hat), np.array(cs_.j_hat))
            cj = {"op": "coordinate_system_history", "history": list(hist), "origin": np.asarray(cs_.origin).tolist(),
                  "i_hat": np.asarray(cs_.i_hat).tolist(), "j_hat": np.asarray(cs_.j_hat).tolist(), "points": pts.tolist()}
            ctx.case(("cs-hist", tuple(hist), pts.tobytes()), True)
            ctx.count("cs_history_step:" + op)
            P = g.Points(pts)
            loc, loc_f = cs_.convert_from_gcs(P).coords, fresh.convert_from_gcs(P).coords
            glo, glo_f = cs_.convert_to_gcs(P).coords, fresh.convert_to_gcs(P).coords
            if not (np.array_equal(loc, loc_f) and np.array_equal(glo, glo_f) and np.array_equal(cs_.basis_matrix, fresh.basis_matrix)
                    and np.array_equal(cs_.k_hat, fresh.k_hat)):
                ctx.violate(f"CoordinateSystem after the history {hist} converts differently from a fresh object with the same origin and axes", cj, {"kind": "cs_history"})
                break
            back = cs_.convert_to_gcs(g.Points(loc)).coords
            d0 = np.linalg.norm(pts[:, None] - pts[None], axis=-1)
            d1 = np.linalg.norm(loc[:, None] - loc[None], axis=-1)
            if not (near(back, pts, 10) and np.abs(d0 - d1).max() <= 1e-12 * (1 + d0.max())):
                ctx.violate(f"CoordinateSystem after the history {hist}: conversions are not mutually inverse / not isometric", cj, {"kind": "cs_history"})
                break


def check_rotations(ctx):
    import arim.geometry as g

    rng = ctx.rng
    lines, checks = [], []
    for k in range(80 * ctx.scale):
        y, p, r = rng.uniform(-2 * np.pi, 2 * np.pi, size=3)
        if k % 10 == 0:
            y, p, r = [float(rng.choice([0, np.pi / 2, -np.pi, np.pi])) for _ in range(3)]
        M = g.rotation_matrix_ypr(y, p, r)
        cj = {"op": "ypr", "angles": [y, p, r]}
        ctx.case(("ypr", y, p, r), True)
        lines.append(f"geo ypr {f2b(y)} {f2b(p)} {f2b(r)}")
        checks.append((M.ravel(), cj, "rotation_matrix_ypr"))
        for ax, fn in (("x", g.rotation_matrix_x), ("y", g.rotation_matrix_y), ("z", g.rotation_matrix_z)):
            lines.append(f"geo rot {ax} {f2b(y)}")
            checks.append((fn(y).ravel(), cj, "rotation_matrix_" + ax))
            Mx = fn(y)
            if not (near(Mx @ Mx.T, np.eye(3)) and near(np.linalg.det(Mx), 1.0)):
                ctx.violate(f"rotation_matrix_{ax} is not a proper rotation", cj, {"kind": "rotation"})
        if not (near(M @ M.T, np.eye(3)) and near(np.linalg.det(M), 1.0)):
            ctx.violate("rotation_matrix_ypr is not a proper rotation", cj, {"kind": "rotation"})
        # isometries
        A, B = rng.normal(size=3), rng.normal(size=3)
        F1, F2 = rand_frame(rng), rand_frame(rng)
        Mi, Pi = g.direct_isometry_3d(A, F1[0], F1[1], B, F2[0], F2[1])
        cj2 = {"op": "iso3d", "A": A.tolist(), "F1": F1.tolist(), "B": B.tolist(), "F2": F2.tolist()}
        ctx.case(("iso3d", A.tobytes(), F1.tobytes(), F2.tobytes()), True)
        lines.append(f"geo iso3d {fl(A)} {fl(F1[0])} {fl(F1[1])} {fl(B)} {fl(F2[0])} {fl(F2[1])}")
        checks.append((np.concatenate([Mi.ravel(), Pi]), cj2, "direct_isometry_3d"))
        ok = (near(Mi @ Mi.T, np.eye(3), 1, 256) and near(np.linalg.det(Mi), 1.0, 1, 256) and near(Mi @ A + Pi, B, 4, 256)
              and near(Mi @ F1[0], F2[0], 1, 256) and near(Mi @ F1[1], F2[1], 1, 256) and near(Mi @ F1[2], F2[2], 1, 256))
        if not ok:
            ctx.violate("direct_isometry_3d does not send the first frame onto the second by a proper rotation", cj2, {"kind": "iso3d"})
        a2, b2 = rng.normal(size=2), rng.normal(size=2)
        th = rng.uniform(-np.pi, np.pi)
        R2 = np.array([[np.cos(th), -np.sin(th)], [np.sin(th), np.cos(th)]])
        t2 = rng.normal(size=2)
        M2, P2 = g.direct_isometry_2d(a2, b2, R2 @ a2 + t2, R2 @ b2 + t2)
        ctx.case(("iso2d", a2.tobytes(), b2.tobytes(), th), True)
        if not (near(M2 @ a2 + P2, R2 @ a2 + t2, 4, 256) and near(M2 @ b2 + P2, R2 @ b2 + t2, 4, 256) and near(M2 @ M2.T, np.eye(2), 1, 64) and near(np.linalg.det(M2), 1, 1, 64)):
            ctx.violate("direct_isometry_2d does not map A->A', B->B' by a proper rotation", {"op": "iso2d", "A": a2.tolist(), "B": b2.tolist(), "theta": th, "t": t2.tolist()}, {"kind": "iso2d"})
        # targets known to a few decimals only (measured positions): the lengths |AB| and |A'B'| agree to within the function's
        # own tolerance, not exactly; the map must still be an exact proper rotation (a similarity of ratio |A'B'|/|AB| is not
        # an isometry) and send one of the two points exactly, the other to within the discrepancy of the data
        dec = int(rng.integers(5, 9))
        Ap, Bp = np.round(R2 @ a2 + t2, dec), np.round(R2 @ b2 + t2, dec)
        lab, lapbp = np.hypot(*(b2 - a2)), np.hypot(*(Bp - Ap))
        cj3 = {"op": "iso2d_rounded", "A": a2.tolist(), "B": b2.tolist(), "Ap": Ap.tolist(), "Bp": Bp.tolist()}
        if np.isclose(lab, lapbp) and lab > 1e-3:
            ctx.case(("iso2d_rounded", dec), True)
            try:
                M3, P3 = g.direct_isometry_2d(a2, b2, Ap, Bp)
                slack = 4 * abs(lab - lapbp) + 1e-12
                ok3 = (near(M3 @ M3.T, np.eye(2), 1, 64) and near(np.linalg.det(M3), 1, 1, 64)
                       and min(np.abs(M3 @ a2 + P3 - Ap).max(), np.abs(M3 @ b2 + P3 - Bp).max()) <= 1e-12 * (1 + np.abs(Bp).max())
                       and max(np.abs(M3 @ a2 + P3 - Ap).max(), np.abs(M3 @ b2 + P3 - Bp).max()) <= slack)
            except Exception as e:
                ok3 = False
                cj3["raised"] = repr(e)
            if not ok3:
                ctx.violate("direct_isometry_2d with targets given to a few decimals (lengths equal within its own tolerance) is not a proper rotation sending A, B onto A', B'", cj3, {"kind": "iso2d"})
        if k % 5 == 0:
            # coincident points: a pure translation (the rotation is the identity)
            cj4 = {"op": "iso2d_degenerate", "A": a2.tolist(), "Ap": Ap.tolist()}
            ctx.case(("iso2d_degenerate",), True)
            try:
                M4, P4 = g.direct_isometry_2d(a2, a2, Ap, Ap)
                ok4 = near(M4 @ M4.T, np.eye(2), 1, 64) and near(np.linalg.det(M4), 1, 1, 64) and near(M4 @ a2 + P4, Ap, 4, 256)
            except Exception as e:
                ok4 = False
                cj4["raised"] = repr(e)
            if not ok4:
                ctx.violate("direct_isometry_2d of coincident points is not a proper rotation followed by the translation A->A'", cj4, {"kind": "iso2d"})
        # spherical coordinates
        xyz = rng.normal(size=(5, 3)) * 10.0 ** rng.integers(-3, 3)
        if k % 7 == 0:
            xyz[0] = [0, 0, 1]
            xyz[1] = [0, 0, -2]
            xyz[2] = [-1, 0, 0]
            xyz[3] = [-1, -0.0, 0]
        if k % 3 == 1:
            # close to the poles but not on them (polar angle 1e-5 .. 8e-3 rad)
            e_ = 10.0 ** rng.uniform(-5, np.log10(8e-3))
            r_ = float(np.abs(xyz).max())
            xyz[4] = [r_ * np.sin(e_) * np.cos(1.0), r_ * np.sin(e_) * np.sin(1.0), r_ * np.cos(e_) * rng.choice([-1, 1])]
        sph = g.spherical_coordinates(xyz[:, 0], xyz[:, 1], xyz[:, 2])
        ctx.case(("sph", xyz.tobytes()), True)
        # arccos(z / r) loses digits close to the poles: a rounding error of one ulp in z / r moves theta by 1 / sin(theta) ulps
        s_true = np.hypot(xyz[:, 0], xyz[:, 1]) / np.sqrt((xyz ** 2).sum(axis=1))
        cond_ = np.where(s_true > 0, 1.0 + 1.0 / np.where(s_true > 0, s_true, 1.0), 1.0)
        back = np.stack([sph.r * np.sin(sph.theta) * np.cos(sph.phi), sph.r * np.sin(sph.theta) * np.sin(sph.phi), sph.r * np.cos(sph.theta)], axis=1)
        if not ((sph.r >= 0).all() and (sph.theta >= 0).all() and (sph.theta <= np.pi).all() and (np.abs(sph.phi) <= np.pi).all()
                and np.all(np.abs(back - xyz) <= (64 * np.finfo(float).eps * np.abs(xyz).max() * cond_)[:, None])):
            ctx.violate("spherical coordinates are out of range or do not invert back", {"op": "spherical", "xyz": xyz.tolist()}, {"kind": "spherical"})
    answers = ctx.drive(lines) if ctx.lean.driver_ok and not ctx.oracle_only else []
    for (val, cj, what), a in zip(checks, answers):
        m = np.concatenate([parse_v(x) for x in a[3:].split("|")]) if a.startswith("ok ") else None
        if m is None or not near(val, m, 4, ulps=64):
            ctx.disagree(f"{what} differs from the model", cj)


def check_grids(ctx):
    import arim.geometry as g

    rng = ctx.rng
    lines, metas = [], []
    for k in range(120 * ctx.scale):
        lo = [float(rng.uniform(-0.05, 0.05)) for _ in range(3)]
        ln = [float(rng.uniform(1e-4, 0.04)) if rng.random() < 0.8 else 0.0 for _ in range(3)]
        d = [float(rng.uniform(1e-4, 1.5e-3)) for _ in range(3)]
        if rng.random() < 0.5:
            d = [d[0]] * 3
        if k % 5 == 0:
            # lengths that are exact multiples (or half multiples) of the pixel: the rounding rule matters
            nn = [int(rng.integers(1, 30)) for _ in range(3)]
            d = [float(2.0 ** -int(rng.integers(8, 14)))] * 3
            lo = [float(int(rng.integers(-50, 50)) * d[0]) for _ in range(3)]
            ln = [float((n_ + (0.5 if rng.random() < 0.5 else 0.0)) * d[0]) for n_ in nn]
        # the property is about pixel sizes not exceeding the non-degenerate axis lengths
        d = [min(di, li) if li > 0 else di for di, li in zip(d, ln)]
        hi = [a + b for a, b in zip(lo, ln)]
        px = d[0] if d[0] == d[1] == d[2] else tuple(d)
        gr = g.Grid(lo[0], hi[0], lo[1], hi[1], lo[2], hi[2], px)
        cj = {"op": "Grid", "lo": lo, "hi": hi, "pixel": list(d)}
        ctx.case(("grid", tuple(lo), tuple(hi), tuple(d)), True, sample=cj if k < 3 else None)
        lines.append("geo grid " + " ".join(str(f2b(v)) for v in [lo[0], hi[0], lo[1], hi[1], lo[2], hi[2], d[0], d[1], d[2]]))
        metas.append((gr, cj))
        for ax, (l, h, dd, vect) in enumerate(zip(lo, hi, d, (gr.xvect, gr.yvect, gr.zvect))):
            if l == h:
                ok = len(vect) == 1 and vect[0] == l
            else:
                q = (h - l) / dd + 1
                ok = vect[0] == l and vect[-1] == h and abs(len(vect) - q) <= 0.5 + 1e-9
                if len(vect) > 1:
                    steps = np.diff(vect)
                    ok = ok and np.all(np.abs(steps - (h - l) / (len(vect) - 1)) <= 4 * np.finfo(float).eps * max(abs(l), abs(h)))
            if not ok:
                ctx.violate(f"grid axis {ax}: bounds/number of points/spacing wrong: {vect[:3]}..{vect[-1]} (n={len(vect)}) for [{l},{h}] pixel {dd}", cj, {"kind": "grid_axis"})
        # order: x-major
        pts = gr.to_1d_points().coords
        nx, ny, nz = gr.numx, gr.numy, gr.numz
        for _ in range(4):
            ix, iy, iz = int(rng.integers(0, nx)), int(rng.integers(0, ny)), int(rng.integers(0, nz))
            if not np.array_equal(pts[(ix * ny + iy) * nz + iz], [gr.xvect[ix], gr.yvect[iy], gr.zvect[iz]]):
                ctx.violate("grid points are not enumerated in x-major order", cj, {"kind": "grid_order"})
                break
        # rectbox
        bounds = [None if rng.random() < 0.4 else float(rng.choice(v)) for v in (gr.xvect, gr.xvect, gr.yvect, gr.yvect, gr.zvect, gr.zvect)]
        sel = gr.points_in_rectbox(bounds[0], bounds[1], bounds[2], bounds[3], bounds[4], bounds[5])
        X, Y, Z = gr.x, gr.y, gr.z
        exp = np.ones(X.shape, dtype=bool)
        for b, arr, is_min in ((bounds[0], X, True), (bounds[1], X, False), (bounds[2], Y, True), (bounds[3], Y, False), (bounds[4], Z, True), (bounds[5], Z, False)):
            if b is not None:
                exp &= (b <= arr) if is_min else (arr <= b)
        if not np.array_equal(sel, exp):
            ctx.violate("points_in_rectbox does not return exactly the points within the inclusive bounds", {**cj, "bounds": bounds}, {"kind": "rectbox"})
        pidx = int(rng.integers(0, len(pts)))
        enc = lambda b: "-" if b is None else str(f2b(b))
        lines.append(f"geo rectbox {fl(pts[pidx])} {enc(bounds[0])} {enc(bounds[1])} {enc(bounds[2])} {enc(bounds[3])} {enc(bounds[4])} {enc(bounds[5])}")
        metas.append((bool(sel.ravel()[pidx]), {**cj, "bounds": bounds, "point": pts[pidx].tolist()}))
    # rectbox, boundary stream: bounds taken from special values (zeros of either sign and type, values on and between the
    # lattice, infinities) on a lattice that straddles zero, through the module function and the Points / Grid methods
    special = [None, None, 0, 0.0, -0.0, 1, -1.0, 0.5, 2.0, -2, float("inf"), float("-inf"), np.float64(0.0), np.int64(0)]
    lat = g.Grid(-2.0, 2.0, -2.0, 2.0, -2.0, 2.0, 1.0)
    lat_pts = lat.to_1d_points()
    for _ in range(60 * ctx.scale):
        bounds = [special[int(rng.integers(0, len(special)))] for _ in range(6)]
        names = ("xmin", "xmax", "ymin", "ymax", "zmin", "zmax")
        kw = {n_: b for n_, b in zip(names, bounds) if b is not None or rng.random() < 0.5}
        cj = {"op": "points_in_rectbox", "lattice": "integers -2..2 cubed", "bounds": {k_: (None if v is None else float(v)) for k_, v in kw.items()},
              "bound_types": {k_: type(v).__name__ for k_, v in kw.items()}}
        ctx.case(("rectbox_special", tuple((k_, None if v is None else (float(v), math.copysign(1, float(v)), type(v).__name__)) for k_, v in kw.items())), True)
        ctx.count("rectbox:zero_bound" if any(v is not None and float(v) == 0 for v in kw.values()) else "rectbox:no_zero_bound")
        C = lat_pts.coords
        exp = np.ones(len(C), dtype=bool)
        for n_, b in kw.items():
            if b is not None:
                col = C[:, "xyz".index(n_[0])]
                exp &= (float(b) <= col) if n_.endswith("min") else (col <= float(b))
        got = {"function": g.points_in_rectbox(C[:, 0], C[:, 1], C[:, 2], **kw),
               "Points method": lat_pts.points_in_rectbox(**kw),
               "Grid method": np.asarray(lat.points_in_rectbox(**kw)).ravel()}
        for who, sel in got.items():
            if not np.array_equal(np.asarray(sel, dtype=bool), exp):
                ctx.violate(f"points_in_rectbox ({who}) does not return exactly the points within the inclusive bounds: {int(np.sum(sel))} selected, {int(exp.sum())} expected",
                            cj, {"kind": "rectbox"})
                break
        pidx = int(rng.integers(0, len(C)))
        enc = lambda b: "-" if b is None else str(f2b(float(b)))
        lines.append("geo rectbox " + fl(C[pidx]) + " " + " ".join(enc(kw.get(n_)) for n_ in ("xmin", "xmax", "ymin", "ymax", "zmin", "zmax")))
        metas.append((bool(got["function"][pidx]), {**cj, "point": C[pidx].tolist()}))
    # centred grids
    for _ in range(40 * ctx.scale):
        size = float(rng.uniform(0, 0.03)) if rng.random() < 0.8 else 0.0
        px = float(rng.uniform(1e-4, 2e-3))
        c = [float(v) for v in rng.normal(size=3) * 0.01]
        gr = g.Grid.grid_centred_at_point(c[0], c[1], c[2], size, 0.0, size, px)
        cj = {"op": "grid_centred_at_point", "centre": c, "size": size, "pixel": px}
        ctx.case(("gridc", tuple(c), size, px), True)
        lines.append(f"geo centred {f2b(size)} {f2b(px)}")
        metas.append((gr.numx, cj))
        mid = gr.numx // 2
        if gr.numx % 2 != 1 or abs(gr.xvect[mid] - c[0]) > 1e-15 + 4 * np.finfo(float).eps * abs(c[0]) or (size > 0 and gr.numx < size / px + 1 - 1e-9):
            ctx.violate("grid_centred_at_point: the centre is not a grid point / even number of points / too coarse", cj, {"kind": "grid_centred"})
    # enumeration order vs model
    for nx, ny, nz in [(2, 1, 3), (3, 2, 2), (1, 1, 1), (1, 4, 1)]:
        lines.append(f"geo order {nx} {ny} {nz}")
        gr = g.Grid(0.0, nx - 1.0, 0.0, ny - 1.0, 0.0, nz - 1.0, 1.0)
        metas.append((",".join(f"{int(p[0])}:{int(p[1])}:{int(p[2])}" for p in gr.to_1d_points().coords), {"op": "order", "n": [nx, ny, nz]}))
        ctx.case(("order", nx, ny, nz), True)
    answers = ctx.drive(lines) if ctx.lean.driver_ok and not ctx.oracle_only else []
    for (val, cj), a, l in zip(metas, answers, lines):
        if not a.startswith("ok"):
            ctx.disagree("model rejected: " + l[:60], cj)
        elif l.startswith("geo grid"):
            vx, vy, vz = [parse_v(x) for x in a[3:].split("|")]
            gr = val
            same = all(len(m) == len(v) and np.array_equal(m.view(np.uint64), np.asarray(v, dtype=float).view(np.uint64)) for m, v in ((vx, gr.xvect), (vy, gr.yvect), (vz, gr.zvect)))
            if not same:
                ctx.disagree(f"Grid vectors differ from the model (bitwise): numx {gr.numx} vs {len(vx)}", cj)
        elif l.startswith("geo rectbox"):
            if (a[3:] == "1") != val:
                ctx.disagree("points_in_rectbox differs from the model", cj)
        elif l.startswith("geo centred"):
            if int(a[3:]) != val:
                ctx.disagree(f"grid_centred_at_point numx {val} vs model {a[3:]}", cj)
        else:
            if a[3:] != val:
                ctx.disagree("grid enumeration order differs from the model", cj)


def check_distances(ctx):
    import arim.geometry as g

    rng = ctx.rng
    for _ in range(30 * ctx.scale):
        n1, n2 = int(rng.integers(1, 9)), int(rng.integers(1, 9))
        p1, p2 = rng.normal(size=(n1, 3)), rng.normal(size=(n2, 3))
        d = g.distance_pairwise(g.Points(p1), g.Points(p2))
        exp = np.array([[math.sqrt(sum((a - b) ** 2 for a, b in zip(x, y))) for y in p2] for x in p1])
        ctx.case(("dist", p1.tobytes(), p2.tobytes()), True)
        if not near(d, exp, 10, 4):
            ctx.violate("distance_pairwise is not the Euclidean distance of every pair", {"op": "distance_pairwise", "p1": p1.tolist(), "p2": p2.tolist()}, {"kind": "distance"})
        if ctx.lean.driver_ok and not ctx.oracle_only:
            a = ctx.drive([f"fermat f64 {fmat(p1)}|{fmat(p2)} 0:{f2b(1.0)}:1"])[0]
            mt = np.array([int(x) for x in a[3:].split("/")[0].split(",")], dtype=np.uint64).view(np.float64).reshape(n1, n2)
            if not np.array_equal(mt.view(np.uint64), d.view(np.uint64)):
                ctx.disagree("distance_pairwise differs from the model (bitwise)", {"op": "distance_pairwise", "p1": p1.tolist(), "p2": p2.tolist()})


def check_wrappers(ctx):
    """the object methods and optional arguments are the same maps as the functions the laws are checked on: `Points.to_gcs /
    from_gcs / spherical_coordinates / rotate / translate`, `CoordinateSystem.convert_from_gcs_pairwise`, `distance_pairwise`
    with a preallocated `out=` (fresh, garbage-filled, reused) and a `dtype=`, `Grid.dx/dy/dz/as_points/to_oriented_points`"""
    import warnings

    import arim.geometry as g

    rng = ctx.rng
    for it in range(25 * ctx.scale):
        shape = [(), (5,), (2, 3)][it % 3]
        c = rng.normal(size=(*shape, 3)) * 10.0 ** rng.integers(-2, 2)
        B = rand_frame(rng)
        o = rng.normal(size=3)
        p = g.Points(c.copy(), "pts")
        cj = {"op": "wrappers", "coords": c.tolist(), "bases": B.tolist(), "origin": o.tolist()}
        ctx.case(("wrap", c.tobytes(), B.tobytes()), True)
        pairs = [("Points.to_gcs", p.to_gcs(B, o).coords, g.to_gcs(c, B, o)),
                 ("Points.from_gcs", p.from_gcs(B, o).coords, g.from_gcs(c, B, o)),
                 ("Points.rotate", p.rotate(B, o).coords, g.rotate(c, B, o)),
                 ("Points.translate", p.translate(o).coords, c + o)]
        for nm, got, want in pairs:
            if not np.array_equal(got, want):
                ctx.violate(f"{nm} is not the function of the same name applied to the coordinates", cj, {"kind": "wrapper", "which": nm})
        if not np.array_equal(p.coords, c):
            ctx.violate("a Points method modified the points it was called on", cj, {"kind": "wrapper_inplace"})
        r, th, ph = p.spherical_coordinates()
        r2, th2, ph2 = g.spherical_coordinates(c[..., 0], c[..., 1], c[..., 2])
        if not (np.array_equal(r, r2) and np.array_equal(th, th2) and np.array_equal(ph, ph2)):
            ctx.violate("Points.spherical_coordinates differs from spherical_coordinates(x, y, z)", cj, {"kind": "wrapper", "which": "spherical"})
        back = np.stack([r * np.sin(th) * np.cos(ph), r * np.sin(th) * np.sin(ph), r * np.cos(th)], axis=-1)
        if not (near(back, c, np.abs(c).max()) and np.all(r >= 0) and np.all((0 <= th) & (th <= np.pi)) and np.all(np.abs(ph) <= np.pi)):
            ctx.violate("Points.spherical_coordinates does not invert back to the Cartesian coordinates / ranges", cj, {"kind": "spherical"})
        # pairwise conversion: x[i, j] = coordinate of point i in the frame whose origin is origins[j] (origins given in the CS)
        n1, n2 = int(rng.integers(1, 6)), int(rng.integers(1, 5))
        cs_ = g.CoordinateSystem(o, B[0], B[1])
        pg = g.Points(rng.normal(size=(n1, 3)))
        og = g.Points(rng.normal(size=(n2, 3)))
        x, y, z = cs_.convert_from_gcs_pairwise(pg, og)
        base = cs_.convert_from_gcs(pg).coords
        for i in range(n1):
            for j in range(n2):
                want = base[i] - og.coords[j]
                if not (x.shape == (n1, n2) and np.array_equal([x[i, j], y[i, j], z[i, j]], want)):
                    ctx.violate("convert_from_gcs_pairwise[i, j] is not point i seen from origin j", {"op": "pairwise", "i": i, "j": j, "n1": n1, "n2": n2}, {"kind": "pairwise"})
                    break
        # distance_pairwise options
        p1, p2 = g.Points(rng.normal(size=(n1, 3))), g.Points(rng.normal(size=(n2, 3)))
        ref = g.distance_pairwise(p1, p2)
        exp = np.array([[math.sqrt(sum((a - b) ** 2 for a, b in zip(u, v))) for v in p2.coords] for u in p1.coords])
        out = np.full((n1, n2), np.nan if it % 2 else 1e30)
        got = g.distance_pairwise(p1, p2, out=out)
        if not (np.array_equal(out, ref) and (got is None or np.array_equal(got, ref)) and near(ref, exp, 10, 4)):
            ctx.violate("distance_pairwise(out=prefilled array) does not leave the Euclidean distances in `out`", {"op": "distance_out", "n1": n1, "n2": n2}, {"kind": "distance_out"})
        g.distance_pairwise(p2, p1, out=out.T if n1 != n2 else np.empty((n2, n1)))  # a second call must not disturb the first result
        if not np.array_equal(ref, g.distance_pairwise(p1, p2)):
            ctx.violate("distance_pairwise is not repeatable", {"op": "distance_repeat"}, {"kind": "distance_out"})
        # a preallocated table of another precision than the points (a float32 table filled from float64 points and the other
        # way round): after the call the table the caller passed holds the distances
        for odt, pdt in ((np.float32, np.float64), (np.float64, np.float32)):
            q1, q2 = g.Points(p1.coords.astype(pdt)), g.Points(p2.coords.astype(pdt))
            tbl = np.full((n1, n2), -7.0, dtype=odt)
            try:
                g.distance_pairwise(q1, q2, out=tbl)
            except Exception as e:
                ctx.count("distance_out_other_dtype:refused")
                continue    # refusing the combination would be acceptable; leaving the table unwritten is not
            ctx.count("distance_out_other_dtype")
            if not np.allclose(tbl, exp, rtol=3e-6, atol=1e-6):
                ctx.violate(f"distance_pairwise(out=<{np.dtype(odt).name} table>) with {np.dtype(pdt).name} points returned without an error but the table the caller passed "
                            f"does not hold the distances (max error {np.abs(tbl - exp).max():.3g})", {"op": "distance_out_dtype", "out": np.dtype(odt).name, "points": np.dtype(pdt).name},
                            {"kind": "distance_out"})
        # the same positions held as integers / single precision: same conversions and rotations (about a non-lattice centre)
        ci = rng.integers(-9, 10, size=(4, 3))
        centre_ = ci.mean(axis=0) + np.array([0.5, -0.25, 0.125])
        for cdt in (np.int64, np.int32, np.float32):
            for nm_, f_ in (("rotate", lambda cc: g.rotate(cc, B, centre_)), ("to_gcs", lambda cc: g.to_gcs(cc, B, o)), ("from_gcs", lambda cc: g.from_gcs(cc, B, o)),
                            ("Points.rotate", lambda cc: g.Points(cc).rotate(B, centre_).coords), ("Points.translate", lambda cc: g.Points(cc).translate(centre_).coords)):
                ctx.count("coords_container:" + np.dtype(cdt).name)
                try:
                    a_, b_ = f_(ci.astype(cdt)), f_(ci.astype(np.float64))
                except Exception as e:
                    ctx.violate(f"{nm_} raised {type(e).__name__} for coordinates held as {np.dtype(cdt).name}", {"op": "coords_container", "fn": nm_}, {"kind": "container"})
                    continue
                if not np.allclose(a_, b_, rtol=0, atol=(2e-5 if cdt is np.float32 else 1e-12)):
                    ctx.violate(f"{nm_} gives other positions (max difference {np.abs(np.asarray(a_, float) - b_).max():.3g}) when the same coordinates are held as {np.dtype(cdt).name}",
                                {"op": "coords_container", "fn": nm_, "coords": ci.tolist(), "centre": centre_.tolist()}, {"kind": "container"})
        d32 = g.distance_pairwise(p1, p2, dtype=np.float32)
        if d32.dtype != np.float32 or not np.allclose(d32, exp, rtol=2e-6, atol=1e-6):
            ctx.violate("distance_pairwise(dtype=float32) is not the Euclidean distance to single precision", {"op": "distance_f32"}, {"kind": "distance"})
        try:
            g.distance_pairwise(p1, p2, out=np.empty((n1 + 1, n2)))
            ctx.violate("distance_pairwise accepted an `out` of the wrong shape", {"op": "distance_out_shape"}, {"kind": "distance_out"})
        except Exception:
            pass
        # output buffers (`out=`) of the spherical-coordinate helpers and of norm2: whatever the buffer held before, after the
        # call it holds the result (a buffer from np.empty holds garbage), and the result is the one computed without a buffer;
        # a radius handed to spherical_coordinates(r=...) is used, not altered
        sx, sy, sz = (rng.normal(size=5) for _ in range(3))
        r_ref = g.spherical_coordinates_r(sx, sy, sz)
        for nm_, call, want in (("norm2", lambda b: g.norm2(sx, sy, sz, out=b), np.sqrt(sx * sx + sy * sy + sz * sz)),
                                ("norm2_2d", lambda b: g.norm2_2d(sx, sy, out=b), np.sqrt(sx * sx + sy * sy)),
                                ("spherical_coordinates_r", lambda b: g.spherical_coordinates_r(sx, sy, sz, out=b), r_ref),
                                ("spherical_coordinates_theta", lambda b: g.spherical_coordinates_theta(sz, r_ref, out=b), np.arccos(sz / r_ref)),
                                ("spherical_coordinates_phi", lambda b: g.spherical_coordinates_phi(sx, sy, out=b), np.arctan2(sy, sx))):
            for fillv in (0.0, 7.5, np.nan):
                buf = np.full(5, fillv)
                got = call(buf)
                ctx.count("out_buffer:" + nm_)
                if not (np.allclose(got, want, rtol=1e-14, atol=0) and np.allclose(buf, want, rtol=1e-14, atol=0)):
                    ctx.violate(f"{nm_}(…, out=<buffer holding {fillv}>) does not leave the result in the buffer: got {np.asarray(got).tolist()}, expected {want.tolist()}",
                                {"op": "out_buffer", "fn": nm_, "x": sx.tolist(), "y": sy.tolist(), "z": sz.tolist(), "buffer_filled_with": repr(fillv)}, {"kind": "out_buffer", "fn": nm_})
                    break
        r_keep = r_ref.copy()
        sph = g.spherical_coordinates(sx, sy, sz, r=r_ref)
        back = np.stack([sph.r * np.sin(sph.theta) * np.cos(sph.phi), sph.r * np.sin(sph.theta) * np.sin(sph.phi), sph.r * np.cos(sph.theta)])
        if not (np.array_equal(r_ref, r_keep) and np.allclose(back, np.stack([sx, sy, sz]), rtol=0, atol=1e-12)):
            ctx.violate("spherical_coordinates(x, y, z, r=<the radius>) does not invert back to (x, y, z), or alters the radius it was given",
                        {"op": "spherical_r_given", "x": sx.tolist(), "y": sy.tolist(), "z": sz.tolist()}, {"kind": "spherical"})
        # flattening a multi-dimensional set of points enumerates it in row-major (x-major) index order whatever the memory
        # layout of the coordinate array (C, Fortran, a transposed view)
        sh = (int(rng.integers(2, 5)), int(rng.integers(2, 4)), int(rng.integers(1, 4)))
        base = rng.normal(size=(*sh, 3))
        want_flat = base.reshape(-1, 3)
        for lab, arr in (("C order", np.ascontiguousarray(base)), ("Fortran order", np.asfortranarray(base)),
                         ("transposed view", np.ascontiguousarray(base.transpose(2, 1, 0, 3)).transpose(2, 1, 0, 3))):
            pts_nd = g.Points(arr)
            flat = pts_nd.to_1d_points().coords
            ctx.count("to_1d_points:" + lab.split()[0])
            if flat.shape != want_flat.shape or not np.array_equal(flat, want_flat):
                ctx.violate(f"Points.to_1d_points does not enumerate a {sh} set of points in row-major index order when its coordinates are held in {lab}",
                            {"op": "to_1d_points_layout", "shape": list(sh), "layout": lab}, {"kind": "grid_order"})
            resh = pts_nd.reshape((sh[0] * sh[1], sh[2])).coords
            if not np.array_equal(resh, base.reshape(sh[0] * sh[1], sh[2], 3)):
                ctx.violate(f"Points.reshape reorders the points when the coordinates are held in {lab}", {"op": "reshape_layout", "shape": list(sh), "layout": lab}, {"kind": "grid_order"})
        # results belong to the caller
        y_, p__, r_ = (float(v) for v in rng.uniform(-3, 3, size=3))
        fixtures.check_fresh(ctx, "rotation_matrix_ypr", lambda: g.rotation_matrix_ypr(y_, p__, r_), {"op": "fresh", "fn": "rotation_matrix_ypr", "ypr": [y_, p__, r_]})
        for nm_ in ("rotation_matrix_x", "rotation_matrix_y", "rotation_matrix_z"):
            fixtures.check_fresh(ctx, nm_, lambda nm_=nm_: getattr(g, nm_)(y_), {"op": "fresh", "fn": nm_, "angle": y_})
        fixtures.check_fresh(ctx, "distance_pairwise", lambda: g.distance_pairwise(p1, p2))
        fixtures.check_fresh(ctx, "to_gcs", lambda: g.to_gcs(c.copy(), B, o))
        fixtures.check_fresh(ctx, "from_gcs", lambda: g.from_gcs(c.copy(), B, o))
        fixtures.check_fresh(ctx, "CoordinateSystem.convert_from_gcs", lambda: cs_.convert_from_gcs(pg).coords)
        fixtures.check_fresh(ctx, "CoordinateSystem.basis_matrix", lambda: cs_.basis_matrix)
        fixtures.check_fresh(ctx, "points_1d_wall_z", lambda: g.points_1d_wall_z(-1.0, 1.0, 0.5, 4).points.coords)
        fixtures.check_fresh(ctx, "default_orientations", lambda: g.default_orientations(pg).coords)
        # grid accessors
        d = float(rng.uniform(0.1, 1.0))
        grid = g.Grid(0.0, float(rng.uniform(1, 3)), 0.0, 0.0, -1.0, float(rng.uniform(0.5, 2)), d)
        with warnings.catch_warnings():
            warnings.simplefilter("ignore")
            ap = grid.as_points
        t1 = grid.to_1d_points()
        op_ = grid.to_oriented_points()
        if not (np.array_equal(ap.coords, t1.coords) and np.array_equal(op_.points.coords, t1.coords)):
            ctx.violate("Grid.as_points / to_oriented_points do not enumerate the grid as to_1d_points does", {"op": "grid_accessors"}, {"kind": "grid_order"})
        if not (np.array_equal(op_.orientations.coords, np.broadcast_to(np.eye(3), (grid.numpoints, 3, 3)))):
            ctx.violate("Grid.to_oriented_points does not carry the global axes", {"op": "grid_accessors"}, {"kind": "grid_order"})
        # (Grid.to_1d_points is a *view* of the grid's own coordinates by design: an accessor of object state, not a function
        #  result; it is not subjected to the fresh-result check — doing so was a false alarm of the first version)
        for nm, vect in (("dx", grid.xvect), ("dy", grid.yvect), ("dz", grid.zvect)):
            want = None if len(vect) < 2 else vect[1] - vect[0]
            if getattr(grid, nm) != want:
                ctx.violate(f"Grid.{nm} is not the spacing of its axis (None for a degenerate axis)", {"op": "grid_accessors", "which": nm}, {"kind": "grid_spacing"})


def run(ctx):
    ctx.rule = ("random orthonormal frames (products of three rotations), origins and points over 5 decades, 0-d/1-d/2-d point arrays with per-point bases; "
                "yaw/pitch/roll over two turns incl. right angles; isometries between random frames; spherical coordinates incl. the poles and the -x axis; "
                "grids with random extents/pixels, exact multiples and half multiples of the pixel, degenerate axes, per-axis pixels; every subset of the six box bounds; "
                "distinct = distinct input; all cases exercise a non-default branch")
    check_conversions(ctx)
    check_cs_histories(ctx)
    check_rotations(ctx)
    check_grids(ctx)
    check_distances(ctx)
    check_wrappers(ctx)
    ctx.assumptions += ["einsum / matmul summation order is unspecified: conversions are compared within 32-64 ulp of the operand magnitude, grid vectors / box selection / distances bit for bit"]


def search(ctx):
    ctx.oracle_only = True
    ctx.rng = np.random.Generator(np.random.PCG64(ctx.seed + 7919))
    old = ctx.scale
    ctx.scale = max(3, 2 * old)
    try:
        run(ctx)
    finally:
        ctx.scale = old
