"""C18 — views and paths mean what their names say; unique views are reciprocity classes.

Translation + correspondence: on every run the views that `make_views` really returns for
immersion and contact set-ups (0-2 reflections, with/without walls, unique on/off) are written
to lean/ArimProofs/Generated/C18Table.lean; the kernel re-checks `wired_ok : every entry is
wellWired` (by `decide`) against the Lean model of the wiring.  The driver's `viewnames`,
`recip`, `pathspec` are compared exactly with arim.ut / make_paths / Path.reverse.
Oracle: the wiring rules, reciprocity-class rule and reverse-twice rule re-stated in Python.
"""
import itertools

import numpy as np

from common import LEAN

SETUPS = [("i", None)] + [("c" + "".join("1" if b else "0" for b in bits), bits) for bits in itertools.product([True, False], repeat=3)]


def build(setup):
    """real objects for one set-up; returns (module, exam object, probe op, grid op, refs)"""
    import arim
    import arim.geometry as g
    import arim.models.block_in_contact as bic
    import arim.models.block_in_immersion as bim

    couplant = arim.Material(1480.0, density=1000.0, state_of_matter="liquid", metadata={"long_name": "couplant"})
    block = arim.Material(6320.0, 3130.0, density=2700.0, state_of_matter="solid", metadata={"long_name": "block"})
    under = arim.Material(340.0, density=1.2, state_of_matter="liquid", metadata={"long_name": "under"})
    probe = arim.Probe.make_matrix_probe(3, 1e-3, 1, np.nan, 5e6)
    probe.set_reference_element("first")
    probe.translate([0, 0, -5e-3])
    probe_op = probe.to_oriented_points()
    front = g.points_1d_wall_z(-5e-3, 5e-3, 0.0, 5, name="Frontwall")
    back = g.points_1d_wall_z(-5e-3, 5e-3, 10e-3, 5, name="Backwall")
    grid_op = g.default_oriented_points(g.Points(np.array([[0.0, 0.0, 5e-3], [1e-3, 0.0, 5e-3]]), "Grid"))
    code, bits = setup
    if code == "i":
        exo = arim.BlockInImmersion(block, couplant, front, back)
        mod = bim
    else:
        bw, fw, un = bits
        exo = arim.BlockInContact(block, front if fw else None, back if bw else None, under if un else None)
        mod = bic
    refs = {"pts": {id(probe_op.points): "probe", id(front.points): "frontwall", id(back.points): "backwall", id(grid_op.points): "grid"},
            "mat": {id(couplant): "couplant", id(block): "block", id(under): "under"}}
    return mod, exo, probe_op, grid_op, refs


def ob(v):
    return "N" if v is None else ("T" if v else "F")


def iface_str(i, refs):
    return ":".join([refs["pts"].get(id(i.points), "?"), "N" if i.kind is None else i.kind.name,
                     "N" if i.transmission_reflection is None else i.transmission_reflection.name,
                     "N" if i.reflection_against is None else refs["mat"].get(id(i.reflection_against), "?"),
                     ob(i.are_normals_on_inc_rays_side), ob(i.are_normals_on_out_rays_side)])


def path_str(p, refs):
    return "|".join([p.name, "".join(m.key() for m in p.modes), ",".join(refs["mat"].get(id(m), "?") for m in p.materials),
                     ";".join(iface_str(i, refs) for i in p.interfaces)])


def all_views():
    """[(setup code, max reflections, unique flag, OrderedDict of views or exception name, refs)]"""
    out = []
    for setup in SETUPS:
        mod, exo, probe_op, grid_op, refs = build(setup)
        for nrefl in (0, 1, 2):
            for uniq in (False, True):
                try:
                    views = mod.make_views(exo, probe_op, grid_op, max_number_of_reflection=nrefl, tfm_unique_only=uniq)
                except ValueError as e:
                    views = "ValueError"
                out.append((setup[0], nrefl, uniq, views, refs))
    return out


# ------------------------------------------------------------------------------------------
# translator: implementation output -> Lean table
# ------------------------------------------------------------------------------------------
def lean_word(s):
    return "[" + ", ".join(f"'{c}'" for c in s) + "]"


def lean_iface(s):
    pts, kind, tr, ag, inc, out = s.split(":")
    k = {"N": "none", "fluid_solid": "some .fluidSolid", "solid_fluid": "some .solidFluid"}.get(kind, "BAD")
    t = {"N": "none", "transmission": "some .transmission", "reflection": "some .reflection"}.get(tr, "BAD")
    a = {"N": "none", "couplant": "some .couplant", "block": "some .block", "under": "some .under"}.get(ag, "BAD")
    b = {"N": "none", "T": "some true", "F": "some false"}
    return f"⟨.{pts}, {k}, {t}, {a}, {b[inc]}, {b[out]}⟩"


def lean_path(ps):
    name, modes, mats, ifs = ps.split("|")
    return (f"⟨{lean_word(name)}, [{', '.join(lean_iface(i) for i in ifs.split(';'))}], "
            f"[{', '.join('.' + m for m in mats.split(','))}], {lean_word(modes)}⟩")


def lean_setup(code):
    if code == "i":
        return ".immersion"
    return ".contact " + " ".join("true" if c == "1" else "false" for c in code[1:])


def write_table(views_all):
    seen, entries = set(), []
    for code, nrefl, uniq, views, refs in views_all:
        if isinstance(views, str):
            continue
        for name, v in views.items():
            key = (code, name, path_str(v.tx_path, refs), path_str(v.rx_path, refs), v.scat_key())
            if key in seen:
                continue
            seen.add(key)
            entries.append(key)
    lines = ["import ArimModel.Views", "/-! GENERATED on every run by harness/c18.py from what `make_views` returns in /repo. Do not edit. -/",
             "namespace Arim.C18Gen", "open Arim.Views", ""]
    chunk = 40
    names = []
    for k in range(0, len(entries), chunk):
        nm = f"table{k // chunk}"
        names.append(nm)
        lines.append(f"def {nm} : List ViewEntry := [")
        body = []
        for code, name, tx, rx, sk in entries[k:k + chunk]:
            xw, yw = name.split("-")
            body.append(f"  ⟨{lean_setup(code)}, {lean_word(xw)}, {lean_word(yw)}, {lean_path(tx)}, {lean_path(rx)}, {lean_word(sk)}⟩")
        lines.append(",\n".join(body))
        lines.append("]")
        lines.append(f"theorem {nm}_ok : {nm}.all wellWired = true := by decide")
        lines.append("")
    lines.append("def table : List ViewEntry := " + (" ++ ".join(names) if names else "[]"))
    lines.append("theorem table_ok : table.all wellWired = true := by")
    lines.append("  simp only [table, List.all_append, Bool.and_eq_true]")
    lines.append("  exact " + ("⟨" * (len(names) - 1)) + (", ".join((f"{n}_ok" + ("⟩" if k > 0 else "")) for k, n in enumerate(names))) if len(names) > 1 else ("  exact " + names[0] + "_ok" if names else "  rfl"))
    lines.append("end Arim.C18Gen")
    d = LEAN / "ArimProofs" / "Generated"
    d.mkdir(exist_ok=True)
    txt = "\n".join(lines) + "\n"
    f = d / "C18Table.lean"
    if not f.exists() or f.read_text() != txt:
        f.write_text(txt)
    return entries, names


_cache = {}


def pre_build():
    """called by run.py before `lake build ArimProofs.C18`"""
    va = all_views()
    entries, names = write_table(va)
    _cache["views"], _cache["entries"], _cache["tables"] = va, entries, names


# ------------------------------------------------------------------------------------------
def closed_name_sets(rng, n):
    words = ["".join(w) for k in (1, 2, 3) for w in itertools.product("LT", repeat=k)]
    fams = [["L", "T"], ["L", "T", "LL", "LT", "TL", "TT"], words, ["L"], ["T", "LL"], ["LT", "TL"], ["LLT", "TLL", "T"]]
    out = [list(f) for f in fams]
    while len(out) < n:
        k = int(rng.integers(1, 5))
        pick = [words[i] for i in rng.permutation(len(words))[:k]]
        s = []
        for w in pick:
            for x in (w, w[::-1]):
                if x not in s:
                    s.append(x)
        out.append([s[i] for i in rng.permutation(len(s))])
    return out


def check_viewnames(ctx):
    from arim import ut

    rng = ctx.rng
    sets = closed_name_sets(rng, 60 * ctx.scale)
    lines = [f"viewnames {','.join(s)} {u}" for s in sets for u in (0, 1)]
    answers = ctx.drive(lines) if ctx.lean.driver_ok and not ctx.oracle_only else [None] * len(lines)
    k = 0
    for s in sets:
        for u in (0, 1):
            got = ut.make_viewnames(s, tfm_unique_only=bool(u))
            gs = ",".join(f"{a}-{b}" for a, b in got)
            cj = {"op": "make_viewnames", "names": s, "unique": bool(u)}
            ctx.case(("vn", tuple(s), u), len(s) >= 2, sample=cj if len(s) in (3, 4) else None)
            a = answers[k]
            k += 1
            if a is not None and a[3:] != gs:
                ctx.disagree(f"make_viewnames({s},{u}) = {gs}, model {a}", cj)
            # oracle
            allp = [(x, y) for x in s for y in s]
            key = lambda v: (len(v[0]) + len(v[1]), max(len(v[0]), len(v[1])), len(v[1]), len(v[0]), v[0], v[1])
            if not u:
                if sorted(got) != sorted(allp) or got != sorted(allp, key=key):
                    ctx.violate("make_viewnames: not all n^2 ordered pairs exactly once in the documented order", cj, {"kind": "viewnames"})
            else:
                full = sorted(allp, key=key)
                rec = lambda v: (v[1][::-1], v[0][::-1])
                want = [v for v in full if full.index(v) <= full.index(rec(v))]
                if got != want:
                    ctx.violate("unique views are not exactly the first member of every {view, reciprocal view} class", cj, {"kind": "unique"})
    # an empty selection of paths has no views (with and without the reciprocity filter); the filter accepts any iterable
    for u in (False, True):
        ctx.case(("vn_empty", u), True)
        try:
            got0 = ut.make_viewnames([], tfm_unique_only=u)
        except Exception as e:
            got0 = e
        if not (isinstance(got0, list) and got0 == []):
            ctx.violate(f"make_viewnames([], tfm_unique_only={u}) gives {got0!r} instead of no view", {"op": "make_viewnames", "names": [], "unique": u}, {"kind": "viewnames_empty"})
    for s_ in sets[:6]:
        full_ = ut.make_viewnames(s_, tfm_unique_only=False)
        try:
            via_iter = ut.filter_unique_views(iter(list(full_)))
        except Exception as e:
            via_iter = e
        ctx.case(("vn_iter", tuple(s_)), True)
        if via_iter != ut.filter_unique_views(list(full_)) or via_iter != ut.make_viewnames(s_, tfm_unique_only=True):
            ctx.violate("filter_unique_views gives another answer for a one-shot iterator over the views than for the list of the same views",
                        {"op": "filter_unique_views", "names": s_}, {"kind": "unique_iterable"})
    for v in ["L-LT", "TL-L", "LLT-T", "T-T", "LT-TL"]:
        tx, rx = v.split("-")
        ctx.case(("recip", v), True)
        r = ut.reciprocal_viewname(v)
        if r != rx[::-1] + "-" + tx[::-1] or ut.reciprocal_viewname(r) != v:
            ctx.violate("reciprocal_viewname is not the reversed-swapped name / not an involution", {"op": "recip", "v": v}, {"kind": "recip"})
        if ctx.lean.driver_ok and not ctx.oracle_only:
            if ctx.drive([f"recip {v}"])[0] != "ok " + r:
                ctx.disagree(f"recip {v}", {"op": "recip", "v": v})


def check_paths(ctx):
    words = ["".join(w) for k in (1, 2, 3) for w in itertools.product("LT", repeat=k)]
    for setup in SETUPS:
        mod, exo, probe_op, grid_op, refs = build(setup)
        code = setup[0]
        if code == "i":
            ifs = mod.make_interfaces(exo.couplant_material, probe_op, exo.frontwall, exo.backwall, grid_op)
        else:
            ifs = mod.make_interfaces(probe_op, grid_op, frontwall=exo.frontwall, backwall=exo.backwall, under_material=exo.under_material)
        paths = {}
        for nrefl in (2, 1, 0):
            try:
                paths = mod.make_paths(exo.material, exo.couplant_material, ifs, nrefl) if code == "i" else mod.make_paths(exo.material, ifs, nrefl)
                break
            except ValueError:
                continue
        if paths:
            check_rays_roundtrip(ctx, paths, code + ":" + "".join(str(int(b)) for b in (setup[1] or ())) if len(setup) > 1 and setup[1] else code)
        lines = [f"pathspec {code} {w}" for w in words]
        answers = ctx.drive(lines) if ctx.lean.driver_ok and not ctx.oracle_only else [None] * len(words)
        for w, a in zip(words, answers):
            cj = {"op": "path", "setup": code, "word": w}
            ctx.case(("path", code, w), w in paths, sample=cj if len(w) == 3 and w in paths else None)
            if w not in paths:
                if a is not None and a != "ok none":
                    ctx.disagree(f"model builds path {w} for set-up {code}, arim does not", cj)
                continue
            p = paths[w]
            # the contact model cannot reverse an unspecified interface kind; immersion can
            try:
                r = p.reverse()
                rr = r.reverse()
                strs = [path_str(p, refs), path_str(r, refs), path_str(rr, refs)]
            except ValueError:
                strs = [path_str(p, refs), "err", "err"]
                r = rr = None
            if a is not None and a[3:].split(" ") != strs:
                ctx.disagree(f"path {w} ({code}): arim {strs} model {a}", cj)
            # oracle: modes follow the name; reverse twice is the identity
            modes = "".join(m.key() for m in p.modes)
            if modes != (("L" + w) if code == "i" else w) or p.name != w:
                ctx.violate(f"path {w} ({code}) carries modes {modes}", cj, {"kind": "path_modes"})
            if rr is not None and strs[2] != strs[0]:
                ctx.violate(f"reversing path {w} twice does not give back the path", cj, {"kind": "reverse_twice"})
            if r is not None:
                ok = (list(r.modes) == list(p.modes)[::-1] and list(r.materials) == list(p.materials)[::-1]
                      and [id(i.points) for i in r.interfaces] == [id(i.points) for i in p.interfaces][::-1]
                      and all(a_.are_normals_on_inc_rays_side == b_.are_normals_on_out_rays_side and a_.are_normals_on_out_rays_side == b_.are_normals_on_inc_rays_side
                              for a_, b_ in zip(r.interfaces, list(p.interfaces)[::-1])))
                if not ok:
                    ctx.violate(f"Path.reverse of {w} ({code}) is not the reversed path", cj, {"kind": "reverse"})
            # oracle from the geometry (independent of the Lean table): the declared normal side of every interface is the
            # side the wall's normal really points to, seen from the previous / next interface of the path; a wall is crossed
            # in transmission exactly when the medium changes
            centre = lambda i_: i_.points.coords.mean(axis=0)
            normal = lambda i_: i_.orientations.coords.reshape(-1, 3, 3)[0, 2]
            for k, itf in enumerate(p.interfaces):
                if not (0 < k < len(p.interfaces) - 1):
                    continue   # the probe and the grid are not walls: their flags carry no physical meaning (no coefficient is computed there)
                if k > 0:
                    want_inc = bool(normal(itf) @ (centre(p.interfaces[k - 1]) - centre(itf)) > 0)
                    if itf.are_normals_on_inc_rays_side is not None and itf.are_normals_on_inc_rays_side != want_inc:
                        ctx.violate(f"path {w} ({code}), interface {k}: are_normals_on_inc_rays_side={itf.are_normals_on_inc_rays_side} but the incoming rays "
                                    f"come from the {'normal' if want_inc else 'opposite'} side", cj, {"kind": "normal_side"})
                if k < len(p.interfaces) - 1:
                    want_out = bool(normal(itf) @ (centre(p.interfaces[k + 1]) - centre(itf)) > 0)
                    if itf.are_normals_on_out_rays_side is not None and itf.are_normals_on_out_rays_side != want_out:
                        ctx.violate(f"path {w} ({code}), interface {k}: are_normals_on_out_rays_side={itf.are_normals_on_out_rays_side} but the outgoing rays "
                                    f"leave on the {'normal' if want_out else 'opposite'} side", cj, {"kind": "normal_side"})
                if 0 < k < len(p.interfaces) - 1:
                    if itf.are_normals_on_inc_rays_side is None or itf.are_normals_on_out_rays_side is None:
                        ctx.violate(f"path {w} ({code}), interface {k}: an interior interface has an undeclared normal side", cj, {"kind": "normal_side"})
                    crosses = p.materials[k - 1] is not p.materials[k]
                    tr = itf.transmission_reflection.name if itf.transmission_reflection is not None else None
                    if tr is not None and tr != ("transmission" if crosses else "reflection"):
                        ctx.violate(f"path {w} ({code}), interface {k}: declared {tr} although the medium {'changes' if crosses else 'does not change'}", cj, {"kind": "trans_refl"})


def check_rays_roundtrip(ctx, paths, code):
    """'reversing a path twice gives back the same ... rays': on real (small) geometry, also when the path was already
    reversed once before it was traced, and when it is traced a second time"""
    import arim.ray as ray

    def rev(p_):
        try:
            return p_.reverse()
        except ValueError:
            return None    # contact paths with an unspecified interface kind cannot be reversed

    early = {w: rev(p_) for w, p_ in paths.items()}            # reversed before any ray exists
    for rnd in range(2):
        ray.ray_tracing_for_paths(list(paths.values()), convert_to_fortran_order=bool(rnd))
        for w, p_ in paths.items():
            cj = {"op": "reverse_rays", "setup": code, "word": w, "round": rnd}
            r = rev(p_)
            if r is None:
                continue
            rr = rev(r)
            ctx.case(("revrays", code, w, rnd), True)
            t, ix = p_.rays.times, p_.rays.indices
            if r.rays is None or rr is None or rr.rays is None:
                ctx.violate(f"path {w} ({code}): the path is traced but its reversal (or double reversal) carries no rays "
                            f"(a reversal of the same path was requested before tracing; round {rnd})", cj, {"kind": "reverse_rays"})
                continue
            ok1 = np.array_equal(r.rays.times, t.T) and np.array_equal(r.rays.indices, np.swapaxes(ix[::-1], 1, 2))
            ok2 = np.array_equal(rr.rays.times, t) and np.array_equal(rr.rays.indices, ix)
            if not ok1:
                ctx.violate(f"path {w} ({code}): the rays of the reversed path are not the same rays travelled backwards (times transposed, points in reverse order)", cj, {"kind": "reverse_rays"})
            if not ok2:
                ctx.violate(f"path {w} ({code}): reversing twice does not give back the same rays", cj, {"kind": "reverse_rays"})
            if [id(i.points) for i in rr.interfaces] != [id(i.points) for i in p_.interfaces] or list(rr.modes) != list(p_.modes) or list(rr.materials) != list(p_.materials):
                ctx.violate(f"path {w} ({code}): reversing twice does not give back the same interfaces / modes / materials", cj, {"kind": "reverse_twice"})
    for p_ in paths.values():
        p_.rays = None


def check_views(ctx):
    """wiring rules on the implementation's views dict (independent of the Lean table)"""
    va = _cache.get("views") or all_views()
    for code, nrefl, uniq, views, refs in va:
        cj = {"op": "make_views", "setup": code, "max_reflections": nrefl, "unique": uniq}
        if isinstance(views, str):
            ctx.case(("views", code, nrefl, uniq, "err"), False)
            needs = (nrefl >= 1 and code[1:2] == "0") or (nrefl >= 2 and code[2:3] == "0")
            if code == "i" or not needs:
                ctx.violate("make_views refuses a set-up that has the needed walls", cj, {"kind": "views_err"})
            continue
        names = list(views)
        ctx.case(("views", code, nrefl, uniq), True, sample={**cj, "views": names} if nrefl == 1 and uniq else None)
        npaths = {0: 2, 1: 6, 2: 14}[nrefl]
        if not uniq and (len(names) != npaths ** 2 or len(set(names)) != len(names)):
            ctx.violate(f"{len(names)} views for {npaths} paths", cj, {"kind": "views_count"})
        if uniq and len(names) != npaths * (npaths + 1) // 2:
            ctx.violate(f"{len(names)} unique views for {npaths} paths", cj, {"kind": "views_count"})
        for name, v in views.items():
            x, y = name.split("-")
            pre = "L" if code == "i" else ""
            txm, rxm = "".join(m.key() for m in v.tx_path.modes), "".join(m.key() for m in v.rx_path.modes)
            ok = v.name == name and txm == pre + x and rxm == pre + y[::-1] and v.scat_key() == x[-1] + y[0]
            walls = lambda p: [refs["pts"].get(id(i.points)) for i in p.interfaces]
            seq = {1: [], 2: ["backwall"], 3: ["backwall", "frontwall"]}
            head = ["probe", "frontwall"] if code == "i" else ["probe"]
            ok = ok and walls(v.tx_path) == head + seq[len(x)] + ["grid"] and walls(v.rx_path) == head + seq[len(y)] + ["grid"]
            # every interface of both paths: point set, kind, transmission/reflection flag, material reflected against, normal sides
            un = code[3:4] == "1"
            spec = {"probe": "probe:N:N:N:N:T", "grid": "grid:N:N:N:T:N"}
            if code == "i":
                chain = ["frontwall:fluid_solid:transmission:N:F:T", "backwall:solid_fluid:reflection:couplant:F:F", "frontwall:solid_fluid:reflection:couplant:T:T"]
            else:
                chain = ["backwall:solid_fluid:reflection:under:F:F" if un else "backwall:N:N:N:F:F", "frontwall:N:N:N:T:T"]
            for p_, w_ in ((v.tx_path, x), (v.rx_path, y)):
                nint = len(w_) if code == "i" else len(w_) - 1
                want_if = [spec["probe"]] + chain[:nint] + [spec["grid"]]
                got_if = [iface_str(i, refs) for i in p_.interfaces]
                if ok and got_if != want_if:
                    ok = False
                    ctx.violate(f"view {name} ({code}): path {p_.name} has interfaces {got_if}, documented {want_if}", {**cj, "view": name}, {"kind": "wiring_interfaces"})
                    break
            else:
                if not ok:
                    ctx.violate(f"view {name} ({code}) is mis-wired: tx modes {txm}, rx modes {rxm}, scat key {v.scat_key()}", {**cj, "view": name}, {"kind": "wiring"})


def check_views_from_paths(ctx):
    """`make_views_from_paths` is the shared door of both models: the views of ANY dictionary of paths (any subset closed
    under reversal, keys in any order) are the ordered pairs in the documented order (unique: the first of every
    {view, reciprocal view} class), view X-Y being wired to paths[X] for transmit and paths[reverse(Y)] for receive."""
    from arim.models import helpers as mh

    rng = ctx.rng
    key = lambda v: (len(v[0]) + len(v[1]), max(len(v[0]), len(v[1])), len(v[1]), len(v[0]), v[0], v[1])
    for setup in (SETUPS[0], SETUPS[1]):
        mod, exo, probe_op, grid_op, refs = build(setup)
        made = mod.make_views(exo, probe_op, grid_op, max_number_of_reflection=2, tfm_unique_only=False)
        paths = {}
        for nm, v in made.items():
            paths.setdefault(nm.split("-")[0], v.tx_path)
        names_all = list(paths)
        for trial in range(6 * ctx.scale):
            order = ["reversed", "shuffled", "subset_shuffled", "as_made"][trial % 4]
            if order == "reversed":
                names = names_all[::-1]
            elif order == "as_made":
                names = list(names_all)
            else:
                names = list(names_all)
                if order == "subset_shuffled":
                    k = int(rng.integers(1, 5))
                    pick = [names_all[i] for i in rng.permutation(len(names_all))[:k]]
                    names = []
                    for w in pick:
                        for x in (w, w[::-1]):
                            if x not in names:
                                names.append(x)
                names = [names[i] for i in rng.permutation(len(names))]
            pd = {n_: paths[n_] for n_ in names}
            for uniq in (False, True):
                cj = {"op": "make_views_from_paths", "setup": setup[0], "path_names_in_dict_order": names, "unique": uniq}
                ctx.case(("vfp", setup[0], tuple(names), uniq), len(names) >= 2)
                ctx.count("views_from_paths:" + order)
                try:
                    views = mh.make_views_from_paths(pd, tfm_unique_only=uniq)
                except Exception as e:
                    ctx.violate(f"make_views_from_paths raised {type(e).__name__}: {str(e)[:80]}", cj, {"kind": "views_from_paths"})
                    continue
                full = sorted([(x, y) for x in names for y in names], key=key)
                if uniq:
                    rec = lambda v: (v[1][::-1], v[0][::-1])
                    full = [v for v in full if full.index(v) <= full.index(rec(v))]
                want = [f"{x}-{y}" for x, y in full]
                if list(views) != want:
                    ctx.violate(f"make_views_from_paths: views {list(views)[:8]}... are not the documented ones in the documented order {want[:8]}... "
                                f"(paths given in the order {names})", cj, {"kind": "views_from_paths"})
                    continue
                for nm, v in views.items():
                    x, y = nm.split("-")
                    if v.name != nm or v.tx_path is not paths[x] or v.rx_path is not paths[y[::-1]]:
                        ctx.violate(f"make_views_from_paths: view {nm} is not wired to paths[{x}] / paths[{y[::-1]}]", {**cj, "view": nm}, {"kind": "views_from_paths"})
                        break


def run(ctx):
    ctx.rule = ("all 9 set-ups (immersion; contact x backwall/frontwall/under-material) x 0-2 reflections x unique on/off for the wiring table "
                "(exhaustive); make_viewnames on the canonical families + random name sets closed under reversal over L/T words of length <= 3; "
                "all 14 words x 9 set-ups for paths and their reversal")
    if "views" not in _cache:
        pre_build()
    n = len(_cache["entries"])
    ctx.notes.append(f"generated table: {n} distinct view entries in {len(_cache['tables'])} chunks, each discharged by `decide` in the kernel on this run")
    check_views(ctx)
    check_views_from_paths(ctx)
    check_viewnames(ctx)
    check_paths(ctx)


def search(ctx):
    ctx.oracle_only = True
    ctx.rng = np.random.Generator(np.random.PCG64(ctx.seed + 7919))
    old = ctx.scale
    ctx.scale = max(3, 2 * old)
    try:
        run(ctx)
    finally:
        ctx.scale = old
