"""C05 — ray geometry: leg lengths, travel time and angle conventions are as documented.

Correspondence: Lean `Arim.RayGeom` (one ray: leg sizes, local Cartesian legs, radius, polar,
azimuth, signed and conventional angles, reversal, travel time) evaluated on Float vs the query
methods of `arim.ray.RayGeometry` on ray-traced paths with random 3-D points and random
orthonormal frames; leg sizes and travel time bit for bit, einsum-based quantities within a few
ulp, sign decisions exactly (away from a 1e-9 band around the azimuth boundaries; boundary
values come from a separate stream with identity frames).
Oracle: the documented rules re-stated in Python.
"""
import numpy as np

import fixtures
from common import b2f, fl, fmat


def flagc(v):
    return "N" if v is None else ("T" if v else "F")


def parse_leg(s):
    if s == "N":
        return None
    toks = s.split(",")
    vals = [b2f(x) for x in toks[:8]]
    conv = None if toks[8] == "E" else b2f(toks[8])
    return dict(size=vals[0], cart=np.array(vals[1:4]), radius=vals[4], polar=vals[5], azimuth=vals[6], signed=vals[7], conv=conv, conv_err=toks[8] == "E")


def impl_leg(rg, which, k, i, j):
    """all quantities of the incoming / outgoing leg at interface k for ray (i, j); None if absent"""
    def q(name):
        try:
            v = getattr(rg, name)(k)
        except ValueError:
            return "E"
        return v
    cart = q(f"{which}_leg_cartesian")
    if cart is None:
        return None
    conv = q(f"conventional_{which}_angle")
    out = dict(cart=cart.coords[i, j], radius=q(f"{which}_leg_radius")[i, j], polar=q(f"{which}_leg_polar")[i, j], azimuth=q(f"{which}_leg_azimuth")[i, j],
               signed=q(f"signed_{which}_angle")[i, j], angle=q(f"{which}_angle")[i, j], conv=None if isinstance(conv, str) else conv[i, j], conv_err=isinstance(conv, str))
    if which == "inc":
        out["size"] = rg.inc_leg_size(k)[i, j]
    return out


def oracle_leg(here, frame, other, side):
    """documented rule: polar angle of the leg in the local frame; azimuth; signed; conventional"""
    d = other - here
    x, y, z = frame[0] @ d, frame[1] @ d, frame[2] @ d
    r = np.sqrt(x * x + y * y + z * z)
    theta = np.arccos(np.clip(z / r, -1, 1))
    phi = np.arctan2(y, x)
    signed = theta if (-np.pi / 2 < phi <= np.pi / 2) else -theta
    conv = None if side is None else (theta if side else np.pi - theta)
    return dict(size=np.linalg.norm(d), theta=theta, phi=phi, signed=signed, conv=conv)


def angle_close(a, b, tol=2e-7):
    return abs(a - b) <= tol


def check_ray(ctx, path, rg, i, j, answer, cj, boundary=False):
    n = path.numinterfaces
    idx = path.rays.indices[:, i, j]
    pts = [path.interfaces[k].points.coords[idx[k]] for k in range(n)]
    frs = [path.interfaces[k].orientations.coords[idx[k]] for k in range(n)]
    scale = max(np.abs(p).max() for p in pts) + 1e-300
    model = None
    if answer is not None:
        if not answer.startswith("ok "):
            ctx.disagree("model rejected the ray", cj)
        else:
            body, tt, rev = answer[3:].split("|")
            model = [tuple(parse_leg(x) for x in t.split("/")) for t in body.split(";")]
            mt = None if tt == "N" else b2f(tt)
            t_impl = float(path.rays.times[i, j])
            if mt is None or np.float64(mt).view(np.uint64) != np.float64(t_impl).view(np.uint64):
                ctx.disagree(f"travel time {t_impl!r} differs from the model's sum of leg times {mt!r} (bitwise)", cj)
    vel = path.velocities
    # ---- oracle: leg sizes add up to the travel time
    tsum = None
    for k in range(1, n):
        size = float(rg.inc_leg_size(k)[i, j])
        if abs(size - np.linalg.norm(pts[k] - pts[k - 1])) > 8 * np.finfo(float).eps * scale:
            ctx.violate(f"inc_leg_size({k}) is not the distance between consecutive ray points", cj, {"kind": "leg_size"})
        tsum = size / vel[k - 1] if tsum is None else tsum + size / vel[k - 1]
    if abs(tsum - path.rays.times[i, j]) > 4 * n * np.finfo(float).eps * abs(tsum):
        ctx.violate("leg lengths divided by velocities do not add up to the travel time", cj, {"kind": "travel_time"})
    if not np.array_equal(rg.leg_points(0).coords[i, j], pts[0]) or not np.array_equal(rg.leg_points(-1).coords[i, j], pts[-1]):
        ctx.violate("leg_points are not the ray points", cj, {"kind": "leg_points"})
    for k in range(n):
        for which in ("inc", "out"):
            got = impl_leg(rg, which, k, i, j)
            other_k = k - 1 if which == "inc" else k + 1
            if not (0 <= other_k < n):
                if got is not None:
                    ctx.violate(f"{which} leg reported at interface {k} where none exists", cj, {"kind": "none"})
                if model is not None and model[k][0 if which == "inc" else 1] is not None:
                    ctx.disagree(f"model reports a {which} leg at interface {k}", cj)
                continue
            iface = path.interfaces[k]
            side = iface.are_normals_on_inc_rays_side if which == "inc" else iface.are_normals_on_out_rays_side
            want = oracle_leg(pts[k], frs[k], pts[other_k], side)
            tags = {"kind": "angle", "which": which}
            if got is None:
                ctx.violate(f"{which} leg missing at interface {k}", cj, tags)
                continue
            # generic frames: skip sign decisions within 1e-9 of the azimuth boundaries (einsum rounding decides them);
            # boundary stream (identity frames, exactly representable legs): the decision is exact and is checked
            near_boundary = (not boundary) and min(abs(abs(want["phi"]) - np.pi / 2), 10) < 1e-9
            # a leg within 1e-6 rad of the local normal in a generic frame: the azimuth (and with it the sign) is decided by
            # rounding noise of the basis change, only the unsigned quantities are compared there
            near_pole = (not boundary) and min(want["theta"], np.pi - want["theta"]) < 1e-6
            near_boundary = near_boundary or near_pole
            if not (0 <= got["polar"] <= np.pi and angle_close(got["polar"], want["theta"]) and got["angle"] == got["polar"]):
                ctx.violate(f"{which}_angle({k}) = {got['polar']} is not the polar angle {want['theta']} of the leg in the local frame", cj, tags)
            if not near_pole and not angle_close(got["azimuth"], want["phi"]) and not (abs(abs(want["phi"]) - np.pi) < 1e-7 and abs(abs(got["azimuth"]) - np.pi) < 1e-7):
                ctx.violate(f"{which}_leg_azimuth({k}) = {got['azimuth']} differs from {want['phi']}", cj, tags)
            if not near_boundary and not angle_close(got["signed"], want["signed"]):
                ctx.violate(f"signed_{which}_angle({k}) = {got['signed']}: the rule (+theta iff azimuth in (-pi/2, pi/2]) gives {want['signed']} "
                            f"(theta={want['theta']}, azimuth={want['phi']})", cj, {**tags, "kind": "signed_rule"})
            if side is None:
                if not got["conv_err"]:
                    ctx.violate(f"conventional_{which}_angle({k}) does not raise although the normal side is undeclared", cj, tags)
            elif got["conv"] is None or not angle_close(got["conv"], want["conv"]):
                ctx.violate(f"conventional_{which}_angle({k}) = {got['conv']} is not {'theta' if side else 'pi - theta'} = {want['conv']}", cj, {**tags, "kind": "conventional"})
            # ---- correspondence
            if model is not None:
                m = model[k][0 if which == "inc" else 1]
                if m is None:
                    ctx.disagree(f"model has no {which} leg at interface {k}", cj)
                    continue
                ok = np.all(np.abs(m["cart"] - got["cart"]) <= 16 * np.finfo(float).eps * scale) and abs(m["radius"] - got["radius"]) <= 16 * np.finfo(float).eps * scale
                ok = ok and angle_close(m["polar"], got["polar"]) and (near_pole or angle_close(m["azimuth"], got["azimuth"]) or abs(abs(m["azimuth"]) - np.pi) < 1e-7)
                if not near_boundary:
                    ok = ok and angle_close(m["signed"], got["signed"])
                ok = ok and m["conv_err"] == got["conv_err"] and (m["conv"] is None or angle_close(m["conv"], got["conv"]))
                if which == "inc":
                    ok = ok and np.float64(m["size"]).view(np.uint64) == np.float64(got["size"]).view(np.uint64)
                if not ok:
                    ctx.disagree(f"{which} leg at interface {k} differs from the model: impl {got} model {m}", cj)


def check_reverse_and_negative(ctx, path, rg, cj):
    from arim import ray

    n = path.numinterfaces
    try:
        rev = path.reverse()
    except ValueError:
        return
    rrg = ray.RayGeometry.from_path(rev)
    for k in range(n):
        for a, b in (("inc_angle", "out_angle"), ("signed_inc_angle", "signed_out_angle"), ("inc_leg_azimuth", "out_leg_azimuth")):
            x = getattr(rg, a)(k)
            y = getattr(rrg, b)(n - 1 - k)
            if (x is None) != (y is None) or (x is not None and not np.all(np.abs(x - y.T) <= 1e-9)):
                ctx.violate(f"{a}({k}) differs from {b}({n - 1 - k}) of the reversed path", cj, {"kind": "reverse"})
        try:
            x, y = rg.conventional_inc_angle(k), rrg.conventional_out_angle(n - 1 - k)
            if (x is None) != (y is None) or (x is not None and not np.all(np.abs(x - y.T) <= 1e-9)):
                ctx.violate(f"conventional_inc_angle({k}) differs from conventional_out_angle({n - 1 - k}) of the reversed path", cj, {"kind": "reverse"})
        except ValueError:
            pass
    for name in ("leg_points", "inc_leg_size", "inc_angle", "out_angle", "signed_inc_angle", "signed_out_angle", "out_leg_radius", "inc_leg_cartesian"):
        for m in range(1, n + 1):
            fresh = ray.RayGeometry.from_path(path, use_cache=False)
            a = getattr(fresh, name)(-m)
            b = getattr(fresh, name)(n - m)
            A = None if a is None else (a.coords if hasattr(a, "coords") else a)
            B = None if b is None else (b.coords if hasattr(b, "coords") else b)
            if (A is None) != (B is None) or (A is not None and not np.array_equal(A, B)):
                ctx.violate(f"{name}({-m}) differs from {name}({n - m})", cj, {"kind": "negative_index"})


def check_from_the_end_indices(ctx, path, cj):
    """a ray index array may name an interface point from the end (NumPy's negative indices: `Rays.get_coordinates` resolves
    them that way): the same rays described with some point numbers written as `k - numpoints` have the same geometry"""
    from arim import ray

    rays = path.rays
    ix = np.array(rays.indices, copy=True)
    sizes = [len(i.points) for i in path.interfaces]
    rng = ctx.rng
    changed = False
    for q, nq in enumerate(sizes):
        mask = rng.random(ix[q].shape) < 0.5
        if mask.any():
            ix[q][mask] -= nq
            changed = True
    if not changed:
        return
    try:
        alt = ray.Rays(rays.times, ix[1:-1] if ix.shape[0] > 2 else np.zeros((0,) + ix.shape[1:], dtype=ix.dtype), rays.fermat_path)
    except Exception:
        return    # interior indices only are constructor arguments; nothing to compare if the object refuses them
    # the end rows are rebuilt by the constructor (non-negative); the interior rows carry the from-the-end numbers
    rg0, rg1 = ray.RayGeometry(path.interfaces, rays, use_cache=False), ray.RayGeometry(path.interfaces, alt, use_cache=False)
    ctx.count("from_the_end_point_indices")
    for name in ("leg_points", "inc_leg_size", "inc_angle", "signed_inc_angle", "conventional_inc_angle", "out_angle", "inc_leg_azimuth"):
        for k in range(path.numinterfaces):
            try:
                a, b = getattr(rg0, name)(k), getattr(rg1, name)(k)
            except ValueError:
                continue
            A = None if a is None else np.asarray(a.coords if hasattr(a, "coords") else a)
            B = None if b is None else np.asarray(b.coords if hasattr(b, "coords") else b)
            if (A is None) != (B is None) or (A is not None and not np.array_equal(A, B, equal_nan=True)):
                ctx.violate(f"{name}({k}) changes when interior points of the rays are numbered from the end (k - numpoints) instead of from the start", cj, {"kind": "from_the_end_indices"})
                return


def boundary_paths(rng):
    """identity frames, legs exactly on the azimuth boundaries and along the normal"""
    import arim
    import arim.geometry as g
    import arim.ray

    block = arim.Material(6320.0, 3130.0, density=2700.0, state_of_matter="solid")
    out = []
    dirs = [(0, 1, 1), (0, -1, 1), (1, 0, 1), (-1, 0, 1), (0, 0, 1), (0, 0, -1), (0, 1, 0), (0, -1, 0), (-1, 0, 0), (1, 1, 0), (-1, 1e-300, 1), (1, 2, -3), (-3, -2, 1)]
    for d in dirs:
        a = g.Points(np.zeros((1, 3)), "A")
        b = g.Points(np.array([d], dtype=float), "B")
        ia = arim.Interface(a, g.default_orientations(a), are_normals_on_out_rays_side=bool(rng.integers(0, 2)))
        ib = arim.Interface(b, g.default_orientations(b), are_normals_on_inc_rays_side=bool(rng.integers(0, 2)))
        p = arim.Path((ia, ib), (block,), ("L",), name="B")
        arim.ray.ray_tracing_for_paths([p])
        out.append(p)
    return out


def normal_incidence_paths(rng, count, near=False):
    """random orthonormal frames, legs numerically parallel to the local normal (theta = 0 or pi): the polar angle
    arccos(z / r) sits at the end of arccos' domain, where a radius that is one ulp short gives NaN"""
    import arim
    import arim.geometry as g
    import arim.ray

    block = arim.Material(6320.0, 3130.0, density=2700.0, state_of_matter="solid")
    out = []
    for _ in range(count):
        n = int(rng.integers(2, 5))
        frames = np.stack([fixtures.rot3(rng).T for _ in range(n)])
        pa = rng.normal(size=(n, 3)) * 1e-2
        sign = rng.choice([-1.0, 1.0], size=n)
        direction = sign[:, None] * frames[:, 2, :]
        if near:
            # a small but non-zero angle to the normal (1e-5 .. 8e-3 rad: a target almost under the element): the polar angle is
            # that angle, not 0 or pi
            eps = 10.0 ** rng.uniform(-5, np.log10(8e-3), size=n)
            phi = rng.uniform(-np.pi, np.pi, size=n)
            lateral = np.cos(phi)[:, None] * frames[:, 0, :] + np.sin(phi)[:, None] * frames[:, 1, :]
            direction = np.cos(eps)[:, None] * direction + np.sin(eps)[:, None] * lateral
        pb = pa + rng.uniform(1e-3, 5e-2, size=n)[:, None] * direction
        a, b = g.Points(pa, "A"), g.Points(pb, "B")
        ia = arim.Interface(a, g.Points(frames.copy(), "OA"), are_normals_on_out_rays_side=bool(rng.integers(0, 2)))
        ib = arim.Interface(b, g.Points(frames.copy(), "OB"), are_normals_on_inc_rays_side=bool(rng.integers(0, 2)))
        p = arim.Path((ia, ib), (block,), ("L",), name="N")
        arim.ray.ray_tracing_for_paths([p])
        out.append(p)
    return out


def ray_line(path, i, j):
    n = path.numinterfaces
    idx = path.rays.indices[:, i, j]
    pts = [path.interfaces[k].points.coords[idx[k]] for k in range(n)]
    frs = [path.interfaces[k].orientations.coords[idx[k]].ravel() for k in range(n)]
    inc = "".join(flagc(x.are_normals_on_inc_rays_side) for x in path.interfaces)
    out = "".join(flagc(x.are_normals_on_out_rays_side) for x in path.interfaces)
    return f"raygeom {fmat(pts)} {fmat(frs)} {inc} {out} {fl(path.velocities)}"


def check_interface_frames(ctx):
    """the local frame attached to an interface point is the frame the caller gave: one 3x3 basis for all points (rows =
    basis vectors, as `from_gcs` reads them) is attached unchanged to every point, whatever the dtype of the point
    coordinates; per-point bases are stored as given; the polar angle measured by RayGeometry is the angle to the third
    basis vector"""
    import arim
    import arim.geometry as g
    import arim.ray

    rng = ctx.rng
    block = arim.Material(6320.0, 3130.0, density=2700.0, state_of_matter="solid")
    for it in range(20 * ctx.scale):
        n = int(rng.integers(1, 5))
        B = fixtures.rot3(rng).T           # rows = i_hat, j_hat, k_hat; not symmetric
        pts_f = np.c_[rng.integers(-9, 10, size=n), rng.integers(-3, 4, size=n), rng.integers(5, 9, size=n)].astype(float)
        dt = [np.float64, np.int64, np.int32, np.float32][it % 4]
        pts = pts_f.astype(dt)
        cj = {"op": "interface_frames", "basis": B.tolist(), "points": pts_f.tolist(), "points_dtype": np.dtype(dt).name}
        ctx.case(("iframe", it), True)
        ctx.count("interface_single_basis:" + np.dtype(dt).name)
        try:
            itf = arim.Interface(g.Points(pts, "W"), g.Points(B.copy(), "O"), are_normals_on_inc_rays_side=True)
        except Exception as e:
            ctx.violate(f"Interface refuses one basis for all points ({np.dtype(dt).name} coordinates): {type(e).__name__}", cj, {"kind": "interface_frame"})
            continue
        oc = np.asarray(itf.orientations.coords, dtype=float)
        if oc.shape != (n, 3, 3) or not all(np.array_equal(oc[k], B) for k in range(n)):
            ctx.violate(f"an interface built with one basis for all points ({np.dtype(dt).name} coordinates) does not carry that basis at every point "
                        f"(stored at point 0: {oc[0].tolist() if oc.ndim == 3 else oc.tolist()})", cj, {"kind": "interface_frame"})
            continue
        # downstream: the unsigned incoming angle at that interface is the angle between the leg and the third basis vector
        src = g.Points(np.array([[0.5, -0.25, -7.0]]), "S")
        p_ = arim.Path((arim.Interface(src, g.default_orientations(src), are_normals_on_out_rays_side=True), itf), (block,), ("L",), name="P")
        arim.ray.ray_tracing_for_paths([p_])
        rg = arim.ray.RayGeometry.from_path(p_)
        ang = np.asarray(rg.inc_angle(1))[0]
        leg = src.coords[0][None, :] - pts_f
        want = np.arccos(np.clip((leg @ B[2]) / np.linalg.norm(leg, axis=1), -1, 1))
        if not np.allclose(ang, want, rtol=0, atol=1e-9):
            ctx.violate(f"the incoming angle at an interface with one basis for all points is not the angle to its third basis vector: {ang.tolist()} vs {want.tolist()}", cj, {"kind": "interface_frame"})
        per_point = np.stack([fixtures.rot3(rng).T for _ in range(n)])
        itf2 = arim.Interface(g.Points(pts, "W"), g.Points(per_point.copy(), "O"))
        if not np.array_equal(np.asarray(itf2.orientations.coords, dtype=float), per_point):
            ctx.violate("per-point bases are not stored as given", cj, {"kind": "interface_frame"})


def check_scale_invariance(ctx):
    """The same inspection drawn at another length scale (a thin film in nanometres, a large structure in metres): every point
    multiplied by s.  Leg lengths are multiplied by s; the unsigned, conventional and signed angles are unchanged."""
    import arim
    import arim.geometry as g
    from arim import ray

    rng = ctx.rng
    for it in range(6 * ctx.scale):
        n = int(rng.integers(2, 5))
        path = fixtures.generic_path(rng, n, random_frames=True, flags=None, two_d=False, sizes=[int(rng.integers(1, 3)) for _ in range(n)])
        rg = ray.RayGeometry.from_path(path)
        for s_ in (1e-6, 3e-9, 1e3):
            ifaces = [arim.Interface(g.Points(i.points.coords * s_, i.points.name), i.orientations, i.kind, i.transmission_reflection, i.reflection_against,
                                     i.are_normals_on_inc_rays_side, i.are_normals_on_out_rays_side) for i in path.interfaces]
            p2 = arim.Path(tuple(ifaces), path.materials, path.modes, name=path.name)
            ray.ray_tracing_for_paths([p2])
            ctx.case(("scale", it, s_), True)
            ctx.count(f"scaled_geometry:{s_:g}")
            if not np.array_equal(p2.rays.indices, path.rays.indices):
                continue    # a tie between two rays resolved the other way: another ray, not this clause
            rg2 = ray.RayGeometry.from_path(p2)
            cj = {"op": "scaled_geometry", "scale": s_, "numinterfaces": n, "points": [i.points.coords.tolist() for i in path.interfaces]}
            for k in range(n):
                for meth, scaled in (("inc_leg_size", True), ("inc_leg_polar", False), ("signed_inc_angle", False), ("conventional_inc_angle", False),
                                     ("out_leg_polar", False), ("signed_out_angle", False), ("conventional_out_angle", False)):
                    try:
                        a1, a2 = getattr(rg, meth)(k), getattr(rg2, meth)(k)
                    except ValueError:
                        continue
                    if a1 is None or a2 is None:
                        if (a1 is None) != (a2 is None):
                            ctx.violate(f"{meth}({k}) is None at one scale and not at the other", cj, {"kind": "scale"})
                        continue
                    want = np.asarray(a1) * (s_ if scaled else 1.0)
                    tol = 1e-9 * (np.abs(want).max() + (0 if scaled else 1.0))
                    if not np.all(np.abs(np.asarray(a2) - want) <= tol):
                        ctx.violate(f"geometry multiplied by {s_:g}: {meth}({k}) is {np.asarray(a2).ravel()[:3]} instead of {want.ravel()[:3]} "
                                    "(angles do not depend on the unit of length; lengths are proportional to it)", {**cj, "method": meth, "interface": k}, {"kind": "scale"})
                        return


def run(ctx):
    from arim import ray

    rng = ctx.rng
    ctx.rule = ("ray-traced paths with 2-5 interfaces, 1-4 points each, random 3-D positions, random orthonormal frames per point (products of three rotations), "
                "random normal-side flags (30% undeclared somewhere), every ray of each path; boundary stream with identity frames and legs exactly at azimuth +-pi/2, "
                "0, pi and along the normal; distinct = distinct ray; non-trivial = at least 3 interfaces")
    check_interface_frames(ctx)
    check_scale_invariance(ctx)
    jobs = []
    for k in range(40 * ctx.scale):
        n = int(rng.integers(2, 6))
        flags = None
        if rng.random() < 0.3:
            flags = [(None if rng.random() < 0.3 else bool(rng.integers(0, 2)), None if rng.random() < 0.3 else bool(rng.integers(0, 2))) for _ in range(n)]
        elif rng.random() < 0.5:
            flags = [(bool(rng.integers(0, 2)), bool(rng.integers(0, 2))) for _ in range(n)]
        path = fixtures.generic_path(rng, n, random_frames=True, flags=flags, two_d=bool(rng.integers(0, 2)), sizes=[int(rng.integers(1, 4)) for _ in range(n)])
        jobs.append((path, False))
    # paths traced, then changed in place (an interface moved: same Points objects, new coordinates), then traced again:
    # every clause is about the path as it is now
    for k in range(8 * ctx.scale):
        n = int(rng.integers(3, 6))
        path = fixtures.generic_path(rng, n, random_frames=True, flags=None, two_d=False, sizes=[int(rng.integers(2, 4)) for _ in range(n)])
        m_ = int(rng.integers(0, n))
        if k % 2 == 0:
            # the path was also reversed (and its reversed geometry queried) before the change
            ray.RayGeometry.from_path(path.reverse()).signed_inc_angle(1)
        path.interfaces[m_].points.coords[...] += rng.normal(size=3) * 6e-3
        if k % 2:
            ray.ray_tracing_for_paths([path])
        else:
            import arim
            ray.ray_tracing([arim.View(path, path, "v")])
        jobs.append((path, False))
        ctx.count("retraced_after_moving_an_interface")
    for p in boundary_paths(rng):
        jobs.append((p, True))
    for p in normal_incidence_paths(rng, 12 * ctx.scale):
        jobs.append((p, False))
        ctx.count("normal_incidence_random_frames")
    for p in normal_incidence_paths(rng, 12 * ctx.scale, near=True):
        jobs.append((p, False))
        ctx.count("near_normal_incidence_random_frames")
    lines, meta = [], []
    for path, boundary in jobs:
        rg = ray.RayGeometry.from_path(path)
        n0, n1 = path.rays.times.shape
        for i in range(n0):
            for j in range(n1):
                lines.append(ray_line(path, i, j))
                meta.append((path, rg, i, j, boundary))
    answers = ctx.drive(lines) if ctx.lean.driver_ok and not ctx.oracle_only else [None] * len(lines)
    seen = set()
    for (path, rg, i, j, boundary), l, a in zip(meta, lines, answers):
        cj = {"op": "raygeom", "line": l, "ray": [i, j], "boundary": boundary}
        ctx.case(l, path.numinterfaces >= 3, sample={"numinterfaces": path.numinterfaces, "ray": [i, j], "boundary": boundary} if path.numinterfaces >= 3 else None)
        ctx.count("boundary" if boundary else f"n={path.numinterfaces}")
        check_ray(ctx, path, rg, i, j, a, cj, boundary=boundary)
        if id(path) not in seen:
            seen.add(id(path))
            check_reverse_and_negative(ctx, path, rg, {"op": "reverse/negative", "numinterfaces": path.numinterfaces, "first_ray": l})
            if path.numinterfaces >= 3:
                check_from_the_end_indices(ctx, path, {"op": "from_the_end_indices", "numinterfaces": path.numinterfaces, "first_ray": l})
    ctx.assumptions.append("arccos/arctan2/sqrt are libm routines; angles compared within 2e-7 rad (arccos is ill-conditioned near 0 and pi), sign decisions exactly away from a 1e-9 band")


def search(ctx):
    ctx.oracle_only = True
    ctx.rng = np.random.Generator(np.random.PCG64(ctx.seed + 7919))
    old = ctx.scale
    ctx.scale = max(3, 2 * old)
    try:
        run(ctx)
    finally:
        ctx.scale = old
