"""C08 — model coefficients are assembled as Q_i * Q'_j * S(theta_i - a, theta_j - a).

Correspondence: Lean `Arim.Assembly` (switchable factor products, amplitude formula with
scattering functions and with matrices through the C10 bilinear kernel) on complex doubles vs
`tx_ray_weights` / `rx_ray_weights` / `model_amplitudes_factory`.
Oracle: every factor follows its law (sinc(a sin(theta)/lambda) at the probe exit angle,
exp(-sum alpha d), the C04/C06/C07 terms), switching a factor off replaces exactly that factor
by one, P_ij = Q_i Q'_j S(theta_i - a, theta_j - a) for any frame indexing / grid indexing /
scatterer rotation, functions and matrices agree, sensitivity does not depend on the chunk size.
"""
import itertools

import numpy as np

import fixtures
from common import b2f, f2b, fl, fmat, il


def cl(z):
    z = np.asarray(z, dtype=complex).ravel()
    return fl(np.stack([z.real, z.imag], axis=1).ravel())


def cmat(m):
    return ";".join(cl(r) for r in np.asarray(m, dtype=complex))


def parse_cmat(s):
    rows = []
    for r in s.split("|"):
        rows.append([complex(b2f(t.split(",")[0]), b2f(t.split(",")[1])) for t in r.split(";")])
    return np.array(rows)


def run(ctx):
    import arim.models.block_in_immersion as bim
    import arim.scat as scat
    from arim import model, ray, ut

    rng = ctx.rng
    ctx.rule = ("Snell-exact immersion set-ups (2-4 elements, tilted probe, 1-3 scatterer points, 0-1 reflections), all 16 subsets of the four use_* switches, "
                "frequency-dependent attenuation laws, asymmetric scattering functions and matrices, tx/rx lists FMC / HMC / repeated / partial / permuted, "
                "integer / slice / ellipsis grid indexing, random scatterer rotation, chunk sizes 1..n+1 and 4000; distinct = distinct request; non-trivial = all")
    lines, meta = [], []
    for rep in range(3 * ctx.scale):
        s = fixtures.immersion_exact(rng, max_reflections=1)
        views, probe, numel = s["views"], s["probe"], s["numel"]
        freq = float(rng.uniform(2e6, 8e6))
        width = float(rng.uniform(0.2e-3, 1e-3))
        paths = {v.tx_path for v in views.values()}
        for path in list(paths)[: (3 if ctx.tier == "quick" else len(paths))]:
            rg = ray.RayGeometry.from_path(path)
            with np.errstate(all="ignore"):
                lam_c = s["couplant"].longitudinal_vel / freq
                want = {"directivity": np.sinc(width / lam_c * np.sin(rg.conventional_out_angle(0))),
                        "transrefl": model.transmission_reflection_for_path(path, rg, unit="displacement"),
                        "beamspread": model.beamspread_2d_for_path(rg),
                        "attenuation": np.exp(-sum(m.attenuation(md)(freq) * rg.inc_leg_size(k) for k, (m, md) in enumerate(zip(path.materials, path.modes), start=1)))}
                rwant = dict(want, transrefl=model.reverse_transmission_reflection_for_path(path, rg, unit="displacement"), beamspread=model.reverse_beamspread_2d_for_path(rg))
                sqrt_lam = np.sqrt(s["block"].velocity(path.modes[-1]) / freq)
            for sw in itertools.product([True, False], repeat=4):
                kw = dict(use_directivity=sw[0], use_transrefl=sw[1], use_beamspread=sw[2], use_attenuation=sw[3])
                w_tx, d_tx = bim.tx_ray_weights(path, rg, freq, width, **kw)
                w_rx, d_rx = bim.rx_ray_weights(path, rg, freq, width, **kw)
                cj = {"op": "ray_weights", "path": path.name, "switches": list(sw), "frequency": freq, "width": width}
                ctx.case(("rw", rep, path.name, sw), True, sample=cj if len(ctx.samples) < 2 else None)
                ctx.count("switches")
                names = ["directivity", "transrefl", "beamspread", "attenuation"]
                for on, nm in zip(sw, names):
                    for dct, ref, side in ((d_tx, want, "tx"), (d_rx, rwant, "rx")):
                        exp = ref[nm] if on else np.ones_like(np.asarray(ref[nm]))
                        if not np.allclose(dct[nm], exp, rtol=1e-12, atol=0):
                            ctx.violate(f"{side} factor '{nm}' ({'on' if on else 'off'}) does not follow its law / is not replaced by one", cj, {"kind": "factor", "factor": nm, "side": side})
                ptx = np.prod([np.asarray(want[nm] if on else 1.0, dtype=complex) * np.ones(w_tx.shape) for on, nm in zip(sw, names)], axis=0)
                prx = np.prod([np.asarray(rwant[nm] if on else 1.0, dtype=complex) * np.ones(w_rx.shape) for on, nm in zip(sw, names)], axis=0) * sqrt_lam
                if not (np.allclose(w_tx, ptx, rtol=1e-12, atol=0) and np.allclose(w_rx, prx, rtol=1e-12, atol=0)):
                    ctx.violate("ray weights are not the product of their four factors (times sqrt(lambda) on receive)", cj, {"kind": "product"})
                e, p = int(rng.integers(0, numel)), int(rng.integers(0, w_tx.shape[1]))
                vals = [want["directivity"][e, p], want["transrefl"][e, p], want["beamspread"][e, p], want["attenuation"][e, p], rwant["transrefl"][e, p], rwant["beamspread"][e, p], sqrt_lam]
                lines.append(f"assemble {''.join('1' if b else '0' for b in sw)} {cl(vals)}")
                meta.append(("assemble", (complex(w_tx[e, p]), complex(w_rx[e, p])), cj))
        # ---- the wrapper used by the models: every switch reaches the factor it names (all 16 subsets, compared with the
        #      per-path functions called directly with the same switches)
        for sw in itertools.product([True, False], repeat=4):
            kw = dict(use_directivity=sw[0], use_transrefl=sw[1], use_beamspread=sw[2], use_attenuation=sw[3])
            try:
                rw_sw = bim.ray_weights_for_views(views, freq, probe_element_width=width, save_debug=bool(sw[0] ^ sw[3]), **kw)
            except Exception as e:
                ctx.violate(f"ray_weights_for_views raised {type(e).__name__}: {str(e)[:80]} for switches {kw}", {"op": "ray_weights_for_views", "switches": list(sw)}, {"kind": "wrapper"})
                continue
            ctx.count("wrapper_switches")
            for vname_, view_ in list(views.items())[:6]:
                for side, pth, dct, fn in (("tx", view_.tx_path, rw_sw.tx_ray_weights_dict, bim.tx_ray_weights), ("rx", view_.rx_path, rw_sw.rx_ray_weights_dict, bim.rx_ray_weights)):
                    direct, _ = fn(pth, ray.RayGeometry.from_path(pth), freq, width, **kw)
                    if not np.array_equal(np.asarray(dct[pth]), np.asarray(direct)):
                        ctx.violate(f"ray_weights_for_views({kw}): the {side} weights of path {pth.name} are not those of {side}_ray_weights with the same switches "
                                    "(a switch does not reach the factor it names)", {"op": "ray_weights_for_views", "switches": list(sw), "path": pth.name, "side": side},
                                    {"kind": "wrapper", "side": side})
                        break
        # ---- the door of the full-time model: `scat_unshifted_transfer_functions` (and its legacy single-/multi-frequency wrappers)
        #      yields, per view, conj(Q_i Q'_j S(theta_i - a, theta_j - a)) computed with the switches IT WAS GIVEN (all 16 subsets)
        import arim.scat as scat_mod
        sdh_obj = scat_mod.scat_factory("sdh", s["block"], 0.4e-3)
        tx_d, rx_d = fixtures.pairs(rng, numel, "fmc")
        a_d = float(rng.uniform(-1.0, 1.0))
        few_views = dict(list(views.items())[:4])
        for sw in itertools.product([True, False], repeat=4):
            kw = dict(use_directivity=sw[0], use_transrefl=sw[1], use_beamspread=sw[2], use_attenuation=sw[3])
            cjd = {"op": "scat_unshifted_transfer_functions", "switches": kw, "frequency": freq, "width": width, "scat_angle": a_d}
            try:
                rw_sw = bim.ray_weights_for_views(few_views, freq, probe_element_width=width, **kw)
                got_all = list(bim.scat_unshifted_transfer_functions(few_views, tx_d, rx_d, freq, sdh_obj, probe_element_width=width, scat_angle=a_d, **kw))
            except Exception as e:
                ctx.violate(f"scat_unshifted_transfer_functions raised {type(e).__name__}: {str(e)[:80]} for switches {kw}", cjd, {"kind": "transfer_door"})
                continue
            ctx.count("transfer_function_door")
            for (vname_, view_), (H, delays) in zip(few_views.items(), got_all):
                wantH = np.conj(model.model_amplitudes_factory(tx_d, rx_d, view_, rw_sw, sdh_obj.as_angles_funcs(freq), scat_angle=a_d)[...])
                if H.shape != wantH.shape + (1,) or not np.allclose(H[..., 0], wantH, rtol=1e-12, atol=0):
                    ctx.violate(f"scat_unshifted_transfer_functions({kw}), view {vname_}: not conj(Q_i Q'_j S) with these switches "
                                f"(max relative difference {np.abs(H[..., 0] - wantH).max() / (np.abs(wantH).max() + 1e-300):.2e})", {**cjd, "view": vname_}, {"kind": "transfer_door"})
                    break
        # ---- amplitudes
        rw = bim.ray_weights_for_views(views, freq, probe_element_width=width)
        names = list(views)
        for vname in [names[i] for i in rng.permutation(len(names))[: (4 if ctx.tier == "quick" else 12)]]:
            view = views[vname]
            kind = str(rng.choice(["fmc", "hmc", "rand", "repeat"]))
            if kind == "repeat":
                tx = rng.integers(0, numel, size=7)
                rx = rng.integers(0, numel, size=7)
            else:
                tx, rx = fixtures.pairs(rng, numel, kind)
            a = float(rng.uniform(-np.pi, np.pi))
            cs = rng.normal(size=4) + 1j * rng.normal(size=4)
            S = lambda x, y, cs=cs: cs[0] + cs[1] * np.sin(x) + cs[2] * np.cos(2 * y) + cs[3] * np.sin(x - 2 * y)
            sdict = {k: S for k in ("LL", "LT", "TL", "TT")}
            amp = model.model_amplitudes_factory(tx, rx, view, rw, sdict, scat_angle=a)
            full = amp[...]
            Q = rw.tx_ray_weights_dict[view.tx_path].T
            Qp = rw.rx_ray_weights_dict[view.rx_path].T
            ttx = rw.scattering_angles_dict[view.tx_path].T
            trx = rw.scattering_angles_dict[view.rx_path].T
            cj = {"op": "model_amplitudes", "view": vname, "tx": tx.tolist(), "rx": rx.tolist(), "scat_angle": a, "coefs_re": cs.real.tolist(), "coefs_im": cs.imag.tolist()}
            ctx.case(("amp", rep, vname, tx.tobytes(), rx.tobytes(), a), True, sample=cj if len(ctx.samples) < 4 else None)
            ctx.count("amp:" + kind)
            want_amp = S(ttx[:, tx] - a, trx[:, rx] - a) * Q[:, tx] * Qp[:, rx]
            scale = np.abs(want_amp).max() + 1e-300
            if full.shape != want_amp.shape or np.abs(full - want_amp).max() > 1e-12 * scale:
                ctx.violate("model amplitude of timetrace (i, j) is not Q_i Q'_j S(theta_i - a, theta_j - a)", cj, {"kind": "amp_formula", "scattering": "function"})
            # grid indexing
            npts = full.shape[0]
            for idx in (0, npts - 1, slice(0, npts), slice(None, None, 2), Ellipsis):
                if not np.array_equal(amp[idx], full[idx]):
                    ctx.violate(f"indexing the amplitudes with {idx!r} differs from indexing the full array", cj, {"kind": "amp_index"})
            # blocks that are kept: a block obtained earlier is still Q Q' S of its own grid points after later blocks
            # (of the same shape, of another shape, in another order) were asked of the same object
            if npts >= 2:
                h = max(1, npts // 3)
                for amp_obj, tag in ((amp, "function"),):
                    blocks = [(sl, amp_obj[sl]) for sl in (slice(0, h), slice(h, 2 * h), slice(npts - h, npts), slice(0, h))]
                    for sl, blk_ in blocks:
                        if not np.array_equal(blk_, full[sl]):
                            ctx.violate(f"a block of amplitudes ({sl}) obtained earlier changed after later blocks were computed from the same object ({tag})", cj, {"kind": "amp_blocks_kept"})
                            break
            try:
                amp[np.zeros((1, 1), dtype=int)]
                ctx.violate("a 2-D index into the amplitudes is accepted", cj, {"kind": "amp_index"})
            except IndexError:
                pass
            lines.append(f"modelamp {il(tx)} {il(rx)} {cmat(Q)} {cmat(Qp)} {fmat(ttx)} {fmat(trx)} {f2b(a)} f {cl(cs)}")
            meta.append(("amp", full, cj))
            # matrices: same formula with the bilinear interpolant
            n = int(rng.integers(8, 40))
            th = scat.make_angles(n)
            M = S(th[None, :], th[:, None])  # M[j, i] = S(inc_i, out_j)
            mdict = {k: np.ascontiguousarray(M) for k in ("LL", "LT", "TL", "TT")}
            ampm_obj = model.model_amplitudes_factory(np.asarray(tx), np.asarray(rx), view, rw, mdict, scat_angle=a)
            ampm = ampm_obj[...]
            if npts >= 2:
                h = max(1, npts // 3)
                ref_m = np.array(ampm, copy=True)
                blocks = [(sl, ampm_obj[sl]) for sl in (slice(0, h), slice(h, 2 * h), slice(npts - h, npts), slice(0, h))]
                for sl, blk_ in blocks:
                    if not np.array_equal(blk_, ref_m[sl]):
                        ctx.violate(f"a block of amplitudes ({sl}) obtained earlier changed after later blocks were computed from the same object (matrix scattering)", cj, {"kind": "amp_blocks_kept"})
                        break
                if not np.array_equal(ampm, ref_m):
                    ctx.violate("the full amplitude array obtained earlier changed after blocks were computed from the same object (matrix scattering)", cj, {"kind": "amp_blocks_kept"})
            # the pairs of a frame may be handed over as views into a larger table (every other row of a pairs table, a column of
            # an (n, 2) array): same amplitudes as for packed copies of the same numbers, functions and matrices alike
            table = np.stack([np.asarray(tx), np.asarray(rx)], axis=1).astype(np.int_)
            big = np.repeat(table, 2, axis=0)
            tx_v, rx_v = big[::2, 0], big[::2, 1]
            ctx.count("amp:strided_pairs")
            try:
                am_v = model.model_amplitudes_factory(tx_v, rx_v, view, rw, mdict, scat_angle=a)[...]
                af_v = model.model_amplitudes_factory(tx_v, rx_v, view, rw, sdict, scat_angle=a)[...]
                ok_v = np.array_equal(am_v, ampm) and np.array_equal(af_v, full)
            except Exception as e:
                ok_v = False
            if not ok_v:
                ctx.violate("model amplitudes for tx / rx given as strided views (columns of a pairs table) differ from those for packed copies of the same pairs", cj, {"kind": "amp_strided"})
            interp = scat.interpolate_matrix(np.ascontiguousarray(M))
            want_m = interp(ttx[:, tx] - a, trx[:, rx] - a) * Q[:, tx] * Qp[:, rx]
            if np.abs(ampm - want_m).max() > 1e-12 * scale:
                ctx.violate("matrix-based model amplitude is not Q_i Q'_j times the bilinear interpolant of the matrix", cj, {"kind": "amp_formula", "scattering": "matrix"})
            # the same with a bilinear interpolant written here from its definition (periodic grid -pi + 2 pi i / n), so that
            # the library's own kernel is not its own reference; queries within 1e-9 of a node are skipped (either cell is fine there)
            def bilinear(inc, out):
                pi_, po_ = (inc + np.pi) / (2 * np.pi / n), (out + np.pi) / (2 * np.pi / n)
                ii, io = np.floor(pi_).astype(int), np.floor(po_).astype(int)
                fi, fo = pi_ - ii, po_ - io
                ii, io = ii % n, io % n
                i1, o1 = (ii + 1) % n, (io + 1) % n
                f1 = M[io, ii] + (M[io, i1] - M[io, ii]) * fi
                f2 = M[o1, ii] + (M[o1, i1] - M[o1, ii]) * fi
                return f1 + (f2 - f1) * fo, np.minimum(np.minimum(fi, 1 - fi), np.minimum(fo, 1 - fo)) > 1e-9
            val, safe = bilinear(ttx[:, tx] - a, trx[:, rx] - a)
            dev = np.abs(ampm - val * Q[:, tx] * Qp[:, rx])
            if np.any(safe) and dev[safe].max() > 1e-9 * scale:
                ctx.violate("matrix-based model amplitude is not Q_i Q'_j times the bilinear interpolation (from its definition) of the matrix at "
                            "(theta_i - a, theta_j - a)", cj, {"kind": "amp_formula", "scattering": "matrix-definition"})
            lines.append(f"modelamp {il(tx)} {il(rx)} {cmat(Q)} {cmat(Qp)} {fmat(ttx)} {fmat(trx)} {f2b(a)} m {n} {cmat(M)}")
            meta.append(("ampm", ampm, cj))
            # ---- sensitivity: independent of the chunk size
            w = rng.choice([1.0, 2.0], size=len(tx))
            ref_u = model.sensitivity_uniform_tfm(full, w, block_size=4000)
            ref_m = model.sensitivity_model_assisted_tfm(full, w, block_size=4000)
            if not np.allclose(ref_u, (w[None] * full).sum(axis=1) / len(tx), rtol=1e-12, atol=0):
                ctx.violate("sensitivity_uniform_tfm is not the weighted mean of the amplitudes", cj, {"kind": "sensitivity"})
            for blk in sorted({1, 2, 3, max(1, npts - 1), npts, npts + 1}):
                for obj in (full, amp):
                    su = model.sensitivity_uniform_tfm(obj, w, block_size=blk)
                    sm = model.sensitivity_model_assisted_tfm(obj, w, block_size=blk)
                    ctx.count("sensitivity")
                    if not (np.allclose(su, ref_u, rtol=1e-13, atol=0) and np.allclose(sm, ref_m, rtol=1e-13, atol=0)):
                        ctx.violate(f"sensitivity depends on the chunk size (block_size={blk})", {**cj, "block": blk}, {"kind": "sensitivity_chunk"})
    answers = ctx.drive(lines) if ctx.lean.driver_ok and not ctx.oracle_only else []
    for (what, val, cj), a in zip(meta, answers):
        if not a.startswith("ok "):
            ctx.disagree(f"model rejected a {what} request", cj)
        elif what == "assemble":
            t, r = a[3:].split("|")
            mt = complex(b2f(t.split(",")[0]), b2f(t.split(",")[1]))
            mr = complex(b2f(r.split(",")[0]), b2f(r.split(",")[1]))
            if abs(mt - val[0]) > 1e-12 * abs(val[0]) + 1e-300 or abs(mr - val[1]) > 1e-12 * abs(val[1]) + 1e-300:
                ctx.disagree(f"ray weights {val} differ from the model {(mt, mr)}", cj)
        else:
            m = parse_cmat(a[3:])
            scale = np.abs(val).max() + 1e-300
            tol = 1e-11 if what == "amp" else 1e-8   # the matrix kernel uses float // and %: neighbouring-cell choices near nodes
            if m.shape != val.shape or np.abs(m - val).max() > tol * scale:
                ctx.disagree(f"model amplitudes ({what}) differ from the model", cj)
    ctx.assumptions.append("the individual factors are the C04/C06/C07 terms (checked there); here their assembly, the indexing and the scattering call convention are checked")


def search(ctx):
    ctx.oracle_only = True
    ctx.rng = np.random.Generator(np.random.PCG64(ctx.seed + 7919))
    old = ctx.scale
    ctx.scale = max(2, 2 * old)
    try:
        run(ctx)
    finally:
        ctx.scale = old
