import json, sys, glob
import jsonschema
jsonschema.validate(json.load(open('/verif/MANIFEST.json')), json.load(open('/root/.vp/MANIFEST.schema.json')))
sch = json.load(open('/root/.vp/EVIDENCE.schema.json'))
for f in sorted(glob.glob('/verif/evidence/*.json')):
    e = json.load(open(f)); jsonschema.validate(e, sch)
    c = e['coverage']; print(f.split('/')[-1], e['tier'], 'obl', c.get('obligations'), 'dis', c.get('discharged'), 'eval', c.get('evaluations'), 'distinct', c.get('distinct_nontrivial'), 'viol', e.get('violations'), 'wall', e['wall_s'])
print('all valid')
