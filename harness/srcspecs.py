"""Which functions of /repo/src/arim are translated to Lean, with the types of their parameters (see py2lean.py)."""
from py2lean import FuncSpec, K, D, I, N, B, L, A, F

MODEL = "arim/model.py"

COEF_PARAMS = [("rho_fluid", K), ("rho_solid", K), ("c_fluid", K), ("c_l", K), ("c_t", K)]

SPECS = {
    "C04": [
        FuncSpec(MODEL, "snell_angles", "snell_angles",
                 [("incidents_angles", K), ("c_incident", K), ("c_refracted", K)]),
        FuncSpec(MODEL, "_fluid_solid_n", "fluid_solid_n",
                 [("alpha_fluid", K), ("alpha_l", K), ("alpha_t", K)] + COEF_PARAMS),
        FuncSpec(MODEL, "fluid_solid", "fluid_solid",
                 [("alpha_fluid", K)] + COEF_PARAMS + [("alpha_l", K), ("alpha_t", K)],
                 given={"alpha_l", "alpha_t"}, doc="refracted angles supplied by the caller"),
        FuncSpec(MODEL, "fluid_solid", "fluid_solid_auto",
                 [("alpha_fluid", K)] + COEF_PARAMS,
                 absent={"alpha_l", "alpha_t"}, doc="`alpha_l=None, alpha_t=None`: refracted angles from Snell's law"),
        FuncSpec(MODEL, "solid_l_fluid", "solid_l_fluid",
                 [("alpha_l", K)] + COEF_PARAMS + [("alpha_fluid", K), ("alpha_t", K)],
                 given={"alpha_fluid", "alpha_t"}),
        FuncSpec(MODEL, "solid_l_fluid", "solid_l_fluid_auto",
                 [("alpha_l", K)] + COEF_PARAMS, absent={"alpha_fluid", "alpha_t"}),
        FuncSpec(MODEL, "solid_t_fluid", "solid_t_fluid",
                 [("alpha_t", K)] + COEF_PARAMS + [("alpha_fluid", K), ("alpha_l", K)],
                 given={"alpha_fluid", "alpha_l"}),
        FuncSpec(MODEL, "solid_t_fluid", "solid_t_fluid_auto",
                 [("alpha_t", K)] + COEF_PARAMS, absent={"alpha_fluid", "alpha_l"}),
    ],
}

IMPORTS = {
    "C04": ["ArimModel.Src"],
}

RAY = "arim/ray.py"
SCAT = "arim/_scat.py"
DAS = "arim/im/das.py"
GEO = "arim/geometry.py"

RG_BIND = {
    "ray_geometry.numinterfaces": ("numinterfaces", N),
    "ray_geometry.rays.fermat_path.velocities": ("velocities", A(K, 1)),
    "ray_geometry.conventional_inc_angle": ("conventional_inc_angle", F([N], K)),
    "ray_geometry.inc_leg_size": ("inc_leg_size", F([N], K)),
}
RG_PARAMS = [("numinterfaces", N), ("velocities", A(K, 1)), ("conventional_inc_angle", F([N], K)), ("inc_leg_size", F([N], K))]

SPECS["C06"] = [
    FuncSpec(MODEL, "beamspread_2d_for_path", "beamspread_2d_for_path", RG_PARAMS, bind=RG_BIND,
             locals={"gamma_list": L(K), "gamma": K},
             doc="one ray; the ray-geometry queries are parameters"),
]
SPECS["C07"] = [
    FuncSpec(MODEL, "reverse_beamspread_2d_for_path", "reverse_beamspread_2d_for_path", RG_PARAMS, bind=RG_BIND,
             locals={"gamma_list": L(K), "gamma": K}),
]
SPECS["C08"] = [
    FuncSpec(MODEL, "directivity_2d_rectangular_in_fluid", "directivity_2d_rectangular_in_fluid",
             [("theta", K), ("element_width", K), ("wavelength", K)], raises=True),
]
SPECS["C05"] = [
    FuncSpec(RAY, "_signed_leg_angle", "signed_leg_angle", [("polar", K), ("azimuth", K)]),
]

# generated files a property's translation builds on (regenerated together with it)
DEPENDS = {"C07": ["C06"]}
IMPORTS["C07"] = ["ArimModel.Src", "ArimProofs.Generated.SrcC06"]
