"""Which functions of /repo/src/arim are translated to Lean, with the types of their parameters (see py2lean.py)."""
from py2lean import FuncSpec, K, D, I, N, B, L, A, F, M

MODEL = "arim/model.py"

COEF_PARAMS = [("rho_fluid", K), ("rho_solid", K), ("c_fluid", K), ("c_l", K), ("c_t", K)]

SPECS = {
    "C04": [
        FuncSpec(MODEL, "snell_angles", "snell_angles",
                 [("incidents_angles", K), ("c_incident", K), ("c_refracted", K)]),
        FuncSpec(MODEL, "_fluid_solid_n", "fluid_solid_n",
                 [("alpha_fluid", K), ("alpha_l", K), ("alpha_t", K)] + COEF_PARAMS),
        FuncSpec(MODEL, "fluid_solid", "fluid_solid",
                 [("alpha_fluid", K)] + COEF_PARAMS + [("alpha_l", K), ("alpha_t", K)],
                 given={"alpha_l", "alpha_t"}, doc="refracted angles supplied by the caller"),
        FuncSpec(MODEL, "fluid_solid", "fluid_solid_auto",
                 [("alpha_fluid", K)] + COEF_PARAMS,
                 absent={"alpha_l", "alpha_t"}, doc="`alpha_l=None, alpha_t=None`: refracted angles from Snell's law"),
        FuncSpec(MODEL, "solid_l_fluid", "solid_l_fluid",
                 [("alpha_l", K)] + COEF_PARAMS + [("alpha_fluid", K), ("alpha_t", K)],
                 given={"alpha_fluid", "alpha_t"}),
        FuncSpec(MODEL, "solid_l_fluid", "solid_l_fluid_auto",
                 [("alpha_l", K)] + COEF_PARAMS, absent={"alpha_fluid", "alpha_t"}),
        FuncSpec(MODEL, "solid_t_fluid", "solid_t_fluid",
                 [("alpha_t", K)] + COEF_PARAMS + [("alpha_fluid", K), ("alpha_l", K)],
                 given={"alpha_fluid", "alpha_l"}),
        FuncSpec(MODEL, "solid_t_fluid", "solid_t_fluid_auto",
                 [("alpha_t", K)] + COEF_PARAMS, absent={"alpha_fluid", "alpha_l"}),
    ],
}

IMPORTS = {
    "C04": ["ArimModel.Src"],
}

RAY = "arim/ray.py"
SCAT = "arim/_scat.py"
DAS = "arim/im/das.py"
GEO = "arim/geometry.py"

RG_BIND = {
    "ray_geometry.numinterfaces": ("numinterfaces", N),
    "ray_geometry.rays.fermat_path.velocities": ("velocities", A(K, 1)),
    "ray_geometry.conventional_inc_angle": ("conventional_inc_angle", F([N], K)),
    "ray_geometry.inc_leg_size": ("inc_leg_size", F([N], K)),
}
RG_PARAMS = [("numinterfaces", N), ("velocities", A(K, 1)), ("conventional_inc_angle", F([N], K)), ("inc_leg_size", F([N], K))]

SPECS["C06"] = [
    FuncSpec(MODEL, "beamspread_2d_for_path", "beamspread_2d_for_path", RG_PARAMS, bind=RG_BIND,
             locals={"gamma_list": L(K), "gamma": K},
             doc="one ray; the ray-geometry queries are parameters"),
]
SPECS["C07"] = [
    FuncSpec(MODEL, "reverse_beamspread_2d_for_path", "reverse_beamspread_2d_for_path", RG_PARAMS, bind=RG_BIND,
             locals={"gamma_list": L(K), "gamma": K}),
]
SPECS["C08"] = [
    FuncSpec(MODEL, "directivity_2d_rectangular_in_fluid", "directivity_2d_rectangular_in_fluid",
             [("theta", K), ("element_width", K), ("wavelength", K)], raises=True),
]
SPECS["C05"] = [
    FuncSpec(RAY, "_signed_leg_angle", "signed_leg_angle", [("polar", K), ("azimuth", K)]),
]

# generated files a property's translation builds on (regenerated together with it)
DEPENDS = {"C07": ["C06"]}
IMPORTS["C07"] = ["ArimModel.Src", "ArimProofs.Generated.SrcC06"]

# ---- delay-and-sum kernels, one image point (the prange loop over points is the cell loop)
DAS_COMMON = [("weighted_timetraces", A(D, 2)), ("tx", A(N, 1)), ("rx", A(N, 1)),
              ("lookup_times_tx", A(K, 2)), ("lookup_times_rx", A(K, 2))]
DAS_SHAPES = [("numtimetraces", N), ("numsamples", N), ("point", N)]
DAS_SKIP = ["numtimetraces, numsamples = weighted_timetraces.shape", "numpoints, _ = lookup_times_tx.shape"]
DAS_CELL = {"loops": ["point"], "arrays": {"result": (D, ("point",))}}

SPECS["C02"] = [
    FuncSpec(DAS, "_delay_and_sum_amplitudes_nearest", "das_amplitudes_nearest",
             DAS_COMMON + [("amplitudes_tx", A(D, 2)), ("amplitudes_rx", A(D, 2)), ("dt", K), ("t0", K), ("fillvalue", D)] + DAS_SHAPES,
             locals={"res_tmp": D}, skip=DAS_SKIP, cell=DAS_CELL),
    FuncSpec(DAS, "_delay_and_sum_amplitudes_linear", "das_amplitudes_linear",
             DAS_COMMON + [("amplitudes_tx", A(D, 2)), ("amplitudes_rx", A(D, 2)), ("dt", K), ("t0", K), ("fillvalue", D)] + DAS_SHAPES,
             locals={"res_tmp": D}, skip=DAS_SKIP, cell=DAS_CELL, which=-1,
             doc="the module defines this name twice; the second definition is the one Python keeps"),
    FuncSpec(DAS, "_delay_and_sum_noamp", "das_noamp_nearest",
             DAS_COMMON + [("invdt", K), ("t0", K), ("fillvalue", D)] + DAS_SHAPES,
             locals={"res_tmp": D}, skip=DAS_SKIP, cell=DAS_CELL),
    FuncSpec(DAS, "_delay_and_sum_noamp_linear", "das_noamp_linear",
             DAS_COMMON + [("invdt", K), ("t0", K), ("fillvalue", D)] + DAS_SHAPES,
             locals={"res_tmp": D}, skip=DAS_SKIP, cell=DAS_CELL),
]
IMPORTS["C02"] = ["ArimModel.Src"]

# ---- C01: min-plus kernel for one output cell (i, j); pairwise-distance kernel for one cell
SPECS["C01"] = [
    FuncSpec(RAY, "_find_minimum_times", "find_minimum_times_cell",
             [("time_1", A(K, 2)), ("time_2", A(K, 2)), ("init_time", K), ("init_index", I), ("m", N), ("i", N), ("j", N)],
             skip=["n, m = time_1.shape", "m, p = time_2.shape"],
             cell={"loops": ["i", "j"], "arrays": {"out_min_times": (K, ("i", "j")), "out_best_indices": (I, ("i", "j"))},
                   "init": {"out_min_times": "init_time", "out_best_indices": "init_index"}},
             doc="`init_time`, `init_index`: the values the output arrays hold at (i, j) on entry (inf, -1)"),
    FuncSpec(GEO, "_distance_pairwise", "distance_pairwise_cell",
             [("x1", A(K, 1)), ("y1", A(K, 1)), ("z1", A(K, 1)), ("x2", A(K, 1)), ("y2", A(K, 1)), ("z2", A(K, 1)), ("i", N), ("j", N)],
             skip=["num1, num2 = distance.shape"],
             cell={"loops": ["i", "j"], "arrays": {"distance": (K, ("i", "j"))}}),
]

# properties whose theorems are (also) stated about translations that belong to another property's file
USES = {"C17": ["C01"], "C07": ["C06"], "C08": ["C10"], "C12": ["C02", "C01"], "C13": ["C02", "C01"]}

# ---- C10: bilinear interpolation kernel of scattering matrices; C08: model amplitudes with matrices (one timetrace)
SPECS["C10"] = [
    FuncSpec(SCAT, "_interpolate_scattering_matrix_kernel", "interpolate_scattering_matrix_kernel",
             [("scattering_matrix", A(K, 2)), ("numpoints", N), ("inc_theta", K), ("out_theta", K)],
             bind={"scattering_matrix.shape[0]": ("numpoints", N)},
             locals={"inc_theta_idx_plus1": I, "out_theta_idx_plus1": I},
             doc="`numpoints` is `scattering_matrix.shape[0]`"),
]

SPECS["C08"].append(
    FuncSpec(MODEL, "_model_amplitudes_with_scat_matrix", "model_amplitudes_with_scat_matrix_cell",
             [("tx", A(N, 1)), ("rx", A(N, 1)), ("scattering_matrix", A(K, 2)), ("numpoints", N),
              ("tx_ray_weights", A(K, 1)), ("rx_ray_weights", A(K, 1)),
              ("tx_scattering_angles", A(K, 1)), ("rx_scattering_angles", A(K, 1)), ("scat_angle", K), ("scan", N)],
             bind={"scat_angle[0]": ("scat_angle", K),
                   "_scat._interpolate_scattering_matrix_kernel":
                       ("(fun M a b => interpolate_scattering_matrix_kernel o M numpoints a b)", F([A(K, 2), K, K], K))},
             skip=["numtimetraces = tx.shape[0]"],
             cell={"loops": ["scan"], "arrays": {"res": (K, ("scan",))}},
             doc="one grid point, one timetrace; `numpoints` is `scattering_matrix.shape[0]`; amplitudes and angles in one scalar type"))
DEPENDS["C08"] = ["C10"]
IMPORTS["C08"] = ["ArimModel.Src", "ArimProofs.Generated.SrcC10"]

SPECS["C02"] += [
    FuncSpec(DAS, "sinc", "das_sinc", [("x", K)], ret=K, doc="the kernels' own sinc (numpy convention, 1 at 0)"),
    FuncSpec(DAS, "lanczos_interpolation", "lanczos_interpolation", [("t", K), ("x", A(D, 1)), ("a", N), ("n", N)],
             bind={"len(x)": ("n", N)}, locals={"out": D}, doc="`n` is `len(x)`"),
    FuncSpec(DAS, "_delay_and_sum_noamp_lanczos", "das_noamp_lanczos",
             DAS_COMMON + [("invdt", K), ("t0", K), ("fillvalue", D), ("a", N)] + DAS_SHAPES,
             bind={"lanczos_interpolation": ("(fun t x a => lanczos_interpolation o d t x a numsamples)", F([K, A(D, 1), N], D))},
             locals={"res_tmp": D}, skip=DAS_SKIP, cell=DAS_CELL),
]

# ---- C17 (C16): rotation matrices
SPECS["C17"] = [
    FuncSpec(GEO, "rotation_matrix_x", "rotation_matrix_x", [("theta", K)]),
    FuncSpec(GEO, "rotation_matrix_y", "rotation_matrix_y", [("theta", K)]),
    FuncSpec(GEO, "rotation_matrix_z", "rotation_matrix_z", [("theta", K)]),
    FuncSpec(GEO, "rotation_matrix_ypr", "rotation_matrix_ypr", [("yaw", K), ("pitch", K), ("roll", K)]),
    # the three einsum conventions, for one point (the leading axes of the arrays are elementwise): which index is summed
    FuncSpec(GEO, "to_gcs", "to_gcs", [("coords_cs", "V"), ("bases", "M"), ("origins", "V")],
             doc="one point: `coords_cs`, `origins` are rows of the (..., 3) arrays, `bases` the 3x3 basis of that point"),
    FuncSpec(GEO, "from_gcs", "from_gcs", [("points_gcs", "V"), ("bases", "M"), ("origins", "V")], doc="one point"),
    FuncSpec(GEO, "rotate", "rotate_about_origin", [("coords", "V"), ("rotation_matrix", "M")], absent=["centre"], doc="one point, `centre=None`"),
    FuncSpec(GEO, "rotate", "rotate_about_centre", [("coords", "V"), ("rotation_matrix", "M"), ("centre", "V")], given=["centre"], doc="one point, a centre given"),
]
IMPORTS["C17"] = ["ArimModel.Src", "ArimModel.Geometry"]
USES["C16"] = ["C17"]

# ---- C02: the robust aggregations' kernels (arim.im.huber, arim.im.geomed): one reweighting step, the objective,
#      its gradient and inverse Hessian.  `data` is the (n, 2) array of the delayed samples (real, imaginary part).
HUBER = "arim/im/huber.py"
GEOMED = "arim/im/geomed.py"
ROBUST_BIND = {"len(data)": ("n", N)}
SPECS["C02"] += [
    FuncSpec(HUBER, "_huber_iter", "huber_iter", [("data", A(K, 2)), ("n", N), ("tau", K), ("x0", K), ("y0", K)], bind=ROBUST_BIND,
             locals={"sum_w": K, "x": K, "y": K}),
    FuncSpec(GEOMED, "_f", "geomed_f", [("data", A(K, 2)), ("n", N), ("z", A(K, 1))], bind=ROBUST_BIND, locals={"out": K}),
    FuncSpec(GEOMED, "_gradf_and_inv_hessf", "geomed_gradf_and_inv_hessf", [("data", A(K, 2)), ("n", N), ("z", A(K, 1))], bind=ROBUST_BIND,
             locals={"gx": K, "gy": K, "a11": K, "a12": K, "a22": K}),
]

# ---- C13: chunk_array (a generator of NumPy index tuples): the list of (position of the slice, start, stop)
SPECS["C13"] = [
    FuncSpec("arim/helpers.py", "chunk_array", "chunk_array", [("array_shape", A(N, 1)), ("ndim", N), ("block_size", N), ("axis", N)],
             bind={"len(array_shape)": ("ndim", N)}, skip=["axis = list(range(ndim))[axis]"], gen=True,
             doc="`axis` already normalised to `0 <= axis < ndim` (the skipped statement `axis = list(range(ndim))[axis]`); "
                 "every yielded index tuple as (position of the slice in the tuple, start, stop)"),
]
IMPORTS["C13"] = ["ArimModel.Src"]
USES["C13"] = ["C02", "C01"]
USES["C08"] = ["C10", "C13"]

# ---- C02: the kernels of the robust aggregations: the scratch array of delayed samples handed to geomed / huber_m_estimate
ROB_SOLVER = ("solver", F([L(D)], D))
def _rob_bind(call, lanczos=False):
    b = {call: ("(solver datapoints, (0 : Nat))", ("T", (D, N))), "res.view(np.complex128)[0]": ("res", D)}
    if lanczos:
        b["lanczos_interpolation"] = ("(fun t x a => lanczos_interpolation o d t x a numsamples)", F([K, A(D, 1), N], D))
    return b
GEOMED_CALL = "geomed.geomed(datapoints.view(np.float64).reshape((numtimetraces, 2)))"
HUBER_CALL = "huber.huber_m_estimate(datapoints.view(np.float64).reshape((numtimetraces, 2)), tau)"
SPECS["C02"] += [
    FuncSpec(DAS, "_delay_and_sum_noamp_median_nearest", "das_noamp_median_nearest",
             DAS_COMMON + [("invdt", K), ("t0", K), ("fillvalue", D), ROB_SOLVER] + DAS_SHAPES,
             locals={"datapoints": L(D)}, skip=DAS_SKIP, cell=DAS_CELL, bind=_rob_bind(GEOMED_CALL),
             doc="`solver` stands for `geomed.geomed` on the (n, 2) real view of the scratch array of delayed samples"),
    FuncSpec(DAS, "_delay_and_sum_noamp_median_lanczos", "das_noamp_median_lanczos",
             DAS_COMMON + [("invdt", K), ("t0", K), ("fillvalue", D), ("a", N), ROB_SOLVER] + DAS_SHAPES,
             locals={"datapoints": L(D)}, skip=DAS_SKIP, cell=DAS_CELL, bind=_rob_bind(GEOMED_CALL, True)),
    FuncSpec(DAS, "_delay_and_sum_noamp_huber_lanczos", "das_noamp_huber_lanczos",
             DAS_COMMON + [("invdt", K), ("t0", K), ("fillvalue", D), ("a", N), ("tau", K), ROB_SOLVER] + DAS_SHAPES,
             locals={"datapoints": L(D)}, skip=DAS_SKIP, cell=DAS_CELL, bind=_rob_bind(HUBER_CALL, True),
             doc="`solver` stands for `huber_m_estimate(., tau)`"),
]

# ---- C04: the per-interface helpers, specialised on (interface kind, modes, unit): the conditions on these are decided at
#      translation time, what is left is the numeric code of the branch taken
def _iface_specs():
    out = []
    fs = {"material_inc.density": ("rho_fluid", K), "material_inc.longitudinal_vel": ("c_fluid", K),
          "{o}.density": ("rho_solid", K), "{o}.longitudinal_vel": ("c_l", K), "{o}.transverse_vel": ("c_t", K)}
    sf = {"material_inc.density": ("rho_solid", K), "material_inc.longitudinal_vel": ("c_l", K), "material_inc.transverse_vel": ("c_t", K),
          "{o}.density": ("rho_fluid", K), "{o}.longitudinal_vel": ("c_fluid", K)}
    params = [("angles_inc", K)] + COEF_PARAMS
    for fn, other, combos in (("transmission_at_interface", "material_out", [("fluid_solid", "L", "L"), ("fluid_solid", "L", "T"), ("solid_fluid", "L", "L"), ("solid_fluid", "T", "L")]),
                              ("reflection_at_interface", "material_against", [("solid_fluid", "L", "L"), ("solid_fluid", "L", "T"), ("solid_fluid", "T", "L"), ("solid_fluid", "T", "T"), ("fluid_solid", "L", "L")])):
        for kind, mi, mo in combos:
            for unit in ("stress", "displacement"):
                b = {k.format(o=other): v for k, v in (fs if kind == "fluid_solid" else sf).items()}
                out.append(FuncSpec(MODEL, fn, f"{fn}__{kind}_{mi}{mo}_{unit}", params, bind=b, objects={"material_inc", other},
                                    static={"interface_kind": f"c.InterfaceKind.{kind}", "mode_inc": f"c.Mode.{mi}", "mode_out": f"c.Mode.{mo}",
                                            "unit": unit, "force_complex": False},
                                    doc=f"specialised: interface_kind={kind}, mode_inc={mi}, mode_out={mo}, unit='{unit}' "
                                        "(`force_complex` only converts the dtype of the angles)"))
    return out
SPECS["C04"] += _iface_specs()

# ---- C01: Rays.expand_rays' kernel, one ray (i, j): the column of interior indices after one more interface
SPECS["C01"] += [
    FuncSpec(RAY, "_expand_rays", "expand_rays_cell",
             [("interior_indices", A(I, 3)), ("indices_new_interface", A(I, 2)), ("depth", N), ("i", N), ("j", N)],
             bind={"d": ("depth", N)}, skip=["d, n, m = interior_indices.shape", "_, p = indices_new_interface.shape"],
             cell={"loops": ["i", "j"], "arrays": {}, "columns": {"expanded_indices": (I, ("i", "j"))}},
             doc="`depth` is `d = interior_indices.shape[0]`; the result is the column `expanded_indices[:, i, j]`"),
]


# ---- C11: how a delay is split into whole samples and a remainder: the kernel that places each response (whole part) and the
#      elementwise formula of its caller (remainder, handed to the spectral time shift)
SPECS["C11"] = [
    FuncSpec(MODEL, "_timeshift_timedomain", "timeshift_window",
             [("delays", A(K, 1)), ("dt", K), ("t0_idx", I), ("n", N), ("idx", N)],
             skip=["n = unshifted_response.shape[1]"], objects={"unshifted_response"},
             cell={"loops": ["idx"], "arrays": {"out": (("T", (I, I)), ("idx",))}, "slice_add": {"out": ("unshifted_response", "idx")}},
             doc="`n` is `unshifted_response.shape[1]`; the cell is the window `[a, b)` of row `idx` of `out` onto which row `idx` of the response is added"),
    FuncSpec(MODEL, "transfer_func_to_timetraces", "delay_remainder", [("delays", K), ("dt", K)], only=("delays_remainder",),
             objects={"unshifted_transfer_func", "timetraces_time", "toneburst_time", "toneburst_freq", "toneburst_f", "toneburst_t0_idx", "timetraces"},
             doc="elementwise; `delays` is the delay counted from the start of the output time axis (after `delays = delays - timetraces_time.start`)"),
]
IMPORTS["C11"] = ["ArimModel.Src"]

# ---- C14: the cache decorator and the cached query methods of RayGeometry, read structurally (py2lean_cache.py)
import py2lean_cache
import py2lean_weights
CUSTOM = {"C14": py2lean_cache.translate, "C03": py2lean_weights.translate}
SPECS["C03"] = list(py2lean_weights.SPEC_NAMES)
IMPORTS["C03"] = ["ArimModel.Assembly"]
USES["C08"] = list(USES.get("C08", [])) + ["C03"]
SPECS["C14"] = list(py2lean_cache.SPEC_NAMES)
IMPORTS["C14"] = ["ArimModel.RayCache"]
