/-! Model of view / path naming and wiring: `arim.ut.make_viewnames`, `filter_unique_views`,
    `default_viewname_order`, `reciprocal_viewname`, `models.helpers.make_views_from_paths`,
    the immersion and contact `make_interfaces` / `make_paths` tables, `Interface.reverse`,
    `Path.reverse`, `View.scat_key`. Core only. A path name is a word over characters. -/
namespace Arim.Views

abbrev Word := List Char
abbrev VName := Word × Word

/-- lexicographic comparison of words (Python `str <`) -/
def wordLt : Word → Word → Bool
  | [], [] => false
  | [], _ :: _ => true
  | _ :: _, [] => false
  | a :: as, b :: bs => a < b || (a == b && wordLt as bs)

/-- `default_viewname_order` -/
def orderKey (v : VName) : Nat × Nat × Nat × Nat × Word × Word :=
  (v.1.length + v.2.length, max v.1.length v.2.length, v.2.length, v.1.length, v.1, v.2)

/-- strict lexicographic order on the six-component key -/
def keyLt (a b : VName) : Bool :=
  let ka := orderKey a; let kb := orderKey b
  if ka.1 ≠ kb.1 then ka.1 < kb.1 else
  if ka.2.1 ≠ kb.2.1 then ka.2.1 < kb.2.1 else
  if ka.2.2.1 ≠ kb.2.2.1 then ka.2.2.1 < kb.2.2.1 else
  if ka.2.2.2.1 ≠ kb.2.2.2.1 then ka.2.2.2.1 < kb.2.2.2.1 else
  if ka.2.2.2.2.1 ≠ kb.2.2.2.2.1 then wordLt ka.2.2.2.2.1 kb.2.2.2.2.1 else
  wordLt ka.2.2.2.2.2 kb.2.2.2.2.2

/-- stable insertion (Python's `sorted` is stable): insert after all elements not greater -/
def insertView (x : VName) : List VName → List VName
  | [] => [x]
  | y :: ys => if keyLt x y then x :: y :: ys else y :: insertView x ys

/-- stable sort by key: fold from the left, each new element goes after its equals -/
def sortViews (l : List VName) : List VName := l.foldl (fun acc x => insertView x acc) []

def allPairs (names : List Word) : List VName :=
  names.flatMap (fun tx => names.map (fun rx => (tx, rx)))

/-- `reciprocal_viewname` on the pair form -/
def recip (v : VName) : VName := (v.2.reverse, v.1.reverse)

/-- `filter_unique_views` -/
def filterUnique (views : List VName) : List VName :=
  (views.foldl (fun (st : List VName × List VName) v =>
      if st.2.contains (recip v) then st else (st.1 ++ [v], v :: st.2)) ([], [])).1

/-- `make_viewnames` -/
def makeViewnames (names : List Word) (uniqueOnly : Bool) : List VName :=
  let vs := sortViews (allPairs names)
  if uniqueOnly then filterUnique vs else vs

/-! ### interfaces and paths -/

inductive Kind | fluidSolid | solidFluid deriving DecidableEq, Repr
inductive TR | transmission | reflection deriving DecidableEq, Repr
inductive Mat | couplant | block | under deriving DecidableEq, Repr
inductive Pts | probe | frontwall | backwall | grid deriving DecidableEq, Repr

def Kind.reverse : Kind → Kind
  | .fluidSolid => .solidFluid
  | .solidFluid => .fluidSolid

structure Iface where
  pts : Pts
  kind : Option Kind
  tr : Option TR
  against : Option Mat
  inc : Option Bool
  out : Option Bool
deriving DecidableEq, Repr

/-- `Interface.reverse` (`none` = the code raises "reverse path is ambiguous") -/
def Iface.reverse (i : Iface) : Option Iface :=
  let k : Option (Option Kind) :=
    match i.kind, i.tr with
    | none, _ => some none
    | some _, none => none
    | some k, some .transmission => some (some k.reverse)
    | some k, some .reflection => some (some k)
  k.map fun k' => { i with kind := k', inc := i.out, out := i.inc }

structure PathSpec where
  name : Word
  ifaces : List Iface
  mats : List Mat
  modes : Word
deriving DecidableEq, Repr

/-- `Path.reverse` (rays are handled by `Rays.reverse`, see C01) -/
def PathSpec.reverse (p : PathSpec) : Option PathSpec :=
  (p.ifaces.mapM Iface.reverse).map fun is =>
    { name := p.name, ifaces := is.reverse, mats := p.mats.reverse, modes := p.modes.reverse }

inductive Setup
  | immersion
  | contact (hasBackwall hasFrontwall hasUnder : Bool)
deriving DecidableEq, Repr

def probeI : Iface := ⟨.probe, none, none, none, none, some true⟩
def gridI : Iface := ⟨.grid, none, none, none, some true, none⟩
def immFrontTrans : Iface := ⟨.frontwall, some .fluidSolid, some .transmission, none, some false, some true⟩
def immBackRefl : Iface := ⟨.backwall, some .solidFluid, some .reflection, some .couplant, some false, some false⟩
def immFrontRefl : Iface := ⟨.frontwall, some .solidFluid, some .reflection, some .couplant, some true, some true⟩
def conBackRefl (hasUnder : Bool) : Iface :=
  if hasUnder then ⟨.backwall, some .solidFluid, some .reflection, some .under, some false, some false⟩
  else ⟨.backwall, none, none, none, some false, some false⟩
def conFrontRefl : Iface := ⟨.frontwall, none, none, none, some true, some true⟩

/-- the path named `w` (modes inside the block, probe → scatterer) as `make_paths` builds it;
    `none` = this set-up cannot build it -/
def expectedPath (s : Setup) (w : Word) : Option PathSpec :=
  if ¬ w.all (fun c => c == 'L' || c == 'T') then none else
  match s, w.length with
  | .immersion, 1 => some ⟨w, [probeI, immFrontTrans, gridI], [.couplant, .block], 'L' :: w⟩
  | .immersion, 2 => some ⟨w, [probeI, immFrontTrans, immBackRefl, gridI], [.couplant, .block, .block], 'L' :: w⟩
  | .immersion, 3 => some ⟨w, [probeI, immFrontTrans, immBackRefl, immFrontRefl, gridI],
                            [.couplant, .block, .block, .block], 'L' :: w⟩
  | .contact _ _ _, 1 => some ⟨w, [probeI, gridI], [.block], w⟩
  | .contact bw _ u, 2 => if bw then some ⟨w, [probeI, conBackRefl u, gridI], [.block, .block], w⟩ else none
  | .contact bw fw u, 3 =>
      if bw && fw then some ⟨w, [probeI, conBackRefl u, conFrontRefl, gridI], [.block, .block, .block], w⟩ else none
  | _, _ => none

/-- one view as `make_views` returns it; the view is called `x-y` -/
structure ViewEntry where
  setup : Setup
  x : Word
  y : Word
  tx : PathSpec
  rx : PathSpec
  scatKey : Word
deriving Repr

/-- the name `X-Y` split at the dash (driver only) -/
def splitName (s : String) : Option VName :=
  match s.splitOn "-" with
  | [a, b] => some (a.toList, b.toList)
  | _ => none

/-- a view is well wired iff its transmit path is the path named `X`, its stored receive
    path is the path named `reverse Y` (so that, read from scatterer to probe, it carries
    `Y`), and its scattering key is the last transmit mode followed by the first receive
    mode. -/
def wellWired (e : ViewEntry) : Bool :=
  decide (expectedPath e.setup e.x = some e.tx) &&
  decide (expectedPath e.setup e.y.reverse = some e.rx) &&
  (match e.x.getLast?, e.y.head? with
   | some a, some b => decide (e.scatKey = [a, b])
   | _, _ => false)

end Arim.Views
