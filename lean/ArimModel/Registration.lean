/-! Model of `arim.measurement`: pulse-echo selection, least-squares line through the
    element abscissae / distances, `θ = arcsin p₁`, `z₀ = −p₀`, rotate-then-translate, and
    `detect_surface_from_extrema` (window by `searchsorted`, first maximum of `|x|`).
    Core only, polymorphic in the scalar. -/
namespace Arim.Reg

variable {K : Type} [Add K] [Sub K] [Mul K] [Div K] [Neg K]

/-- one timetrace: transmitter, receiver, measured distance to the surface -/
structure Obs (K : Type) where
  tx : Nat
  rx : Nat
  dist : K

/-- pulse-echo timetraces of working elements (`tx == rx`, element not dead), in frame order -/
def pulseEcho (dead : Nat → Bool) (obs : List (Obs K)) : List (Obs K) :=
  obs.filter (fun o => o.tx == o.rx && !dead o.tx)

def sum (zero : K) (l : List K) : K := l.foldl (· + ·) zero

/-- closed-form least-squares line `d ≈ p₀ + p₁ x` (what `np.polyfit(x, d, 1)` computes) -/
def lsq (zero : K) (ofNat : Nat → K) (xs ds : List K) : K × K :=
  let n := ofNat xs.length
  let sx := sum zero xs
  let sd := sum zero ds
  let sxx := sum zero (xs.map (fun x => x * x))
  let sxd := sum zero ((List.zip xs ds).map (fun p => p.1 * p.2))
  let p1 := (n * sxd - sx * sd) / (n * sxx - sx * sx)
  (( sd - p1 * sx) / n, p1)

/-- the registration: returns `(z₀, sin θ, new (x, z) of every element)`; elements are on the
    probe's Ox axis at abscissae `elemX`; `cosOfSin p₁ = cos(arcsin p₁)`.
    `none` = fewer than two pulse-echo timetraces (the code raises). -/
def register (zero : K) (ofNat : Nat → K) (cosOfSin : K → K) (elemX : Nat → K) (numel : Nat)
    (dead : Nat → Bool) (obs : List (Obs K)) : Option (K × K × List (K × K)) :=
  let pe := pulseEcho dead obs
  if pe.length < 2 then none else
  let xs := pe.map (fun o => elemX o.tx)
  let ds := pe.map (·.dist)
  let (p0, p1) := lsq zero ofNat xs ds
  let z0 := -p0
  let c := cosOfSin p1
  -- rotation about Oy by θ (x' = x cosθ + z sinθ, z' = −x sinθ + z cosθ) with z = 0, then z += z₀
  some (z0, p1, (List.range numel).map (fun e => (elemX e * c, -(elemX e * p1) + z0)))

section detect
variable [LT K] [DecidableLT K] [LE K] [DecidableLE K]

/-- `np.searchsorted(samples, t, side="left")`: number of samples `< t` (samples increasing) -/
def searchLeft (samples : List K) (t : K) : Nat := (samples.takeWhile (fun s => s < t)).length
/-- `side="right"`: number of samples `≤ t` -/
def searchRight (samples : List K) (t : K) : Nat := (samples.takeWhile (fun s => s ≤ t)).length

/-- first index of the maximum (NumPy `argmax`) -/
def argmaxFirst (l : List K) : Option Nat :=
  match l with
  | [] => none
  | x :: rest =>
    some ((rest.foldl (fun (st : K × Nat × Nat) v =>
      let (best, bi, i) := st
      if best < v then (v, i + 1, i + 1) else (best, bi, i + 1)) (x, 0, 0)).2.1)

/-- `detect_surface_from_extrema` for one timetrace: time of the largest `|sample|` inside
    `[tmin, tmax]` (absent bound = unbounded) -/
def detectSurface (abs : K → K) (samples : List K) (trace : List K) (tmin tmax : Option K) : Option K :=
  let lo := match tmin with | none => 0 | some t => searchLeft samples t
  let hi := match tmax with | none => samples.length | some t => searchRight samples t
  let times := (samples.take hi).drop lo
  let data := ((trace.take hi).drop lo).map abs
  (argmaxFirst data).bind (fun i => times[i]?)
end detect

end Arim.Reg
