/-! Model of the frame bookkeeping of `arim.ut` / `arim.core.Frame` / `Probe.subprobe`.
    Core only. Elements are natural numbers, a timetrace is `(tx, rx, payload)`. -/
namespace Arim.Frame

abbrev Pair := Nat × Nat

/-- `ut.fmc n`: tx = 0,0,..,1,1,.. ; rx = 0,1,..,0,1,.. -/
def fmc (n : Nat) : List Pair :=
  (List.range n).flatMap (fun i => (List.range n).map (fun j => (i, j)))

/-- `ut.hmc n`: for each tx `i`, the receivers `i, i+1, .., n-1` -/
def hmc (n : Nat) : List Pair :=
  (List.range n).flatMap (fun i => ((List.range n).filter (fun j => i ≤ j)).map (fun j => (i, j)))

def swap (p : Pair) : Pair := (p.2, p.1)

/-- set inclusion / equality of lists, as Python `set(...) == set(...)` -/
def subset (a b : List Pair) : Bool := a.all (fun x => b.contains x)
def setEq (a b : List Pair) : Bool := subset a b && subset b a

/-- `max(np.max(tx), np.max(rx)) + 1` (the code raises on an empty frame: `none`) -/
def numElements (ps : List Pair) : Option Nat :=
  match ps with
  | [] => none
  | _ => some (ps.foldl (fun m p => max m (max p.1 p.2)) 0 + 1)

inductive Capture | unsupported | fmc | hmc
deriving DecidableEq, Repr

/-- `ut.infer_capture_method` -/
def inferCapture (ps : List Pair) : Option Capture :=
  (numElements ps).map fun n =>
    let h := hmc n
    if h.length == ps.length && (setEq ps h || setEq ps (h.map swap)) then Capture.hmc
    else
      let f := fmc n
      if f.length == ps.length && setEq ps f then Capture.fmc else Capture.unsupported

/-- `ut.default_timetrace_weights`: 1 if the mirror pair is recorded, else 2 -/
def defaultWeights (ps : List Pair) : List Nat :=
  ps.map (fun p => if ps.contains (swap p) then 1 else 2)

/-- lexicographic order on pairs (Python tuple order) -/
def pairLt (a b : Pair) : Bool := a.1 < b.1 || (a.1 == b.1 && a.2 < b.2)

/-- insertion into a sorted duplicate-free list (`sorted(set(...))`) -/
def insertSorted (x : Pair) : List Pair → List Pair
  | [] => [x]
  | y :: ys => if pairLt x y then x :: y :: ys else if x == y then y :: ys else y :: insertSorted x ys

def sortDedup (l : List Pair) : List Pair := l.foldr insertSorted []

structure TT (P : Type) where
  tx : Nat
  rx : Nat
  data : P
deriving Repr

def pairsOf {P : Type} (f : List (TT P)) : List Pair := f.map (fun t => (t.tx, t.rx))

/-- `pair_to_scan_idx[tx, rx]` on a frame without duplicate pairs -/
def lookup {P : Type} (f : List (TT P)) (p : Pair) : Option P :=
  (f.find? (fun t => t.tx == p.1 && t.rx == p.2)).map (·.data)

/-- `Frame.is_complete_assuming_reciprocity` -/
def isComplete {P : Type} (f : List (TT P)) : Bool :=
  setEq (pairsOf f) ((pairsOf f).map swap)

/-- `Frame.expand_frame_assuming_reciprocity` -/
def expand {P : Type} (f : List (TT P)) : List (TT P) :=
  if isComplete f then f else
  (sortDedup (pairsOf f ++ (pairsOf f).map swap)).filterMap (fun p =>
    match lookup f p with
    | some d => some { tx := p.1, rx := p.2, data := d }
    | none => (lookup f (swap p)).map (fun d => { tx := p.1, rx := p.2, data := d }))

/-! ### NumPy index kinds (1-D) -/

inductive Idx
  | slice (start stop : Option Int) (step : Int)
  | mask (m : List Bool)
  | ints (l : List Int)
deriving Repr

/-- CPython `slice.indices(n)` followed by `range(start, stop, step)` -/
def sliceIndices (start stop : Option Int) (step : Int) (n : Nat) : Option (List Nat) :=
  if step = 0 then none else
  let n' : Int := n
  let lower : Int := if step < 0 then -1 else 0
  let upper : Int := if step < 0 then n' - 1 else n'
  let norm (v : Option Int) (dflt : Int) : Int :=
    match v with
    | none => dflt
    | some s => if s < 0 then max (s + n') lower else min s upper
  let st := norm start (if step < 0 then upper else lower)
  let sp := norm stop (if step < 0 then lower else upper)
  let count : Nat :=
    if step > 0 then (if st < sp then ((sp - st - 1) / step + 1).toNat else 0)
    else (if sp < st then ((st - sp - 1) / (-step) + 1).toNat else 0)
  some ((List.range count).map (fun (k : Nat) => (st + step * (k : Int)).toNat))

/-- positions selected by an index on an axis of length `n`, in selection order;
    `none` = NumPy raises IndexError -/
def Idx.positions (ix : Idx) (n : Nat) : Option (List Nat) :=
  match ix with
  | .slice a b s => sliceIndices a b s n
  | .mask m => if m.length ≠ n then none else
      some ((List.range n).filter (fun i => m.getD i false))
  | .ints l => l.mapM (fun (z : Int) =>
      if 0 ≤ z ∧ z < (n : Int) then some z.toNat
      else if z < 0 ∧ -(n : Int) ≤ z then some (z + (n : Int)).toNat else none)

def take? {α : Type} (l : List α) (pos : List Nat) : Option (List α) := pos.mapM (fun i => l[i]?)

/-- `Frame.__init__` refuses duplicate (tx, rx) pairs (`ValueError`) -/
def noDupPairs : List Pair → Bool
  | [] => true
  | p :: ps => !ps.contains p && noDupPairs ps

def mkFrame {P : Type} (f : List (TT P)) : Option (List (TT P)) :=
  if noDupPairs (pairsOf f) then some f else none

/-- `Frame.subframe` -/
def subframe {P : Type} (f : List (TT P)) (ix : Idx) : Option (List (TT P)) :=
  ((ix.positions f.length).bind (take? f)).bind mkFrame

/-- `Probe.subprobe`: the probe is the list of its physical elements (location ids) -/
def subprobe (probe : List Nat) (ix : Idx) : Option (List Nat) :=
  (ix.positions probe.length).bind (take? probe)

/-- `mapper = zeros(n); mapper[elements_idx] = arange(k)` (a later assignment wins) -/
def mapper (_n : Nat) (pos : List Nat) : Nat → Nat :=
  fun old => ((List.zip pos (List.range pos.length)).foldl
    (fun acc (p : Nat × Nat) => if p.1 == old then p.2 else acc) 0)

/-- `Frame.subframe_from_probe_elements`; returns the new frame and the new probe -/
def subframeFromElements {P : Type} (f : List (TT P)) (probe : List Nat) (ix : Idx)
    (makeSubprobe : Bool) : Option (List (TT P) × List Nat) :=
  (ix.positions probe.length).bind fun pos =>
    let kept := f.filter (fun t => pos.contains t.tx && pos.contains t.rx)
    if makeSubprobe then
      (take? probe pos).bind fun sp =>
        (mkFrame (kept.map (fun t => { t with tx := mapper probe.length pos t.tx, rx := mapper probe.length pos t.rx }))).map
          (fun f' => (f', sp))
    else some (kept, probe)

end Arim.Frame
