/-! Model of the interface coefficient functions of `arim.model`: `snell_angles`,
    `_fluid_solid_n`, `fluid_solid`, `solid_l_fluid`, `solid_t_fluid`,
    `transmission_at_interface`, `reflection_at_interface`. Core only, polymorphic in the
    (complex) scalar; `sin`, `cos`, `arcsin` are fields of `CTrig`. The expressions keep the
    sub-expressions of the Python source (`sin(2α)`, `cos(2α)`, `sin(4α)`). -/
namespace Arim.Iface

structure CTrig (K : Type) where
  sin : K → K
  cos : K → K
  asin : K → K
  ofNat : Nat → K

variable {K : Type} [Add K] [Sub K] [Mul K] [Div K] [Neg K]

/-- `snell_angles`: `arcsin(c_refracted / c_incident * sin α)` -/
def snell (t : CTrig K) (a cInc cRef : K) : K := t.asin (cRef / cInc * t.sin a)

/-- densities and velocities of the two media -/
structure Media (K : Type) where
  rhoF : K
  rhoS : K
  cF : K
  cL : K
  cT : K

/-- Krautkrämer's `N` (A8) -/
def nfs (t : CTrig K) (m : Media K) (aF aL aT : K) : K :=
  let ctcl2 := (m.cT * m.cT) / (m.cL * m.cL)
  let c2t := t.cos (t.ofNat 2 * aT)
  ctcl2 * t.sin (t.ofNat 2 * aL) * t.sin (t.ofNat 2 * aT) + c2t * c2t
    + m.rhoF * m.cF / (m.rhoS * m.cL) * t.cos aL / t.cos aF

/-- `fluid_solid`: (reflection, transmission L, transmission T), stress units -/
def fluidSolid (t : CTrig K) (m : Media K) (aF aL aT : K) : K × K × K :=
  let n := nfs t m aF aL aT
  let ctcl2 := (m.cT * m.cT) / (m.cL * m.cL)
  let c2t := t.cos (t.ofNat 2 * aT)
  let refl := (ctcl2 * t.sin (t.ofNat 2 * aL) * t.sin (t.ofNat 2 * aT) + c2t * c2t
      - (m.rhoF * m.cF * t.cos aL) / (m.rhoS * m.cL * t.cos aF)) / n
  (refl, t.ofNat 2 * c2t / n, -(t.ofNat 2) * ctcl2 * t.sin (t.ofNat 2 * aL) / n)

/-- `solid_l_fluid`: (reflection L, reflection T, transmission) for an incident L wave -/
def solidLFluid (t : CTrig K) (m : Media K) (aF aL aT : K) : K × K × K :=
  let n := nfs t m aF aL aT
  let ctcl2 := (m.cT * m.cT) / (m.cL * m.cL)
  let c2t := t.cos (t.ofNat 2 * aT)
  let rl := (ctcl2 * t.sin (t.ofNat 2 * aL) * t.sin (t.ofNat 2 * aT) - c2t * c2t
      + m.rhoF * m.cF / (m.rhoS * m.cL) * t.cos aL / t.cos aF) / n
  let rt := (t.ofNat 2 * ctcl2 * t.sin (t.ofNat 2 * aL) * t.cos (t.ofNat 2 * aT)) / n
  let tr := t.ofNat 2 * m.rhoF * m.cF * t.cos aL * t.cos (t.ofNat 2 * aT) / (n * m.rhoS * m.cL * t.cos aF)
  (rl, rt, tr)

/-- `solid_t_fluid`: (reflection L, reflection T, transmission) for an incident T wave -/
def solidTFluid (t : CTrig K) (m : Media K) (aF aL aT : K) : K × K × K :=
  let n := nfs t m aF aL aT
  let ctcl2 := (m.cT * m.cT) / (m.cL * m.cL)
  let c2t := t.cos (t.ofNat 2 * aT)
  let rl := -(t.sin (t.ofNat 4 * aT)) / n
  let rt := (ctcl2 * t.sin (t.ofNat 2 * aL) * t.sin (t.ofNat 2 * aT) - c2t * c2t
      - m.rhoF * m.cF / (m.rhoS * m.cL) * t.cos aL / t.cos aF) / n
  let tr := t.ofNat 2 * m.rhoF * m.cF * t.cos aL * t.sin (t.ofNat 2 * aT) / (n * m.rhoS * m.cL * t.cos aF)
  (rl, rt, tr)

inductive Mode | L | T deriving DecidableEq, Repr
inductive Kind | fluidSolid | solidFluid deriving DecidableEq, Repr
inductive IErr | physics | notImplemented deriving DecidableEq, Repr

def velS (m : Media K) : Mode → K | .L => m.cL | .T => m.cT

/-- `transmission_at_interface` (the incidence angle is the only angle given; the others
    follow from Snell's law). `disp` = displacement units. -/
def transmissionAt (t : CTrig K) (m : Media K) (kind : Kind) (mInc mOut : Mode) (a : K) (disp : Bool) :
    Except IErr K :=
  match kind with
  | .fluidSolid =>
    if mInc ≠ .L then .error .physics else
    let aL := snell t a m.cF m.cL
    let aT := snell t a m.cF m.cT
    let (_, tl, tt) := fluidSolid t m a aL aT
    let z := (m.rhoF * m.cF) / (m.rhoS * velS m mOut)
    let v := match mOut with | .L => tl | .T => tt
    .ok (if disp then v * z else v)
  | .solidFluid =>
    if mOut ≠ .L then .error .physics else
    let tr := match mInc with
      | .L => (solidLFluid t m (snell t a m.cL m.cF) a (snell t a m.cL m.cT)).2.2
      | .T => (solidTFluid t m (snell t a m.cT m.cF) (snell t a m.cT m.cL) a).2.2
    let z := (m.rhoS * velS m mInc) / (m.rhoF * m.cF)
    .ok (if disp then tr * z else tr)

/-- `reflection_at_interface` -/
def reflectionAt (t : CTrig K) (m : Media K) (kind : Kind) (mInc mOut : Mode) (a : K) (disp : Bool) :
    Except IErr K :=
  match kind with
  | .solidFluid =>
    let r := match mInc with
      | .L => solidLFluid t m (snell t a m.cL m.cF) a (snell t a m.cL m.cT)
      | .T => solidTFluid t m (snell t a m.cT m.cF) (snell t a m.cT m.cL) a
    let z := velS m mInc / velS m mOut
    let v := match mOut with | .L => r.1 | .T => r.2.1
    .ok (if disp then v * z else v)
  | .fluidSolid =>
    let r := (fluidSolid t m a (snell t a m.cF m.cL) (snell t a m.cF m.cT)).1
    -- in the fluid both modes are L: z = c_f / c_f
    .ok (if disp then r * (m.cF / m.cF) else r)

end Arim.Iface
