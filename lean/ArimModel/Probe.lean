import ArimModel.Geometry
/-! Model of the rigid motions of `arim.core.Probe` and of `Probe.make_matrix_probe`,
    `points_from_probe`. Core only, polymorphic in the scalar. -/
namespace Arim.Probe
open Arim Arim.Geo

variable {α : Type} [Add α] [Sub α] [Mul α]

structure State (α : Type) where
  locs : List (P3 α)
  normals : List (P3 α)
  pcs : CS α

inductive Ref | first | last | mean | idx (k : Int)

inductive Op (α : Type)
  | translate (v : P3 α)
  | rotate (r : M3 α) (centre : Option (P3 α))
  | flip
  | setRef (r : Ref)
  | toO
  | reset

/-- `Probe.translate`: locations and PCS origin move, normals do not -/
def translate (s : State α) (v : P3 α) : State α :=
  { s with locs := s.locs.map (fun p => vadd p v), pcs := s.pcs.translate v }

/-- `Probe.rotate`: locations and PCS about the centre, normals about the origin -/
def rotateP (s : State α) (r : M3 α) (c : Option (P3 α)) : State α :=
  { locs := s.locs.map (fun p => Geo.rotate p r c)
    normals := s.normals.map (fun p => Geo.rotate p r none)
    pcs := s.pcs.rotate r c }

section
variable [Neg α] [Div α] (zero one : α) (ofNat : Nat → α)

def neg3 (v : P3 α) : P3 α := ⟨-v.x, -v.y, -v.z⟩

def meanLoc (locs : List (P3 α)) : P3 α :=
  let s := locs.foldl vadd ⟨zero, zero, zero⟩
  let n := ofNat locs.length
  ⟨s.x / n, s.y / n, s.z / n⟩

/-- Python indexing of the element list (`none` = IndexError) -/
def pyIdx (locs : List (P3 α)) (k : Int) : Option (P3 α) :=
  if 0 ≤ k then locs[k.toNat]? else if -(locs.length : Int) ≤ k then locs[(k + locs.length).toNat]? else none

/-- `set_reference_element`: only the PCS origin changes -/
def setRef (s : State α) (r : Ref) : Option (State α) :=
  let o : Option (P3 α) := match r with
    | .first => pyIdx s.locs 0
    | .last => pyIdx s.locs (-1)
    | .mean => if s.locs.isEmpty then none else some (meanLoc zero ofNat s.locs)
    | .idx k => pyIdx s.locs k
  o.map (fun o => { s with pcs := { s.pcs with origin := o } })

/-- `translate_to_point_O` -/
def toO (s : State α) : State α := translate s (neg3 s.pcs.origin)

/-- `reset_position`: to O, then rotate by the matrix whose rows are the PCS axes -/
def reset (s : State α) : State α :=
  let s1 := toO s
  rotateP s1 s1.pcs.rows none

/-- `flip_probe_around_axis_Oz`: rotation by π about Oz; `c, s` = cos π, sin π as computed -/
def flip (s : State α) (c sn : α) : State α := rotateP s (rotZ zero one c sn) none

def step (cpi spi : α) (s : State α) : Op α → Option (State α)
  | .translate v => some (translate s v)
  | .rotate r c => some (rotateP s r c)
  | .flip => some (flip zero one s cpi spi)
  | .setRef r => setRef zero ofNat s r
  | .toO => some (toO s)
  | .reset => some (reset s)

/-- `make_matrix_probe`: `x = arange(numx) * pitch_x - mean`, tiled; `y` repeated; `z = 0`;
    element `(ix, iy)` has index `iy * numx + ix` -/
def matrixProbe (numx numy : Nat) (pitchX pitchY : α) : List (P3 α) :=
  let xs := (List.range numx).map (fun k => if numx > 1 then ofNat k * pitchX else ofNat k)
  let ys := (List.range numy).map (fun k => if numy > 1 then ofNat k * pitchY else ofNat k)
  let mean (l : List α) : α := l.foldl (· + ·) zero / ofNat l.length
  let mx := mean xs
  let my := mean ys
  ys.flatMap (fun y => xs.map (fun x => (⟨x - mx, y - my, zero⟩ : P3 α)))
end

/-- `locations_pcs`, `orientations_pcs` -/
def locsPcs (s : State α) : List (P3 α) := s.locs.map s.pcs.fromGcs
def normalsPcs (zero : α) (s : State α) : List (P3 α) :=
  s.normals.map (fun p => ({ s.pcs with origin := ⟨zero, zero, zero⟩ } : CS α).fromGcs p)

/-- `points_from_probe`: every element carries the probe's own axes `(î, ĵ, k̂)` -/
def orientedPoints (s : State α) : List (P3 α × M3 α) := s.locs.map (fun p => (p, s.pcs.rows))

end Arim.Probe
