import ArimModel.Das
/-! Prelude of the *generated* model (`ArimProofs/Generated/Src*.lean`, written on every run by
    `harness/py2lean.py` from the Python sources in /repo): the numerical routines the
    translated functions call, as fields of one structure. Core only. -/
namespace Arim.Src

/-- external routines of the time/angle scalar `K` as the translated code names them -/
structure Ops (K : Type) where
  sin : K → K
  cos : K → K
  asin : K → K
  sqrt : K → K
  exp : K → K
  /-- `numpy.sinc`: `sin(pi x)/(pi x)` -/
  sinc : K → K
  pi : K
  ofNat : Nat → K
  ofInt : Int → K
  /-- `math.floor`, and the quotient of Python's float `//` -/
  floor : K → Int
  /-- Python / numba `round`: nearest integer, ties to even -/
  round : K → Int
  /-- `int(x)`: truncation towards zero -/
  trunc : K → Int

/-- Python `range(a, b)` on naturals -/
def pyRange (a b : Nat) : List Nat := List.range' a (b - a)

/-- Python `range(a, b)` on integers (possibly negative) -/
def pyRangeI (a b : Int) : List Int := (List.range (b - a).toNat).map (fun (k : Nat) => a + (k : Int))

/-- Python list indexing `l[i]` (valid indices only; `dflt` is never reached by the code) -/
def pyGet {α : Type} (l : List α) (i : Nat) (dflt : α) : α := l.getD i dflt

/-- Python `min(a, b)`: the first of the smallest (`b` only if it is strictly smaller) -/
def pyMin {α : Type} [LT α] [DecidableLT α] (a b : α) : α := if b < a then b else a

/-- Python `max(a, b)`: the first of the largest -/
def pyMax {α : Type} [LT α] [DecidableLT α] (a b : α) : α := if a < b then b else a

/-- `math.ceil(a / b)` for natural numbers (sizes and block sizes; the float quotient is exact below 2^53) -/
def pyCeilDiv (a b : Nat) : Nat := (a + b - 1) / b

end Arim.Src
