/-! Model of the `_cache_ray_geometry` wrapper and of the 17 cached query methods of
    `arim.ray.RayGeometry`, as a state machine. Core only.

    Values are abstracted to their *class* (`none` = the method returns `None`, `val` = an
    array); the correspondence check compares the numerical answers bit for bit with a
    fresh uncached object, the model carries the part that is logic: which requests are
    errors, which return `None`, what is cached under which key, what is final. -/
namespace Arim.RayCache

inductive Meth
  | legPoints | orient
  | incLegSize | incCart | incRadius | incPolar | incAzimuth | incAngle | signedInc | convInc
  | outCart | outRadius | outPolar | outAzimuth | outAngle | signedOut | convOut
deriving DecidableEq, Repr

inductive Err | index | value deriving DecidableEq, Repr
inductive Cls | none | val deriving DecidableEq, Repr

abbrev Key := Meth × Nat
abbrev Res := Except Err Cls

structure St where
  cache : List (Key × Cls) := []
  finals : List Key := []
deriving Repr

/-- static description of the path: number of interfaces and the two normal-side flags -/
structure Geo where
  n : Nat
  incSide : Nat → Option Bool
  outSide : Nat → Option Bool
  /-- `true` models the code before the repair of finding F3 (the `inc_*` methods test the
      raw index against 0); `false` is the current code (normalised index is tested). -/
  rawZeroTest : Bool := false

/-- `self._interface_indices[idx]`: Python indexing of a tuple of length `n` -/
def norm (n : Nat) (r : Int) : Option Nat :=
  if 0 ≤ r ∧ r < (n : Int) then some r.toNat
  else if r < 0 ∧ -(n : Int) ≤ r then some (r + (n : Int)).toNat else none

def lookup (c : List (Key × Cls)) (k : Key) : Option Cls :=
  (c.find? (fun e => e.1 == k)).map (·.2)

def addFinal (s : St) (k : Key) : St :=
  if s.finals.contains k then s else { s with finals := k :: s.finals }

/-- the decorator: normalise the index for the key, hit → return (promote if final),
    miss → run the body with the *raw* index, store (also `None`), mark final.
    An exception in the body propagates; what sub-calls cached stays cached. -/
def wrap (g : Geo) (m : Meth) (body : St → Int → Res × St) (s : St) (r : Int) (isFinal : Bool) :
    Res × St :=
  match norm g.n r with
  | Option.none => (.error .index, s)
  | some a =>
    let k : Key := (m, a)
    match lookup s.cache k with
    | some v => (.ok v, if isFinal then addFinal s k else s)
    | Option.none =>
      match body s r with
      | (.error e, s') => (.error e, s')
      | (.ok v, s') =>
        let s'' : St := { s' with cache := (k, v) :: s'.cache }
        (.ok v, if isFinal then addFinal s'' k else s'')

/-- is this raw index the first interface, as the `inc_*` bodies test it -/
def isFirst (g : Geo) (r : Int) : Bool :=
  if g.rawZeroTest then r == 0 else norm g.n r == some 0

def isLast (g : Geo) (r : Int) : Bool := norm g.n r == some (g.n - 1)

/-- sequencing helper: run `f`, on success continue with `k` -/
def andThen (x : Res × St) (k : Cls → St → Res × St) : Res × St :=
  match x with
  | (.error e, s) => (.error e, s)
  | (.ok v, s) => k v s

def qLeg (g : Geo) (s : St) (r : Int) (fin : Bool) : Res × St :=
  wrap g .legPoints (fun s _ => (.ok .val, s)) s r fin
def qOrient (g : Geo) (s : St) (r : Int) (fin : Bool) : Res × St :=
  wrap g .orient (fun s _ => (.ok .val, s)) s r fin

def qIncLegSize (g : Geo) (s : St) (r : Int) (fin : Bool) : Res × St :=
  wrap g .incLegSize (fun s r =>
    if isFirst g r then (.ok .none, s) else
    andThen (qLeg g s (r - 1) false) fun _ s =>
    andThen (qLeg g s r false) fun _ s => (.ok .val, s)) s r fin

def qIncCart (g : Geo) (s : St) (r : Int) (fin : Bool) : Res × St :=
  wrap g .incCart (fun s r =>
    if isFirst g r then (.ok .none, s) else
    andThen (qLeg g s (r - 1) false) fun _ s =>
    andThen (qLeg g s r false) fun _ s =>
    andThen (qOrient g s r false) fun _ s => (.ok .val, s)) s r fin

def qIncRadius (g : Geo) (s : St) (r : Int) (fin : Bool) : Res × St :=
  wrap g .incRadius (fun s r =>
    andThen (qIncCart g s r false) fun c s =>
    if c == .none then (.ok .none, s) else (.ok .val, s)) s r fin

def qIncPolar (g : Geo) (s : St) (r : Int) (fin : Bool) : Res × St :=
  wrap g .incPolar (fun s r =>
    andThen (qIncCart g s r false) fun c s =>
    if c == .none then (.ok .none, s) else
    andThen (qIncRadius g s r false) fun _ s => (.ok .val, s)) s r fin

def qIncAzimuth (g : Geo) (s : St) (r : Int) (fin : Bool) : Res × St :=
  wrap g .incAzimuth (fun s r =>
    andThen (qIncCart g s r false) fun c s =>
    if c == .none then (.ok .none, s) else (.ok .val, s)) s r fin

def qIncAngle (g : Geo) (s : St) (r : Int) (fin : Bool) : Res × St :=
  wrap g .incAngle (fun s r => qIncPolar g s r false) s r fin

def qSignedInc (g : Geo) (s : St) (r : Int) (fin : Bool) : Res × St :=
  wrap g .signedInc (fun s r =>
    andThen (qIncAzimuth g s r false) fun a s =>
    if a == .none then (.ok .none, s) else
    andThen (qIncPolar g s r false) fun _ s => (.ok .val, s)) s r fin

def qConvInc (g : Geo) (s : St) (r : Int) (fin : Bool) : Res × St :=
  wrap g .convInc (fun s r =>
    if isFirst g r then (.ok .none, s) else
    match (norm g.n r).bind g.incSide with
    | Option.none => (.error .value, s)
    | some _ => qIncPolar g s r false) s r fin

def qOutCart (g : Geo) (s : St) (r : Int) (fin : Bool) : Res × St :=
  wrap g .outCart (fun s r =>
    if isLast g r then (.ok .none, s) else
    andThen (qLeg g s r false) fun _ s =>
    andThen (qLeg g s (r + 1) false) fun _ s =>
    andThen (qOrient g s r false) fun _ s => (.ok .val, s)) s r fin

def qOutRadius (g : Geo) (s : St) (r : Int) (fin : Bool) : Res × St :=
  wrap g .outRadius (fun s r =>
    andThen (qOutCart g s r false) fun c s =>
    if c == .none then (.ok .none, s) else (.ok .val, s)) s r fin

def qOutPolar (g : Geo) (s : St) (r : Int) (fin : Bool) : Res × St :=
  wrap g .outPolar (fun s r =>
    andThen (qOutCart g s r false) fun c s =>
    if c == .none then (.ok .none, s) else
    andThen (qOutRadius g s r false) fun _ s => (.ok .val, s)) s r fin

def qOutAzimuth (g : Geo) (s : St) (r : Int) (fin : Bool) : Res × St :=
  wrap g .outAzimuth (fun s r =>
    andThen (qOutCart g s r false) fun c s =>
    if c == .none then (.ok .none, s) else (.ok .val, s)) s r fin

def qOutAngle (g : Geo) (s : St) (r : Int) (fin : Bool) : Res × St :=
  wrap g .outAngle (fun s r => qOutPolar g s r false) s r fin

def qSignedOut (g : Geo) (s : St) (r : Int) (fin : Bool) : Res × St :=
  wrap g .signedOut (fun s r =>
    andThen (qOutAzimuth g s r false) fun a s =>
    if a == .none then (.ok .none, s) else
    andThen (qOutPolar g s r false) fun _ s => (.ok .val, s)) s r fin

def qConvOut (g : Geo) (s : St) (r : Int) (fin : Bool) : Res × St :=
  wrap g .convOut (fun s r =>
    if isLast g r then (.ok .none, s) else
    match (norm g.n r).bind g.outSide with
    | Option.none => (.error .value, s)
    | some _ => qOutPolar g s r false) s r fin

/-- dispatch on the method -/
def query (g : Geo) (s : St) (m : Meth) (r : Int) (fin : Bool) : Res × St :=
  match m with
  | .legPoints => qLeg g s r fin | .orient => qOrient g s r fin
  | .incLegSize => qIncLegSize g s r fin | .incCart => qIncCart g s r fin
  | .incRadius => qIncRadius g s r fin | .incPolar => qIncPolar g s r fin
  | .incAzimuth => qIncAzimuth g s r fin | .incAngle => qIncAngle g s r fin
  | .signedInc => qSignedInc g s r fin | .convInc => qConvInc g s r fin
  | .outCart => qOutCart g s r fin | .outRadius => qOutRadius g s r fin
  | .outPolar => qOutPolar g s r fin | .outAzimuth => qOutAzimuth g s r fin
  | .outAngle => qOutAngle g s r fin | .signedOut => qSignedOut g s r fin
  | .convOut => qConvOut g s r fin

/-- the answer of a fresh object (empty cache), i.e. the specification of a query -/
def spec (g : Geo) (m : Meth) (r : Int) : Res := (query g {} m r true).1

inductive Op
  | query (m : Meth) (r : Int) (fin : Bool)
  | clearIntermediate
  | clearAll
  /-- `with rg.precompute(): ops` -/
  | precompute (ops : List (Meth × Int × Bool))
  /-- model functions, as the sequence of final queries they issue -/
  | beamspread | revBeamspread | transRefl
  /-- `reverse_transmission_reflection_for_path`: reads the same incidence angles, in the same order, as the forward function -/
  | revTransRefl
deriving Repr

def clearIntermediate (s : St) : St :=
  { s with cache := s.cache.filter (fun e => s.finals.contains e.1) }

/-- run queries until the first error (an exception aborts the caller) -/
def runQueries (g : Geo) (s : St) : List (Meth × Int × Bool) → List Res × St
  | [] => ([], s)
  | (m, r, f) :: rest =>
    match query g s m r f with
    | (.error e, s') => ([.error e], s')
    | (.ok v, s') => let (rs, s'') := runQueries g s' rest; (.ok v :: rs, s'')

def beamspreadQueries (g : Geo) : List (Meth × Int × Bool) :=
  let n := g.n - 1
  ((List.range (n - 1)).map (fun k => (Meth.convInc, ((k + 1 : Nat) : Int), true))) ++
  [(Meth.incLegSize, 1, true)] ++
  ((List.range (n - 1)).map (fun k => (Meth.incLegSize, ((k + 2 : Nat) : Int), true)))

def revBeamspreadQueries (g : Geo) : List (Meth × Int × Bool) :=
  let n := g.n - 1
  ((List.range (n - 1)).map (fun k => (Meth.convInc, ((n - (k + 1) : Nat) : Int), true))) ++
  [(Meth.incLegSize, (n : Int), true)] ++
  ((List.range (n - 1)).map (fun k => (Meth.incLegSize, ((n - (k + 1) : Nat) : Int), true)))

def transReflQueries (g : Geo) : List (Meth × Int × Bool) :=
  (List.range (g.n - 2)).map (fun k => (Meth.convInc, ((k + 1 : Nat) : Int), true))

/-- one operation of a history: answers and new state -/
def step (g : Geo) (s : St) : Op → List Res × St
  | .query m r f => let (a, s') := query g s m r f; ([a], s')
  | .clearIntermediate => ([], clearIntermediate s)
  | .clearAll => ([], {})
  | .precompute ops =>
    let (rs, s') := runQueries g s ops
    -- `precompute` has no try/finally: an exception in the block skips the clean-up
    if rs.any (fun r => match r with | .error _ => true | .ok _ => false) then (rs, s')
    else (rs, clearIntermediate s')
  | .beamspread => runQueries g s (beamspreadQueries g)
  | .revBeamspread => runQueries g s (revBeamspreadQueries g)
  | .transRefl => runQueries g s (transReflQueries g)
  | .revTransRefl => runQueries g s (transReflQueries g)

end Arim.RayCache
