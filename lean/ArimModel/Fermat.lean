import ArimModel.MinPlus
/-! Model of `FermatSolver._solve` (recursion on `split_queue`), `consecutive_times`,
    `Rays.expand_rays`, `Rays.reverse`. Core only, polymorphic in the scalar. -/
namespace Arim
variable {α : Type} [LT α] [DecidableLT α] [Add α]

/-- A leg after the first: `m` = number of points of the interface where the leg starts,
    `t k j` = travel time from point `k` of that interface to point `j` of the next set. -/
structure Leg (α : Type) where
  m : Nat
  t : Nat → Nat → α

/-- Result for one `(i,j)`: best time and the interior indices (one per interior interface,
    in path order). -/
abbrev Res (α : Type) := Option (α × List Nat)

/-- `find_minimum_times` followed by `expand_rays` for one `(i,j)`: candidates scanned in
    order `k = 0..m-1`, strict `<` update, the head of the ray is copied from the winner. -/
def scanMinR (f : Nat → Res α) (m : Nat) : Res α :=
  (List.range m).foldl (fun acc k =>
    match f k with
    | none => acc              -- unreachable when all sets are non-empty
    | some (v, ks) =>
      match acc with
      | none => some (v, ks ++ [k])
      | some (b, kb) => if v < b then some (v, ks ++ [k]) else some (b, kb)) none

/-- legs in reverse order (last leg first), mirroring the `split_queue` recursion:
    `solve(path) = minplus(solve(head), consecutive_times(tail))`. -/
def solveR (first : Nat → Nat → α) : List (Leg α) → Nat → Nat → Res α
  | [], i, j => some (first i j, [])
  | l :: prev, i, j =>
      scanMinR (fun k => (solveR first prev i k).map (fun (v, ks) => (v + l.t k j, ks))) l.m

/-- cost of a given tuple of interior indices (reverse order: last interior index first);
    the sum is left-associated exactly as the solver accumulates it. -/
def costR (first : Nat → Nat → α) : List (Leg α) → Nat → List Nat → Nat → Option α
  | [], i, [], j => some (first i j)
  | l :: prev, i, k :: ks, j => (costR first prev i ks k).map (· + l.t k j)
  | _, _, _, _ => none

/-- 3-D point -/
structure P3 (α : Type) where
  x : α
  y : α
  z : α

/-- `_distance_pairwise` body: `sqrt(dx*dx + dy*dy + dz*dz)`, same association. -/
def dist3 {β : Type} [Sub β] [Mul β] [Add β] (sqrt : β → β) (a b : P3 β) : β :=
  let dx := a.x - b.x
  let dy := a.y - b.y
  let dz := a.z - b.z
  sqrt (dx * dx + dy * dy + dz * dz)

/-- `consecutive_times`: `distance / speed` -/
def legTime {β : Type} [Sub β] [Mul β] [Add β] [Div β] (sqrt : β → β)
    (ps qs : Array (P3 β)) (v : β) (dflt : P3 β) (k j : Nat) : β :=
  dist3 sqrt (ps.getD k dflt) (qs.getD j dflt) / v

/-- A Fermat path as the solver sees it: point sets and the velocities between them. -/
structure FPath (β : Type) where
  sets : List (Array (P3 β))
  vels : List β

/-- Build `(first, legs reversed, n, p)` from a path with at least two sets. -/
def FPath.toLegs {β : Type} [Sub β] [Mul β] [Add β] [Div β] (sqrt : β → β) (dflt : P3 β)
    (p : FPath β) : Option ((Nat → Nat → β) × List (Leg β) × Nat × Nat) :=
  match p.sets, p.vels with
  | s0 :: s1 :: rest, v0 :: vrest =>
    if rest.length ≠ vrest.length then none else
    let first := legTime sqrt s0 s1 v0 dflt
    -- legs in path order
    let rec go (prev : Array (P3 β)) (ss : List (Array (P3 β))) (vs : List β)
        (acc : List (Leg β)) : List (Leg β) × Nat :=
      match ss, vs with
      | s :: ss', v :: vs' => go s ss' vs' ({ m := prev.size, t := legTime sqrt prev s v dflt } :: acc)
      | _, _ => (acc, prev.size)
    let (legsRev, lastSize) := go s1 rest vrest []
    some (first, legsRev, s0.size, lastSize)
  | _, _ => none

/-- `Rays.reverse`: transposed times, interior indices reversed along the interface axis. -/
def reverseRay (r : α × List Nat) : α × List Nat := (r.1, r.2.reverse)

end Arim
