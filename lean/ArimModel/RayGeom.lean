import ArimModel.Geometry
/-! Model of the per-ray quantities of `arim.ray.RayGeometry` for one ray: leg lengths,
    legs in the local frames, spherical angles, signed and conventional angles. Core only.
    External routines (sqrt, arccos, arctan2, π) are fields of `Trig`. -/
namespace Arim.RayGeom
open Arim Arim.Geo

structure Trig (α : Type) where
  sqrt : α → α
  acos : α → α
  atan2 : α → α → α     -- atan2 y x
  pi : α
  two : α

variable {α : Type} [Add α] [Sub α] [Mul α] [Div α] [Neg α] [LT α] [DecidableLT α] [LE α] [DecidableLE α]

/-- `norm2`: `sqrt((0 + x*x) + y*y + z*z)`; `0 + x*x = x*x` exactly, so the zero is omitted -/
def norm2 (t : Trig α) (v : P3 α) : α := t.sqrt (v.x * v.x + v.y * v.y + v.z * v.z)

/-- `_signed_leg_angle`: `+polar` iff the azimuth lies in `(-π/2, π/2]`, else `-polar`
    (docs/source/model/coordinate_system.rst) -/
def signedLegAngle (t : Trig α) (polar azimuth : α) : α :=
  if -(t.pi / t.two) < azimuth ∧ azimuth ≤ t.pi / t.two then polar else -polar

/-- one interface point of the ray: position, local frame (rows î ĵ k̂), normal-side flags -/
structure Node (α : Type) where
  p : P3 α
  frame : M3 α
  incSide : Option Bool
  outSide : Option Bool

structure Leg (α : Type) where
  size : α            -- inc_leg_size / distance between consecutive points
  cart : P3 α         -- the other end of the leg in the local frame of this interface
  radius : α
  polar : α
  azimuth : α
  signed : α
  conventional : Option α   -- `none` = the code raises ValueError (side flag undeclared)

/-- the leg from `other` seen from interface point `here` -/
def legAt (t : Trig α) (here : Node α) (other : P3 α) (side : Option Bool) : Leg α :=
  let cart := fromGcs other here.frame here.p
  let r := norm2 t cart
  let polar := t.acos (cart.z / r)
  let az := t.atan2 cart.y cart.x
  { size := norm2 t (vsub other here.p)
    cart := cart
    radius := r
    polar := polar
    azimuth := az
    signed := signedLegAngle t polar az
    conventional := side.map (fun s => if s then polar else t.pi - polar) }

/-- incoming leg at interface `k` (`none` for the first interface) -/
def incLeg (t : Trig α) (ray : List (Node α)) (k : Nat) : Option (Leg α) :=
  if k = 0 then none else
  match ray[k]?, ray[k - 1]? with
  | some here, some prev => some (legAt t here prev.p here.incSide)
  | _, _ => none

/-- outgoing leg at interface `k` (`none` for the last interface) -/
def outLeg (t : Trig α) (ray : List (Node α)) (k : Nat) : Option (Leg α) :=
  match ray[k]?, ray[k + 1]? with
  | some here, some next => some (legAt t here next.p here.outSide)
  | _, _ => none

/-- `Interface.reverse` on the flags, `Path.reverse` on the order -/
def reverseRay (ray : List (Node α)) : List (Node α) :=
  (ray.map (fun nd => { nd with incSide := nd.outSide, outSide := nd.incSide })).reverse

/-- travel time of the ray: `Σ legsize_k / v_k`, left-associated as the solver accumulates it -/
def travelTime (t : Trig α) (ray : List (Node α)) (vels : List α) : Option α :=
  match ray, vels with
  | a :: b :: rest, v :: vs =>
    let first := norm2 t (vsub a.p b.p) / v
    let rec go (prev : Node α) (rest : List (Node α)) (vs : List α) (acc : α) : Option α :=
      match rest, vs with
      | [], [] => some acc
      | nd :: rest', v :: vs' => go nd rest' vs' (acc + norm2 t (vsub prev.p nd.p) / v)
      | _, _ => none
    go b rest vs first
  | _, _ => none

end Arim.RayGeom
