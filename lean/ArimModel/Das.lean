/-! Model of the delay-and-sum kernels of `arim.im.das` and of the dispatcher. Core only.
    Polymorphic in the scalar type `α` of times and in the data type `β` of samples; the
    numerical primitives (floor, round-half-even, sinc) are fields of `Ops`. -/
namespace Arim.Das

/-- numerical primitives on the time scalar -/
structure Ops (α : Type) where
  floor : α → Int
  /-- numba / CPython `round`: nearest integer, ties to even -/
  round : α → Int
  ofInt : Int → α
  /-- `sinc x = sin(pi x)/(pi x)`, `1` at `0` -/
  sinc : α → α

/-- operations on samples: a module over the scalars, with a product (amplitudes) -/
structure Data (α β : Type) where
  zero : β
  add : β → β → β
  sub : β → β → β
  mul : β → β → β
  smul : α → β → β
  divNat : β → Nat → β

inductive Interp | nearest | linear | lanczos (a : Nat)
deriving DecidableEq, Repr

section
variable {α β : Type} [Add α] [Sub α] [Mul α] [Div α] [LT α] [DecidableLT α]

/-- `lookup_index = round(loc)`; outside `[0, n)` → fill -/
def interpNearest (ops : Ops α) (n : Nat) (g : Nat → β) (loc : α) : Option β :=
  let i := ops.round loc
  if i < 0 ∨ i ≥ (n : Int) then none else some (g i.toNat)

/-- amplitude kernels: `g[i] + frac * (g[i+1] - g[i])`, `i = ⌊loc⌋`; fill unless `0 ≤ i` and `i+1 < n` -/
def interpLinearA (ops : Ops α) (d : Data α β) (n : Nat) (g : Nat → β) (loc : α) : Option β :=
  let i := ops.floor loc
  let frac := loc - ops.ofInt i
  if i < 0 ∨ i + 1 ≥ (n : Int) then none
  else some (d.add (g i.toNat) (d.smul frac (d.sub (g (i + 1).toNat) (g i.toNat))))

/-- uniform-amplitude kernel: `(1 - frac) * g[i] + frac * g[i+1]` -/
def interpLinearB (ops : Ops α) (d : Data α β) (n : Nat) (g : Nat → β) (loc : α) : Option β :=
  let i := ops.floor loc
  let frac := loc - ops.ofInt i
  if i < 0 ∨ i + 1 ≥ (n : Int) then none
  else some (d.add (d.smul (ops.ofInt 1 - frac) (g i.toNat)) (d.smul frac (g (i + 1).toNat)))

/-- Lanczos window of half-width `a`, circular indexing `i % n`; fill unless `0 ≤ loc < n` -/
def interpLanczos (ops : Ops α) (d : Data α β) (a : Nat) (n : Nat) (g : Nat → β) (loc : α) : Option β :=
  if loc < ops.ofInt 0 ∨ ¬ (loc < ops.ofInt n) then none else
  let fl := ops.floor loc
  let lo := fl - (a : Int) + 1
  some ((List.range (2 * a)).foldl (fun acc (k : Nat) =>
    let i : Int := lo + (k : Int)
    let x := loc - ops.ofInt i
    d.add acc (d.smul (ops.sinc x * ops.sinc (x / ops.ofInt a)) (g (i % (n : Int)).toNat))) d.zero)

/-- the mean aggregation: `res += term or fill` over the timetraces, then `/ N` -/
def dasMean (d : Data α β) (fill : β) (N : Nat) (term : Nat → Option β) : β :=
  d.divNat ((List.range N).foldl (fun acc k => d.add acc ((term k).getD fill)) d.zero) N

/-- the delayed samples handed to the robust aggregations (median, Huber) -/
def delayedSamples (fill : β) (N : Nat) (term : Nat → Option β) : List β :=
  (List.range N).map (fun k => (term k).getD fill)

/-- a frame and a focal law, as functions -/
structure Problem (α β : Type) where
  N : Nat                      -- timetraces
  n : Nat                      -- samples per timetrace
  tx : Nat → Nat
  rx : Nat → Nat
  g : Nat → Nat → β            -- weighted timetraces: g scan sample
  ltTx : Nat → Nat → α         -- lookup times [point, element]
  ltRx : Nat → Nat → α
  t0 : α
  dt : α

/-- uniform amplitudes: `(lookup - t0) * invdt` with `invdt = 1 / dt` -/
def locB (ops : Ops α) (p : Problem α β) (pt k : Nat) : α :=
  (p.ltTx pt (p.tx k) + p.ltRx pt (p.rx k) - p.t0) * (ops.ofInt 1 / p.dt)

/-- amplitude kernels: `(lookup - t0) / dt` -/
def locA (p : Problem α β) (pt k : Nat) : α :=
  (p.ltTx pt (p.tx k) + p.ltRx pt (p.rx k) - p.t0) / p.dt

def termNoAmp (ops : Ops α) (d : Data α β) (p : Problem α β) (it : Interp) (pt k : Nat) : Option β :=
  match it with
  | .nearest => interpNearest ops p.n (p.g k) (locB ops p pt k)
  | .linear => interpLinearB ops d p.n (p.g k) (locB ops p pt k)
  | .lanczos a => interpLanczos ops d a p.n (p.g k) (locB ops p pt k)

/-- `amplitudes_tx[pt, tx] * amplitudes_rx[pt, rx] * sample` -/
def termAmp (ops : Ops α) (d : Data α β) (p : Problem α β) (ampTx ampRx : Nat → Nat → β)
    (it : Interp) (pt k : Nat) : Option β :=
  let s := match it with
    | .nearest => interpNearest ops p.n (p.g k) (locA p pt k)
    | .linear => interpLinearA ops d p.n (p.g k) (locA p pt k)
    | .lanczos _ => none
  s.map (fun v => d.mul (d.mul (ampTx pt (p.tx k)) (ampRx pt (p.rx k))) v)

def dasNoAmp (ops : Ops α) (d : Data α β) (p : Problem α β) (it : Interp) (fill : β) (pt : Nat) : β :=
  dasMean d fill p.N (termNoAmp ops d p it pt)

def dasAmp (ops : Ops α) (d : Data α β) (p : Problem α β) (ampTx ampRx : Nat → Nat → β)
    (it : Interp) (fill : β) (pt : Nat) : β :=
  dasMean d fill p.N (termAmp ops d p ampTx ampRx it pt)
end

/-- `FocalLaw.weigh_timetraces` -/
def weigh {α β : Type} (d : Data α β) (w : Option (Nat → α)) (g : Nat → Nat → β) : Nat → Nat → β :=
  match w with
  | none => g
  | some w => fun k i => d.smul (w k) (g k i)

/-! ### dispatcher -/
inductive Agg | mean | median | huber deriving DecidableEq, Repr
inductive Kernel
  | ampNearest | ampLinear
  | nearest | linear | lanczos | medianNearest | medianLanczos | huberLanczos
deriving DecidableEq, Repr
inductive DErr | notImplemented | value | typing deriving DecidableEq, Repr

/-- which kernel `delay_and_sum` runs, or which error it raises.
    `hasAmp`: the focal law carries per-element amplitudes; `isC128`: data type complex128. -/
def dispatch (hasAmp : Bool) (agg : Agg) (it : Interp) (isC128 : Bool) : Except DErr Kernel :=
  if hasAmp then
    if agg ≠ .mean then .error .notImplemented else
    match it with
    | .nearest => .ok .ampNearest
    | .linear => .ok .ampLinear
    | .lanczos _ => .error .value
  else
    match agg with
    | .mean =>
      (match it with
       | .nearest => .ok .nearest
       | .linear => .ok .linear
       | .lanczos _ => .ok .lanczos)
    | .median =>
      if ¬ isC128 then .error .typing else
      (match it with
       | .lanczos _ => .ok .medianLanczos
       | .nearest => .ok .medianNearest
       | .linear => .error .notImplemented)
    | .huber =>
      if ¬ isC128 then .error .typing else
      (match it with
       | .lanczos _ => .ok .huberLanczos
       | .nearest => .error .notImplemented
       | .linear => .error .notImplemented)

end Arim.Das
