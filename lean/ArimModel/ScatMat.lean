/-! Model of scattering matrices in `arim.scat` / `arim._scat`: angle grid, matrix of a
    scattering function, the bilinear interpolation kernel with wrap-around, rotation by a
    whole number of grid steps, linear interpolation in frequency. Core only. -/
namespace Arim.ScatMat

variable {K : Type} [Add K] [Sub K] [Mul K] [Div K] [Neg K]

structure FOps (K : Type) where
  floor : K → Int
  ofInt : Int → K

/-- `make_angles n`: `-π + i (2π/n)` (`linspace(-π, π, n, endpoint=False)`) -/
def angle (o : FOps K) (pi : K) (n : Nat) (i : Nat) : K :=
  -pi + o.ofInt i * ((pi - -pi) / o.ofInt n)

/-- `as_single_freq_matrices`: `M[j][i] = S(inc = θ_i, out = θ_j)` (`meshgrid(indexing="xy")`) -/
def asMatrix (o : FOps K) (pi : K) (n : Nat) (f : K → K → K) : Nat → Nat → K :=
  fun j i => f (angle o pi n i) (angle o pi n j)

/-- Python float `x // d` and `x % d` for `d > 0` -/
def fdiv (o : FOps K) (x d : K) : Int := o.floor (x / d)
def fmod (o : FOps K) (x d : K) : K := x - d * o.ofInt (o.floor (x / d))

/-- grid index `((θ + π) // dθ) % n` and fraction `((θ + π) % dθ) / dθ` -/
def cell (o : FOps K) (pi : K) (n : Nat) (theta : K) : Nat × K :=
  let two := o.ofInt 2
  let dth := two * pi / o.ofInt n
  ((fdiv o (theta + pi) dth % (n : Int)).toNat, fmod o (theta + pi) dth / dth)

/-- `_interpolate_scattering_matrix_kernel`: bilinear in the cell, wrapping `n-1 → 0` -/
def interp (o : FOps K) (pi : K) (n : Nat) (m : Nat → Nat → K) (inc out : K) : K :=
  let (ii, fi) := cell o pi n inc
  let (io, fo) := cell o pi n out
  let ii1 := if ii ≠ n - 1 then ii + 1 else 0
  let io1 := if io ≠ n - 1 then io + 1 else 0
  let sw := m io ii
  let ne := m io1 ii1
  let se := m io ii1
  let nw := m io1 ii
  let f1 := sw + (se - sw) * fi
  let f2 := nw + (ne - nw) * fi
  f1 + (f2 - f1) * fo

/-- rotation of the scatterer by `k` grid steps: `S'(θ₁, θ₂) = S(θ₁ − φ, θ₂ − φ)`, i.e. both
    indices shifted circularly by `k` (what `rotate_matrix(M, 2πk/n)` must return) -/
def rotateShift (n : Nat) (m : Nat → Nat → K) (k : Int) : Nat → Nat → K :=
  fun j i => m (((j : Int) - k) % (n : Int)).toNat (((i : Int) - k) % (n : Int)).toNat

section freq
variable [LT K] [DecidableLT K] [LE K] [DecidableLE K]
/-- `interp1d(freqs, values, fill_value="extrapolate")` at `f`: the segment containing `f`
    (end segments outside the range); a single sample is used at every frequency -/
def freqInterp (freqs : List K) (vals : List K) (f : K) : Option K :=
  match freqs, vals with
  | [_], [v] => some v
  | f0 :: f1 :: fr, v0 :: v1 :: vr =>
    let rec go (f0 f1 v0 v1 : K) (fr vr : List K) : K :=
      match fr, vr with
      | f2 :: fr', v2 :: vr' => if f ≤ f1 then v0 + (v1 - v0) * (f - f0) / (f1 - f0) else go f1 f2 v1 v2 fr' vr'
      | _, _ => v0 + (v1 - v0) * (f - f0) / (f1 - f0)
    some (go f0 f1 v0 v1 fr vr)
  | _, _ => none
end freq

end Arim.ScatMat
