/-! Complex doubles for the driver: arithmetic and the principal branches of
    sin, cos, sqrt, arcsin, exp as C99 / NumPy define them. Core only. -/
namespace Arim

structure CF where
  re : Float
  im : Float

namespace CF
def ofReal (x : Float) : CF := ⟨x, 0⟩
instance : Add CF := ⟨fun a b => ⟨a.re + b.re, a.im + b.im⟩⟩
instance : Sub CF := ⟨fun a b => ⟨a.re - b.re, a.im - b.im⟩⟩
instance : Neg CF := ⟨fun a => ⟨-a.re, -a.im⟩⟩
instance : Mul CF := ⟨fun a b => ⟨a.re * b.re - a.im * b.im, a.re * b.im + a.im * b.re⟩⟩
instance : Div CF := ⟨fun a b =>
  let d := b.re * b.re + b.im * b.im
  ⟨(a.re * b.re + a.im * b.im) / d, (a.im * b.re - a.re * b.im) / d⟩⟩

def signBit (x : Float) : Bool := x.toBits >>> 63 == 1
def copysign (mag sgn : Float) : Float := if signBit sgn then -(Float.abs mag) else Float.abs mag
def hypot (a b : Float) : Float := Float.sqrt (a * a + b * b)
def abs (z : CF) : Float := hypot z.re z.im
def conj (z : CF) : CF := ⟨z.re, -z.im⟩

def sin (z : CF) : CF := ⟨Float.sin z.re * Float.cosh z.im, Float.cos z.re * Float.sinh z.im⟩
def cos (z : CF) : CF := ⟨Float.cos z.re * Float.cosh z.im, -(Float.sin z.re * Float.sinh z.im)⟩
def exp (z : CF) : CF := let e := Float.exp z.re; ⟨e * Float.cos z.im, e * Float.sin z.im⟩

/-- principal square root; the sign of a zero imaginary part selects the side of the cut -/
def sqrt (z : CF) : CF :=
  if z.re == 0 && z.im == 0 then ⟨0, z.im⟩ else
  let t := Float.sqrt ((Float.abs z.re + hypot z.re z.im) / 2)
  if z.re ≥ 0 then ⟨t, z.im / (2 * t)⟩ else ⟨Float.abs z.im / (2 * t), copysign t z.im⟩

/-- principal arcsine (Kahan): `1 - z` is formed as `(1 - x, -y)` so that a real argument
    above 1 with `+0` imaginary part gives a positive imaginary part, as in C99 / NumPy -/
def asin (z : CF) : CF :=
  let s1 := sqrt ⟨1 - z.re, -z.im⟩
  let s2 := sqrt ⟨1 + z.re, z.im⟩
  let re := Float.atan2 z.re ((s1 * s2).re)
  let im := Float.asinh (((conj s1) * s2).im)
  ⟨re, im⟩
end CF
end Arim
