/-! Model of the built-in scattering functions of `arim.scat`: the side-drilled-hole modal
    sums (the Hankel-dependent modal coefficients are parameters), the point source, and the
    algebraic structure of the crack-centre kernel (the two Galerkin solves enter as bilinear
    forms). Core only, polymorphic in the complex scalar. -/
namespace Arim.ScatFn

variable {C : Type} [Add C] [Sub C] [Mul C] [Div C] [Neg C]

structure STrig (C : Type) where
  sin : C → C
  cos : C → C
  ofNat : Nat → C
  pi : C
  sqrtI : C          -- `np.sqrt(1j)`
  zero : C

/-- `Σ_{n=0}^{maxn} trig(n φ) · coef n` -/
def modalSum (t : STrig C) (trig : C → C) (phi : C) (coef : Nat → C) (maxn : Nat) : C :=
  (List.range (maxn + 1)).foldl (fun acc n => acc + trig (t.ofNat n * phi) * coef n) t.zero

/-- modal coefficients of the side-drilled hole, already multiplied by `ε_n`
    (`ε_0 = 1`, `ε_n = 2`): `aLL n`, `x n` (shared by LT and TL:
    `B_n^{LT} = 2n/(πα) x_n`, `A_n^{TL} = 2n/(πβ) x_n`), `bTT n` -/
structure SdhCoef (C : Type) where
  alpha : C
  beta : C
  maxn : Nat
  aLL : Nat → C
  x : Nat → C
  bTT : Nat → C

/-- `sdh_2d_scat`: `θ = out − inc`, `φ = θ + π` -/
def sdhLL (t : STrig C) (k : SdhCoef C) (inc out : C) : C :=
  (t.sqrtI / t.pi * k.alpha) * modalSum t t.cos (out - inc + t.pi) k.aLL k.maxn
def sdhTT (t : STrig C) (k : SdhCoef C) (inc out : C) : C :=
  (t.sqrtI / t.pi * k.beta) * modalSum t t.cos (out - inc + t.pi) k.bTT k.maxn
def sdhLT (t : STrig C) (k : SdhCoef C) (inc out : C) : C :=
  (t.sqrtI / t.pi * k.beta) *
    modalSum t t.sin (out - inc + t.pi) (fun n => t.ofNat 2 * t.ofNat n / (t.pi * k.alpha) * k.x n) k.maxn
def sdhTL (t : STrig C) (k : SdhCoef C) (inc out : C) : C :=
  (t.sqrtI / t.pi * k.alpha) *
    modalSum t t.sin (out - inc + t.pi) (fun n => t.ofNat 2 * t.ofNat n / (t.pi * k.beta) * k.x n) k.maxn

/-- `PointSourceScat`: constants -/
def pointLL (one : C) : C := one
def pointTT (one : C) : C := one
def pointLT (vL vT : C) : C := vL / vT
def pointTL (vL vT : C) : C := -(vT / vL)

/-- The crack-centre kernel. `qx u v = uᵀ A_x⁻¹ v`, `qz u v = uᵀ A_z⁻¹ v` are the bilinear
    forms of the two Galerkin matrices; `bL φ`, `bT φ` are the load vectors (the receive
    vectors `c_L`, `c_T` are the same functions of the angle). `V` is the vector type. -/
structure CrackData (C V : Type) where
  qx : V → V → C
  qz : V → V → C
  bL : C → V
  bT : C → V
  smulV : C → V → V
  xi : C              -- v_T / v_L
  lam : C             -- λ / (ρ ω²)
  mu : C              -- μ / (ρ ω²)
  aL : C
  aT : C
  kLL : C             -- ¼ √(2/π) e^{-iπ/4} ξ₁^{5/2} / √λ_L
  kTT : C             -- ¼ √(2/π) e^{-iπ/4} ξ₂^{5/2} / √λ_T
  one : C
  two : C

variable {V : Type}

/-- incident L wave: `b_x = −2 s c · b_L`, `b_z = −(1/ξ² − 2 s²) b_L` with `s = −sin φ_in`, `c = −cos φ_in` -/
def crackLL (t : STrig C) (d : CrackData C V) (inc out : C) : C :=
  let s0 := -(t.sin inc); let s1 := -(t.cos inc)
  let bx := d.smulV (-(d.two) * s0 * s1) (d.bL inc)
  let bz := d.smulV (-(d.one / (d.xi * d.xi) - d.two * (s0 * s0))) (d.bL inc)
  let e0 := t.sin out; let e1 := t.cos out
  let vx := d.aL * d.qx bx (d.bL out)
  let vz := d.aL * d.qz bz (d.bL out)
  d.kLL * (d.lam * vz + d.two * d.mu * (vx * e0 + vz * e1) * e1)

def crackLT (t : STrig C) (d : CrackData C V) (inc out : C) : C :=
  let s0 := -(t.sin inc); let s1 := -(t.cos inc)
  let bx := d.smulV (-(d.two) * s0 * s1) (d.bL inc)
  let bz := d.smulV (-(d.one / (d.xi * d.xi) - d.two * (s0 * s0))) (d.bL inc)
  let e0 := t.sin out; let e1 := t.cos out
  let t0 := e1; let t1 := -e0
  let vx := d.aL * d.qx bx (d.bT out)
  let vz := d.aL * d.qz bz (d.bT out)
  d.kTT * d.mu * ((vx * t0 + vz * t1) * e1 + (vx * e0 + vz * e1) * t1)

/-- incident T wave: `t = (s₁, −s₀)`, `b_x = −(t₀ s₁ + t₁ s₀) b_T`, `b_z = −2 t₁ s₁ b_T` -/
def crackTL (t : STrig C) (d : CrackData C V) (inc out : C) : C :=
  let s0 := -(t.sin inc); let s1 := -(t.cos inc)
  let t0 := s1; let t1 := -s0
  let bx := d.smulV (-(t0 * s1 + t1 * s0)) (d.bT inc)
  let bz := d.smulV (-(d.two) * t1 * s1) (d.bT inc)
  let e0 := t.sin out; let e1 := t.cos out
  let vx := d.aT * d.qx bx (d.bL out)
  let vz := d.aT * d.qz bz (d.bL out)
  Neg.neg (d.kLL * (d.lam * vz + d.two * d.mu * (vx * e0 + vz * e1) * e1))

def crackTT (t : STrig C) (d : CrackData C V) (inc out : C) : C :=
  let s0 := -(t.sin inc); let s1 := -(t.cos inc)
  let t0 := s1; let t1 := -s0
  let bx := d.smulV (-(t0 * s1 + t1 * s0)) (d.bT inc)
  let bz := d.smulV (-(d.two) * t1 * s1) (d.bT inc)
  let e0 := t.sin out; let e1 := t.cos out
  let u0 := e1; let u1 := -e0
  let vx := d.aT * d.qx bx (d.bT out)
  let vz := d.aT * d.qz bz (d.bT out)
  Neg.neg (d.kTT * d.mu * ((vx * u0 + vz * u1) * e1 + (vx * e0 + vz * e1) * u1))

end Arim.ScatFn
