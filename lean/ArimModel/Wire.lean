/-! Line-protocol helpers shared by the driver. Core Lean only.
    Floats travel as decimal `UInt64` bit patterns, integers in decimal, vectors as
    comma lists, matrices as `;`-separated rows. Parsing failures are `none`: the driver
    answers `err Parse`, it never defaults. -/
namespace Arim.Wire

def splitNE (s : String) (sep : String) : List String :=
  if s.isEmpty || s == "-" then [] else s.splitOn sep

def nat? (s : String) : Option Nat := s.toNat?
def int? (s : String) : Option Int := s.toInt?

def float? (s : String) : Option Float := (s.toNat?).map (fun n => Float.ofBits n.toUInt64)

def natList? (s : String) : Option (List Nat) := (splitNE s ",").mapM nat?
def intList? (s : String) : Option (List Int) := (splitNE s ",").mapM int?
def floatList? (s : String) : Option (List Float) := (splitNE s ",").mapM float?
def floatMat? (s : String) : Option (List (List Float)) := (splitNE s ";").mapM floatList?
def intMat? (s : String) : Option (List (List Int)) := (splitNE s ";").mapM intList?
def natMat? (s : String) : Option (List (List Nat)) := (splitNE s ";").mapM natList?

/-- rational `num/den` or plain integer -/
def rat? (s : String) : Option Rat :=
  match s.splitOn "/" with
  | [a] => (a.toInt?).map (fun z => (z : Rat))
  | [a, b] => match a.toInt?, b.toNat? with
    | some z, some d => if d = 0 then none else some ((z : Rat) / (d : Rat))
    | _, _ => none
  | _ => none
def ratList? (s : String) : Option (List Rat) := (splitNE s ",").mapM rat?
def ratMat? (s : String) : Option (List (List Rat)) := (splitNE s ";").mapM ratList?

def showFloat (x : Float) : String := toString x.toBits.toNat
def showRat (q : Rat) : String := if q.den = 1 then toString q.num else s!"{q.num}/{q.den}"
def join (l : List String) (sep : String := ",") : String := sep.intercalate l
def showFloats (l : List Float) : String := join (l.map showFloat)
def showNats (l : List Nat) : String := join (l.map toString)
def showInts (l : List Int) : String := join (l.map toString)
def showRats (l : List Rat) : String := join (l.map showRat)
def showBool (b : Bool) : String := if b then "1" else "0"

end Arim.Wire
