import ArimModel.CFloat
/-! Model of the time-domain synthesis of `arim.model` / `arim.signal`: tonebursts, spectrum
    time-shift, analytic signal from a half spectrum, splitting a delay into whole samples and
    a remainder, placing the response in the output window. Core only; complex numbers are
    pairs over a scalar with `sin`/`cos` given as fields. -/
namespace Arim.TD

structure RT (K : Type) where
  sin : K → K
  cos : K → K
  pi : K
  ofNat : Nat → K
  ofInt : Int → K
  floor : K → Int
  ceil : K → Int

variable {K : Type} [Add K] [Sub K] [Mul K] [Div K] [Neg K]

abbrev Cx (K : Type) := K × K
def cmul (a b : Cx K) : Cx K := (a.1 * b.1 - a.2 * b.2, a.1 * b.2 + a.2 * b.1)
def cadd (a b : Cx K) : Cx K := (a.1 + b.1, a.2 + b.2)
def csmul (s : K) (a : Cx K) : Cx K := (s * a.1, s * a.2)
/-- `exp(i x)` -/
def cis (t : RT K) (x : K) : Cx K := (t.cos x, t.sin x)

/-- `len_pulse = ceil(num_cycles / f / dt)`, made odd -/
def lenPulse (t : RT K) (cycles : Nat) (f dt : K) : Nat :=
  let l := (t.ceil (t.ofNat cycles / f / dt)).toNat
  if l % 2 == 0 then l + 1 else l

/-- `np.hanning(M)[k] = 0.5 − 0.5 cos(2π k / (M−1))` (`[1]` for `M = 1`) -/
def hann (t : RT K) (m k : Nat) : K :=
  if m ≤ 1 then t.ofNat 1 else
  t.ofNat 1 / t.ofNat 2 - t.ofNat 1 / t.ofNat 2 * t.cos (t.ofNat 2 * t.pi * t.ofNat k / t.ofNat (m - 1))

/-- `make_toneburst(..., analytical=True)` before padding: sample `k` of the pulse,
    `exp(2πi dt f (k − half))·hann` (the real toneburst is the real part) -/
def pulse (t : RT K) (cycles : Nat) (f dt : K) (k : Nat) : Cx K :=
  let l := lenPulse t cycles f dt
  let half := l / 2
  csmul (hann t l k) (cis t (t.ofNat 2 * t.pi * dt * f * t.ofInt ((k : Int) - (half : Int))))

/-- `make_toneburst`: pad with zeros to `numSamples`, optionally rotate left by `half` (wrap) -/
def toneburst (t : RT K) (zero : K) (cycles : Nat) (f dt : K) (numSamples : Nat) (wrap : Bool) : List (Cx K) :=
  let l := lenPulse t cycles f dt
  let full := (List.range numSamples).map (fun k => if k < l then pulse t cycles f dt k else (zero, zero))
  if wrap then full.drop (l / 2) ++ full.take (l / 2) else full

/-- `make_toneburst2`: `m = num_before·n` zeros, the pulse, `p = num_after·n` zeros;
    returns (requested length before `next_fast_len`, `t0_idx = m + n/2`) -/
def toneburst2Layout (t : RT K) (cycles : Nat) (f dt : K) (numBefore numAfter : Nat) : Nat × Nat :=
  let n := lenPulse t cycles f dt
  (numBefore * n + n + numAfter * n, numBefore * n + n / 2)

/-- `timeshift_spectra`: `X(f_k) · exp(−2πi f_k τ)` -/
def timeshift (t : RT K) (x : List (Cx K)) (freqs : List K) (tau : K) : List (Cx K) :=
  (List.zip x freqs).map (fun p => cmul p.1 (cis t (-(t.ofNat 2 * t.pi * p.2 * tau))))

/-- the analytic-signal weights of `rfft_to_hilbert` for a time signal of length `n` -/
def hilbertWeight (n k : Nat) : Nat :=
  if n % 2 == 0 then (if k == 0 || k == n / 2 then 1 else if k < n / 2 then 2 else 0)
  else (if k == 0 then 1 else if k < (n + 1) / 2 then 2 else 0)

/-- `scipy.fftpack.ifft(y, n)[j] = (1/n) Σ_k y_k e^{+2πi jk/n}`, `y` zero-padded to `n` -/
def idft (t : RT K) (zero : K) (y : List (Cx K)) (n : Nat) (j : Nat) : Cx K :=
  let s := (List.range (min y.length n)).foldl (fun acc k =>
    cadd acc (cmul (y.getD k (zero, zero)) (cis t (t.ofNat 2 * t.pi * t.ofNat (j * k % n) / t.ofNat n)))) (zero, zero)
  csmul (t.ofNat 1 / t.ofNat n) s

/-- `rfft_to_hilbert(xf, n)` -/
def rfftToHilbert (t : RT K) (zero : K) (xf : List (Cx K)) (n : Nat) : List (Cx K) :=
  let y := (List.range xf.length).map (fun k => csmul (t.ofNat (hilbertWeight n k)) (xf.getD k (zero, zero)))
  (List.range n).map (idft t zero y n)

/-- documented split of a delay: whole samples `q = ⌊delay/dt⌋` and remainder `delay − q·dt` -/
def splitDelay (t : RT K) (delay dt : K) : Int × K :=
  let q := t.floor (delay / dt)
  (q, delay - t.ofInt q * dt)

/-- `_timeshift_timedomain`: `out[q − t0 : q − t0 + n] += response` (NumPy slicing: a
    negative start counts from the end, parts beyond the array are dropped) -/
def place (out : List (Cx K)) (resp : List (Cx K)) (start : Int) : List (Cx K) :=
  let nOut : Int := out.length
  let n : Int := resp.length
  let norm (i : Int) : Int := if i < 0 then max (i + nOut) 0 else min i nOut
  let lo := norm start
  let hi := norm (start + n)
  -- NumPy requires the slice length to equal the response length, otherwise it raises
  if hi - lo ≠ n then out else
  (List.zip (List.range out.length) out).map (fun (p : Nat × Cx K) =>
    let ki : Int := (p.1 : Int)
    if lo ≤ ki ∧ ki < hi then
      (match resp[(ki - lo).toNat]? with
       | some r => cadd p.2 r
       | none => p.2)
    else p.2)

end Arim.TD
