/-! Model of `arim.helpers.chunk_array` and of the task decomposition of
    `find_minimum_times` / `distance_pairwise`. Core only. -/
namespace Arim

/-- `math.ceil(a / b)` on naturals -/
def ceilDiv (a b : Nat) : Nat := (a + b - 1) / b

/-- number of chunks = `ceil(L / b)` -/
def numChunks (L b : Nat) : Nat := ceilDiv L b

/-- the `i`-th slice `slice(i*b, (i+1)*b)`, clipped to `[0, L)` as NumPy slicing does -/
def chunk (L b i : Nat) : Nat × Nat := (min (i*b) L, min ((i+1)*b) L)

def chunks (L b : Nat) : List (Nat × Nat) := (List.range (numChunks L b)).map (chunk L b)

/-- which chunk owns index `x` -/
def owner (b x : Nat) : Nat := x / b

/-- A tile of the output: rows `[r.1, r.2)` × columns `[c.1, c.2)`. -/
structure Tile where
  r : Nat × Nat
  c : Nat × Nat
deriving Repr, DecidableEq

/-- tasks of `find_minimum_times` for shapes `(n,m)·(m,p)`: `block_adj = ceil(block/m)`,
    row chunks (outer loop) × column chunks (inner loop), in submission order. -/
def minTimesTiles (n m p block : Nat) : List Tile :=
  let b := ceilDiv block m
  (chunks n b).flatMap (fun r => (chunks p b).map (fun c => { r := r, c := c }))

/-- tasks of `distance_pairwise`: `chunk_size = ceil(block/6)` on both point sets. -/
def distTiles (n1 n2 block : Nat) : List Tile :=
  let b := ceilDiv block 6
  (chunks n1 b).flatMap (fun r => (chunks n2 b).map (fun c => { r := r, c := c }))

def Tile.mem (t : Tile) (i j : Nat) : Bool :=
  decide (t.r.1 ≤ i) && decide (i < t.r.2) && decide (t.c.1 ≤ j) && decide (j < t.c.2)

/-! ### element-level schedules

Every task is a sequence of element operations `(cell, payload)`; an operation reads the
inputs (immutable) and the *current value of its own cell* and writes that cell.  A
schedule is any list of operations. -/

variable {C P V : Type} [DecidableEq C]

/-- run a schedule on an output array (a function from cells to values) -/
def runOps (step : C → P → V → V) (s : C → V) (ops : List (C × P)) : C → V :=
  ops.foldl (fun s op => fun c => if c = op.1 then step op.1 op.2 (s c) else s c) s

/-- what one cell sees: only the operations addressed to it, in schedule order -/
def runCell (step : C → P → V → V) (c : C) (v : V) (ps : List P) : V :=
  ps.foldl (fun v p => step c p v) v

end Arim
