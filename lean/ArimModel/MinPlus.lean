/-! Model of `arim.ray._find_minimum_times` (min-plus product with argmin). Core only.
    `none` stands for the initial `(inf, -1)`; strict `<` keeps the first minimiser;
    candidates are scanned in order `k = 0 .. m-1` exactly as the numba loop does. -/
namespace Arim

variable {α : Type} [LT α] [DecidableLT α]

/-- one update of the numba kernel -/
def kstep (acc : Option (α × Nat)) (k : Nat) (v : α) : Option (α × Nat) :=
  match acc with
  | none => some (v, k)
  | some (b, kb) => if v < b then some (v, k) else some (b, kb)

/-- scan candidates `k = 0..m-1` of `f k` -/
def scanMin (f : Nat → α) (m : Nat) : Option (α × Nat) :=
  (List.range m).foldl (fun acc k => kstep acc k (f k)) none

/-- `out[i,j] = min_k t1[i,k] + t2[k,j]` with its argmin -/
def minPlus [Add α] (m : Nat) (t1 t2 : Nat → Nat → α) (i j : Nat) : Option (α × Nat) :=
  scanMin (fun k => t1 i k + t2 k j) m

end Arim
