import ArimModel.Fermat
/-! Additional model definitions around `FermatSolver` (core only):

* path-order presentation of a path (`toR?`, `solveP`, `costP`) and the reversed path
  (`transpose`, `revPath`), mirroring `Rays.reverse` / `Path.reverse`;
* the memoising solver `solveC` mirroring `FermatSolver._solve` with its `cached_result` dict,
  the uncached reference `solvePure`, and the driver loop `solveAll` (`FermatSolver.solve`);
* the index array layout of `Rays.make_indices` (`fullIndices`). -/
namespace Arim
variable {α : Type}

/-! ## Paths in path order, reversed paths -/

/-- transposed time table: `times.T` -/
def transpose (t : Nat → Nat → α) : Nat → Nat → α := fun a b => t b a

/-- legs after the first, in PATH order: table number `d` (`d ≥ 1`) starts at the interior
    interface number `d`, which has `ms[d-1]` points. -/
def legsP : List (Nat → Nat → α) → List Nat → List (Leg α)
  | t :: ts, m :: ms => { m := m, t := t } :: legsP ts ms
  | _, _ => []

/-- From a path given in path order (`ts` = the time tables of the consecutive legs, at least
    one; `ms` = the sizes of the interior interfaces, `ms.length + 1 = ts.length`) to the
    `(first, legs in reverse order)` form consumed by `solveR`. `none` for the empty list of
    tables (not a path). -/
def toR? : List (Nat → Nat → α) → List Nat → Option ((Nat → Nat → α) × List (Leg α))
  | [], _ => none
  | t0 :: rest, ms => some (t0, (legsP rest ms).reverse)

/-- The reversed path: transposed tables in the opposite order, interior sizes reversed. -/
def revPath (ts : List (Nat → Nat → α)) (ms : List Nat) : List (Nat → Nat → α) × List Nat :=
  (ts.reverse.map transpose, ms.reverse)

section
variable [LT α] [DecidableLT α] [Add α]

/-- the solver on a path in path order -/
def solveP (ts : List (Nat → Nat → α)) (ms : List Nat) (i j : Nat) : Res α :=
  match toR? ts ms with
  | none => none
  | some (first, legs) => solveR first legs i j

/-- cost of a tuple of interior indices given in PATH order -/
def costP (ts : List (Nat → Nat → α)) (ms : List Nat) (i : Nat) (ks : List Nat) (j : Nat) :
    Option α :=
  match toR? ts ms with
  | none => none
  | some (first, legs) => costR first legs i ks.reverse j

/-! ## Memoising solver (`FermatSolver._solve` with `cached_result`) -/

/-- A path is identified by the list of its leg identifiers, in path order. -/
abbrev PKey := List Nat

/-- result table of a path: best time and interior indices for every `(i, j)` -/
abbrev Tbl (α : Type) := Nat → Nat → Res α

/-- the `cached_result` dict as an association list (newest entry first) -/
abbrev Cache (α : Type) := List (PKey × Tbl α)

/-- `find_minimum_times` + `expand_rays` of a head table with one more leg. -/
def extendTbl (h : Tbl α) (l : Leg α) : Tbl α :=
  fun i j => scanMinR (fun k => (h i k).map (fun (v, ks) => (v + l.t k j, ks))) l.m

/-- `_solve` on the REVERSED key (last leg first), so that "split off the last leg" is
    structural:
    * cache hit: return the cached table, cache unchanged;
    * one leg: `consecutive_times`, returned WITHOUT being stored;
    * otherwise: solve the head (threading the cache), combine, store under the key.
    The empty key is not a path: the everywhere-undefined table, nothing stored. -/
def solveCR (legOf : Nat → Leg α) : List Nat → Cache α → Tbl α × Cache α
  | [], c => (fun _ _ => none, c)
  | [l0], c =>
    match c.lookup [l0] with
    | some t => (t, c)
    | none => (fun i j => some ((legOf l0).t i j, []), c)
  | l :: l' :: prev, c =>
    match c.lookup (l :: l' :: prev).reverse with
    | some t => (t, c)
    | none =>
      let r := solveCR legOf (l' :: prev) c
      let tbl := extendTbl r.1 (legOf l)
      (tbl, ((l :: l' :: prev).reverse, tbl) :: r.2)

/-- `FermatSolver._solve(path)` with the dict `cache`; returns the table and the new dict. -/
def solveC (legOf : Nat → Leg α) (cache : Cache α) (key : PKey) : Tbl α × Cache α :=
  solveCR legOf key.reverse cache

/-- the same path solved alone, without any cache -/
def solvePure (legOf : Nat → Leg α) : PKey → Tbl α
  | [] => fun _ _ => none
  | l0 :: rest => fun i j => solveR (legOf l0).t (rest.map legOf).reverse i j

/-- `FermatSolver.solve`: solve the paths one after the other, sharing the dict. -/
def solveAll (legOf : Nat → Leg α) (cache : Cache α) : List PKey → List (Tbl α) × Cache α
  | [] => ([], cache)
  | k :: ks =>
    let r := solveC legOf cache k
    let rs := solveAll legOf r.2 ks
    (r.1 :: rs.1, rs.2)

end

/-! ## `Rays.make_indices` -/

/-- one ray of the full index array: start index, interior indices, end index -/
def fullIndices (i j : Nat) (interior : List Nat) : List Nat := i :: interior ++ [j]

end Arim
