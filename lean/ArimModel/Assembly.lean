import ArimModel.ScatMat
/-! Model of how `arim.models.block_in_immersion` and `arim.model` assemble the model
    coefficients: ray weights as products of four switchable factors, directivity law,
    `P_ij = Q_i Q'_j S(θ_i − a, θ_j − a)` for any frame indexing, sensitivity by chunks.
    Core only. -/
namespace Arim.Assembly

variable {C : Type} [Mul C]

structure Switches where
  directivity : Bool
  transrefl : Bool
  beamspread : Bool
  attenuation : Bool
deriving DecidableEq, Repr

/-- a factor, or `1` when it is switched off -/
def pick (on : Bool) (v one : C) : C := if on then v else one

/-- `tx_ray_weights`: directivity · transrefl · beamspread · attenuation (in this order) -/
def txWeight (sw : Switches) (one dir trans beam att : C) : C :=
  pick sw.directivity dir one * pick sw.transrefl trans one * pick sw.beamspread beam one * pick sw.attenuation att one

/-- `rx_ray_weights`: the same product with the reverse terms, times `√λ` of the last leg -/
def rxWeight (sw : Switches) (one dir rtrans rbeam att sqrtLam : C) : C :=
  pick sw.directivity dir one * pick sw.transrefl rtrans one * pick sw.beamspread rbeam one * pick sw.attenuation att one * sqrtLam

/-- `directivity_2d_rectangular_in_fluid`: `sinc(a sinθ / λ)` at the probe exit angle -/
def directivity {K : Type} [Mul K] [Div K] (sinc sin : K → K) (width theta lam : K) : K :=
  sinc ((width / lam) * sin theta)

/-- `ModelAmplitudes[p][k]` for timetrace `k = (tx k, rx k)`:
    `S(θ_tx[p, tx k] − a, θ_rx[p, rx k] − a) · Q[p, tx k] · Q'[p, rx k]` -/
def modelAmp {K : Type} [Sub K] (S : K → K → C) (thTx thRx : Nat → Nat → K) (Q Q' : Nat → Nat → C) (a : K)
    (tx rx : Nat → Nat) (p k : Nat) : C :=
  S (thTx p (tx k) - a) (thRx p (rx k) - a) * Q p (tx k) * Q' p (rx k)

/-- `sensitivity_uniform_tfm` at point `p`: `(Σ_k w_k P[p,k]) / N` -/
def sensitivityUniform [Add C] (zero : C) (divN : C → Nat → C) (w : Nat → C) (P : Nat → Nat → C) (N p : Nat) : C :=
  divN ((List.range N).foldl (fun acc k => acc + w k * P p k) zero) N

/-- the chunked computation: point `p` is computed by the chunk `p / block` that owns it -/
def sensitivityChunked [Add C] (zero : C) (divN : C → Nat → C) (w : Nat → C) (P : Nat → Nat → C) (N : Nat)
    (block numpoints : Nat) (p : Nat) : Option C :=
  let nchunks := (numpoints + block - 1) / block
  ((List.range nchunks).filter (fun c => decide (c * block ≤ p) && decide (p < min ((c + 1) * block) numpoints))).head?.map
    (fun _ => sensitivityUniform zero divN w P N p)

end Arim.Assembly
