import ArimModel.Interface
/-! Model of the per-ray path terms of `arim.model`: `beamspread_2d_for_path`,
    `reverse_beamspread_2d_for_path`, `transmission_reflection_for_path`,
    `reverse_transmission_reflection_for_path`, `material_attenuation_for_path`, and of the
    ray weights of `arim.models.block_in_immersion` (`tx_ray_weights`, `rx_ray_weights`).
    One ray at a time. Core only, polymorphic in the scalar. -/
namespace Arim.Weights
open Arim.Iface

section real
variable {K : Type} [Add K] [Sub K] [Mul K] [Div K]

/-- real-valued routines used by the beamspread and attenuation terms -/
structure RTrig (K : Type) where
  sin : K → K
  cos : K → K
  sqrt : K → K
  exp : K → K
  one : K
  zero : K

/-- `gamma_list` of `beamspread_2d_for_path`: for interior interface `k = 1..n-1`,
    `ν = v_{k-1}/v_k`, `γ_k = (ν² − sin²θ_k) / (ν cos²θ_k)`; `vels` has one entry per leg,
    `thetas` one entry per interior interface -/
def gammas (t : RTrig K) : List K → List K → List K
  | v0 :: v1 :: vs, th :: ths =>
    let nu := v0 / v1
    let s := t.sin th
    let c := t.cos th
    ((nu * nu - s * s) / (nu * c * c)) :: gammas t (v1 :: vs) ths
  | _, _ => []

/-- `virtual_distance = r_1 + Σ_k r_{k+1} / (γ_1 ⋯ γ_k)`: `legs = r_1 :: rest`,
    the running product is recomputed from `1.0` for every `k` as the code does -/
def virtualDistance (one : K) (legs gs : List K) : K :=
  match legs with
  | [] => one
  | r1 :: rest =>
    (List.range rest.length).foldl (fun acc k =>
      let gamma := (gs.take (k + 1)).foldl (· * ·) one
      acc + (rest.getD k one) / gamma) r1

/-- `beamspread_2d_for_path`: `1 / sqrt(virtual distance)` -/
def beamspread (t : RTrig K) (legs vels thetas : List K) : K :=
  t.one / t.sqrt (virtualDistance t.one legs (gammas t vels thetas))

/-- `gamma_list` of `reverse_beamspread_2d_for_path`: for `k = 1..n-1` it uses the angle at
    interface `n−k`, `ν = v_{n−k}/v_{n−k−1}`, `γ'_k = ν cos²θ / (1 − ν² sin²θ)`.
    Arguments: velocities and angles already REVERSED (last leg first). -/
def revGammas (t : RTrig K) : List K → List K → List K
  | vLast :: vPrev :: vs, th :: ths =>
    let nu := vLast / vPrev
    let s := t.sin th
    let c := t.cos th
    ((nu * c * c) / (t.one - nu * nu * s * s)) :: revGammas t (vPrev :: vs) ths
  | _, _ => []

/-- `reverse_beamspread_2d_for_path` -/
def revBeamspread (t : RTrig K) (legs vels thetas : List K) : K :=
  t.one / t.sqrt (virtualDistance t.one legs.reverse (revGammas t vels.reverse thetas.reverse))

/-- `material_attenuation_for_path`: `exp(−Σ α_k r_k)` (legs without attenuation have `α = 0`) -/
def attenuation [Neg K] (t : RTrig K) (alphas legs : List K) : K :=
  t.exp ((List.zip alphas legs).foldl (fun acc p => acc - p.1 * p.2) t.zero)
end real

section cplx
variable {C : Type} [Add C] [Sub C] [Mul C] [Div C] [Neg C]

/-- an interior interface of the path as the transmission/reflection product sees it -/
structure IfaceSpec (C : Type) where
  transmission : Bool          -- else reflection
  kind : Kind
  modeIn : Mode
  modeOut : Mode
  theta : C                    -- conventional incidence angle (as a complex number)
  vIn : C                      -- velocity of the incoming leg
  vOut : C                     -- velocity of the outgoing leg

def coef (t : CTrig C) (m : Media C) (disp : Bool) (s : IfaceSpec C) : Except IErr C :=
  if s.transmission then transmissionAt t m s.kind s.modeIn s.modeOut s.theta disp
  else reflectionAt t m s.kind s.modeIn s.modeOut s.theta disp

/-- `transmission_reflection_for_path`: product over the interior interfaces; `none` when
    there is no interior interface -/
def transRefl (t : CTrig C) (m : Media C) (disp : Bool) (specs : List (IfaceSpec C)) : Except IErr (Option C) :=
  specs.foldlM (fun acc s => do
    let c ← coef t m disp s
    pure (match acc with | none => some c | some a => some (a * c))) none

def Kind.rev : Kind → Kind | .fluidSolid => .solidFluid | .solidFluid => .fluidSolid

/-- the interface as `reverse_transmission_reflection_for_path` evaluates it: modes swapped,
    kind reversed for a transmission, incidence angle = Snell image of the direct angle -/
def revSpec (t : CTrig C) (s : IfaceSpec C) : IfaceSpec C :=
  { transmission := s.transmission
    kind := if s.transmission then Kind.rev s.kind else s.kind
    modeIn := s.modeOut
    modeOut := s.modeIn
    theta := snell t s.theta s.vIn s.vOut
    vIn := s.vOut
    vOut := s.vIn }

/-- `reverse_transmission_reflection_for_path` (same interface order as the direct product) -/
def revTransRefl (t : CTrig C) (m : Media C) (disp : Bool) (specs : List (IfaceSpec C)) : Except IErr (Option C) :=
  transRefl t m disp (specs.map (revSpec t))
end cplx

end Arim.Weights
