import ArimModel.Das
/-! Concrete numeric instances used by the driver: exact rationals, complex rationals,
    doubles and complex doubles. Core only. -/
namespace Arim.Num
open Arim.Das

/-- round half to even on rationals -/
def ratRound (q : Rat) : Int :=
  let f := q.floor
  let d := q - (f : Rat)
  if d < (1 : Rat) / 2 then f else if (1 : Rat) / 2 < d then f + 1 else if f % 2 == 0 then f else f + 1

def ratOps : Ops Rat := { floor := Rat.floor, round := ratRound, ofInt := fun z => (z : Rat), sinc := fun _ => 0 }

abbrev CRat := Rat × Rat
def cratData : Data Rat CRat := {
  zero := (0, 0)
  add := fun a b => (a.1 + b.1, a.2 + b.2)
  sub := fun a b => (a.1 - b.1, a.2 - b.2)
  mul := fun a b => (a.1 * b.1 - a.2 * b.2, a.1 * b.2 + a.2 * b.1)
  smul := fun s a => (s * a.1, s * a.2)
  divNat := fun a n => (a.1 / (n : Rat), a.2 / (n : Rat)) }

def floatFloor (x : Float) : Int :=
  let f := x.floor
  if f < 0 then -((-f).toUInt64.toNat : Int) else (f.toUInt64.toNat : Int)

def floatRound (x : Float) : Int :=
  let f := x.floor
  let d := x - f
  let fi := floatFloor x
  if d < 0.5 then fi else if 0.5 < d then fi + 1 else if fi % 2 == 0 then fi else fi + 1

def pi : Float := 3.141592653589793

def floatSinc (x : Float) : Float := if x == 0 then 1 else Float.sin (pi * x) / (pi * x)

def floatOps : Ops Float := { floor := floatFloor, round := floatRound, ofInt := fun z => Float.ofInt z, sinc := floatSinc }

abbrev CFloat := Float × Float
def cfloatData : Data Float CFloat := {
  zero := (0, 0)
  add := fun a b => (a.1 + b.1, a.2 + b.2)
  sub := fun a b => (a.1 - b.1, a.2 - b.2)
  mul := fun a b => (a.1 * b.1 - a.2 * b.2, a.1 * b.2 + a.2 * b.1)
  smul := fun s a => (s * a.1, s * a.2)
  divNat := fun a n => (a.1 / n.toFloat, a.2 / n.toFloat) }

end Arim.Num
