import ArimModel.Das
import ArimModel.Frame
import ArimModel.Fermat
/-! Model of the TFM pipelines of `arim.im.tfm`: `contact_tfm` (straight rays, default
    timetrace weights) and `tfm_for_view` (ray-traced lookup times, transposed, no weights),
    as compositions of the delay-and-sum model (C02), the frame model (C15) and the
    one-leg travel time (C01). Core only. -/
namespace Arim.Tfm
open Arim.Das Arim.Frame

variable {α β : Type} [Add α] [Sub α] [Mul α] [Div α] [LT α] [DecidableLT α]

/-- a frame given by its list of (tx, rx) pairs and data indexed by the element pair:
    `G tx rx sample` -/
def frameProblem (pairs : List Pair) (G : Nat → Nat → Nat → β) (n : Nat)
    (ltTx ltRx : Nat → Nat → α) (t0 dt : α) : Problem α β :=
  { N := pairs.length
    n := n
    tx := fun k => (pairs.getD k (0, 0)).1
    rx := fun k => (pairs.getD k (0, 0)).2
    g := fun k => G (pairs.getD k (0, 0)).1 (pairs.getD k (0, 0)).2
    ltTx := ltTx
    ltRx := ltRx
    t0 := t0
    dt := dt }

/-- default weights as scalars: `1` if the mirror pair is recorded, else `2` -/
def defaultWeightsS (ops : Ops α) (pairs : List Pair) : Nat → α :=
  fun k => ops.ofInt ((defaultWeights pairs).getD k 1 : Nat)

/-- `contact_tfm`: lookup = distance(grid point, element) / velocity for both tx and rx,
    default timetrace weights, delay-and-sum without amplitudes. `lookup p e` is the table. -/
def contactTfm (ops : Ops α) (d : Data α β) (pairs : List Pair) (G : Nat → Nat → Nat → β) (n : Nat)
    (lookup : Nat → Nat → α) (t0 dt : α) (it : Interp) (fill : β) (pt : Nat) : β :=
  let p0 := frameProblem pairs G n lookup lookup t0 dt
  dasNoAmp ops d { p0 with g := weigh d (some (defaultWeightsS ops pairs)) p0.g } it fill pt

/-- the straight-ray lookup table of `contact_tfm` -/
def contactLookup {γ : Type} [Sub γ] [Mul γ] [Add γ] [Div γ] (sqrt : γ → γ)
    (grid probe : Array (P3 γ)) (v : γ) (dflt : P3 γ) : Nat → Nat → γ :=
  fun p e => legTime sqrt grid probe v dflt p e

/-- `tfm_for_view`: lookup tables are the transposed ray-tracing times of the view's two
    paths (`times[element, grid point]`), no timetrace weights. -/
def tfmForView (ops : Ops α) (d : Data α β) (pairs : List Pair) (G : Nat → Nat → Nat → β) (n : Nat)
    (timesTx timesRx : Nat → Nat → α) (t0 dt : α) (it : Interp) (fill : β) (pt : Nat) : β :=
  dasNoAmp ops d (frameProblem pairs G n (fun p e => timesTx e p) (fun p e => timesRx e p) t0 dt) it fill pt

end Arim.Tfm
