/-! Model of `arim.config.recursive_dict_merge` and of `arim.io.native.load_conf`'s merge
    order. Core only. A configuration is a tree: leaves are opaque scalars (strings),
    nodes are association lists with distinct keys (Python dicts, insertion-ordered). -/
namespace Arim.Config

inductive Cfg where
  | leaf : String → Cfg
  | node : List (String × Cfg) → Cfg
deriving Repr, Inhabited

abbrev KVs := List (String × Cfg)

/-- replace the value of `k` by `f old` if `k` is present, else append `(k, dflt)` -/
def upsert (k : String) (f : Cfg → Cfg) (dflt : Cfg) : KVs → KVs
  | [] => [(k, dflt)]
  | (k', v') :: rest => if k' = k then (k', f v') :: rest else (k', v') :: upsert k f dflt rest

mutual
/-- value stored under a key that exists in both dicts: recursive update iff both are mappings -/
def combine (old : Cfg) : Cfg → Cfg
  | .leaf s => .leaf s
  | .node t => match old with
    | .node b => .node (mergeKVs b t)
    | .leaf _ => .node t
/-- `recursive_dict_merge(base, top)`: keys of `top` in order -/
def mergeKVs (b : KVs) : KVs → KVs
  | [] => b
  | (k, v) :: rest => mergeKVs (upsert k (fun old => combine old v) v b) rest
end

/-- `Config.merge` on whole configurations (the root is always a mapping) -/
def merge (base top : Cfg) : Cfg := combine base top

/-- insertion sort of `(filename, fragment)` by filename: `sorted(root.glob("conf.d/*.yaml"))` -/
def insertByName (x : String × Cfg) : List (String × Cfg) → List (String × Cfg)
  | [] => [x]
  | y :: ys => if x.1 ≤ y.1 then x :: y :: ys else y :: insertByName x ys

def sortByName (l : List (String × Cfg)) : List (String × Cfg) := l.foldr insertByName []

/-- documented behaviour of `load_conf`: base updated by the fragments in alphabetical order,
    whatever the order `listing` in which the file system enumerates them -/
def loadConf (base : Cfg) (listing : List (String × Cfg)) : Cfg :=
  (sortByName listing).foldl (fun acc f => merge acc f.2) base

/-- merging in enumeration order (what an unsorted `glob` loop does) -/
def loadConfListingOrder (base : Cfg) (listing : List (String × Cfg)) : Cfg :=
  listing.foldl (fun acc f => merge acc f.2) base

/-- BRAIN files store 1-based element indices -/
def brainIndex (stored : Nat) : Option Nat := if stored = 0 then none else some (stored - 1)

end Arim.Config
