import ArimModel.Fermat
/-! Model of `arim.geometry`: coordinate changes (the three einsum conventions written
    out), coordinate systems, rotation matrices, isometries, grids, box selection.
    Core only, polymorphic in the scalar. `P3 α` (from the Fermat model) is a 3-vector. -/
namespace Arim.Geo

variable {α : Type} [Add α] [Sub α] [Mul α]

abbrev V3 := P3
/-- a 3×3 matrix as three rows -/
structure M3 (α : Type) where
  r0 : P3 α
  r1 : P3 α
  r2 : P3 α

def dot (a b : P3 α) : α := a.x * b.x + a.y * b.y + a.z * b.z
def vadd (a b : P3 α) : P3 α := ⟨a.x + b.x, a.y + b.y, a.z + b.z⟩
def vsub (a b : P3 α) : P3 α := ⟨a.x - b.x, a.y - b.y, a.z - b.z⟩
def cross (a b : P3 α) : P3 α := ⟨a.y * b.z - a.z * b.y, a.z * b.x - a.x * b.z, a.x * b.y - a.y * b.x⟩

def M3.col0 (m : M3 α) : P3 α := ⟨m.r0.x, m.r1.x, m.r2.x⟩
def M3.col1 (m : M3 α) : P3 α := ⟨m.r0.y, m.r1.y, m.r2.y⟩
def M3.col2 (m : M3 α) : P3 α := ⟨m.r0.z, m.r1.z, m.r2.z⟩
def M3.transpose (m : M3 α) : M3 α := ⟨m.col0, m.col1, m.col2⟩

/-- `M @ v` : `out_j = Σ_i M[j][i] v_i` -/
def mulVec (m : M3 α) (v : P3 α) : P3 α := ⟨dot m.r0 v, dot m.r1 v, dot m.r2 v⟩
/-- `v @ M` : `out_j = Σ_i v_i M[i][j]` -/
def vecMul (v : P3 α) (m : M3 α) : P3 α := ⟨dot v m.col0, dot v m.col1, dot v m.col2⟩
def mmul (a b : M3 α) : M3 α :=
  ⟨vecMul a.r0 b, vecMul a.r1 b, vecMul a.r2 b⟩

/-- `to_gcs`: `einsum("...ij,...i->...j", bases, coords) + origins`; rows of `bases` are the
    basis vectors: `OM = O + x î + y ĵ + z k̂` -/
def toGcs (c : P3 α) (bases : M3 α) (origin : P3 α) : P3 α := vadd (vecMul c bases) origin

/-- `from_gcs`: `einsum("...ji,...i->...j", bases, p - origins)`: coordinates of `p - O`
    on the basis vectors -/
def fromGcs (p : P3 α) (bases : M3 α) (origin : P3 α) : P3 α := mulVec bases (vsub p origin)

/-- `rotate`: `R (c - centre) + centre` -/
def rotate (c : P3 α) (r : M3 α) (centre : Option (P3 α)) : P3 α :=
  match centre with
  | none => mulVec r c
  | some o => vadd (mulVec r (vsub c o)) o

/-- `CoordinateSystem`: origin, î, ĵ; `k̂ = î × ĵ`; `basis_matrix` has the vectors in columns -/
structure CS (α : Type) where
  origin : P3 α
  i : P3 α
  j : P3 α

def CS.k (cs : CS α) : P3 α := cross cs.i cs.j
/-- the basis vectors as rows (= transpose of `basis_matrix`) -/
def CS.rows (cs : CS α) : M3 α := ⟨cs.i, cs.j, cs.k⟩

/-- `convert_from_gcs`: `(p - origin) @ basis_matrix` -/
def CS.fromGcs (cs : CS α) (p : P3 α) : P3 α := vecMul (vsub p cs.origin) cs.rows.transpose
/-- `convert_to_gcs`: `c @ basis_matrix.T + origin` -/
def CS.toGcs (cs : CS α) (c : P3 α) : P3 α := vadd (vecMul c cs.rows) cs.origin
/-- `CoordinateSystem.translate` -/
def CS.translate (cs : CS α) (v : P3 α) : CS α := { cs with origin := vadd cs.origin v }
/-- `CoordinateSystem.rotate`: rotate the three points `O, O+î, O+ĵ` and take differences -/
def CS.rotate (cs : CS α) (r : M3 α) (centre : Option (P3 α)) : CS α :=
  let o := Geo.rotate cs.origin r centre
  { origin := o
    i := vsub (Geo.rotate (vadd cs.origin cs.i) r centre) o
    j := vsub (Geo.rotate (vadd cs.origin cs.j) r centre) o }

section rot
variable [Neg α] (zero one : α)
/-- `rotation_matrix_x/y/z` from the cosine and sine of the angle -/
def rotX (c s : α) : M3 α := ⟨⟨one, zero, zero⟩, ⟨zero, c, -s⟩, ⟨zero, s, c⟩⟩
def rotY (c s : α) : M3 α := ⟨⟨c, zero, s⟩, ⟨zero, one, zero⟩, ⟨-s, zero, c⟩⟩
def rotZ (c s : α) : M3 α := ⟨⟨c, -s, zero⟩, ⟨s, c, zero⟩, ⟨zero, zero, one⟩⟩
/-- `rotation_matrix_ypr = Rz(yaw) @ Ry(pitch) @ Rx(roll)` -/
def rotYpr (cy sy cp sp cr sr : α) : M3 α :=
  mmul (mmul (rotZ zero one cy sy) (rotY zero one cp sp)) (rotX zero one cr sr)
end rot

/-- `direct_isometry_3d`: `M` solves `M · [î ĵ k̂] = [û v̂ ŵ]` (columns); for an orthonormal
    departure frame `M = [û v̂ ŵ] · [î ĵ k̂]ᵀ`; `P = B − M A`. -/
def isometry3d (a i j b u v : P3 α) : M3 α × P3 α :=
  let dep : M3 α := ⟨i, j, cross i j⟩         -- rows = departure vectors
  let arr : M3 α := ⟨u, v, cross u v⟩         -- rows = arrival vectors
  let m := mmul arr.transpose dep              -- Σ_k arr_k (dep_k)ᵀ
  (m, vsub b (mulVec m a))

/-! ### grids -/

/-- `np.linspace(start, stop, n)`: `k * step + start`, the last sample is `stop` itself -/
def linspace [Div α] (ofNat : Nat → α) (start stop : α) (n : Nat) : List α :=
  if n = 0 then [] else if n = 1 then [start] else
  let step := (stop - start) / ofNat (n - 1)
  (List.range n).map (fun k => if k = n - 1 then stop else ofNat k * step + start)

/-- number of points of one grid axis: `round((|max - min| + d) / d)` (ties to even) -/
def axisNum [Div α] (round : α → Int) (abs : α → α) (lo hi d : α) : Nat :=
  (round ((abs (hi - lo) + d) / d)).toNat

/-- one axis of `Grid.__init__` (degenerate axis → the single value `lo`) -/
def gridAxis [Div α] [DecidableEq α] (ofNat : Nat → α) (round : α → Int) (abs : α → α) (lo hi d : α) : List α :=
  if lo = hi then [lo] else linspace ofNat lo hi (axisNum round abs lo hi d)

/-- `meshgrid(x, y, z, indexing="ij")` flattened in C order: x-major -/
def gridPoints (xs ys zs : List α) : List (P3 α) :=
  xs.flatMap (fun x => ys.flatMap (fun y => zs.map (fun z => (⟨x, y, z⟩ : P3 α))))

/-- `math.ceil(size / pixel + 1) | 1`: smallest odd integer ≥ size/pixel + 1 -/
def centredNum (ceil : α → Int) [Div α] (one : α) (size pixel : α) : Nat :=
  let c := (ceil (size / pixel + one)).toNat
  if c % 2 = 1 then c else c + 1

/-- `points_in_rectbox`: inclusive bounds, absent bounds are not constraints -/
def inRectbox [LE α] [DecidableLE α] (p : P3 α) (xmin xmax ymin ymax zmin zmax : Option α) : Bool :=
  (xmin.all (fun b => decide (b ≤ p.x))) && (ymin.all (fun b => decide (b ≤ p.y))) && (zmin.all (fun b => decide (b ≤ p.z))) &&
  (xmax.all (fun b => decide (p.x ≤ b))) && (ymax.all (fun b => decide (p.y ≤ b))) && (zmax.all (fun b => decide (p.z ≤ b)))

end Arim.Geo
