import ArimModel.Registration
/-! # C19 — front-wall registration recovers the true probe standoff and tilt -/
namespace Arim.C19
open Arim.Reg

/-- only pulse-echo timetraces of working elements are used: whatever is attached to the
other timetraces does not matter -/
theorem selection_ignores_others {K : Type} (dead : Nat → Bool) (obs obs' : List (Obs K))
    (h : obs.filter (fun o => o.tx == o.rx && !dead o.tx) = obs'.filter (fun o => o.tx == o.rx && !dead o.tx)) :
    pulseEcho dead obs = pulseEcho dead obs' := h

/-- every selected timetrace is a pulse-echo one of a working element -/
theorem pulseEcho_mem {K : Type} (dead : Nat → Bool) (obs : List (Obs K)) (o : Obs K)
    (h : o ∈ pulseEcho dead obs) : o.tx = o.rx ∧ dead o.tx = false := by
  simp [pulseEcho] at h
  exact ⟨h.2.1, h.2.2⟩

end Arim.C19
