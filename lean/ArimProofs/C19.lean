import ArimModel.Registration
import ArimProofs.Lemmas.Registration
import Mathlib.Algebra.Order.Field.Rat
import Mathlib.Algebra.Field.ZMod
import Mathlib.Tactic.NormNum
import Mathlib.Tactic.LinearCombination
/-! # C19 — front-wall registration recovers the true probe standoff and tilt -/
namespace Arim.C19
open Arim.Reg Arim.Reg.Lemmas

/-- only pulse-echo timetraces of working elements are used: whatever is attached to the
other timetraces does not matter -/
theorem selection_ignores_others {K : Type} (dead : Nat → Bool) (obs obs' : List (Obs K))
    (h : obs.filter (fun o => o.tx == o.rx && !dead o.tx) = obs'.filter (fun o => o.tx == o.rx && !dead o.tx)) :
    pulseEcho dead obs = pulseEcho dead obs' := h

/-- every selected timetrace is a pulse-echo one of a working element -/
theorem pulseEcho_mem {K : Type} (dead : Nat → Bool) (obs : List (Obs K)) (o : Obs K)
    (h : o ∈ pulseEcho dead obs) : o.tx = o.rx ∧ dead o.tx = false := by
  simp [pulseEcho] at h
  exact ⟨h.2.1, h.2.2⟩

/-- membership in the selection, both directions -/
theorem mem_pulseEcho_iff {K : Type} (dead : Nat → Bool) (obs : List (Obs K)) (o : Obs K) :
    o ∈ pulseEcho dead obs ↔ o ∈ obs ∧ o.tx = o.rx ∧ dead o.tx = false := by
  simp [pulseEcho]

/-! ## 1. the model's `sum` -/

/-- the model's left fold from `0` is `List.sum` -/
theorem sum_eq {K : Type} [AddMonoid K] (l : List K) : sum (0 : K) l = l.sum :=
  Lemmas.sum_eq l

/-- `sum` does not depend on the order of the terms -/
theorem sum_perm {K : Type} [AddCommMonoid K] {l l' : List K} (h : l.Perm l') :
    sum (0 : K) l = sum (0 : K) l' :=
  Lemmas.sum_perm h

/-! ## 2. exact least squares on affine data -/

/-- **Exact least squares.** If the data are exactly affine in the abscissae,
`d = p0 + p1 x`, the closed-form fit returns `(p0, p1)`, provided the normal-equation
determinant `n Σx² − (Σx)²` is non-zero and `n ≠ 0` in `K`.  (The second hypothesis is
automatic in characteristic zero; in characteristic `p` with `p ∣ n` the determinant can be
non-zero while the model divides by `n = 0`, and the intercept comes out as `0`.) -/
theorem lsq_exact {K : Type} [Field K] (xs : List K) (p0 p1 : K)
    (hn : (xs.length : K) ≠ 0)
    (hD : (xs.length : K) * (xs.map (fun x => x * x)).sum - xs.sum * xs.sum ≠ 0) :
    lsq (0 : K) (fun n => (n : K)) xs (xs.map (fun x => p0 + p1 * x)) = (p0, p1) := by
  have := lsq_exact_map xs (fun x => x) p0 p1 hn (by simpa using hD)
  simpa using this

/-- the normal-equation determinant `n Σx² − (Σx)²` is non-negative over an ordered field -/
theorem lsq_denominator_nonneg {K : Type} [Field K] [LinearOrder K] [IsStrictOrderedRing K]
    (xs : List K) :
    0 ≤ (xs.length : K) * (xs.map (fun x => x * x)).sum - xs.sum * xs.sum :=
  lsqDen_nonneg xs

/-- the recursion behind positivity: adding an abscissa `a` increases `n Σx² − (Σx)²` by
`Σ (a − x)²`, so the determinant is `Σ_{i<j} (x_i − x_j)²` -/
theorem lsq_denominator_cons {K : Type} [Field K] (a : K) (xs : List K) :
    (((a :: xs).length : Nat) : K) * ((a :: xs).map (fun x => x * x)).sum
        - (a :: xs).sum * (a :: xs).sum =
      ((xs.length : K) * (xs.map (fun x => x * x)).sum - xs.sum * xs.sum)
        + (xs.map (fun x => (a - x) * (a - x))).sum :=
  lsqDen_cons a xs

/-- **The determinant is positive as soon as two abscissae differ** (ordered field). -/
theorem lsq_denominator_pos {K : Type} [Field K] [LinearOrder K] [IsStrictOrderedRing K]
    (xs : List K) (h : ∃ a ∈ xs, ∃ b ∈ xs, a ≠ b) :
    0 < (xs.length : K) * (xs.map (fun x => x * x)).sum - xs.sum * xs.sum :=
  lsqDen_pos xs h

/-- exact least squares over an ordered field: two different abscissae suffice -/
theorem lsq_exact_of_two_distinct {K : Type} [Field K] [LinearOrder K] [IsStrictOrderedRing K]
    (xs : List K) (p0 p1 : K) (h : ∃ a ∈ xs, ∃ b ∈ xs, a ≠ b) :
    lsq (0 : K) (fun n => (n : K)) xs (xs.map (fun x => p0 + p1 * x)) = (p0, p1) := by
  apply lsq_exact xs p0 p1
  · obtain ⟨a, ha, -⟩ := h
    have : xs.length ≠ 0 := by
      intro h0
      rw [List.length_eq_zero_iff.1 h0] at ha
      simp at ha
    exact_mod_cast this
  · exact (lsq_denominator_pos xs h).ne'

/-- **Normal equations.** For arbitrary data, whenever `n ≠ 0` and the determinant is non-zero,
the pair returned by `lsq` solves the normal equations of the least-squares problem
`min Σ (d − a − b x)²`, i.e. the residual is orthogonal to `1` and to `x`. -/
theorem lsq_normal_equations {K : Type} [Field K] (xs ds : List K)
    (hn : (xs.length : K) ≠ 0)
    (hD : (xs.length : K) * (xs.map (fun x => x * x)).sum - xs.sum * xs.sum ≠ 0) :
    (xs.length : K) * (lsq (0 : K) (fun n => (n : K)) xs ds).1
        + (lsq (0 : K) (fun n => (n : K)) xs ds).2 * xs.sum = ds.sum ∧
    (lsq (0 : K) (fun n => (n : K)) xs ds).1 * xs.sum
        + (lsq (0 : K) (fun n => (n : K)) xs ds).2 * (xs.map (fun x => x * x)).sum
      = ((xs.zip ds).map (fun p => p.1 * p.2)).sum := by
  simp only [lsq, Lemmas.sum_eq]
  set n : K := (xs.length : K)
  set sx := xs.sum
  set sd := ds.sum
  set sxx := (xs.map (fun x => x * x)).sum
  set sxd := ((xs.zip ds).map (fun p => p.1 * p.2)).sum
  constructor
  · field_simp
    ring
  · have hb : (n * sxd - sx * sd) / (n * sxx - sx * sx) * (n * sxx - sx * sx) = n * sxd - sx * sd :=
      div_mul_cancel₀ _ hD
    generalize (n * sxd - sx * sd) / (n * sxx - sx * sx) = b at hb ⊢
    rw [div_mul_eq_mul_div, div_add' _ _ _ hn, div_eq_iff hn]
    linear_combination hb

/-! ## 3. registration is exact -/

section registration
variable {K : Type} [Field K] [LinearOrder K] [IsStrictOrderedRing K]

/-- the line fitted by `register` on affine pulse-echo distances is the true line -/
theorem registration_fit_exact (elemX : Nat → K) (dead : Nat → Bool) (obs : List (Obs K))
    (p0 p1 : K)
    (haff : ∀ o ∈ obs, o.tx = o.rx → dead o.tx = false → o.dist = p0 + p1 * elemX o.tx)
    (htwo : ∃ o ∈ pulseEcho dead obs, ∃ o' ∈ pulseEcho dead obs, elemX o.tx ≠ elemX o'.tx) :
    2 ≤ (pulseEcho dead obs).length ∧
    lsq (0 : K) (fun n => (n : K)) ((pulseEcho dead obs).map (fun o => elemX o.tx))
      ((pulseEcho dead obs).map (·.dist)) = (p0, p1) := by
  obtain ⟨o, ho, o', ho', hne⟩ := htwo
  have hlen : 2 ≤ (pulseEcho dead obs).length :=
    two_le_length_of_ne ho ho' (fun h => hne (by rw [h]))
  refine ⟨hlen, ?_⟩
  have hd : (pulseEcho dead obs).map (·.dist) =
      (pulseEcho dead obs).map (fun o => p0 + p1 * elemX o.tx) := by
    apply List.map_congr_left
    intro a ha
    obtain ⟨h1, h2, h3⟩ := (mem_pulseEcho_iff dead obs a).1 ha
    exact haff a h1 h2 h3
  rw [hd]
  apply lsq_exact_map
  · have : (pulseEcho dead obs).length ≠ 0 := by omega
    exact_mod_cast this
  · have := lsqDen_pos ((pulseEcho dead obs).map (fun o => elemX o.tx))
      ⟨_, List.mem_map.2 ⟨o, ho, rfl⟩, _, List.mem_map.2 ⟨o', ho', rfl⟩, hne⟩
    simp only [lsqDen, List.length_map, List.map_map, Function.comp_def] at this
    exact this.ne'

/-- **Registration is exact.** Elements on the probe axis at abscissae `elemX e`; every
pulse-echo timetrace of a working element carries the distance `p0 + p1 * elemX e` (all other
timetraces — `tx ≠ rx`, or dead element — carry arbitrary values); at least two selected
timetraces have different abscissae; `cosOfSin` is arbitrary.  Then `register` succeeds and
returns `z0 = −p0`, `sin θ = p1`, and places *every* element `e < numel` (dead ones and ones
without a pulse-echo timetrace included) at `x = elemX e * cosOfSin p1`,
`z = −(p0 + p1 * elemX e)`. -/
theorem registration_exact (cosOfSin : K → K) (elemX : Nat → K) (numel : Nat)
    (dead : Nat → Bool) (obs : List (Obs K)) (p0 p1 : K)
    (haff : ∀ o ∈ obs, o.tx = o.rx → dead o.tx = false → o.dist = p0 + p1 * elemX o.tx)
    (htwo : ∃ o ∈ pulseEcho dead obs, ∃ o' ∈ pulseEcho dead obs, elemX o.tx ≠ elemX o'.tx) :
    register (0 : K) (fun n => (n : K)) cosOfSin elemX numel dead obs =
      some (-p0, p1, (List.range numel).map
        (fun e => (elemX e * cosOfSin p1, -(p0 + p1 * elemX e)))) := by
  obtain ⟨hlen, hl⟩ := registration_fit_exact elemX dead obs p0 p1 haff htwo
  rw [register_of_lsq hlen hl]
  congr 3
  apply List.map_congr_left
  intro e _
  congr 1
  ring

/-- `registration_exact`, read off component by component -/
theorem registration_exact_components (cosOfSin : K → K) (elemX : Nat → K) (numel : Nat)
    (dead : Nat → Bool) (obs : List (Obs K)) (p0 p1 : K)
    (haff : ∀ o ∈ obs, o.tx = o.rx → dead o.tx = false → o.dist = p0 + p1 * elemX o.tx)
    (htwo : ∃ o ∈ pulseEcho dead obs, ∃ o' ∈ pulseEcho dead obs, elemX o.tx ≠ elemX o'.tx) :
    ∃ z0 s pts, register (0 : K) (fun n => (n : K)) cosOfSin elemX numel dead obs
        = some (z0, s, pts) ∧
      z0 = -p0 ∧ s = p1 ∧ pts.length = numel ∧
      ∀ e, e < numel → ∃ h : e < pts.length,
        (pts[e]).1 = elemX e * cosOfSin p1 ∧ (pts[e]).2 = -(p0 + p1 * elemX e) := by
  refine ⟨_, _, _, registration_exact cosOfSin elemX numel dead obs p0 p1 haff htwo,
    rfl, rfl, by simp, ?_⟩
  intro e he
  exact ⟨by simpa using he, by simp, by simp⟩

omit [LinearOrder K] [IsStrictOrderedRing K] in
/-- fewer than two selected timetraces: the registration refuses (the code raises) -/
theorem registration_none_iff (cosOfSin : K → K) (elemX : Nat → K) (numel : Nat)
    (dead : Nat → Bool) (obs : List (Obs K)) :
    register (0 : K) (fun n => (n : K)) cosOfSin elemX numel dead obs = none ↔
      (pulseEcho dead obs).length < 2 := by
  constructor
  · intro h
    by_contra hlt
    unfold register at h
    simp [hlt] at h
  · exact register_of_short

end registration

/-! ## 4. order and garbage independence -/

section independence
variable {K : Type} [Field K]

omit [Field K] in
/-- the selection of a permuted frame is a permutation of the selection -/
theorem pulseEcho_perm {dead : Nat → Bool} {obs obs' : List (Obs K)} (h : obs.Perm obs') :
    (pulseEcho dead obs).Perm (pulseEcho dead obs') :=
  h.filter _

/-- **Order independence.** The registration does not depend on the order of the timetraces
in the frame. -/
theorem selection_order_free (cosOfSin : K → K) (elemX : Nat → K) (numel : Nat)
    (dead : Nat → Bool) {obs obs' : List (Obs K)} (h : obs.Perm obs') :
    register (0 : K) (fun n => (n : K)) cosOfSin elemX numel dead obs =
      register (0 : K) (fun n => (n : K)) cosOfSin elemX numel dead obs' := by
  have hp := pulseEcho_perm (dead := dead) h
  unfold register
  simp only [hp.length_eq, lsq_perm hp (fun o => elemX o.tx) (·.dist)]

omit [Field K] in
/-- timetraces that agree on `(tx, rx)` and, for pulse-echo timetraces of working elements,
on the distance, give the same selection -/
theorem pulseEcho_garbage_free {dead : Nat → Bool} {obs obs' : List (Obs K)}
    (h : List.Forall₂ (fun o o' => o.tx = o'.tx ∧ o.rx = o'.rx ∧
      (o.tx = o.rx → dead o.tx = false → o.dist = o'.dist)) obs obs') :
    pulseEcho dead obs = pulseEcho dead obs' := by
  induction h with
  | nil => rfl
  | @cons o o' l l' hoo _ ih =>
    obtain ⟨h1, h2, h3⟩ := hoo
    unfold pulseEcho at ih ⊢
    rw [List.filter_cons, List.filter_cons, ih, ← h1, ← h2]
    by_cases hc : (o.tx == o.rx && !dead o.tx) = true
    · have hc' := hc
      simp only [Bool.and_eq_true, beq_iff_eq, Bool.not_eq_true'] at hc'
      have : o = o' := by
        cases o; cases o'
        simp only [Obs.mk.injEq]
        exact ⟨h1, h2, h3 hc'.1 hc'.2⟩
      simp [this]
    · simp [hc]

/-- **Garbage independence.** Changing the distance attached to timetraces with `tx ≠ rx` or
to dead elements does not change the result. -/
theorem garbage_free (cosOfSin : K → K) (elemX : Nat → K) (numel : Nat)
    (dead : Nat → Bool) {obs obs' : List (Obs K)}
    (h : List.Forall₂ (fun o o' => o.tx = o'.tx ∧ o.rx = o'.rx ∧
      (o.tx = o.rx → dead o.tx = false → o.dist = o'.dist)) obs obs') :
    register (0 : K) (fun n => (n : K)) cosOfSin elemX numel dead obs =
      register (0 : K) (fun n => (n : K)) cosOfSin elemX numel dead obs' := by
  unfold register
  rw [pulseEcho_garbage_free h]

/-- `garbage_free` for an explicit overwrite: replace the distance of every non-selected
timetrace by `junk o` -/
theorem garbage_free_overwrite (cosOfSin : K → K) (elemX : Nat → K) (numel : Nat)
    (dead : Nat → Bool) (obs : List (Obs K)) (junk : Obs K → K) :
    register (0 : K) (fun n => (n : K)) cosOfSin elemX numel dead
        (obs.map (fun o => if o.tx = o.rx ∧ dead o.tx = false then o
          else { o with dist := junk o })) =
      register (0 : K) (fun n => (n : K)) cosOfSin elemX numel dead obs := by
  symm
  apply garbage_free
  rw [List.forall₂_map_right_iff]
  apply List.forall₂_same.2
  intro o _
  by_cases hc : o.tx = o.rx ∧ dead o.tx = false
  · rw [if_pos hc]
    exact ⟨rfl, rfl, fun _ _ => rfl⟩
  · rw [if_neg hc]
    exact ⟨rfl, rfl, fun a b => absurd ⟨a, b⟩ hc⟩

end independence

/-! ## 5. surface detection -/

section detect
variable {K : Type} [LinearOrder K]

/-- `argmaxFirst` fails exactly on the empty list -/
theorem argmaxFirst_eq_none_iff (l : List K) : argmaxFirst l = none ↔ l = [] :=
  Lemmas.argmaxFirst_eq_none_iff

/-- **`argmaxFirst` is NumPy's `argmax`.** On a non-empty list it returns an index in range
whose value is `≥` every value and strictly greater than every earlier value. -/
theorem argmaxFirst_spec (l : List K) (hl : l ≠ []) :
    ∃ (i : Nat) (hi : i < l.length), argmaxFirst l = some i ∧
      (∀ (j : Nat) (hj : j < l.length), l[j] ≤ l[i]) ∧
      (∀ (j : Nat) (hj : j < i), l[j] < l[i]) := by
  cases hA : argmaxFirst l with
  | none => exact absurd (Lemmas.argmaxFirst_eq_none_iff.1 hA) hl
  | some i =>
    obtain ⟨m, hm, hmax, hfirst⟩ := argmaxFirst_spec' hA
    obtain ⟨hi, rfl⟩ := List.getElem?_eq_some_iff.1 hm
    refine ⟨i, hi, rfl, ?_, ?_⟩
    · intro j hj
      exact hmax j _ (List.getElem?_eq_getElem hj)
    · intro j hj
      exact hfirst j _ hj (List.getElem?_eq_getElem (lt_trans hj hi))

/-- the index returned by `argmaxFirst` is characterised uniquely by the two properties -/
theorem argmaxFirst_unique (l : List K) (i : Nat) (hi : i < l.length)
    (hmax : ∀ (j : Nat) (hj : j < l.length), l[j] ≤ l[i])
    (hfirst : ∀ (j : Nat) (hj : j < i), l[j] < l[i]) :
    argmaxFirst l = some i := by
  have hl : l ≠ [] := by
    intro h0; rw [h0] at hi; simp at hi
  obtain ⟨k, hk, hA, hmax', hfirst'⟩ := argmaxFirst_spec l hl
  rw [hA]
  congr 1
  rcases lt_trichotomy k i with h | h | h
  · exact absurd (hfirst k h) (not_lt.2 (hmax' i hi))
  · exact h
  · exact absurd (hfirst' i h) (not_lt.2 (hmax k hk))

/-- **`searchLeft` is `searchsorted(side="left")`**: on an increasing list the samples `< t`
are exactly those at indices below `searchLeft samples t` -/
theorem searchLeft_spec {samples : List K} (hs : samples.Pairwise (· < ·)) (t : K)
    (i : Nat) (hi : i < samples.length) :
    samples[i] < t ↔ i < searchLeft samples t :=
  searchLeft_spec' hs t i _ (List.getElem?_eq_getElem hi)

/-- **`searchRight` is `searchsorted(side="right")`** -/
theorem searchRight_spec {samples : List K} (hs : samples.Pairwise (· < ·)) (t : K)
    (i : Nat) (hi : i < samples.length) :
    samples[i] ≤ t ↔ i < searchRight samples t :=
  searchRight_spec' hs t i _ (List.getElem?_eq_getElem hi)

/-- `searchLeft samples t` is the number of samples `< t` -/
theorem searchLeft_eq_count {samples : List K} (hs : samples.Pairwise (· < ·)) (t : K) :
    searchLeft samples t = samples.countP (fun s => decide (s < t)) :=
  searchLeft_eq_countP hs t

/-- `searchRight samples t` is the number of samples `≤ t` -/
theorem searchRight_eq_count {samples : List K} (hs : samples.Pairwise (· < ·)) (t : K) :
    searchRight samples t = samples.countP (fun s => decide (s ≤ t)) :=
  searchRight_eq_countP hs t

theorem searchLeft_le_length (samples : List K) (t : K) :
    searchLeft samples t ≤ samples.length := Lemmas.searchLeft_le_length samples t

theorem searchRight_le_length (samples : List K) (t : K) :
    searchRight samples t ≤ samples.length := Lemmas.searchRight_le_length samples t

/-- lower index bound used by `detectSurface` -/
private def loIdx (samples : List K) : Option K → Nat
  | none => 0
  | some t => searchLeft samples t

/-- upper index bound used by `detectSurface` -/
private def hiIdx (samples : List K) : Option K → Nat
  | none => samples.length
  | some t => searchRight samples t

private theorem detectSurface_eq (abs : K → K) (samples tr : List K) (tmin tmax : Option K) :
    detectSurface abs samples tr tmin tmax =
      (argmaxFirst (((tr.take (hiIdx samples tmax)).drop (loIdx samples tmin)).map abs)).bind
        (fun i => ((samples.take (hiIdx samples tmax)).drop (loIdx samples tmin))[i]?) := by
  cases tmin <;> cases tmax <;> rfl

private theorem loIdx_spec {samples : List K} (hs : samples.Pairwise (· < ·)) (tmin : Option K)
    (j : Nat) (hj : j < samples.length) :
    loIdx samples tmin ≤ j ↔ ∀ a, tmin = some a → a ≤ samples[j] := by
  cases tmin with
  | none => simp [loIdx]
  | some a =>
    have := searchLeft_spec hs a j hj
    simp only [loIdx, Option.some.injEq, forall_eq']
    rw [← not_lt, ← this, not_lt]

private theorem hiIdx_spec {samples : List K} (hs : samples.Pairwise (· < ·)) (tmax : Option K)
    (j : Nat) (hj : j < samples.length) :
    j < hiIdx samples tmax ↔ ∀ b, tmax = some b → samples[j] ≤ b := by
  cases tmax with
  | none => simp [hiIdx, hj]
  | some b =>
    have := searchRight_spec hs b j hj
    simp only [hiIdx, Option.some.injEq, forall_eq']
    exact this.symm

private theorem hiIdx_le (samples : List K) (tmax : Option K) :
    hiIdx samples tmax ≤ samples.length := by
  cases tmax with
  | none => exact le_rfl
  | some b => exact searchRight_le_length samples b

/-- **Surface detection returns the time of the first maximum of `|trace|` in the window.**
`samples` strictly increasing, one trace value per sample.  If `detectSurface` returns `t`,
then `t = samples[i]` for an index `i` whose sample lies in `[tmin, tmax]` (each bound only
when given), `abs trace[i] ≥ abs trace[j]` for every `j` whose sample lies in the window, and
`i` is the first such maximiser: `abs trace[j] < abs trace[i]` for window indices `j < i`.
`abs` is arbitrary (the code uses `np.abs`). -/
theorem surface_time_is_argmax (abs : K → K) (samples tr : List K) (tmin tmax : Option K)
    (hs : samples.Pairwise (· < ·)) (hlen : tr.length = samples.length) (t : K)
    (h : detectSurface abs samples tr tmin tmax = some t) :
    ∃ (i : Nat) (hi : i < samples.length),
      samples[i] = t ∧ (∀ a, tmin = some a → a ≤ t) ∧ (∀ b, tmax = some b → t ≤ b) ∧
      ∀ (j : Nat) (hj : j < samples.length),
        (∀ a, tmin = some a → a ≤ samples[j]) → (∀ b, tmax = some b → samples[j] ≤ b) →
          abs (tr[j]'(hlen ▸ hj)) ≤ abs (tr[i]'(hlen ▸ hi)) ∧
          (j < i → abs (tr[j]'(hlen ▸ hj)) < abs (tr[i]'(hlen ▸ hi))) := by
  rw [detectSurface_eq] at h
  obtain ⟨i, y, hlo, hhi, hsi, hti, hmax, hfirst⟩ :=
    detect_window_spec abs samples tr _ _ t h
  obtain ⟨hi, hsi'⟩ := List.getElem?_eq_some_iff.1 hsi
  obtain ⟨hi2, hti'⟩ := List.getElem?_eq_some_iff.1 hti
  refine ⟨i, hi, hsi', ?_, ?_, ?_⟩
  · rw [← hsi']; exact (loIdx_spec hs tmin i hi).1 hlo
  · rw [← hsi']; exact (hiIdx_spec hs tmax i hi).1 hhi
  · intro j hj hjlo hjhi
    have h1 := (loIdx_spec hs tmin j hj).2 hjlo
    have h2 := (hiIdx_spec hs tmax j hj).2 hjhi
    have hj2 : j < tr.length := hlen ▸ hj
    have htj : tr[j]? = some tr[j] := List.getElem?_eq_getElem hj2
    subst hti'
    exact ⟨hmax j _ h1 h2 htj, fun hji => hfirst j _ h1 hji htj⟩

/-- the instance for the genuine absolute value -/
theorem surface_time_is_argmax_abs {K : Type} [Field K] [LinearOrder K] [IsStrictOrderedRing K]
    (samples tr : List K) (tmin tmax : Option K)
    (hs : samples.Pairwise (· < ·)) (hlen : tr.length = samples.length) (t : K)
    (h : detectSurface (fun x => |x|) samples tr tmin tmax = some t) :
    ∃ (i : Nat) (hi : i < samples.length),
      samples[i] = t ∧ (∀ a, tmin = some a → a ≤ t) ∧ (∀ b, tmax = some b → t ≤ b) ∧
      ∀ (j : Nat) (hj : j < samples.length),
        (∀ a, tmin = some a → a ≤ samples[j]) → (∀ b, tmax = some b → samples[j] ≤ b) →
          |tr[j]'(hlen ▸ hj)| ≤ |tr[i]'(hlen ▸ hi)| ∧
          (j < i → |tr[j]'(hlen ▸ hj)| < |tr[i]'(hlen ▸ hi)|) :=
  surface_time_is_argmax (fun x => |x|) samples tr tmin tmax hs hlen t h

/-- **Completeness.** `detectSurface` fails exactly when no sample lies in the window. -/
theorem detectSurface_eq_none_iff (abs : K → K) (samples tr : List K) (tmin tmax : Option K)
    (hs : samples.Pairwise (· < ·)) (hlen : tr.length = samples.length) :
    detectSurface abs samples tr tmin tmax = none ↔
      ¬ ∃ (j : Nat) (hj : j < samples.length),
        (∀ a, tmin = some a → a ≤ samples[j]) ∧ (∀ b, tmax = some b → samples[j] ≤ b) := by
  constructor
  · rintro h ⟨j, hj, hjlo, hjhi⟩
    have h1 := (loIdx_spec hs tmin j hj).2 hjlo
    have h2 := (hiIdx_spec hs tmax j hj).2 hjhi
    obtain ⟨t, ht⟩ := detect_window_isSome abs samples tr _ _ hlen (hiIdx_le samples tmax)
      (lt_of_le_of_lt h1 h2)
    rw [detectSurface_eq, ht] at h
    exact absurd h (by simp)
  · intro hno
    cases hd : detectSurface abs samples tr tmin tmax with
    | none => rfl
    | some t =>
      exfalso
      obtain ⟨i, hi, hsi, hlo, hhi, -⟩ :=
        surface_time_is_argmax abs samples tr tmin tmax hs hlen t hd
      exact hno ⟨i, hi, hsi ▸ hlo, hsi ▸ hhi⟩

end detect

/-! ## 6. non-vacuity: concrete rational data -/

section examples

/-- three elements at `x = −1, 0, 1` -/
private def exX : Nat → ℚ := fun e => (e : ℚ) - 1
/-- a rational stand-in for `cos ∘ arcsin` (the theorems hold for any function) -/
private def exCos : ℚ → ℚ := fun s => 1 - s * s / 2
/-- full-matrix-capture frame of 3 elements in scrambled order; the diagonal carries
`5 + x/2`, the off-diagonal timetraces carry garbage -/
private def exObs : List (Obs ℚ) :=
  [⟨2, 1, 77⟩, ⟨1, 1, 5⟩, ⟨0, 2, -3⟩, ⟨2, 2, 11/2⟩, ⟨1, 0, 1000⟩, ⟨0, 1, 0⟩, ⟨0, 0, 9/2⟩,
   ⟨1, 2, 13⟩, ⟨2, 0, -1/7⟩]
/-- the same frame in natural order with different garbage -/
private def exObsSorted : List (Obs ℚ) :=
  [⟨0, 0, 9/2⟩, ⟨0, 1, 1⟩, ⟨0, 2, 2⟩, ⟨1, 0, 3⟩, ⟨1, 1, 5⟩, ⟨1, 2, 4⟩, ⟨2, 0, 5⟩, ⟨2, 1, 6⟩,
   ⟨2, 2, 11/2⟩]

/-- the model, evaluated: standoff `5`, `sin θ = 1/2` recovered from the scrambled frame -/
example : register (0 : ℚ) (fun n => (n : ℚ)) exCos exX 3 (fun _ => false) exObs =
    some (-5, 1/2, [(-7/8, -9/2), (0, -5), (7/8, -11/2)]) := by
  decide +kernel

/-- same result from the ordered frame with other garbage -/
example : register (0 : ℚ) (fun n => (n : ℚ)) exCos exX 3 (fun _ => false) exObsSorted =
    register (0 : ℚ) (fun n => (n : ℚ)) exCos exX 3 (fun _ => false) exObs := by
  decide +kernel

/-- the hypotheses of `registration_exact` are satisfiable: the theorem applies to `exObs` -/
example : register (0 : ℚ) (fun n => (n : ℚ)) exCos exX 3 (fun _ => false) exObs =
    some (-5, 1/2, (List.range 3).map
      (fun e => (exX e * exCos (1/2), -(5 + 1/2 * exX e)))) := by
  apply registration_exact
  · intro o ho h1 _
    simp only [exObs, List.mem_cons, List.not_mem_nil, or_false] at ho
    rcases ho with rfl | rfl | rfl | rfl | rfl | rfl | rfl | rfl | rfl <;>
      first
        | (exfalso; revert h1; decide)
        | (norm_num [exX])
  · refine ⟨⟨1, 1, 5⟩, (mem_pulseEcho_iff _ _ _).2 ⟨by simp [exObs], rfl, rfl⟩,
      ⟨2, 2, 11/2⟩, (mem_pulseEcho_iff _ _ _).2 ⟨by simp [exObs], rfl, rfl⟩, ?_⟩
    norm_num [exX]

/-- element 2 dead (its pulse-echo timetrace now carries garbage too): the two remaining
elements still give the same plane, and the dead element is placed on it -/
example : register (0 : ℚ) (fun n => (n : ℚ)) exCos exX 3 (fun e => e == 2)
      [⟨2, 1, 77⟩, ⟨1, 1, 5⟩, ⟨0, 2, -3⟩, ⟨2, 2, 123456⟩, ⟨1, 0, 1000⟩, ⟨0, 0, 9/2⟩] =
    some (-5, 1/2, [(-7/8, -9/2), (0, -5), (7/8, -11/2)]) := by
  decide +kernel

/-- a single pulse-echo timetrace: refused -/
example : register (0 : ℚ) (fun n => (n : ℚ)) exCos exX 3 (fun _ => false)
      [⟨2, 1, 77⟩, ⟨1, 1, 5⟩, ⟨0, 2, -3⟩] = none := by
  decide +kernel

/-- the closed-form fit on exact data, and on inexact data (true least squares: the residuals
`(1/6, −1/3, 1/6)` are orthogonal to `1` and to `x`) -/
example : lsq (0 : ℚ) (fun n => (n : ℚ)) [-1, 0, 1] [9/2, 5, 11/2] = (5, 1/2) := by
  decide +kernel
example : lsq (0 : ℚ) (fun n => (n : ℚ)) [-1, 0, 1] [1, 0, 2] = (1, 1/2) := by
  decide +kernel

/-- why `lsq_exact` needs `n ≠ 0` in `K`: over `ZMod 3`, three abscissae `0, 1, 1`, data
exactly on the line `1 + 2x`; the determinant is non-zero, yet the intercept comes out as `0`
(division by `n = 3 = 0`) -/
example :
    (((([0, 1, 1] : List (ZMod 3)).length : ZMod 3)
        * (([0, 1, 1] : List (ZMod 3)).map (fun x => x * x)).sum
        - ([0, 1, 1] : List (ZMod 3)).sum * ([0, 1, 1] : List (ZMod 3)).sum) ≠ 0) ∧
    (haveI : Fact (Nat.Prime 3) := ⟨Nat.prime_three⟩
     lsq (0 : ZMod 3) (fun n => (n : ZMod 3)) [0, 1, 1]
        ([0, 1, 1].map (fun x => 1 + 2 * x)) = (0, 2)) := by
  constructor <;> decide +kernel

/-- `argmaxFirst` takes the first of two equal maxima; `searchLeft/Right` count -/
example : argmaxFirst ([1, 3, 3, 2] : List ℚ) = some 1 := by decide +kernel
example : searchLeft ([0, 1, 2, 3] : List ℚ) 2 = 2 := by decide +kernel
example : searchRight ([0, 1, 2, 3] : List ℚ) 2 = 3 := by decide +kernel

/-- surface detection in the window `[1, 4]`: `|trace| = 9, 1, 3, 7, 7, 10`, the first maximum
inside the window is at `t = 3`; without a window it is at `t = 5`; an empty window gives
`none` -/
example : detectSurface (fun x : ℚ => |x|) [0, 1, 2, 3, 4, 5] [9, -1, 3, -7, 7, 10]
    (some 1) (some 4) = some 3 := by decide +kernel
example : detectSurface (fun x : ℚ => |x|) [0, 1, 2, 3, 4, 5] [9, -1, 3, -7, 7, 10]
    none none = some 5 := by decide +kernel
example : detectSurface (fun x : ℚ => |x|) [0, 1, 2, 3, 4, 5] [9, -1, 3, -7, 7, 10]
    (some (5/2)) (some (14/5)) = none := by decide +kernel

/-- the hypotheses of `surface_time_is_argmax` are satisfiable -/
example : ∃ (i : Nat) (hi : i < ([0, 1, 2, 3, 4, 5] : List ℚ).length),
    ([0, 1, 2, 3, 4, 5] : List ℚ)[i] = 3 := by
  obtain ⟨i, hi, h, -⟩ := surface_time_is_argmax (fun x : ℚ => |x|) [0, 1, 2, 3, 4, 5]
    [9, -1, 3, -7, 7, 10] (some 1) (some 4) (by decide +kernel) rfl 3 (by decide +kernel)
  exact ⟨i, hi, h⟩

end examples

end Arim.C19
