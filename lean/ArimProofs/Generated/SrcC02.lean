import ArimModel.Src
/-! GENERATED on every run by harness/py2lean.py from the Python sources of arim in /repo/src (functions listed in harness/srcspecs.py). Do not edit. -/
namespace Arim.Src
set_option linter.unusedVariables false

/-- generated from `arim/im/das.py`, function `_delay_and_sum_amplitudes_nearest` (line 179) -/
def das_amplitudes_nearest {K : Type} {D : Type} [Add K] [Sub K] [Mul K] [Div K] [Neg K]
    (o : Ops K) (d : Arim.Das.Data K D) (weighted_timetraces : Nat → Nat → D) (tx : Nat → Nat) (rx : Nat → Nat) (lookup_times_tx : Nat → Nat → K) (lookup_times_rx : Nat → Nat → K) (amplitudes_tx : Nat → Nat → D) (amplitudes_rx : Nat → Nat → D) (dt : K) (t0 : K) (fillvalue : D) (numtimetraces : Nat) (numsamples : Nat) (point : Nat) : D :=
  let res_tmp := d.zero
  let res_tmp := (List.range numtimetraces).foldl (fun res_tmp scan =>
        let lookup_time := ((lookup_times_tx point (tx scan)) + (lookup_times_rx point (rx scan)))
        let lookup_index := (o.round ((lookup_time - t0) / dt))
        let res_tmp := (if ((lookup_index < (0 : Int)) ∨ (lookup_index ≥ ((numsamples : Nat) : Int))) then
            let res_tmp := (d.add res_tmp fillvalue)
            res_tmp
          else
            let res_tmp := (d.add res_tmp (d.mul (d.mul (amplitudes_tx point (tx scan)) (amplitudes_rx point (rx scan))) (weighted_timetraces scan (lookup_index).toNat)))
            res_tmp)
        res_tmp) res_tmp
  let cell_result := (d.divNat res_tmp numtimetraces)
  cell_result

/-- generated from `arim/im/das.py`, function `_delay_and_sum_amplitudes_linear` (line 304): the module defines this name twice; the second definition is the one Python keeps -/
def das_amplitudes_linear {K : Type} {D : Type} [Add K] [Sub K] [Mul K] [Div K] [Neg K]
    (o : Ops K) (d : Arim.Das.Data K D) (weighted_timetraces : Nat → Nat → D) (tx : Nat → Nat) (rx : Nat → Nat) (lookup_times_tx : Nat → Nat → K) (lookup_times_rx : Nat → Nat → K) (amplitudes_tx : Nat → Nat → D) (amplitudes_rx : Nat → Nat → D) (dt : K) (t0 : K) (fillvalue : D) (numtimetraces : Nat) (numsamples : Nat) (point : Nat) : D :=
  let res_tmp := d.zero
  let res_tmp := (List.range numtimetraces).foldl (fun res_tmp scan =>
        let lookup_time := ((lookup_times_tx point (tx scan)) + (lookup_times_rx point (rx scan)))
        let loc1 := ((lookup_time - t0) / dt)
        let lookup_index := (o.floor loc1)
        let frac1 := (loc1 - (o.ofInt lookup_index))
        let lookup_index1 := (lookup_index + (1 : Int))
        let res_tmp := (if ((lookup_index < (0 : Int)) ∨ (lookup_index1 ≥ ((numsamples : Nat) : Int))) then
            let res_tmp := (d.add res_tmp fillvalue)
            res_tmp
          else
            let lscanVal := (weighted_timetraces scan (lookup_index).toNat)
            let lscanVal1 := (weighted_timetraces scan (lookup_index1).toNat)
            let lscanUseVal := (d.add lscanVal (d.smul frac1 (d.sub lscanVal1 lscanVal)))
            let res_tmp := (d.add res_tmp (d.mul (d.mul (amplitudes_tx point (tx scan)) (amplitudes_rx point (rx scan))) lscanUseVal))
            res_tmp)
        res_tmp) res_tmp
  let cell_result := (d.divNat res_tmp numtimetraces)
  cell_result

/-- generated from `arim/im/das.py`, function `_delay_and_sum_noamp` (line 473) -/
def das_noamp_nearest {K : Type} {D : Type} [Add K] [Sub K] [Mul K] [Div K] [Neg K]
    (o : Ops K) (d : Arim.Das.Data K D) (weighted_timetraces : Nat → Nat → D) (tx : Nat → Nat) (rx : Nat → Nat) (lookup_times_tx : Nat → Nat → K) (lookup_times_rx : Nat → Nat → K) (invdt : K) (t0 : K) (fillvalue : D) (numtimetraces : Nat) (numsamples : Nat) (point : Nat) : D :=
  let res_tmp := d.zero
  let res_tmp := (List.range numtimetraces).foldl (fun res_tmp scan =>
        let lookup_time := ((lookup_times_tx point (tx scan)) + (lookup_times_rx point (rx scan)))
        let lookup_index := (o.round ((lookup_time - t0) * invdt))
        let res_tmp := (if ((lookup_index < (0 : Int)) ∨ (lookup_index ≥ ((numsamples : Nat) : Int))) then
            let res_tmp := (d.add res_tmp fillvalue)
            res_tmp
          else
            let res_tmp := (d.add res_tmp (weighted_timetraces scan (lookup_index).toNat))
            res_tmp)
        res_tmp) res_tmp
  let cell_result := (d.divNat res_tmp numtimetraces)
  cell_result

/-- generated from `arim/im/das.py`, function `_delay_and_sum_noamp_linear` (line 540) -/
def das_noamp_linear {K : Type} {D : Type} [Add K] [Sub K] [Mul K] [Div K] [Neg K]
    (o : Ops K) (d : Arim.Das.Data K D) (weighted_timetraces : Nat → Nat → D) (tx : Nat → Nat) (rx : Nat → Nat) (lookup_times_tx : Nat → Nat → K) (lookup_times_rx : Nat → Nat → K) (invdt : K) (t0 : K) (fillvalue : D) (numtimetraces : Nat) (numsamples : Nat) (point : Nat) : D :=
  let res_tmp := d.zero
  let res_tmp := (List.range numtimetraces).foldl (fun res_tmp scan =>
        let lookup_time := ((lookup_times_tx point (tx scan)) + (lookup_times_rx point (rx scan)))
        let lookup_index_exact := ((lookup_time - t0) * invdt)
        let lookup_index_left := (o.floor lookup_index_exact)
        let lookup_index_right := (lookup_index_left + (1 : Int))
        let frac := (lookup_index_exact - (o.ofInt lookup_index_left))
        let res_tmp := (if ((lookup_index_left < (0 : Int)) ∨ (lookup_index_right ≥ ((numsamples : Nat) : Int))) then
            let res_tmp := (d.add res_tmp fillvalue)
            res_tmp
          else
            let scan_val_left := (weighted_timetraces scan (lookup_index_left).toNat)
            let scan_val_right := (weighted_timetraces scan (lookup_index_right).toNat)
            let res_tmp := (d.add res_tmp (d.add (d.smul ((o.ofNat 1) - frac) scan_val_left) (d.smul frac scan_val_right)))
            res_tmp)
        res_tmp) res_tmp
  let cell_result := (d.divNat res_tmp numtimetraces)
  cell_result

/-- generated from `arim/im/das.py`, function `sinc` (line 578): the kernels' own sinc (numpy convention, 1 at 0) -/
def das_sinc {K : Type} [Add K] [Sub K] [Mul K] [Div K] [Neg K] [DecidableEq K]
    (o : Ops K) (x : K) : K :=
  if (x = (o.ofNat 0)) then
      (o.ofNat 1)
  else
      ((o.sin (o.pi * x)) / (o.pi * x))

/-- generated from `arim/im/das.py`, function `lanczos_interpolation` (line 586): `n` is `len(x)` -/
def lanczos_interpolation {K : Type} {D : Type} [Add K] [Sub K] [Mul K] [Div K] [Neg K] [DecidableEq K]
    (o : Ops K) (d : Arim.Das.Data K D) (t : K) (x : Nat → D) (a : Nat) (n : Nat) : D :=
  let i_min := (((o.floor t) - ((a : Nat) : Int)) + (1 : Int))
  let i_max := (((o.floor t) + ((a : Nat) : Int)) + (1 : Int))
  let n := n
  let out := d.zero
  let out := (pyRangeI i_min i_max).foldl (fun out i =>
        let out := (d.add out (d.smul (das_sinc o ((t - (o.ofInt i)) / (o.ofNat a))) (d.smul (das_sinc o (t - (o.ofInt i))) (x ((i % ((n : Nat) : Int))).toNat))))
        out) out
  out

/-- generated from `arim/im/das.py`, function `_delay_and_sum_noamp_lanczos` (line 597) -/
def das_noamp_lanczos {K : Type} {D : Type} [Add K] [Sub K] [Mul K] [Div K] [Neg K] [LT K] [DecidableLT K] [LE K] [DecidableLE K] [DecidableEq K]
    (o : Ops K) (d : Arim.Das.Data K D) (weighted_timetraces : Nat → Nat → D) (tx : Nat → Nat) (rx : Nat → Nat) (lookup_times_tx : Nat → Nat → K) (lookup_times_rx : Nat → Nat → K) (invdt : K) (t0 : K) (fillvalue : D) (a : Nat) (numtimetraces : Nat) (numsamples : Nat) (point : Nat) : D :=
  let res_tmp := d.zero
  let res_tmp := (List.range numtimetraces).foldl (fun res_tmp scan =>
        let lookup_time := ((lookup_times_tx point (tx scan)) + (lookup_times_rx point (rx scan)))
        let lookup_index := ((lookup_time - t0) * invdt)
        let res_tmp := (if ((lookup_index < (o.ofNat 0)) ∨ (lookup_index ≥ (o.ofNat numsamples))) then
            let res_tmp := (d.add res_tmp fillvalue)
            res_tmp
          else
            let res_tmp := (d.add res_tmp ((fun t x a => lanczos_interpolation o d t x a numsamples) lookup_index (weighted_timetraces scan) a))
            res_tmp)
        res_tmp) res_tmp
  let cell_result := (d.divNat res_tmp numtimetraces)
  cell_result

/-- generated from `arim/im/huber.py`, function `_huber_iter` (line 16) -/
def huber_iter {K : Type} [Add K] [Sub K] [Mul K] [Div K] [Neg K] [LT K] [DecidableLT K] [LE K] [DecidableLE K]
    (o : Ops K) (data : Nat → Nat → K) (n : Nat) (tau : K) (x0 : K) (y0 : K) : K × K :=
  let sum_w := (o.ofNat 0)
  let x := (o.ofNat 0)
  let y := (o.ofNat 0)
  let (sum_w, x, y) := (List.range n).foldl (fun (sum_w, x, y) i =>
        let x_i := ((data i) (0 : Nat))
        let y_i := ((data i) (1 : Nat))
        let w_i := (pyMin (o.ofNat 1) (tau / (o.sqrt (((x0 - x_i) * (x0 - x_i)) + ((y0 - y_i) * (y0 - y_i))))))
        let sum_w := (sum_w + w_i)
        let x := (x + (x_i * w_i))
        let y := (y + (y_i * w_i))
        (sum_w, x, y)) (sum_w, x, y)
  let inv_sum_w := ((o.ofNat 1) / sum_w)
  let x := (x * inv_sum_w)
  let y := (y * inv_sum_w)
  (x, y)

/-- generated from `arim/im/geomed.py`, function `_f` (line 15) -/
def geomed_f {K : Type} [Add K] [Sub K] [Mul K] [Div K] [Neg K]
    (o : Ops K) (data : Nat → Nat → K) (n : Nat) (z : Nat → K) : K :=
  let out := (o.ofNat 0)
  let x := (z (0 : Nat))
  let y := (z (1 : Nat))
  let out := (List.range n).foldl (fun out i =>
        let out := (out + (o.sqrt (((x - ((data i) (0 : Nat))) * (x - ((data i) (0 : Nat)))) + ((y - ((data i) (1 : Nat))) * (y - ((data i) (1 : Nat)))))))
        out) out
  out

/-- generated from `arim/im/geomed.py`, function `_gradf_and_inv_hessf` (line 33) -/
def geomed_gradf_and_inv_hessf {K : Type} [Add K] [Sub K] [Mul K] [Div K] [Neg K]
    (o : Ops K) (data : Nat → Nat → K) (n : Nat) (z : Nat → K) : K × K × K × K × K :=
  let x := (z (0 : Nat))
  let y := (z (1 : Nat))
  let gx := (o.ofNat 0)
  let gy := (o.ofNat 0)
  let a11 := (o.ofNat 0)
  let a12 := (o.ofNat 0)
  let a22 := (o.ofNat 0)
  let (gx, gy, a11, a12, a22) := (List.range n).foldl (fun (gx, gy, a11, a12, a22) i =>
        let tx := (x - ((data i) (0 : Nat)))
        let ty := (y - ((data i) (1 : Nat)))
        let inv_l2_t := ((o.ofNat 1) / (o.sqrt ((tx * tx) + (ty * ty))))
        let gx := (gx + (inv_l2_t * tx))
        let gy := (gy + (inv_l2_t * ty))
        let inv_l2_t3 := ((inv_l2_t * inv_l2_t) * inv_l2_t)
        let a11 := (a11 + (inv_l2_t - (inv_l2_t3 * (tx * tx))))
        let a12 := (a12 - ((tx * ty) * inv_l2_t3))
        let a22 := (a22 + (inv_l2_t - (inv_l2_t3 * (ty * ty))))
        (gx, gy, a11, a12, a22)) (gx, gy, a11, a12, a22)
  let invdet := ((o.ofNat 1) / ((a11 * a22) - (a12 * a12)))
  (gx, gy, (a22 * invdet), ((-a12) * invdet), (a11 * invdet))

/-- generated from `arim/im/das.py`, function `_delay_and_sum_noamp_median_nearest` (line 505): `solver` stands for `geomed.geomed` on the (n, 2) real view of the scratch array of delayed samples -/
def das_noamp_median_nearest {K : Type} {D : Type} [Add K] [Sub K] [Mul K] [Div K] [Neg K]
    (o : Ops K) (weighted_timetraces : Nat → Nat → D) (tx : Nat → Nat) (rx : Nat → Nat) (lookup_times_tx : Nat → Nat → K) (lookup_times_rx : Nat → Nat → K) (invdt : K) (t0 : K) (fillvalue : D) (solver : List D → D) (numtimetraces : Nat) (numsamples : Nat) (point : Nat) : D :=
  let datapoints : List D := []
  let datapoints := (List.range numtimetraces).foldl (fun datapoints scan =>
        let lookup_time := ((lookup_times_tx point (tx scan)) + (lookup_times_rx point (rx scan)))
        let lookup_index := (o.round ((lookup_time - t0) * invdt))
        let datapoints := (if ((lookup_index < (0 : Int)) ∨ (lookup_index ≥ ((numsamples : Nat) : Int))) then
            let datapoints := datapoints ++ [fillvalue]
            datapoints
          else
            let datapoints := datapoints ++ [(weighted_timetraces scan (lookup_index).toNat)]
            datapoints)
        datapoints) datapoints
  let (res, _) := (solver datapoints, (0 : Nat))
  let cell_result := res
  cell_result

/-- generated from `arim/im/das.py`, function `_delay_and_sum_noamp_median_lanczos` (line 638) -/
def das_noamp_median_lanczos {K : Type} {D : Type} [Add K] [Sub K] [Mul K] [Div K] [Neg K] [LT K] [DecidableLT K] [LE K] [DecidableLE K] [DecidableEq K]
    (o : Ops K) (d : Arim.Das.Data K D) (weighted_timetraces : Nat → Nat → D) (tx : Nat → Nat) (rx : Nat → Nat) (lookup_times_tx : Nat → Nat → K) (lookup_times_rx : Nat → Nat → K) (invdt : K) (t0 : K) (fillvalue : D) (a : Nat) (solver : List D → D) (numtimetraces : Nat) (numsamples : Nat) (point : Nat) : D :=
  let datapoints : List D := []
  let datapoints := (List.range numtimetraces).foldl (fun datapoints scan =>
        let lookup_time := ((lookup_times_tx point (tx scan)) + (lookup_times_rx point (rx scan)))
        let lookup_index := ((lookup_time - t0) * invdt)
        let datapoints := (if ((lookup_index < (o.ofNat 0)) ∨ (lookup_index ≥ (o.ofNat numsamples))) then
            let datapoints := datapoints ++ [fillvalue]
            datapoints
          else
            let datapoints := datapoints ++ [((fun t x a => lanczos_interpolation o d t x a numsamples) lookup_index (weighted_timetraces scan) a)]
            datapoints)
        datapoints) datapoints
  let (res, _) := (solver datapoints, (0 : Nat))
  let cell_result := res
  cell_result

/-- generated from `arim/im/das.py`, function `_delay_and_sum_noamp_huber_lanczos` (line 677): `solver` stands for `huber_m_estimate(., tau)` -/
def das_noamp_huber_lanczos {K : Type} {D : Type} [Add K] [Sub K] [Mul K] [Div K] [Neg K] [LT K] [DecidableLT K] [LE K] [DecidableLE K] [DecidableEq K]
    (o : Ops K) (d : Arim.Das.Data K D) (weighted_timetraces : Nat → Nat → D) (tx : Nat → Nat) (rx : Nat → Nat) (lookup_times_tx : Nat → Nat → K) (lookup_times_rx : Nat → Nat → K) (invdt : K) (t0 : K) (fillvalue : D) (a : Nat) (tau : K) (solver : List D → D) (numtimetraces : Nat) (numsamples : Nat) (point : Nat) : D :=
  let datapoints : List D := []
  let datapoints := (List.range numtimetraces).foldl (fun datapoints scan =>
        let lookup_time := ((lookup_times_tx point (tx scan)) + (lookup_times_rx point (rx scan)))
        let lookup_index := ((lookup_time - t0) * invdt)
        let datapoints := (if ((lookup_index < (o.ofNat 0)) ∨ (lookup_index ≥ (o.ofNat numsamples))) then
            let datapoints := datapoints ++ [fillvalue]
            datapoints
          else
            let datapoints := datapoints ++ [((fun t x a => lanczos_interpolation o d t x a numsamples) lookup_index (weighted_timetraces scan) a)]
            datapoints)
        datapoints) datapoints
  let (res, _) := (solver datapoints, (0 : Nat))
  let cell_result := res
  cell_result

end Arim.Src
