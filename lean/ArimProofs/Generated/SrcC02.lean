import ArimModel.Src
/-! GENERATED on every run by harness/py2lean.py from the Python sources of arim in /repo/src (functions listed in harness/srcspecs.py). Do not edit. -/
namespace Arim.Src
set_option linter.unusedVariables false

/-- generated from `arim/im/das.py`, function `_delay_and_sum_amplitudes_nearest` (line 179) -/
def das_amplitudes_nearest {K : Type} {D : Type} [Add K] [Sub K] [Mul K] [Div K] [Neg K]
    (o : Ops K) (d : Arim.Das.Data K D) (weighted_timetraces : Nat → Nat → D) (tx : Nat → Nat) (rx : Nat → Nat) (lookup_times_tx : Nat → Nat → K) (lookup_times_rx : Nat → Nat → K) (amplitudes_tx : Nat → Nat → D) (amplitudes_rx : Nat → Nat → D) (dt : K) (t0 : K) (fillvalue : D) (numtimetraces : Nat) (numsamples : Nat) (point : Nat) : D :=
  let res_tmp := d.zero
  let res_tmp := (List.range numtimetraces).foldl (fun res_tmp scan =>
        let lookup_time := ((lookup_times_tx point (tx scan)) + (lookup_times_rx point (rx scan)))
        let lookup_index := (o.round ((lookup_time - t0) / dt))
        let res_tmp := (if ((lookup_index < (0 : Int)) ∨ (lookup_index ≥ ((numsamples : Nat) : Int))) then
            let res_tmp := (d.add res_tmp fillvalue)
            res_tmp
          else
            let res_tmp := (d.add res_tmp (d.mul (d.mul (amplitudes_tx point (tx scan)) (amplitudes_rx point (rx scan))) (weighted_timetraces scan (lookup_index).toNat)))
            res_tmp)
        res_tmp) res_tmp
  let cell_result := (d.divNat res_tmp numtimetraces)
  cell_result

/-- generated from `arim/im/das.py`, function `_delay_and_sum_amplitudes_linear` (line 304): the module defines this name twice; the second definition is the one Python keeps -/
def das_amplitudes_linear {K : Type} {D : Type} [Add K] [Sub K] [Mul K] [Div K] [Neg K]
    (o : Ops K) (d : Arim.Das.Data K D) (weighted_timetraces : Nat → Nat → D) (tx : Nat → Nat) (rx : Nat → Nat) (lookup_times_tx : Nat → Nat → K) (lookup_times_rx : Nat → Nat → K) (amplitudes_tx : Nat → Nat → D) (amplitudes_rx : Nat → Nat → D) (dt : K) (t0 : K) (fillvalue : D) (numtimetraces : Nat) (numsamples : Nat) (point : Nat) : D :=
  let res_tmp := d.zero
  let res_tmp := (List.range numtimetraces).foldl (fun res_tmp scan =>
        let lookup_time := ((lookup_times_tx point (tx scan)) + (lookup_times_rx point (rx scan)))
        let loc1 := ((lookup_time - t0) / dt)
        let lookup_index := (o.floor loc1)
        let frac1 := (loc1 - (o.ofInt lookup_index))
        let lookup_index1 := (lookup_index + (1 : Int))
        let res_tmp := (if ((lookup_index < (0 : Int)) ∨ (lookup_index1 ≥ ((numsamples : Nat) : Int))) then
            let res_tmp := (d.add res_tmp fillvalue)
            res_tmp
          else
            let lscanVal := (weighted_timetraces scan (lookup_index).toNat)
            let lscanVal1 := (weighted_timetraces scan (lookup_index1).toNat)
            let lscanUseVal := (d.add lscanVal (d.smul frac1 (d.sub lscanVal1 lscanVal)))
            let res_tmp := (d.add res_tmp (d.mul (d.mul (amplitudes_tx point (tx scan)) (amplitudes_rx point (rx scan))) lscanUseVal))
            res_tmp)
        res_tmp) res_tmp
  let cell_result := (d.divNat res_tmp numtimetraces)
  cell_result

/-- generated from `arim/im/das.py`, function `_delay_and_sum_noamp` (line 473) -/
def das_noamp_nearest {K : Type} {D : Type} [Add K] [Sub K] [Mul K] [Div K] [Neg K]
    (o : Ops K) (d : Arim.Das.Data K D) (weighted_timetraces : Nat → Nat → D) (tx : Nat → Nat) (rx : Nat → Nat) (lookup_times_tx : Nat → Nat → K) (lookup_times_rx : Nat → Nat → K) (invdt : K) (t0 : K) (fillvalue : D) (numtimetraces : Nat) (numsamples : Nat) (point : Nat) : D :=
  let res_tmp := d.zero
  let res_tmp := (List.range numtimetraces).foldl (fun res_tmp scan =>
        let lookup_time := ((lookup_times_tx point (tx scan)) + (lookup_times_rx point (rx scan)))
        let lookup_index := (o.round ((lookup_time - t0) * invdt))
        let res_tmp := (if ((lookup_index < (0 : Int)) ∨ (lookup_index ≥ ((numsamples : Nat) : Int))) then
            let res_tmp := (d.add res_tmp fillvalue)
            res_tmp
          else
            let res_tmp := (d.add res_tmp (weighted_timetraces scan (lookup_index).toNat))
            res_tmp)
        res_tmp) res_tmp
  let cell_result := (d.divNat res_tmp numtimetraces)
  cell_result

/-- generated from `arim/im/das.py`, function `_delay_and_sum_noamp_linear` (line 540) -/
def das_noamp_linear {K : Type} {D : Type} [Add K] [Sub K] [Mul K] [Div K] [Neg K]
    (o : Ops K) (d : Arim.Das.Data K D) (weighted_timetraces : Nat → Nat → D) (tx : Nat → Nat) (rx : Nat → Nat) (lookup_times_tx : Nat → Nat → K) (lookup_times_rx : Nat → Nat → K) (invdt : K) (t0 : K) (fillvalue : D) (numtimetraces : Nat) (numsamples : Nat) (point : Nat) : D :=
  let res_tmp := d.zero
  let res_tmp := (List.range numtimetraces).foldl (fun res_tmp scan =>
        let lookup_time := ((lookup_times_tx point (tx scan)) + (lookup_times_rx point (rx scan)))
        let lookup_index_exact := ((lookup_time - t0) * invdt)
        let lookup_index_left := (o.floor lookup_index_exact)
        let lookup_index_right := (lookup_index_left + (1 : Int))
        let frac := (lookup_index_exact - (o.ofInt lookup_index_left))
        let res_tmp := (if ((lookup_index_left < (0 : Int)) ∨ (lookup_index_right ≥ ((numsamples : Nat) : Int))) then
            let res_tmp := (d.add res_tmp fillvalue)
            res_tmp
          else
            let scan_val_left := (weighted_timetraces scan (lookup_index_left).toNat)
            let scan_val_right := (weighted_timetraces scan (lookup_index_right).toNat)
            let res_tmp := (d.add res_tmp (d.add (d.smul ((o.ofNat 1) - frac) scan_val_left) (d.smul frac scan_val_right)))
            res_tmp)
        res_tmp) res_tmp
  let cell_result := (d.divNat res_tmp numtimetraces)
  cell_result

end Arim.Src
