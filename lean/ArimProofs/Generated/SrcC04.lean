import ArimModel.Src
/-! GENERATED on every run by harness/py2lean.py from the Python sources of arim in /repo/src (functions listed in harness/srcspecs.py). Do not edit. -/
namespace Arim.Src
set_option linter.unusedVariables false

/-- generated from `arim/model.py`, function `snell_angles` (line 378) -/
def snell_angles {K : Type} [Add K] [Sub K] [Mul K] [Div K] [Neg K]
    (o : Ops K) (incidents_angles : K) (c_incident : K) (c_refracted : K) : K :=
  (o.asin ((c_refracted / c_incident) * (o.sin incidents_angles)))

/-- generated from `arim/model.py`, function `_fluid_solid_n` (line 470) -/
def fluid_solid_n {K : Type} [Add K] [Sub K] [Mul K] [Div K] [Neg K]
    (o : Ops K) (alpha_fluid : K) (alpha_l : K) (alpha_t : K) (rho_fluid : K) (rho_solid : K) (c_fluid : K) (c_l : K) (c_t : K) : K :=
  let ct_cl2 := ((c_t * c_t) / (c_l * c_l))
  let cos_2_alpha_t := (o.cos ((o.ofNat 2) * alpha_t))
  let N := ((((ct_cl2 * (o.sin ((o.ofNat 2) * alpha_l))) * (o.sin ((o.ofNat 2) * alpha_t))) + (cos_2_alpha_t * cos_2_alpha_t)) + ((((rho_fluid * c_fluid) / (rho_solid * c_l)) * (o.cos alpha_l)) / (o.cos alpha_fluid)))
  N

/-- generated from `arim/model.py`, function `fluid_solid` (line 393): refracted angles supplied by the caller -/
def fluid_solid {K : Type} [Add K] [Sub K] [Mul K] [Div K] [Neg K]
    (o : Ops K) (alpha_fluid : K) (rho_fluid : K) (rho_solid : K) (c_fluid : K) (c_l : K) (c_t : K) (alpha_l : K) (alpha_t : K) : K × K × K :=
  let alpha_fluid := alpha_fluid
  let N := (fluid_solid_n o alpha_fluid alpha_l alpha_t rho_fluid rho_solid c_fluid c_l c_t)
  let ct_cl2 := ((c_t * c_t) / (c_l * c_l))
  let cos_2_alpha_t := (o.cos ((o.ofNat 2) * alpha_t))
  let reflection := (((((ct_cl2 * (o.sin ((o.ofNat 2) * alpha_l))) * (o.sin ((o.ofNat 2) * alpha_t))) + (cos_2_alpha_t * cos_2_alpha_t)) - (((rho_fluid * c_fluid) * (o.cos alpha_l)) / ((rho_solid * c_l) * (o.cos alpha_fluid)))) / N)
  let transmission_l := (((o.ofNat 2) * cos_2_alpha_t) / N)
  let transmission_t := ((((-(o.ofNat 2)) * ct_cl2) * (o.sin ((o.ofNat 2) * alpha_l))) / N)
  (reflection, transmission_l, transmission_t)

/-- generated from `arim/model.py`, function `fluid_solid` (line 393): `alpha_l=None, alpha_t=None`: refracted angles from Snell's law -/
def fluid_solid_auto {K : Type} [Add K] [Sub K] [Mul K] [Div K] [Neg K]
    (o : Ops K) (alpha_fluid : K) (rho_fluid : K) (rho_solid : K) (c_fluid : K) (c_l : K) (c_t : K) : K × K × K :=
  let alpha_fluid := alpha_fluid
  let alpha_l := (snell_angles o alpha_fluid c_fluid c_l)
  let alpha_t := (snell_angles o alpha_fluid c_fluid c_t)
  let N := (fluid_solid_n o alpha_fluid alpha_l alpha_t rho_fluid rho_solid c_fluid c_l c_t)
  let ct_cl2 := ((c_t * c_t) / (c_l * c_l))
  let cos_2_alpha_t := (o.cos ((o.ofNat 2) * alpha_t))
  let reflection := (((((ct_cl2 * (o.sin ((o.ofNat 2) * alpha_l))) * (o.sin ((o.ofNat 2) * alpha_t))) + (cos_2_alpha_t * cos_2_alpha_t)) - (((rho_fluid * c_fluid) * (o.cos alpha_l)) / ((rho_solid * c_l) * (o.cos alpha_fluid)))) / N)
  let transmission_l := (((o.ofNat 2) * cos_2_alpha_t) / N)
  let transmission_t := ((((-(o.ofNat 2)) * ct_cl2) * (o.sin ((o.ofNat 2) * alpha_l))) / N)
  (reflection, transmission_l, transmission_t)

/-- generated from `arim/model.py`, function `solid_l_fluid` (line 486) -/
def solid_l_fluid {K : Type} [Add K] [Sub K] [Mul K] [Div K] [Neg K]
    (o : Ops K) (alpha_l : K) (rho_fluid : K) (rho_solid : K) (c_fluid : K) (c_l : K) (c_t : K) (alpha_fluid : K) (alpha_t : K) : K × K × K :=
  let N := (fluid_solid_n o alpha_fluid alpha_l alpha_t rho_fluid rho_solid c_fluid c_l c_t)
  let ct_cl2 := ((c_t * c_t) / (c_l * c_l))
  let cos_2_alpha_t := (o.cos ((o.ofNat 2) * alpha_t))
  let reflection_l := (((((ct_cl2 * (o.sin ((o.ofNat 2) * alpha_l))) * (o.sin ((o.ofNat 2) * alpha_t))) - (cos_2_alpha_t * cos_2_alpha_t)) + ((((rho_fluid * c_fluid) / (rho_solid * c_l)) * (o.cos alpha_l)) / (o.cos alpha_fluid))) / N)
  let reflection_t := (((((o.ofNat 2) * ct_cl2) * (o.sin ((o.ofNat 2) * alpha_l))) * (o.cos ((o.ofNat 2) * alpha_t))) / N)
  let transmission := ((((((o.ofNat 2) * rho_fluid) * c_fluid) * (o.cos alpha_l)) * (o.cos ((o.ofNat 2) * alpha_t))) / (((N * rho_solid) * c_l) * (o.cos alpha_fluid)))
  (reflection_l, reflection_t, transmission)

/-- generated from `arim/model.py`, function `solid_l_fluid` (line 486) -/
def solid_l_fluid_auto {K : Type} [Add K] [Sub K] [Mul K] [Div K] [Neg K]
    (o : Ops K) (alpha_l : K) (rho_fluid : K) (rho_solid : K) (c_fluid : K) (c_l : K) (c_t : K) : K × K × K :=
  let alpha_fluid := (snell_angles o alpha_l c_l c_fluid)
  let alpha_t := (snell_angles o alpha_l c_l c_t)
  let N := (fluid_solid_n o alpha_fluid alpha_l alpha_t rho_fluid rho_solid c_fluid c_l c_t)
  let ct_cl2 := ((c_t * c_t) / (c_l * c_l))
  let cos_2_alpha_t := (o.cos ((o.ofNat 2) * alpha_t))
  let reflection_l := (((((ct_cl2 * (o.sin ((o.ofNat 2) * alpha_l))) * (o.sin ((o.ofNat 2) * alpha_t))) - (cos_2_alpha_t * cos_2_alpha_t)) + ((((rho_fluid * c_fluid) / (rho_solid * c_l)) * (o.cos alpha_l)) / (o.cos alpha_fluid))) / N)
  let reflection_t := (((((o.ofNat 2) * ct_cl2) * (o.sin ((o.ofNat 2) * alpha_l))) * (o.cos ((o.ofNat 2) * alpha_t))) / N)
  let transmission := ((((((o.ofNat 2) * rho_fluid) * c_fluid) * (o.cos alpha_l)) * (o.cos ((o.ofNat 2) * alpha_t))) / (((N * rho_solid) * c_l) * (o.cos alpha_fluid)))
  (reflection_l, reflection_t, transmission)

/-- generated from `arim/model.py`, function `solid_t_fluid` (line 567) -/
def solid_t_fluid {K : Type} [Add K] [Sub K] [Mul K] [Div K] [Neg K]
    (o : Ops K) (alpha_t : K) (rho_fluid : K) (rho_solid : K) (c_fluid : K) (c_l : K) (c_t : K) (alpha_fluid : K) (alpha_l : K) : K × K × K :=
  let N := (fluid_solid_n o alpha_fluid alpha_l alpha_t rho_fluid rho_solid c_fluid c_l c_t)
  let reflection_l := ((-(o.sin ((o.ofNat 4) * alpha_t))) / N)
  let ct_cl2 := ((c_t * c_t) / (c_l * c_l))
  let cos_2_alpha_t := (o.cos ((o.ofNat 2) * alpha_t))
  let reflection_t := (((((ct_cl2 * (o.sin ((o.ofNat 2) * alpha_l))) * (o.sin ((o.ofNat 2) * alpha_t))) - (cos_2_alpha_t * cos_2_alpha_t)) - ((((rho_fluid * c_fluid) / (rho_solid * c_l)) * (o.cos alpha_l)) / (o.cos alpha_fluid))) / N)
  let transmission := ((((((o.ofNat 2) * rho_fluid) * c_fluid) * (o.cos alpha_l)) * (o.sin ((o.ofNat 2) * alpha_t))) / (((N * rho_solid) * c_l) * (o.cos alpha_fluid)))
  (reflection_l, reflection_t, transmission)

/-- generated from `arim/model.py`, function `solid_t_fluid` (line 567) -/
def solid_t_fluid_auto {K : Type} [Add K] [Sub K] [Mul K] [Div K] [Neg K]
    (o : Ops K) (alpha_t : K) (rho_fluid : K) (rho_solid : K) (c_fluid : K) (c_l : K) (c_t : K) : K × K × K :=
  let alpha_fluid := (snell_angles o alpha_t c_t c_fluid)
  let alpha_l := (snell_angles o alpha_t c_t c_l)
  let N := (fluid_solid_n o alpha_fluid alpha_l alpha_t rho_fluid rho_solid c_fluid c_l c_t)
  let reflection_l := ((-(o.sin ((o.ofNat 4) * alpha_t))) / N)
  let ct_cl2 := ((c_t * c_t) / (c_l * c_l))
  let cos_2_alpha_t := (o.cos ((o.ofNat 2) * alpha_t))
  let reflection_t := (((((ct_cl2 * (o.sin ((o.ofNat 2) * alpha_l))) * (o.sin ((o.ofNat 2) * alpha_t))) - (cos_2_alpha_t * cos_2_alpha_t)) - ((((rho_fluid * c_fluid) / (rho_solid * c_l)) * (o.cos alpha_l)) / (o.cos alpha_fluid))) / N)
  let transmission := ((((((o.ofNat 2) * rho_fluid) * c_fluid) * (o.cos alpha_l)) * (o.sin ((o.ofNat 2) * alpha_t))) / (((N * rho_solid) * c_l) * (o.cos alpha_fluid)))
  (reflection_l, reflection_t, transmission)

/-- generated from `arim/model.py`, function `transmission_at_interface` (line 649): specialised: interface_kind=fluid_solid, mode_inc=L, mode_out=L, unit='stress' (`force_complex` only converts the dtype of the angles) -/
def transmission_at_interface__fluid_solid_LL_stress {K : Type} [Add K] [Sub K] [Mul K] [Div K] [Neg K]
    (o : Ops K) (angles_inc : K) (rho_fluid : K) (rho_solid : K) (c_fluid : K) (c_l : K) (c_t : K) : K :=
  let alpha_fluid := angles_inc
  let alpha_l := (snell_angles o alpha_fluid c_fluid c_l)
  let alpha_t := (snell_angles o alpha_fluid c_fluid c_t)
  let (refl, trans_l, trans_t) := (fluid_solid o alpha_fluid rho_fluid rho_solid c_fluid c_l c_t alpha_l alpha_t)
  trans_l

/-- generated from `arim/model.py`, function `transmission_at_interface` (line 649): specialised: interface_kind=fluid_solid, mode_inc=L, mode_out=L, unit='displacement' (`force_complex` only converts the dtype of the angles) -/
def transmission_at_interface__fluid_solid_LL_displacement {K : Type} [Add K] [Sub K] [Mul K] [Div K] [Neg K]
    (o : Ops K) (angles_inc : K) (rho_fluid : K) (rho_solid : K) (c_fluid : K) (c_l : K) (c_t : K) : K :=
  let alpha_fluid := angles_inc
  let alpha_l := (snell_angles o alpha_fluid c_fluid c_l)
  let alpha_t := (snell_angles o alpha_fluid c_fluid c_t)
  let (refl, trans_l, trans_t) := (fluid_solid o alpha_fluid rho_fluid rho_solid c_fluid c_l c_t alpha_l alpha_t)
  let z := ((rho_fluid * c_fluid) / (rho_solid * c_l))
  let trans_l := (trans_l * z)
  let trans_t := (trans_t * z)
  trans_l

/-- generated from `arim/model.py`, function `transmission_at_interface` (line 649): specialised: interface_kind=fluid_solid, mode_inc=L, mode_out=T, unit='stress' (`force_complex` only converts the dtype of the angles) -/
def transmission_at_interface__fluid_solid_LT_stress {K : Type} [Add K] [Sub K] [Mul K] [Div K] [Neg K]
    (o : Ops K) (angles_inc : K) (rho_fluid : K) (rho_solid : K) (c_fluid : K) (c_l : K) (c_t : K) : K :=
  let alpha_fluid := angles_inc
  let alpha_l := (snell_angles o alpha_fluid c_fluid c_l)
  let alpha_t := (snell_angles o alpha_fluid c_fluid c_t)
  let (refl, trans_l, trans_t) := (fluid_solid o alpha_fluid rho_fluid rho_solid c_fluid c_l c_t alpha_l alpha_t)
  trans_t

/-- generated from `arim/model.py`, function `transmission_at_interface` (line 649): specialised: interface_kind=fluid_solid, mode_inc=L, mode_out=T, unit='displacement' (`force_complex` only converts the dtype of the angles) -/
def transmission_at_interface__fluid_solid_LT_displacement {K : Type} [Add K] [Sub K] [Mul K] [Div K] [Neg K]
    (o : Ops K) (angles_inc : K) (rho_fluid : K) (rho_solid : K) (c_fluid : K) (c_l : K) (c_t : K) : K :=
  let alpha_fluid := angles_inc
  let alpha_l := (snell_angles o alpha_fluid c_fluid c_l)
  let alpha_t := (snell_angles o alpha_fluid c_fluid c_t)
  let (refl, trans_l, trans_t) := (fluid_solid o alpha_fluid rho_fluid rho_solid c_fluid c_l c_t alpha_l alpha_t)
  let z := ((rho_fluid * c_fluid) / (rho_solid * c_t))
  let trans_l := (trans_l * z)
  let trans_t := (trans_t * z)
  trans_t

/-- generated from `arim/model.py`, function `transmission_at_interface` (line 649): specialised: interface_kind=solid_fluid, mode_inc=L, mode_out=L, unit='stress' (`force_complex` only converts the dtype of the angles) -/
def transmission_at_interface__solid_fluid_LL_stress {K : Type} [Add K] [Sub K] [Mul K] [Div K] [Neg K]
    (o : Ops K) (angles_inc : K) (rho_fluid : K) (rho_solid : K) (c_fluid : K) (c_l : K) (c_t : K) : K :=
  let alpha_l := angles_inc
  let (refl_l, refl_t, transmission) := (solid_l_fluid_auto o alpha_l rho_fluid rho_solid c_fluid c_l c_t)
  transmission

/-- generated from `arim/model.py`, function `transmission_at_interface` (line 649): specialised: interface_kind=solid_fluid, mode_inc=L, mode_out=L, unit='displacement' (`force_complex` only converts the dtype of the angles) -/
def transmission_at_interface__solid_fluid_LL_displacement {K : Type} [Add K] [Sub K] [Mul K] [Div K] [Neg K]
    (o : Ops K) (angles_inc : K) (rho_fluid : K) (rho_solid : K) (c_fluid : K) (c_l : K) (c_t : K) : K :=
  let alpha_l := angles_inc
  let (refl_l, refl_t, transmission) := (solid_l_fluid_auto o alpha_l rho_fluid rho_solid c_fluid c_l c_t)
  let z := ((rho_solid * c_l) / (rho_fluid * c_fluid))
  let transmission := (transmission * z)
  transmission

/-- generated from `arim/model.py`, function `transmission_at_interface` (line 649): specialised: interface_kind=solid_fluid, mode_inc=T, mode_out=L, unit='stress' (`force_complex` only converts the dtype of the angles) -/
def transmission_at_interface__solid_fluid_TL_stress {K : Type} [Add K] [Sub K] [Mul K] [Div K] [Neg K]
    (o : Ops K) (angles_inc : K) (rho_fluid : K) (rho_solid : K) (c_fluid : K) (c_l : K) (c_t : K) : K :=
  let alpha_t := angles_inc
  let (refl_l, refl_t, transmission) := (solid_t_fluid_auto o alpha_t rho_fluid rho_solid c_fluid c_l c_t)
  transmission

/-- generated from `arim/model.py`, function `transmission_at_interface` (line 649): specialised: interface_kind=solid_fluid, mode_inc=T, mode_out=L, unit='displacement' (`force_complex` only converts the dtype of the angles) -/
def transmission_at_interface__solid_fluid_TL_displacement {K : Type} [Add K] [Sub K] [Mul K] [Div K] [Neg K]
    (o : Ops K) (angles_inc : K) (rho_fluid : K) (rho_solid : K) (c_fluid : K) (c_l : K) (c_t : K) : K :=
  let alpha_t := angles_inc
  let (refl_l, refl_t, transmission) := (solid_t_fluid_auto o alpha_t rho_fluid rho_solid c_fluid c_l c_t)
  let z := ((rho_solid * c_t) / (rho_fluid * c_fluid))
  let transmission := (transmission * z)
  transmission

/-- generated from `arim/model.py`, function `reflection_at_interface` (line 785): specialised: interface_kind=solid_fluid, mode_inc=L, mode_out=L, unit='stress' (`force_complex` only converts the dtype of the angles) -/
def reflection_at_interface__solid_fluid_LL_stress {K : Type} [Add K] [Sub K] [Mul K] [Div K] [Neg K]
    (o : Ops K) (angles_inc : K) (rho_fluid : K) (rho_solid : K) (c_fluid : K) (c_l : K) (c_t : K) : K :=
  let angles_l := angles_inc
  let (refl_l, refl_t, trans) := (solid_l_fluid_auto o angles_l rho_fluid rho_solid c_fluid c_l c_t)
  let z := (c_l / c_l)
  refl_l

/-- generated from `arim/model.py`, function `reflection_at_interface` (line 785): specialised: interface_kind=solid_fluid, mode_inc=L, mode_out=L, unit='displacement' (`force_complex` only converts the dtype of the angles) -/
def reflection_at_interface__solid_fluid_LL_displacement {K : Type} [Add K] [Sub K] [Mul K] [Div K] [Neg K]
    (o : Ops K) (angles_inc : K) (rho_fluid : K) (rho_solid : K) (c_fluid : K) (c_l : K) (c_t : K) : K :=
  let angles_l := angles_inc
  let (refl_l, refl_t, trans) := (solid_l_fluid_auto o angles_l rho_fluid rho_solid c_fluid c_l c_t)
  let z := (c_l / c_l)
  (refl_l * z)

/-- generated from `arim/model.py`, function `reflection_at_interface` (line 785): specialised: interface_kind=solid_fluid, mode_inc=L, mode_out=T, unit='stress' (`force_complex` only converts the dtype of the angles) -/
def reflection_at_interface__solid_fluid_LT_stress {K : Type} [Add K] [Sub K] [Mul K] [Div K] [Neg K]
    (o : Ops K) (angles_inc : K) (rho_fluid : K) (rho_solid : K) (c_fluid : K) (c_l : K) (c_t : K) : K :=
  let angles_l := angles_inc
  let (refl_l, refl_t, trans) := (solid_l_fluid_auto o angles_l rho_fluid rho_solid c_fluid c_l c_t)
  let z := (c_l / c_t)
  refl_t

/-- generated from `arim/model.py`, function `reflection_at_interface` (line 785): specialised: interface_kind=solid_fluid, mode_inc=L, mode_out=T, unit='displacement' (`force_complex` only converts the dtype of the angles) -/
def reflection_at_interface__solid_fluid_LT_displacement {K : Type} [Add K] [Sub K] [Mul K] [Div K] [Neg K]
    (o : Ops K) (angles_inc : K) (rho_fluid : K) (rho_solid : K) (c_fluid : K) (c_l : K) (c_t : K) : K :=
  let angles_l := angles_inc
  let (refl_l, refl_t, trans) := (solid_l_fluid_auto o angles_l rho_fluid rho_solid c_fluid c_l c_t)
  let z := (c_l / c_t)
  (refl_t * z)

/-- generated from `arim/model.py`, function `reflection_at_interface` (line 785): specialised: interface_kind=solid_fluid, mode_inc=T, mode_out=L, unit='stress' (`force_complex` only converts the dtype of the angles) -/
def reflection_at_interface__solid_fluid_TL_stress {K : Type} [Add K] [Sub K] [Mul K] [Div K] [Neg K]
    (o : Ops K) (angles_inc : K) (rho_fluid : K) (rho_solid : K) (c_fluid : K) (c_l : K) (c_t : K) : K :=
  let angles_t := angles_inc
  let (refl_l, refl_t, trans) := (solid_t_fluid_auto o angles_t rho_fluid rho_solid c_fluid c_l c_t)
  let z := (c_t / c_l)
  refl_l

/-- generated from `arim/model.py`, function `reflection_at_interface` (line 785): specialised: interface_kind=solid_fluid, mode_inc=T, mode_out=L, unit='displacement' (`force_complex` only converts the dtype of the angles) -/
def reflection_at_interface__solid_fluid_TL_displacement {K : Type} [Add K] [Sub K] [Mul K] [Div K] [Neg K]
    (o : Ops K) (angles_inc : K) (rho_fluid : K) (rho_solid : K) (c_fluid : K) (c_l : K) (c_t : K) : K :=
  let angles_t := angles_inc
  let (refl_l, refl_t, trans) := (solid_t_fluid_auto o angles_t rho_fluid rho_solid c_fluid c_l c_t)
  let z := (c_t / c_l)
  (refl_l * z)

/-- generated from `arim/model.py`, function `reflection_at_interface` (line 785): specialised: interface_kind=solid_fluid, mode_inc=T, mode_out=T, unit='stress' (`force_complex` only converts the dtype of the angles) -/
def reflection_at_interface__solid_fluid_TT_stress {K : Type} [Add K] [Sub K] [Mul K] [Div K] [Neg K]
    (o : Ops K) (angles_inc : K) (rho_fluid : K) (rho_solid : K) (c_fluid : K) (c_l : K) (c_t : K) : K :=
  let angles_t := angles_inc
  let (refl_l, refl_t, trans) := (solid_t_fluid_auto o angles_t rho_fluid rho_solid c_fluid c_l c_t)
  let z := (c_t / c_t)
  refl_t

/-- generated from `arim/model.py`, function `reflection_at_interface` (line 785): specialised: interface_kind=solid_fluid, mode_inc=T, mode_out=T, unit='displacement' (`force_complex` only converts the dtype of the angles) -/
def reflection_at_interface__solid_fluid_TT_displacement {K : Type} [Add K] [Sub K] [Mul K] [Div K] [Neg K]
    (o : Ops K) (angles_inc : K) (rho_fluid : K) (rho_solid : K) (c_fluid : K) (c_l : K) (c_t : K) : K :=
  let angles_t := angles_inc
  let (refl_l, refl_t, trans) := (solid_t_fluid_auto o angles_t rho_fluid rho_solid c_fluid c_l c_t)
  let z := (c_t / c_t)
  (refl_t * z)

/-- generated from `arim/model.py`, function `reflection_at_interface` (line 785): specialised: interface_kind=fluid_solid, mode_inc=L, mode_out=L, unit='stress' (`force_complex` only converts the dtype of the angles) -/
def reflection_at_interface__fluid_solid_LL_stress {K : Type} [Add K] [Sub K] [Mul K] [Div K] [Neg K]
    (o : Ops K) (angles_inc : K) (rho_fluid : K) (rho_solid : K) (c_fluid : K) (c_l : K) (c_t : K) : K :=
  let angles_fluid := angles_inc
  let (reflection, transmission_l, transmission_t) := (fluid_solid_auto o angles_fluid rho_fluid rho_solid c_fluid c_l c_t)
  let z := (c_fluid / c_fluid)
  reflection

/-- generated from `arim/model.py`, function `reflection_at_interface` (line 785): specialised: interface_kind=fluid_solid, mode_inc=L, mode_out=L, unit='displacement' (`force_complex` only converts the dtype of the angles) -/
def reflection_at_interface__fluid_solid_LL_displacement {K : Type} [Add K] [Sub K] [Mul K] [Div K] [Neg K]
    (o : Ops K) (angles_inc : K) (rho_fluid : K) (rho_solid : K) (c_fluid : K) (c_l : K) (c_t : K) : K :=
  let angles_fluid := angles_inc
  let (reflection, transmission_l, transmission_t) := (fluid_solid_auto o angles_fluid rho_fluid rho_solid c_fluid c_l c_t)
  let z := (c_fluid / c_fluid)
  (reflection * z)

end Arim.Src
