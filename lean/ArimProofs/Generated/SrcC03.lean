import ArimModel.Assembly
/-! GENERATED on every run by harness/py2lean.py from the Python sources of arim in /repo/src (functions listed in harness/srcspecs.py). Do not edit. -/
namespace Arim.SrcC03
set_option linter.unusedVariables false

/-- the values the model functions return for one ray (forward / reverse, stress / displacement units) -/
structure Factors (C : Type) where
  directivity : C
  transrefl_fwd_displacement : C
  transrefl_rev_displacement : C
  transrefl_fwd_stress : C
  transrefl_rev_stress : C
  beamspread_fwd : C
  beamspread_rev : C
  attenuation : C
  sqrt_lambda_last_mode : C

/-- generated from `arim/models/block_in_immersion.py`, function `tx_ray_weights` (line 103): `directivity` = directivity if use_directivity; `transrefl` = transrefl_fwd_displacement if use_transrefl; `beamspread` = beamspread_fwd if use_beamspread; `attenuation` = attenuation if use_attenuation; product in the order ['directivity', 'transrefl', 'beamspread', 'attenuation'] -/
def tx_ray_weights {C : Type} [Mul C] (use_directivity use_beamspread use_transrefl use_attenuation : Bool) (one : C) (f : Factors C) : C :=
  let wd_directivity := if use_directivity then f.directivity else one
  let wd_transrefl := if use_transrefl then f.transrefl_fwd_displacement else one
  let wd_beamspread := if use_beamspread then f.beamspread_fwd else one
  let wd_attenuation := if use_attenuation then f.attenuation else one
  wd_directivity * wd_transrefl * wd_beamspread * wd_attenuation

/-- generated from `arim/models/block_in_immersion.py`, function `rx_ray_weights` (line 178): `directivity` = directivity if use_directivity; `transrefl` = transrefl_rev_displacement if use_transrefl; `beamspread` = beamspread_rev if use_beamspread; `attenuation` = attenuation if use_attenuation; product in the order ['directivity', 'transrefl', 'beamspread', 'attenuation']; times sqrt(lambda of the last mode) -/
def rx_ray_weights {C : Type} [Mul C] (use_directivity use_beamspread use_transrefl use_attenuation : Bool) (one : C) (f : Factors C) : C :=
  let wd_directivity := if use_directivity then f.directivity else one
  let wd_transrefl := if use_transrefl then f.transrefl_rev_displacement else one
  let wd_beamspread := if use_beamspread then f.beamspread_rev else one
  let wd_attenuation := if use_attenuation then f.attenuation else one
  let weights := wd_directivity * wd_transrefl * wd_beamspread * wd_attenuation
  weights * f.sqrt_lambda_last_mode

end Arim.SrcC03
