import ArimModel.RayCache
/-! GENERATED on every run by harness/py2lean.py from the Python sources of arim in /repo/src (functions listed in harness/srcspecs.py). Do not edit. -/
namespace Arim.SrcC14
open Arim.RayCache
set_option linter.unusedVariables false

/-- generated from the decorator `_cache_ray_geometry` (line 855): the key is the method name and the NORMALISED index; a hit
returns the stored answer (promoting the key to final when asked); a miss runs the body with the RAW index, stores the
answer (also `None`) and marks it final when asked; an exception in the body propagates, what sub-queries cached stays -/
def wrap (g : Geo) (m : Meth) (body : St → Int → Res × St) (s : St) (r : Int) (isFinal : Bool) :
    Res × St :=
  match norm g.n r with
  | Option.none => (.error .index, s)
  | some a =>
    let k : Key := (m, a)
    match lookup s.cache k with
    | some v => (.ok v, if isFinal then addFinal s k else s)
    | Option.none =>
      match body s r with
      | (.error e, s') => (.error e, s')
      | (.ok v, s') =>
        let s'' : St := { s' with cache := (k, v) :: s'.cache }
        (.ok v, if isFinal then addFinal s'' k else s'')

/-- generated from `RayGeometry.clear_intermediate_results` (line 1043) -/
def clearIntermediate (s : St) : St :=
  { s with cache := s.cache.filter (fun e => s.finals.contains e.1) }

/-- generated from `RayGeometry.clear_all_results` (line 1051) -/
def clearAll (_ : St) : St := {}

/-- generated from `RayGeometry.precompute` (line 975): is the clean-up in a `finally` clause (does it run when the block raises)? -/
def precomputeCleansUpOnError : Bool := false

/-- generated from `RayGeometry.leg_points` (line 1000) -/
def q_leg_points (g : Geo) (s : St) (r : Int) (fin : Bool) : Res × St :=
  wrap g .legPoints (fun s r =>
    (.ok .val, s)) s r fin

/-- generated from `RayGeometry.orientations_of_legs_points` (line 1023) -/
def q_orientations_of_legs_points (g : Geo) (s : St) (r : Int) (fin : Bool) : Res × St :=
  wrap g .orient (fun s r =>
    (.ok .val, s)) s r fin

/-- generated from `RayGeometry.inc_leg_size` (line 1059) -/
def q_inc_leg_size (g : Geo) (s : St) (r : Int) (fin : Bool) : Res × St :=
  wrap g .incLegSize (fun s r =>
    if (norm g.n r == some 0) then (.ok .none, s) else
      andThen (q_leg_points g s (r - 1) false) fun legs_starts s =>
        andThen (q_leg_points g s r false) fun legs_ends s =>
        (.ok .val, s)) s r fin

/-- generated from `RayGeometry.inc_leg_cartesian` (line 1086) -/
def q_inc_leg_cartesian (g : Geo) (s : St) (r : Int) (fin : Bool) : Res × St :=
  wrap g .incCart (fun s r =>
    if (norm g.n r == some 0) then (.ok .none, s) else
      andThen (q_leg_points g s (r - 1) false) fun legs_starts s =>
        andThen (q_leg_points g s r false) fun legs_ends s =>
        andThen (q_orientations_of_legs_points g s r false) fun orientations s =>
        (.ok .val, s)) s r fin

/-- generated from `RayGeometry.inc_leg_radius` (line 1121) -/
def q_inc_leg_radius (g : Geo) (s : St) (r : Int) (fin : Bool) : Res × St :=
  wrap g .incRadius (fun s r =>
    andThen (q_inc_leg_cartesian g s r false) fun cartesian s =>
      if (cartesian == .none) then (.ok .none, s) else
      (.ok .val, s)) s r fin

/-- generated from `RayGeometry.inc_leg_polar` (line 1142) -/
def q_inc_leg_polar (g : Geo) (s : St) (r : Int) (fin : Bool) : Res × St :=
  wrap g .incPolar (fun s r =>
    andThen (q_inc_leg_cartesian g s r false) fun cartesian s =>
      if (cartesian == .none) then (.ok .none, s) else
      andThen (q_inc_leg_radius g s r false) fun radius s =>
        (.ok .val, s)) s r fin

/-- generated from `RayGeometry.inc_leg_azimuth` (line 1164) -/
def q_inc_leg_azimuth (g : Geo) (s : St) (r : Int) (fin : Bool) : Res × St :=
  wrap g .incAzimuth (fun s r =>
    andThen (q_inc_leg_cartesian g s r false) fun cartesian s =>
      if (cartesian == .none) then (.ok .none, s) else
      (.ok .val, s)) s r fin

/-- generated from `RayGeometry.inc_angle` (line 1187) -/
def q_inc_angle (g : Geo) (s : St) (r : Int) (fin : Bool) : Res × St :=
  wrap g .incAngle (fun s r =>
    q_inc_leg_polar g s r false) s r fin

/-- generated from `RayGeometry.signed_inc_angle` (line 1191) -/
def q_signed_inc_angle (g : Geo) (s : St) (r : Int) (fin : Bool) : Res × St :=
  wrap g .signedInc (fun s r =>
    andThen (q_inc_leg_azimuth g s r false) fun azimuth s =>
      if (azimuth == .none) then (.ok .none, s) else
      andThen (q_inc_leg_polar g s r false) fun polar s =>
        (.ok .val, s)) s r fin

/-- generated from `RayGeometry.conventional_inc_angle` (line 1199) -/
def q_conventional_inc_angle (g : Geo) (s : St) (r : Int) (fin : Bool) : Res × St :=
  wrap g .convInc (fun s r =>
    if (norm g.n r == some 0) then (.ok .none, s) else
      match (norm g.n r).bind g.incSide with
        | Option.none => (.error .value, s)
        | some true => q_inc_leg_polar g s r false
        | some false => andThen (q_inc_leg_polar g s r false) fun out s =>
          (.ok out, s)) s r fin

/-- generated from `RayGeometry.out_leg_cartesian` (line 1220) -/
def q_out_leg_cartesian (g : Geo) (s : St) (r : Int) (fin : Bool) : Res × St :=
  wrap g .outCart (fun s r =>
    if (norm g.n r == some (g.n - 1)) then (.ok .none, s) else
      andThen (q_leg_points g s r false) fun legs_starts s =>
        andThen (q_leg_points g s (r + 1) false) fun legs_ends s =>
        andThen (q_orientations_of_legs_points g s r false) fun orientations s =>
        (.ok .val, s)) s r fin

/-- generated from `RayGeometry.out_leg_radius` (line 1256) -/
def q_out_leg_radius (g : Geo) (s : St) (r : Int) (fin : Bool) : Res × St :=
  wrap g .outRadius (fun s r =>
    andThen (q_out_leg_cartesian g s r false) fun cartesian s =>
      if (cartesian == .none) then (.ok .none, s) else
      (.ok .val, s)) s r fin

/-- generated from `RayGeometry.out_leg_polar` (line 1277) -/
def q_out_leg_polar (g : Geo) (s : St) (r : Int) (fin : Bool) : Res × St :=
  wrap g .outPolar (fun s r =>
    andThen (q_out_leg_cartesian g s r false) fun cartesian s =>
      if (cartesian == .none) then (.ok .none, s) else
      andThen (q_out_leg_radius g s r false) fun radius s =>
        (.ok .val, s)) s r fin

/-- generated from `RayGeometry.out_leg_azimuth` (line 1299) -/
def q_out_leg_azimuth (g : Geo) (s : St) (r : Int) (fin : Bool) : Res × St :=
  wrap g .outAzimuth (fun s r =>
    andThen (q_out_leg_cartesian g s r false) fun cartesian s =>
      if (cartesian == .none) then (.ok .none, s) else
      (.ok .val, s)) s r fin

/-- generated from `RayGeometry.out_angle` (line 1322) -/
def q_out_angle (g : Geo) (s : St) (r : Int) (fin : Bool) : Res × St :=
  wrap g .outAngle (fun s r =>
    q_out_leg_polar g s r false) s r fin

/-- generated from `RayGeometry.signed_out_angle` (line 1326) -/
def q_signed_out_angle (g : Geo) (s : St) (r : Int) (fin : Bool) : Res × St :=
  wrap g .signedOut (fun s r =>
    andThen (q_out_leg_azimuth g s r false) fun azimuth s =>
      if (azimuth == .none) then (.ok .none, s) else
      andThen (q_out_leg_polar g s r false) fun polar s =>
        (.ok .val, s)) s r fin

/-- generated from `RayGeometry.conventional_out_angle` (line 1334) -/
def q_conventional_out_angle (g : Geo) (s : St) (r : Int) (fin : Bool) : Res × St :=
  wrap g .convOut (fun s r =>
    if (norm g.n r == some (g.n - 1)) then (.ok .none, s) else
      match (norm g.n r).bind g.outSide with
        | Option.none => (.error .value, s)
        | some true => q_out_leg_polar g s r false
        | some false => andThen (q_out_leg_polar g s r false) fun out s =>
          (.ok out, s)) s r fin

/-- dispatch on the method (the key of the cache is the Python method name) -/
def query (g : Geo) (s : St) (m : Meth) (r : Int) (fin : Bool) : Res × St :=
  match m with
  | .legPoints => q_leg_points g s r fin
  | .orient => q_orientations_of_legs_points g s r fin
  | .incLegSize => q_inc_leg_size g s r fin
  | .incCart => q_inc_leg_cartesian g s r fin
  | .incRadius => q_inc_leg_radius g s r fin
  | .incPolar => q_inc_leg_polar g s r fin
  | .incAzimuth => q_inc_leg_azimuth g s r fin
  | .incAngle => q_inc_angle g s r fin
  | .signedInc => q_signed_inc_angle g s r fin
  | .convInc => q_conventional_inc_angle g s r fin
  | .outCart => q_out_leg_cartesian g s r fin
  | .outRadius => q_out_leg_radius g s r fin
  | .outPolar => q_out_leg_polar g s r fin
  | .outAzimuth => q_out_leg_azimuth g s r fin
  | .outAngle => q_out_angle g s r fin
  | .signedOut => q_signed_out_angle g s r fin
  | .convOut => q_conventional_out_angle g s r fin

end Arim.SrcC14
