import ArimModel.Src
/-! GENERATED on every run by harness/py2lean.py from the Python sources of arim in /repo/src (functions listed in harness/srcspecs.py). Do not edit. -/
namespace Arim.Src
set_option linter.unusedVariables false

/-- generated from `arim/ray.py`, function `_signed_leg_angle` (line 828) -/
def signed_leg_angle {K : Type} [Add K] [Sub K] [Mul K] [Div K] [Neg K] [LT K] [DecidableLT K] [LE K] [DecidableLE K]
    (o : Ops K) (polar : K) (azimuth : K) : K :=
  let pi2 := (o.pi / (o.ofNat 2))
  if ((-pi2) < azimuth ∧ azimuth ≤ pi2) then
      polar
  else
      (-polar)

end Arim.Src
