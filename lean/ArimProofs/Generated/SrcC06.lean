import ArimModel.Src
/-! GENERATED on every run by harness/py2lean.py from the Python sources of arim in /repo/src (functions listed in harness/srcspecs.py). Do not edit. -/
namespace Arim.Src
set_option linter.unusedVariables false

/-- generated from `arim/model.py`, function `beamspread_2d_for_path` (line 1073): one ray; the ray-geometry queries are parameters -/
def beamspread_2d_for_path {K : Type} [Add K] [Sub K] [Mul K] [Div K] [Neg K]
    (o : Ops K) (numinterfaces : Nat) (velocities : Nat → K) (conventional_inc_angle : Nat → K) (inc_leg_size : Nat → K) : K :=
  let velocities := velocities
  let n := (numinterfaces - (1 : Nat))
  let gamma_list : List K := []
  let gamma_list := (pyRange (1 : Nat) n).foldl (fun gamma_list k =>
        let theta_inc := (conventional_inc_angle k)
        let nu := ((velocities (k - (1 : Nat))) / (velocities k))
        let sin_theta := (o.sin theta_inc)
        let cos_theta := (o.cos theta_inc)
        let gamma_list := gamma_list ++ [(((nu * nu) - (sin_theta * sin_theta)) / ((nu * cos_theta) * cos_theta))]
        gamma_list) gamma_list
  let virtual_distance := (inc_leg_size (1 : Nat))
  let virtual_distance := (pyRange (1 : Nat) n).foldl (fun virtual_distance k =>
        let r := (inc_leg_size (k + (1 : Nat)))
        let gamma := (o.ofNat 1)
        let gamma := (List.range k).foldl (fun gamma i =>
              let gamma := (gamma * (pyGet gamma_list i (o.ofNat 0)))
              gamma) gamma
        let virtual_distance := (virtual_distance + (r / gamma))
        virtual_distance) virtual_distance
  (o.ofNat 1 / (o.sqrt virtual_distance))

end Arim.Src
