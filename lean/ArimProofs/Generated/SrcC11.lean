import ArimModel.Src
/-! GENERATED on every run by harness/py2lean.py from the Python sources of arim in /repo/src (functions listed in harness/srcspecs.py). Do not edit. -/
namespace Arim.Src
set_option linter.unusedVariables false

/-- generated from `arim/model.py`, function `_timeshift_timedomain` (line 1657): `n` is `unshifted_response.shape[1]`; the cell is the window `[a, b)` of row `idx` of `out` onto which row `idx` of the response is added -/
def timeshift_window {K : Type} [Add K] [Sub K] [Mul K] [Div K] [Neg K]
    (o : Ops K) (delays : Nat → K) (dt : K) (t0_idx : Int) (n : Nat) (idx : Nat) : Int × Int :=
  let delay_idx := (o.floor ((delays idx) / dt))
  let cell_out : Int × Int := ((delay_idx - t0_idx), ((delay_idx - t0_idx) + ((n : Nat) : Int)))
  cell_out

/-- generated from `arim/model.py`, function `transfer_func_to_timetraces` (line 1664): elementwise; `delays` is the delay counted from the start of the output time axis (after `delays = delays - timetraces_time.start`) -/
def delay_remainder {K : Type} [Add K] [Sub K] [Mul K] [Div K] [Neg K]
    (o : Ops K) (delays : K) (dt : K) : K :=
  let delays_remainder := (delays - ((o.ofInt (o.floor (delays / dt))) * dt))
  delays_remainder

end Arim.Src
