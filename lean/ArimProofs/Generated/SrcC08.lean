import ArimModel.Src
/-! GENERATED on every run by harness/py2lean.py from the Python sources of arim in /repo/src (functions listed in harness/srcspecs.py). Do not edit. -/
namespace Arim.Src
set_option linter.unusedVariables false

/-- generated from `arim/model.py`, function `directivity_2d_rectangular_in_fluid` (line 187) -/
def directivity_2d_rectangular_in_fluid {K : Type} [Add K] [Sub K] [Mul K] [Div K] [Neg K] [LT K] [DecidableLT K] [LE K] [DecidableLE K]
    (o : Ops K) (theta : K) (element_width : K) (wavelength : K) : Option (K) :=
  if (element_width < (o.ofNat 0)) then
      none
  else
      if (wavelength < (o.ofNat 0)) then
          none
      else
          let x := ((element_width / wavelength) * (o.sin theta))
          some (o.sinc x)

end Arim.Src
