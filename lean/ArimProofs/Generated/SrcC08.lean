import ArimModel.Src
import ArimProofs.Generated.SrcC10
/-! GENERATED on every run by harness/py2lean.py from the Python sources of arim in /repo/src (functions listed in harness/srcspecs.py). Do not edit. -/
namespace Arim.Src
set_option linter.unusedVariables false

/-- generated from `arim/model.py`, function `directivity_2d_rectangular_in_fluid` (line 187) -/
def directivity_2d_rectangular_in_fluid {K : Type} [Add K] [Sub K] [Mul K] [Div K] [Neg K] [LT K] [DecidableLT K] [LE K] [DecidableLE K]
    (o : Ops K) (theta : K) (element_width : K) (wavelength : K) : Option (K) :=
  if (element_width < (o.ofNat 0)) then
      none
  else
      if (wavelength < (o.ofNat 0)) then
          none
      else
          let x := ((element_width / wavelength) * (o.sin theta))
          some (o.sinc x)

/-- generated from `arim/model.py`, function `_model_amplitudes_with_scat_matrix` (line 1518): one grid point, one timetrace; `numpoints` is `scattering_matrix.shape[0]`; amplitudes and angles in one scalar type -/
def model_amplitudes_with_scat_matrix_cell {K : Type} [Add K] [Sub K] [Mul K] [Div K] [Neg K]
    (o : Ops K) (tx : Nat → Nat) (rx : Nat → Nat) (scattering_matrix : Nat → Nat → K) (numpoints : Nat) (tx_ray_weights : Nat → K) (rx_ray_weights : Nat → K) (tx_scattering_angles : Nat → K) (rx_scattering_angles : Nat → K) (scat_angle : K) (scan : Nat) : K :=
  let inc_theta := ((tx_scattering_angles (tx scan)) - scat_angle)
  let out_theta := ((rx_scattering_angles (rx scan)) - scat_angle)
  let scattering_amp := ((fun M a b => interpolate_scattering_matrix_kernel o M numpoints a b) scattering_matrix inc_theta out_theta)
  let cell_res := ((scattering_amp * (tx_ray_weights (tx scan))) * (rx_ray_weights (rx scan)))
  cell_res

end Arim.Src
