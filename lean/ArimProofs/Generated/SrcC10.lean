import ArimModel.Src
/-! GENERATED on every run by harness/py2lean.py from the Python sources of arim in /repo/src (functions listed in harness/srcspecs.py). Do not edit. -/
namespace Arim.Src
set_option linter.unusedVariables false

/-- generated from `arim/_scat.py`, function `_interpolate_scattering_matrix_kernel` (line 10): `numpoints` is `scattering_matrix.shape[0]` -/
def interpolate_scattering_matrix_kernel {K : Type} [Add K] [Sub K] [Mul K] [Div K] [Neg K]
    (o : Ops K) (scattering_matrix : Nat → Nat → K) (numpoints : Nat) (inc_theta : K) (out_theta : K) : K :=
  let numpoints := numpoints
  let dtheta := (((o.ofNat 2) * o.pi) / (o.ofNat numpoints))
  let inc_theta_idx := (o.trunc ((o.ofInt (o.floor ((inc_theta + o.pi) / dtheta))) - (o.ofInt (o.floor ((o.ofInt (o.floor ((inc_theta + o.pi) / dtheta))) / (o.ofNat numpoints)))) * (o.ofNat numpoints)))
  let out_theta_idx := (o.trunc ((o.ofInt (o.floor ((out_theta + o.pi) / dtheta))) - (o.ofInt (o.floor ((o.ofInt (o.floor ((out_theta + o.pi) / dtheta))) / (o.ofNat numpoints)))) * (o.ofNat numpoints)))
  let inc_theta_frac := (((inc_theta + o.pi) - (o.ofInt (o.floor ((inc_theta + o.pi) / dtheta))) * dtheta) / dtheta)
  let out_theta_frac := (((out_theta + o.pi) - (o.ofInt (o.floor ((out_theta + o.pi) / dtheta))) * dtheta) / dtheta)
  let inc_theta_idx_plus1 := (if (inc_theta_idx ≠ (((numpoints - (1 : Nat)) : Nat) : Int)) then
      let inc_theta_idx_plus1 := (inc_theta_idx + (1 : Int))
      inc_theta_idx_plus1
    else
      let inc_theta_idx_plus1 := (0 : Int)
      inc_theta_idx_plus1)
  let out_theta_idx_plus1 := (if (out_theta_idx ≠ (((numpoints - (1 : Nat)) : Nat) : Int)) then
      let out_theta_idx_plus1 := (out_theta_idx + (1 : Int))
      out_theta_idx_plus1
    else
      let out_theta_idx_plus1 := (0 : Int)
      out_theta_idx_plus1)
  let sw := (scattering_matrix (out_theta_idx).toNat (inc_theta_idx).toNat)
  let ne := (scattering_matrix (out_theta_idx_plus1).toNat (inc_theta_idx_plus1).toNat)
  let se := (scattering_matrix (out_theta_idx).toNat (inc_theta_idx_plus1).toNat)
  let nw := (scattering_matrix (out_theta_idx_plus1).toNat (inc_theta_idx).toNat)
  let f1 := (sw + ((se - sw) * inc_theta_frac))
  let f2 := (nw + ((ne - nw) * inc_theta_frac))
  (f1 + ((f2 - f1) * out_theta_frac))

end Arim.Src
