import ArimModel.Src
/-! GENERATED on every run by harness/py2lean.py from the Python sources of arim in /repo/src (functions listed in harness/srcspecs.py). Do not edit. -/
namespace Arim.Src
set_option linter.unusedVariables false

/-- generated from `arim/ray.py`, function `_find_minimum_times` (line 115): `init_time`, `init_index`: the values the output arrays hold at (i, j) on entry (inf, -1) -/
def find_minimum_times_cell {K : Type} [Add K] [Sub K] [Mul K] [Div K] [Neg K] [LT K] [DecidableLT K] [LE K] [DecidableLE K]
    (o : Ops K) (time_1 : Nat → Nat → K) (time_2 : Nat → Nat → K) (init_time : K) (init_index : Int) (m : Nat) (i : Nat) (j : Nat) : K × Int :=
  let (cell_out_min_times, cell_out_best_indices) := (List.range m).foldl (fun (cell_out_min_times, cell_out_best_indices) k =>
        let new_time := ((time_1 i k) + (time_2 k j))
        let (cell_out_min_times, cell_out_best_indices) := (if (new_time < cell_out_min_times) then
            let cell_out_min_times := new_time
            let cell_out_best_indices := ((k : Nat) : Int)
            (cell_out_min_times, cell_out_best_indices)
          else
            (cell_out_min_times, cell_out_best_indices))
        (cell_out_min_times, cell_out_best_indices)) (init_time, init_index)
  (cell_out_min_times, cell_out_best_indices)

/-- generated from `arim/geometry.py`, function `_distance_pairwise` (line 1381) -/
def distance_pairwise_cell {K : Type} [Add K] [Sub K] [Mul K] [Div K] [Neg K]
    (o : Ops K) (x1 : Nat → K) (y1 : Nat → K) (z1 : Nat → K) (x2 : Nat → K) (y2 : Nat → K) (z2 : Nat → K) (i : Nat) (j : Nat) : K :=
  let dx := ((x1 i) - (x2 j))
  let dy := ((y1 i) - (y2 j))
  let dz := ((z1 i) - (z2 j))
  let cell_distance := (o.sqrt (((dx * dx) + (dy * dy)) + (dz * dz)))
  cell_distance

/-- generated from `arim/ray.py`, function `_expand_rays` (line 202): `depth` is `d = interior_indices.shape[0]`; the result is the column `expanded_indices[:, i, j]` -/
def expand_rays_cell {K : Type} [Add K] [Sub K] [Mul K] [Div K] [Neg K]
    (o : Ops K) (interior_indices : Nat → Nat → Nat → Int) (indices_new_interface : Nat → Nat → Int) (depth : Nat) (i : Nat) (j : Nat) : List Int :=
  let expanded_indices : List Int := []
  let idx := (indices_new_interface i j)
  let expanded_indices := (List.range depth).foldl (fun expanded_indices k =>
        let expanded_indices := expanded_indices ++ [(interior_indices k i (idx).toNat)]
        expanded_indices) expanded_indices
  let expanded_indices := expanded_indices ++ [idx]
  expanded_indices

end Arim.Src
