import ArimModel.Src
import ArimProofs.Generated.SrcC06
/-! GENERATED on every run by harness/py2lean.py from the Python sources of arim in /repo/src (functions listed in harness/srcspecs.py). Do not edit. -/
namespace Arim.Src
set_option linter.unusedVariables false

/-- generated from `arim/model.py`, function `reverse_beamspread_2d_for_path` (line 1147) -/
def reverse_beamspread_2d_for_path {K : Type} [Add K] [Sub K] [Mul K] [Div K] [Neg K]
    (o : Ops K) (numinterfaces : Nat) (velocities : Nat → K) (conventional_inc_angle : Nat → K) (inc_leg_size : Nat → K) : K :=
  let velocities := velocities
  let n := (numinterfaces - (1 : Nat))
  let gamma_list : List K := []
  let gamma_list := (pyRange (1 : Nat) n).foldl (fun gamma_list k =>
        let theta_out := (conventional_inc_angle (n - k))
        let nu := ((velocities (n - k)) / (velocities ((n - k) - (1 : Nat))))
        let sin_theta := (o.sin theta_out)
        let cos_theta := (o.cos theta_out)
        let gamma_list := gamma_list ++ [(((nu * cos_theta) * cos_theta) / ((o.ofNat 1) - (((nu * nu) * sin_theta) * sin_theta)))]
        gamma_list) gamma_list
  let virtual_distance := (inc_leg_size n)
  let virtual_distance := (pyRange (1 : Nat) n).foldl (fun virtual_distance k =>
        let r := (inc_leg_size (n - k))
        let gamma := (o.ofNat 1)
        let gamma := (List.range k).foldl (fun gamma i =>
              let gamma := (gamma * (pyGet gamma_list i (o.ofNat 0)))
              gamma) gamma
        let virtual_distance := (virtual_distance + (r / gamma))
        virtual_distance) virtual_distance
  (o.ofNat 1 / (o.sqrt virtual_distance))

end Arim.Src
