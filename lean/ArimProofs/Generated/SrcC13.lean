import ArimModel.Src
/-! GENERATED on every run by harness/py2lean.py from the Python sources of arim in /repo/src (functions listed in harness/srcspecs.py). Do not edit. -/
namespace Arim.Src
set_option linter.unusedVariables false

/-- generated from `arim/helpers.py`, function `chunk_array` (line 238): `axis` already normalised to `0 <= axis < ndim` (the skipped statement `axis = list(range(ndim))[axis]`); every yielded index tuple as (position of the slice in the tuple, start, stop) -/
def chunk_array {K : Type} [Add K] [Sub K] [Mul K] [Div K] [Neg K]
    (o : Ops K) (array_shape : Nat → Nat) (ndim : Nat) (block_size : Nat) (axis : Nat) : List (Nat × Nat × Nat) :=
  let out_ : List (Nat × Nat × Nat) := []
  let ndim := ndim
  let length := (array_shape axis)
  let numchunks := (pyCeilDiv length block_size)
  let out_ := (if (axis = (0 : Nat)) then
      let out_ := (List.range numchunks).foldl (fun out_ i =>
            let out_ := out_ ++ [((0 : Nat), (i * block_size), ((i + (1 : Nat)) * block_size))]
            out_) out_
      out_
    else
      let out_ := (if (axis = (ndim - (1 : Nat))) then
          let out_ := (List.range numchunks).foldl (fun out_ i =>
                let out_ := out_ ++ [((ndim - 1), (i * block_size), ((i + (1 : Nat)) * block_size))]
                out_) out_
          out_
        else
          let out_ := (List.range numchunks).foldl (fun out_ i =>
                let out_ := out_ ++ [(axis, (i * block_size), ((i + (1 : Nat)) * block_size))]
                out_) out_
          out_)
      out_)
  out_

end Arim.Src
