import ArimModel.Src
import ArimModel.Geometry
/-! GENERATED on every run by harness/py2lean.py from the Python sources of arim in /repo/src (functions listed in harness/srcspecs.py). Do not edit. -/
namespace Arim.Src
set_option linter.unusedVariables false

/-- generated from `arim/geometry.py`, function `rotation_matrix_x` (line 912) -/
def rotation_matrix_x {K : Type} [Add K] [Sub K] [Mul K] [Div K] [Neg K]
    (o : Ops K) (theta : K) : Arim.Geo.M3 K :=
  let s := (o.sin theta)
  let c := (o.cos theta)
  (⟨⟨(o.ofNat 1), (o.ofNat 0), (o.ofNat 0)⟩, ⟨(o.ofNat 0), c, (-s)⟩, ⟨(o.ofNat 0), s, c⟩⟩ : Arim.Geo.M3 K)

/-- generated from `arim/geometry.py`, function `rotation_matrix_y` (line 918) -/
def rotation_matrix_y {K : Type} [Add K] [Sub K] [Mul K] [Div K] [Neg K]
    (o : Ops K) (theta : K) : Arim.Geo.M3 K :=
  let s := (o.sin theta)
  let c := (o.cos theta)
  (⟨⟨c, (o.ofNat 0), s⟩, ⟨(o.ofNat 0), (o.ofNat 1), (o.ofNat 0)⟩, ⟨(-s), (o.ofNat 0), c⟩⟩ : Arim.Geo.M3 K)

/-- generated from `arim/geometry.py`, function `rotation_matrix_z` (line 924) -/
def rotation_matrix_z {K : Type} [Add K] [Sub K] [Mul K] [Div K] [Neg K]
    (o : Ops K) (theta : K) : Arim.Geo.M3 K :=
  let s := (o.sin theta)
  let c := (o.cos theta)
  (⟨⟨c, (-s), (o.ofNat 0)⟩, ⟨s, c, (o.ofNat 0)⟩, ⟨(o.ofNat 0), (o.ofNat 0), (o.ofNat 1)⟩⟩ : Arim.Geo.M3 K)

/-- generated from `arim/geometry.py`, function `rotation_matrix_ypr` (line 1026) -/
def rotation_matrix_ypr {K : Type} [Add K] [Sub K] [Mul K] [Div K] [Neg K]
    (o : Ops K) (yaw : K) (pitch : K) (roll : K) : Arim.Geo.M3 K :=
  (Arim.Geo.mmul (Arim.Geo.mmul (rotation_matrix_z o yaw) (rotation_matrix_y o pitch)) (rotation_matrix_x o roll))

/-- generated from `arim/geometry.py`, function `to_gcs` (line 971): one point: `coords_cs`, `origins` are rows of the (..., 3) arrays, `bases` the 3x3 basis of that point -/
def to_gcs {K : Type} [Add K] [Sub K] [Mul K] [Div K] [Neg K]
    (o : Ops K) (coords_cs : Arim.P3 K) (bases : Arim.Geo.M3 K) (origins : Arim.P3 K) : Arim.P3 K :=
  (Arim.Geo.vadd (Arim.Geo.vecMul coords_cs bases) origins)

/-- generated from `arim/geometry.py`, function `from_gcs` (line 999): one point -/
def from_gcs {K : Type} [Add K] [Sub K] [Mul K] [Div K] [Neg K]
    (o : Ops K) (points_gcs : Arim.P3 K) (bases : Arim.Geo.M3 K) (origins : Arim.P3 K) : Arim.P3 K :=
  (Arim.Geo.mulVec bases (Arim.Geo.vsub points_gcs origins))

/-- generated from `arim/geometry.py`, function `rotate` (line 930): one point, `centre=None` -/
def rotate_about_origin {K : Type} [Add K] [Sub K] [Mul K] [Div K] [Neg K]
    (o : Ops K) (coords : Arim.P3 K) (rotation_matrix : Arim.Geo.M3 K) : Arim.P3 K :=
  let rotated := (Arim.Geo.mulVec rotation_matrix coords)
  rotated

/-- generated from `arim/geometry.py`, function `rotate` (line 930): one point, a centre given -/
def rotate_about_centre {K : Type} [Add K] [Sub K] [Mul K] [Div K] [Neg K]
    (o : Ops K) (coords : Arim.P3 K) (rotation_matrix : Arim.Geo.M3 K) (centre : Arim.P3 K) : Arim.P3 K :=
  let centre := centre
  let rotated := (Arim.Geo.vadd (Arim.Geo.mulVec rotation_matrix (Arim.Geo.vsub coords centre)) centre)
  rotated

end Arim.Src
