import ArimModel.Src
import ArimModel.Geometry
/-! GENERATED on every run by harness/py2lean.py from the Python sources of arim in /repo/src (functions listed in harness/srcspecs.py). Do not edit. -/
namespace Arim.Src
set_option linter.unusedVariables false

/-- generated from `arim/geometry.py`, function `rotation_matrix_x` (line 912) -/
def rotation_matrix_x {K : Type} [Add K] [Sub K] [Mul K] [Div K] [Neg K]
    (o : Ops K) (theta : K) : Arim.Geo.M3 K :=
  let s := (o.sin theta)
  let c := (o.cos theta)
  (⟨⟨(o.ofNat 1), (o.ofNat 0), (o.ofNat 0)⟩, ⟨(o.ofNat 0), c, (-s)⟩, ⟨(o.ofNat 0), s, c⟩⟩ : Arim.Geo.M3 K)

/-- generated from `arim/geometry.py`, function `rotation_matrix_y` (line 918) -/
def rotation_matrix_y {K : Type} [Add K] [Sub K] [Mul K] [Div K] [Neg K]
    (o : Ops K) (theta : K) : Arim.Geo.M3 K :=
  let s := (o.sin theta)
  let c := (o.cos theta)
  (⟨⟨c, (o.ofNat 0), s⟩, ⟨(o.ofNat 0), (o.ofNat 1), (o.ofNat 0)⟩, ⟨(-s), (o.ofNat 0), c⟩⟩ : Arim.Geo.M3 K)

/-- generated from `arim/geometry.py`, function `rotation_matrix_z` (line 924) -/
def rotation_matrix_z {K : Type} [Add K] [Sub K] [Mul K] [Div K] [Neg K]
    (o : Ops K) (theta : K) : Arim.Geo.M3 K :=
  let s := (o.sin theta)
  let c := (o.cos theta)
  (⟨⟨c, (-s), (o.ofNat 0)⟩, ⟨s, c, (o.ofNat 0)⟩, ⟨(o.ofNat 0), (o.ofNat 0), (o.ofNat 1)⟩⟩ : Arim.Geo.M3 K)

/-- generated from `arim/geometry.py`, function `rotation_matrix_ypr` (line 1026) -/
def rotation_matrix_ypr {K : Type} [Add K] [Sub K] [Mul K] [Div K] [Neg K]
    (o : Ops K) (yaw : K) (pitch : K) (roll : K) : Arim.Geo.M3 K :=
  (Arim.Geo.mmul (Arim.Geo.mmul (rotation_matrix_z o yaw) (rotation_matrix_y o pitch)) (rotation_matrix_x o roll))

end Arim.Src
