import ArimModel.Probe
import ArimProofs.Lemmas.Probe
import Mathlib.Tactic.Ring
import Mathlib.Tactic.FieldSimp
import Mathlib.Algebra.CharZero.Defs
import Mathlib.Algebra.Field.Basic
import Mathlib.Data.Nat.Cast.Basic
import Mathlib.Algebra.Field.Rat
import Mathlib.Algebra.Order.Field.Rat
import Mathlib.Tactic.NormNum.Basic
import Mathlib.Tactic.NormNum.Inv
/-! # C16 — probe motions are rigid and keep the probe coordinate system attached

`K` is a commutative ring throughout (plus an arbitrary `Div K` where the model needs a division:
the theorems hold whatever the division does, in particular in every field).
Vector algebra (`Proper`, `GoodCS`, `sqdist`, `cross_mulVec`, …) is in `ArimProofs/Lemmas/Probe.lean`. -/
namespace Arim.C16
open Arim Arim.Geo Arim.Probe Arim.C17

variable {K : Type} [CommRing K]

/-- translating the probe does not change the difference between two element locations -/
theorem translate_diff (a b v : P3 K) : vsub (vadd a v) (vadd b v) = vsub a b := by
  cases a; cases b; cases v; simp [vsub, vadd]

/-- a translation leaves every element's PCS coordinates unchanged -/
theorem translate_locs_pcs (cs : CS K) (p v : P3 K) :
    (cs.translate v).fromGcs (vadd p v) = cs.fromGcs p := by
  obtain ⟨o, i, j⟩ := cs
  obtain ⟨ox, oy, oz⟩ := o
  cases p; cases v
  simp [CS.translate, CS.fromGcs, CS.rows, CS.k, vsub, vadd]

/-! ## observations -/

/-- the matrix of pairwise squared distances of a list of points -/
def pairDists (l : List (P3 K)) : List (List K) := l.map (fun a => l.map (fun b => sqdist a b))

theorem pairDists_length (l : List (P3 K)) : (pairDists l).length = l.length := by
  simp [pairDists]

/-- entry `(m, n)` of `pairDists` -/
theorem pairDists_get (l : List (P3 K)) (m n : Nat) (hm : m < l.length) (hn : n < l.length) :
    (pairDists l)[m]?.bind (·[n]?) = some (sqdist l[m] l[n]) := by
  simp [pairDists, hm, hn]

/-- equality of the `pairDists` matrices, unfolded: same number of points and the same squared
    distance for every pair of indices -/
theorem pairDists_eq_iff (l' l : List (P3 K)) :
    pairDists l' = pairDists l ↔
      ∃ h : l'.length = l.length, ∀ m n (hm : m < l.length) (hn : n < l.length),
        sqdist (l'[m]'(h ▸ hm)) (l'[n]'(h ▸ hn)) = sqdist l[m] l[n] := by
  constructor
  · intro h
    have hl : l'.length = l.length := by
      have := congrArg List.length h; simpa [pairDists_length] using this
    refine ⟨hl, fun m n hm hn => ?_⟩
    have h1 := pairDists_get l' m n (hl ▸ hm) (hl ▸ hn)
    have h2 := pairDists_get l m n hm hn
    rw [h] at h1
    exact Option.some.inj (h1.symm.trans h2)
  · rintro ⟨hl, h⟩
    apply List.ext_getElem (by simp [pairDists_length, hl])
    intro m hm hm'
    apply List.ext_getElem (by simp [pairDists, hl])
    intro n hn hn'
    simp only [pairDists, List.getElem_map, List.length_map] at hn hn' hm hm' ⊢
    exact h m n hm' hn'

/-- a map that preserves `sqdist` preserves the matrix of pairwise squared distances -/
theorem pairDists_map (f : P3 K → P3 K) (h : ∀ a b, sqdist (f a) (f b) = sqdist a b)
    (l : List (P3 K)) : pairDists (l.map f) = pairDists l := by
  simp [pairDists, List.map_map, Function.comp_def, h]

/-- every normal is a unit vector -/
def UnitNormals (s : State K) : Prop := ∀ n ∈ s.normals, dot n n = 1

/-! ## translate -/

/-- `translate` keeps all pairwise squared distances of the elements -/
theorem translate_pairDists (s : State K) (v : P3 K) :
    pairDists (translate s v).locs = pairDists s.locs :=
  pairDists_map _ (fun a b => translate_sqdist a b v) _

/-- `translate` keeps the element locations in the PCS -/
theorem translate_locsPcs (s : State K) (v : P3 K) : locsPcs (translate s v) = locsPcs s := by
  simp only [locsPcs, translate, List.map_map]
  apply List.map_congr_left
  intro p _
  exact translate_fromGcs s.pcs p v

/-- `translate` keeps the normals, the axes `î, ĵ`, and moves the PCS origin by `v` -/
theorem translate_normals (s : State K) (v : P3 K) : (translate s v).normals = s.normals := rfl
theorem translate_axes (s : State K) (v : P3 K) :
    (translate s v).pcs.i = s.pcs.i ∧ (translate s v).pcs.j = s.pcs.j ∧
      (translate s v).pcs.origin = vadd s.pcs.origin v := ⟨rfl, rfl, rfl⟩
theorem translate_normalsPcs (s : State K) (v : P3 K) :
    normalsPcs 0 (translate s v) = normalsPcs 0 s := rfl
theorem translate_good (s : State K) (v : P3 K) (g : GoodCS s.pcs) : GoodCS (translate s v).pcs :=
  ⟨g.ii, g.jj, g.ij⟩

/-! ## rotate -/

/-- `rotate` by a proper rotation about any centre keeps all pairwise squared distances -/
theorem rotateP_pairDists (s : State K) (r : M3 K) (h : Proper r) (c : Option (P3 K)) :
    pairDists (rotateP s r c).locs = pairDists s.locs :=
  pairDists_map _ (fun a b => rotate_sqdist r h.cols c a b) _

/-- the axes of the rotated probe frame are the rotated axes; the origin is the rotated origin -/
theorem rotateP_axes (s : State K) (r : M3 K) (h : Proper r) (c : Option (P3 K)) :
    (rotateP s r c).pcs.i = mulVec r s.pcs.i ∧ (rotateP s r c).pcs.j = mulVec r s.pcs.j ∧
      (rotateP s r c).pcs.k = mulVec r s.pcs.k ∧
      (rotateP s r c).pcs.origin = rotate s.pcs.origin r c :=
  ⟨CS.rotate_i _ r c, CS.rotate_j _ r c, CS.rotate_k _ r h c, rfl⟩

theorem rotateP_good (s : State K) (r : M3 K) (h : Proper r) (c : Option (P3 K))
    (g : GoodCS s.pcs) : GoodCS (rotateP s r c).pcs := g.rotate r h c

/-- `rotate` keeps the element locations in the PCS: the probe frame stays attached -/
theorem rotateP_locsPcs (s : State K) (r : M3 K) (h : Proper r) (c : Option (P3 K)) :
    locsPcs (rotateP s r c) = locsPcs s := by
  simp only [locsPcs, rotateP, List.map_map]
  apply List.map_congr_left
  intro p _
  exact rotate_fromGcs s.pcs r h c p

/-- `rotate` keeps the element normals in the PCS -/
theorem rotateP_normalsPcs (s : State K) (r : M3 K) (h : Proper r) (c : Option (P3 K)) :
    normalsPcs 0 (rotateP s r c) = normalsPcs 0 s := by
  simp only [normalsPcs, rotateP, List.map_map]
  apply List.map_congr_left
  intro p _
  exact rotate_fromGcs_normal s.pcs r h c p

/-- `rotate` keeps the normals unit vectors -/
theorem rotateP_unitNormals (s : State K) (r : M3 K) (h : Proper r) (c : Option (P3 K))
    (u : UnitNormals s) : UnitNormals (rotateP s r c) := by
  intro n hn
  simp only [rotateP, List.mem_map] at hn
  obtain ⟨m, hm, rfl⟩ := hn
  simp only [rotate, dot_mulVec r h.cols]
  exact u m hm

/-! ## flip -/

theorem flip_eq (s : State K) (c sn : K) : Probe.flip 0 1 s c sn = rotateP s (rotZ 0 1 c sn) none := rfl

/-- `flip` is a rotation by a proper matrix as soon as `c² + s² = 1`, so everything proved for
    `rotate` applies -/
theorem flip_facts (s : State K) (c sn : K) (h : c * c + sn * sn = 1) :
    Proper (rotZ 0 1 c sn) ∧
    pairDists (Probe.flip 0 1 s c sn).locs = pairDists s.locs ∧
    locsPcs (Probe.flip 0 1 s c sn) = locsPcs s ∧
    normalsPcs 0 (Probe.flip 0 1 s c sn) = normalsPcs 0 s ∧
    (UnitNormals s → UnitNormals (Probe.flip 0 1 s c sn)) ∧
    (GoodCS s.pcs → GoodCS (Probe.flip 0 1 s c sn).pcs) :=
  have hp := rotZ_proper c sn h
  ⟨hp, rotateP_pairDists s _ hp none, rotateP_locsPcs s _ hp none, rotateP_normalsPcs s _ hp none,
    rotateP_unitNormals s _ hp none, rotateP_good s _ hp none⟩

/-- in exact arithmetic (`cos π = −1`, `sin π = 0`) the flip negates `x` and `y` -/
theorem flip_exact (p : P3 K) : rotate p (rotZ 0 1 (-1) 0) none = ⟨-p.x, -p.y, p.z⟩ := by
  cases p; apply P3.ext' <;> simp only [rotate, mulVec, rotZ, dot] <;> ring

/-! ## set_reference_element -/

section setRef
variable [Div K] (ofNat : Nat → K)

/-- a successful `setRef` changes nothing but the PCS origin -/
theorem setRef_some {s s' : State K} {r : Ref} (h : setRef 0 ofNat s r = some s') :
    s' = { s with pcs := { s.pcs with origin := s'.pcs.origin } } := by
  simp only [setRef, Option.map_eq_some_iff] at h
  obtain ⟨o, _, rfl⟩ := h
  rfl

/-- `setRef`: locations, normals and axes unchanged -/
theorem setRef_unchanged {s s' : State K} {r : Ref} (h : setRef 0 ofNat s r = some s') :
    s'.locs = s.locs ∧ s'.normals = s.normals ∧ s'.pcs.i = s.pcs.i ∧ s'.pcs.j = s.pcs.j := by
  rw [setRef_some ofNat h]; exact ⟨rfl, rfl, rfl, rfl⟩

theorem setRef_normalsPcs {s s' : State K} {r : Ref} (h : setRef 0 ofNat s r = some s') :
    normalsPcs 0 s' = normalsPcs 0 s := by
  rw [setRef_some ofNat h]; rfl

/-- `setRef`: all PCS locations move by one common vector, the old PCS coordinates of the new
    origin -/
theorem setRef_locsPcs {s s' : State K} {r : Ref} (h : setRef 0 ofNat s r = some s') :
    locsPcs s' = (locsPcs s).map (fun q => vsub q (s.pcs.fromGcs s'.pcs.origin)) := by
  rw [setRef_some ofNat h]
  simp only [locsPcs, List.map_map]
  apply List.map_congr_left
  intro p _
  exact set_reference_shift s.pcs _ p

omit [CommRing K] [Div K] in
/-- Python indexing returns an element of the list -/
theorem pyIdx_some {l : List (P3 K)} {k : Int} {o : P3 K} (h : pyIdx l k = some o) :
    ∃ n : Nat, l[n]? = some o := by
  unfold pyIdx at h
  split at h
  · exact ⟨_, h⟩
  · split at h
    · exact ⟨_, h⟩
    · cases h

/-- for `first`, `last` and an explicit index, the new origin is one of the elements, and that
    element gets PCS coordinates `0` -/
theorem setRef_element_origin {s s' : State K} {r : Ref} (hr : r ≠ Ref.mean)
    (h : setRef 0 ofNat s r = some s') :
    ∃ n : Nat, s.locs[n]? = some s'.pcs.origin ∧ (locsPcs s')[n]? = some (zero3 : P3 K) := by
  have hs := setRef_some ofNat h
  have key : ∃ k, pyIdx s.locs k = some s'.pcs.origin := by
    simp only [setRef, Option.map_eq_some_iff] at h
    obtain ⟨o, ho, rfl⟩ := h
    cases r with
    | first => exact ⟨_, ho⟩
    | last => exact ⟨_, ho⟩
    | mean => exact absurd rfl hr
    | idx k => exact ⟨_, ho⟩
  obtain ⟨k, hk⟩ := key
  obtain ⟨n, hn⟩ := pyIdx_some hk
  refine ⟨n, hn, ?_⟩
  have hl : s'.locs = s.locs := (setRef_unchanged ofNat h).1
  simp only [locsPcs, List.getElem?_map, hl, hn, Option.map_some, set_reference_origin]

/-- for `mean` the new origin is the mean location as computed -/
theorem setRef_mean_origin {s s' : State K} (h : setRef 0 ofNat s Ref.mean = some s') :
    s'.pcs.origin = meanLoc 0 ofNat s.locs ∧ s.locs ≠ [] := by
  simp only [setRef, Option.map_eq_some_iff] at h
  obtain ⟨o, ho, rfl⟩ := h
  split at ho
  · cases ho
  · rename_i hne
    simp only [Option.some.injEq] at ho
    exact ⟨ho.symm, by simpa using hne⟩

end setRef

/-! ## translate_to_point_O -/

theorem toO_eq (s : State K) : toO s = translate s (neg3 s.pcs.origin) := rfl

/-- after `toO` the PCS origin is the global origin -/
theorem toO_origin (s : State K) : (toO s).pcs.origin = zero3 := vadd_neg3 _

/-! ## reset_position -/

/-- `reset` is a translation followed by a rotation by the (proper) rows-matrix of the frame -/
theorem reset_eq (s : State K) : reset s = rotateP (toO s) (toO s).pcs.rows none := rfl

theorem reset_proper (s : State K) (g : GoodCS s.pcs) : Proper (toO s).pcs.rows :=
  rows_proper (translate_good s _ g)

/-- after `reset` the probe frame is the global frame -/
theorem reset_pcs (s : State K) (g : GoodCS s.pcs) : (reset s).pcs = ⟨zero3, e1, e2⟩ := by
  have g' : GoodCS (toO s).pcs := translate_good s _ g
  obtain ⟨hi, hj, _, ho⟩ := rotateP_axes (toO s) _ (reset_proper s g) none
  rw [← reset_eq] at hi hj ho
  have ho' : (reset s).pcs.origin = zero3 := by
    rw [ho, toO_origin]; exact mulVec_zero3 _
  have hi' : (reset s).pcs.i = e1 := by rw [hi]; exact rows_mulVec_i g'
  have hj' : (reset s).pcs.j = e2 := by rw [hj]; exact rows_mulVec_j g'
  cases hp : (reset s).pcs
  simp only [hp] at ho' hi' hj'
  simp [ho', hi', hj']

/-- after `reset`, global and probe coordinates coincide -/
theorem reset_identity (s : State K) (g : GoodCS s.pcs) : locsPcs (reset s) = (reset s).locs := by
  have h := reset_pcs s g
  simp only [locsPcs]
  conv_rhs => rw [← List.map_id (reset s).locs]
  apply List.map_congr_left
  intro p _
  exact fromGcs_std _ (by rw [h]) (by rw [h]) (by rw [h]) p

theorem reset_pairDists (s : State K) (g : GoodCS s.pcs) :
    pairDists (reset s).locs = pairDists s.locs := by
  rw [reset_eq, rotateP_pairDists _ _ (reset_proper s g), toO_eq, translate_pairDists]

theorem reset_locsPcs (s : State K) (g : GoodCS s.pcs) : locsPcs (reset s) = locsPcs s := by
  rw [reset_eq, rotateP_locsPcs _ _ (reset_proper s g), toO_eq, translate_locsPcs]

theorem reset_normalsPcs (s : State K) (g : GoodCS s.pcs) :
    normalsPcs 0 (reset s) = normalsPcs 0 s := by
  rw [reset_eq, rotateP_normalsPcs _ _ (reset_proper s g), toO_eq, translate_normalsPcs]

theorem reset_good (s : State K) (g : GoodCS s.pcs) : GoodCS (reset s).pcs :=
  rotateP_good _ _ (reset_proper s g) none (translate_good s _ g)

theorem reset_unitNormals (s : State K) (g : GoodCS s.pcs) (u : UnitNormals s) :
    UnitNormals (reset s) :=
  rotateP_unitNormals (toO s) _ (reset_proper s g) none u

/-- the locations after `reset` are the old PCS locations: `reset` makes the PCS coordinates
    the global ones -/
theorem reset_locs (s : State K) (g : GoodCS s.pcs) : (reset s).locs = locsPcs s := by
  rw [← reset_identity s g, reset_locsPcs s g]

/-! ## points_from_probe -/

/-- every entry of `orientedPoints` carries the probe axes `(î, ĵ, k̂)`, `k̂ = î × ĵ` -/
theorem orientedPoints_axes (s : State K) :
    ∀ x ∈ orientedPoints s, x.2 = s.pcs.rows ∧ x.2 = ⟨s.pcs.i, s.pcs.j, cross s.pcs.i s.pcs.j⟩ := by
  intro x hx
  simp only [orientedPoints, List.mem_map] at hx
  obtain ⟨p, _, rfl⟩ := hx
  exact ⟨rfl, rfl⟩

theorem orientedPoints_locs (s : State K) : (orientedPoints s).map Prod.fst = s.locs := by
  simp [orientedPoints, List.map_map, Function.comp_def]

/-! ## histories of operations -/

/-- what every reachable state `s` shares with the initial state `s0` -/
structure Inv0 (s0 s : State K) : Prop where
  /-- same number of elements -/
  len : s.locs.length = s0.locs.length
  /-- the same pairwise squared distances between elements -/
  dists : pairDists s.locs = pairDists s0.locs
  /-- the same element normals in the PCS -/
  normals : normalsPcs 0 s = normalsPcs 0 s0
  /-- unit normals -/
  unit : UnitNormals s
  /-- orthonormal probe frame -/
  good : GoodCS s.pcs
  /-- the same element locations in the PCS, up to one common shift vector -/
  shift : ∃ d, locsPcs s = (locsPcs s0).map (fun q => vsub q d)

/-- the shift clause of `Inv0`, index by index -/
theorem Inv0.shift_getElem {s0 s : State K} (h : Inv0 s0 s) :
    ∃ d, ∀ k (hk : k < (locsPcs s).length) (hk0 : k < (locsPcs s0).length),
      (locsPcs s)[k] = vsub (locsPcs s0)[k] d := by
  obtain ⟨d, hd⟩ := h.shift
  refine ⟨d, fun k hk hk0 => ?_⟩
  simp only [hd, List.getElem_map]

theorem Inv0.refl (s0 : State K) (g : GoodCS s0.pcs) (u : UnitNormals s0) : Inv0 s0 s0 :=
  ⟨rfl, rfl, rfl, u, g, zero3, by
    conv_lhs => rw [← List.map_id (locsPcs s0)]
    exact List.map_congr_left (fun p _ => (vsub_zero3 p).symm)⟩

theorem Inv0.translate {s0 s : State K} (h : Inv0 s0 s) (v : P3 K) : Inv0 s0 (translate s v) :=
  ⟨by simpa [Probe.translate] using h.len, (translate_pairDists s v).trans h.dists,
    (translate_normalsPcs s v).trans h.normals, h.unit, translate_good s v h.good,
    by rw [translate_locsPcs]; exact h.shift⟩

theorem Inv0.rotateP {s0 s : State K} (h : Inv0 s0 s) (r : M3 K) (hr : Proper r)
    (c : Option (P3 K)) : Inv0 s0 (rotateP s r c) :=
  ⟨by simpa [Probe.rotateP] using h.len, (rotateP_pairDists s r hr c).trans h.dists,
    (rotateP_normalsPcs s r hr c).trans h.normals, rotateP_unitNormals s r hr c h.unit,
    rotateP_good s r hr c h.good, by rw [rotateP_locsPcs s r hr c]; exact h.shift⟩

theorem vsub_vsub (a d e : P3 K) : vsub (vsub a d) e = vsub a (vadd d e) := by
  cases a; cases d; cases e; apply P3.ext' <;> simp only [vsub, vadd] <;> ring

theorem Inv0.setRef [Div K] (ofNat : Nat → K) {s0 s s' : State K} (h : Inv0 s0 s) {r : Ref}
    (hs : setRef 0 ofNat s r = some s') : Inv0 s0 s' := by
  obtain ⟨hl, hn, hi, hj⟩ := setRef_unchanged ofNat hs
  refine ⟨by rw [hl]; exact h.len, by rw [hl]; exact h.dists,
    (setRef_normalsPcs ofNat hs).trans h.normals, ?_, ⟨?_, ?_, ?_⟩, ?_⟩
  · intro n hn'; rw [hn] at hn'; exact h.unit n hn'
  · rw [hi]; exact h.good.ii
  · rw [hj]; exact h.good.jj
  · rw [hi, hj]; exact h.good.ij
  · obtain ⟨d, hd⟩ := h.shift
    refine ⟨vadd d (s.pcs.fromGcs s'.pcs.origin), ?_⟩
    rw [setRef_locsPcs ofNat hs, hd, List.map_map]
    exact List.map_congr_left (fun p _ => vsub_vsub p d _)

/-- the operations whose rotation argument is a proper rotation -/
def OpOk : Op K → Prop
  | .rotate r _ => Proper r
  | _ => True

section history
variable [Div K] (ofNat : Nat → K) (cpi spi : K)

/-- every admissible operation preserves the invariant -/
theorem step_inv (hpi : cpi * cpi + spi * spi = 1) {s0 s s' : State K} (op : Op K)
    (hop : OpOk op) (h : Inv0 s0 s) (hs : step 0 1 ofNat cpi spi s op = some s') : Inv0 s0 s' := by
  cases op with
  | translate v => cases hs; exact h.translate v
  | rotate r c => cases hs; exact h.rotateP r hop c
  | flip => cases hs; exact h.rotateP _ (rotZ_proper cpi spi hpi) none
  | setRef r => exact h.setRef ofNat hs
  | toO => cases hs; exact h.translate _
  | reset =>
    cases hs
    exact (h.translate _).rotateP _ (reset_proper s h.good) none

/-- running a list of operations (Python exceptions abort the run) -/
def run (s : State K) : List (Op K) → Option (State K)
  | [] => some s
  | op :: ops => (step 0 1 ofNat cpi spi s op).bind (fun s' => run s' ops)

theorem run_eq_foldlM (s : State K) (ops : List (Op K)) :
    run ofNat cpi spi s ops = ops.foldlM (step 0 1 ofNat cpi spi) s := by
  induction ops generalizing s with
  | nil => rfl
  | cons op ops ih =>
    simp only [run, List.foldlM_cons, ih]
    rfl

theorem run_inv (hpi : cpi * cpi + spi * spi = 1) {s0 s s' : State K} (ops : List (Op K))
    (hops : ∀ op ∈ ops, OpOk op) (h : Inv0 s0 s) (hs : run ofNat cpi spi s ops = some s') :
    Inv0 s0 s' := by
  induction ops generalizing s with
  | nil => cases hs; exact h
  | cons op ops ih =>
    simp only [run, Option.bind_eq_some_iff] at hs
    obtain ⟨s1, h1, h2⟩ := hs
    exact ih (fun o ho => hops o (List.mem_cons_of_mem _ ho))
      (step_inv ofNat cpi spi hpi op (hops op List.mem_cons_self) h h1) h2

/-- **history theorem**: whatever admissible operations are applied to a probe with an
    orthonormal frame and unit normals, element distances, PCS normals, unit normals and the
    orthonormal frame are kept, and the PCS locations change by a common shift only -/
theorem history_inv (hpi : cpi * cpi + spi * spi = 1) {s0 s : State K} (g : GoodCS s0.pcs)
    (u : UnitNormals s0) (ops : List (Op K)) (hops : ∀ op ∈ ops, OpOk op)
    (hs : run ofNat cpi spi s0 ops = some s) : Inv0 s0 s :=
  run_inv ofNat cpi spi hpi ops hops (Inv0.refl s0 g u) hs

/-- the operations other than `set_reference_element` -/
def NotSetRef : Op K → Prop
  | .setRef _ => False
  | _ => True

theorem step_locsPcs (hpi : cpi * cpi + spi * spi = 1) {s s' : State K} (op : Op K)
    (hop : OpOk op) (hn : NotSetRef op) (g : GoodCS s.pcs)
    (hs : step 0 1 ofNat cpi spi s op = some s') : locsPcs s' = locsPcs s ∧ GoodCS s'.pcs := by
  cases op with
  | translate v => cases hs; exact ⟨translate_locsPcs s v, translate_good s v g⟩
  | rotate r c => cases hs; exact ⟨rotateP_locsPcs s r hop c, rotateP_good s r hop c g⟩
  | flip =>
    cases hs
    exact ⟨rotateP_locsPcs s _ (rotZ_proper cpi spi hpi) none,
      rotateP_good s _ (rotZ_proper cpi spi hpi) none g⟩
  | setRef r => exact absurd hn id
  | toO => cases hs; exact ⟨translate_locsPcs s _, translate_good s _ g⟩
  | reset => cases hs; exact ⟨reset_locsPcs s g, reset_good s g⟩

/-- without `set_reference_element` in the history the PCS locations never change -/
theorem history_locs_pcs_fixed (hpi : cpi * cpi + spi * spi = 1) {s0 s : State K}
    (g : GoodCS s0.pcs) (ops : List (Op K)) (hops : ∀ op ∈ ops, OpOk op)
    (hn : ∀ op ∈ ops, NotSetRef op) (hs : run ofNat cpi spi s0 ops = some s) :
    locsPcs s = locsPcs s0 := by
  induction ops generalizing s0 with
  | nil => cases hs; rfl
  | cons op ops ih =>
    simp only [run, Option.bind_eq_some_iff] at hs
    obtain ⟨s1, h1, h2⟩ := hs
    obtain ⟨e, g1⟩ := step_locsPcs ofNat cpi spi hpi op (hops op List.mem_cons_self)
      (hn op List.mem_cons_self) g h1
    rw [ih g1 (fun o ho => hops o (List.mem_cons_of_mem _ ho))
      (fun o ho => hn o (List.mem_cons_of_mem _ ho)) h2, e]

end history

/-! ## make_matrix_probe (over a field of characteristic zero, `ofNat = Nat.cast`) -/

section matrix
variable {F : Type} [Field F]


/-- the mean of the axis values: `(n − 1) pitch / 2` -/
theorem axis_mean [CharZero F] (n : Nat) (hn : 1 ≤ n) (p : F) :
    fsum ((List.range n).map (fun (k : Nat) => (k : F) * p)) / ((List.range n).map (fun (k : Nat) => (k : F) * p)).length
      = (n - 1) * p / 2 := by
  have h := fsum_range_mul n p
  have hn' : (n : F) ≠ 0 := by exact_mod_cast (by omega : n ≠ 0)
  simp only [List.length_map, List.length_range]
  field_simp
  linear_combination h

theorem matrixProbe_eq (numx numy : Nat) (px py : F) :
    matrixProbe 0 Nat.cast numx numy px py =
      let xs := (List.range numx).map (fun (k : Nat) => (k : F) * px)
      let ys := (List.range numy).map (fun (k : Nat) => (k : F) * py)
      ys.flatMap (fun y => xs.map (fun x => (⟨x - fsum xs / xs.length, y - fsum ys / ys.length, 0⟩ : P3 F))) := by
  simp only [matrixProbe, axis_eq]
  rfl

theorem matrixProbe_length (numx numy : Nat) (px py : F) :
    (matrixProbe 0 Nat.cast numx numy px py).length = numx * numy := by
  rw [matrixProbe_eq]
  simp only [flatMap_map_length, List.length_map, List.length_range]
  exact Nat.mul_comm _ _

/-- element `(ix, iy)` of the matrix probe has index `iy * numx + ix` and sits at
    `(ix pitchX − (numx − 1) pitchX / 2, iy pitchY − (numy − 1) pitchY / 2, 0)` -/
theorem matrixProbe_getElem [CharZero F] (numx numy : Nat) (px py : F) (ix iy : Nat) (hx : ix < numx)
    (hy : iy < numy) :
    (matrixProbe 0 Nat.cast numx numy px py)[iy * numx + ix]? =
      some ⟨ix * px - (numx - 1) * px / 2, iy * py - (numy - 1) * py / 2, 0⟩ := by
  rw [matrixProbe_eq]
  have h := flatMap_map_getElem?' 
    (fun (y x : F) => (⟨x - (numx - 1) * px / 2, y - (numy - 1) * py / 2, 0⟩ : P3 F))
    ((List.range numx).map (fun (k : Nat) => (k : F) * px)) ((List.range numy).map (fun (k : Nat) => (k : F) * py))
    iy ix (by simpa using hy) (by simpa using hx) numx (by simp)
  simp only [axis_mean numx (by omega) px, axis_mean numy (by omega) py]
  rw [h]
  simp

/-- deviations from the mean sum to zero -/
theorem fsum_sub_mean [CharZero F] (l : List F) :
    fsum (l.map (fun x => x - fsum l / l.length)) = 0 := by
  rw [fsum_map_sub_const]
  cases l with
  | nil => simp [fsum_nil]
  | cons a l =>
    have : ((a :: l).length : F) ≠ 0 := Nat.cast_ne_zero.mpr (by simp)
    field_simp
    ring

/-- the coordinates of the matrix probe elements sum to zero: the centroid is the origin -/
theorem matrixProbe_sum [CharZero F] (numx numy : Nat) (px py : F) :
    (matrixProbe 0 Nat.cast numx numy px py).foldl vadd ⟨0, 0, 0⟩ = zero3 := by
  rw [matrixProbe_eq]
  exact tiled_sum _ _ _ _ (fsum_sub_mean _) (fsum_sub_mean _)

theorem matrixProbe_centroid [CharZero F] (numx numy : Nat) (px py : F) :
    meanLoc 0 Nat.cast (matrixProbe 0 Nat.cast numx numy px py) = zero3 := by
  simp only [meanLoc, matrixProbe_sum, zero3, zero_div]

end matrix

/-! ## non-vacuity: concrete rational data -/

section examples

/-- a rational rotation about `Oz` (the 3-4-5 triangle) -/
def r345 : M3 ℚ := ⟨⟨3/5, -4/5, 0⟩, ⟨4/5, 3/5, 0⟩, ⟨0, 0, 1⟩⟩

/-- a two-element probe, pitch 1 along `x`, looking along `z`, in the global frame -/
def probe2 : State ℚ :=
  { locs := [⟨0, 0, 0⟩, ⟨1, 0, 0⟩], normals := [⟨0, 0, 1⟩, ⟨0, 0, 1⟩]
    pcs := ⟨⟨0, 0, 0⟩, ⟨1, 0, 0⟩, ⟨0, 1, 0⟩⟩ }

example : Proper r345 := by
  refine Proper.of_rows_det ⟨?_, ?_, ?_, ?_, ?_, ?_⟩ ?_ <;> norm_num [r345, dot, det, cross]

theorem probe2_good : GoodCS probe2.pcs := by
  constructor <;> norm_num [probe2, dot]

theorem probe2_unit : UnitNormals probe2 := by
  intro n hn
  simp only [probe2, List.mem_cons, List.not_mem_nil, or_false, or_self] at hn
  subst hn; norm_num [dot]

example : (rotateP probe2 r345 (some ⟨1, 2, 3⟩)).locs = [⟨2, 0, 0⟩, ⟨13/5, 4/5, 0⟩] := by
  norm_num [rotateP, probe2, r345, rotate, mulVec, vadd, vsub, dot]

example : locsPcs (rotateP probe2 r345 (some ⟨1, 2, 3⟩)) = [⟨0, 0, 0⟩, ⟨1, 0, 0⟩] := by
  norm_num [locsPcs, rotateP, probe2, r345, rotate, CS.rotate, CS.fromGcs, CS.rows, CS.k, M3.transpose,
    M3.col0, M3.col1, M3.col2, vecMul, mulVec, vadd, vsub, dot, cross]

/-- a history using every kind of operation -/
def hist : List (Op ℚ) :=
  [.translate ⟨1, 2, 3⟩, .rotate r345 (some ⟨1, 1, 1⟩), .setRef .last, .flip, .toO, .reset]

theorem r345_proper : Proper r345 := by
  refine Proper.of_rows_det ⟨?_, ?_, ?_, ?_, ?_, ?_⟩ ?_ <;> norm_num [r345, dot, det, cross]

theorem hist_ok : ∀ op ∈ hist, OpOk op := by
  intro op h
  simp only [hist, List.mem_cons, List.not_mem_nil, or_false] at h
  rcases h with rfl | rfl | rfl | rfl | rfl | rfl <;> first | trivial | exact r345_proper

/-- the run succeeds and ends in the global frame, the last element at the origin -/
example : run Nat.cast (-1) 0 probe2 hist =
    some { locs := [⟨-1, 0, 0⟩, ⟨0, 0, 0⟩], normals := [⟨0, 0, 1⟩, ⟨0, 0, 1⟩]
           pcs := ⟨⟨0, 0, 0⟩, ⟨1, 0, 0⟩, ⟨0, 1, 0⟩⟩ } := by
  norm_num [run, hist, step, Probe.translate, rotateP, setRef, pyIdx, Probe.flip, toO, reset, neg3, probe2, r345,
    rotZ, rotate, CS.rotate, CS.translate, CS.rows, CS.k, mulVec, vadd, vsub, dot, cross]

example : ∃ s, run Nat.cast (-1) 0 probe2 hist = some s ∧ Inv0 probe2 s := by
  have h : (run Nat.cast (-1) 0 probe2 hist).isSome := by
    norm_num [run, hist, step, setRef, pyIdx, Probe.translate, rotateP, probe2]
  obtain ⟨s, hs⟩ := Option.isSome_iff_exists.mp h
  exact ⟨s, hs, history_inv Nat.cast (-1) 0 (by norm_num) probe2_good probe2_unit hist hist_ok hs⟩

/-- `Proper` cannot be dropped: a scaling changes the PCS locations -/
example : locsPcs (rotateP probe2 ⟨⟨2, 0, 0⟩, ⟨0, 2, 0⟩, ⟨0, 0, 2⟩⟩ none) ≠ locsPcs probe2 := by
  norm_num [locsPcs, rotateP, probe2, rotate, CS.rotate, CS.fromGcs, CS.rows, CS.k, M3.transpose,
    M3.col0, M3.col1, M3.col2, vecMul, mulVec, vadd, vsub, dot, cross]

/-- `det = 1` cannot be dropped: the mirror `z ↦ −z` is orthogonal, keeps `î, ĵ` and so keeps
    `k̂ = î × ĵ`, hence the PCS `z` of an element off the plane changes sign -/
example :
    let s : State ℚ := { probe2 with locs := [⟨0, 0, 1⟩] }
    let m : M3 ℚ := ⟨⟨1, 0, 0⟩, ⟨0, 1, 0⟩, ⟨0, 0, -1⟩⟩
    Orthonormal m ∧ Orthonormal m.transpose ∧ det m = -1 ∧
    locsPcs s = [⟨0, 0, 1⟩] ∧ locsPcs (rotateP s m none) = [⟨0, 0, -1⟩] := by
  refine ⟨⟨?_, ?_, ?_, ?_, ?_, ?_⟩, ⟨?_, ?_, ?_, ?_, ?_, ?_⟩, ?_, ?_, ?_⟩ <;>
  norm_num [locsPcs, rotateP, probe2, rotate, CS.rotate, CS.fromGcs, CS.rows, CS.k, M3.transpose,
    M3.col0, M3.col1, M3.col2, vecMul, mulVec, vadd, vsub, dot, cross, det]

/-- a 3 × 2 matrix probe, pitches 2 and 3 -/
example : matrixProbe (0 : ℚ) Nat.cast 3 2 2 3 =
    [⟨-2, -3/2, 0⟩, ⟨0, -3/2, 0⟩, ⟨2, -3/2, 0⟩, ⟨-2, 3/2, 0⟩, ⟨0, 3/2, 0⟩, ⟨2, 3/2, 0⟩] := by
  norm_num [matrixProbe, List.range, List.range.loop]


end examples

end Arim.C16
