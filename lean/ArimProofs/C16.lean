import ArimModel.Probe
import Mathlib.Tactic.Ring
/-! # C16 — probe motions are rigid and keep the probe coordinate system attached -/
namespace Arim.C16
open Arim Arim.Geo Arim.Probe

variable {K : Type} [CommRing K]

/-- translating the probe does not change the difference between two element locations -/
theorem translate_diff (a b v : P3 K) : vsub (vadd a v) (vadd b v) = vsub a b := by
  cases a; cases b; cases v; simp [vsub, vadd]

/-- a translation leaves every element's PCS coordinates unchanged -/
theorem translate_locs_pcs (cs : CS K) (p v : P3 K) :
    (cs.translate v).fromGcs (vadd p v) = cs.fromGcs p := by
  obtain ⟨o, i, j⟩ := cs
  obtain ⟨ox, oy, oz⟩ := o
  cases p; cases v
  simp [CS.translate, CS.fromGcs, CS.rows, CS.k, vsub, vadd]

end Arim.C16
