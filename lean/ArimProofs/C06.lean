import ArimModel.Weights
import ArimProofs.Lemmas.Weights
import Mathlib.Analysis.Complex.Trigonometric
import Mathlib.Analysis.Real.Sqrt
/-! # C06 — 2-D beamspread equals the geometric ray-tube divergence -/
namespace Arim.C06
open Arim.Weights

section basic
variable {K : Type} [Add K] [Sub K] [Mul K] [Div K]

/-- **Single medium**: with one leg the virtual distance is the leg length `d = r` -/
theorem single_medium (t : RTrig K) (r v : K) :
    beamspread t [r] [v] [] = t.one / t.sqrt r := by
  simp [beamspread, virtualDistance, gammas]

/-- the beamspread is a function of the leg lengths, velocities and incidence angles only -/
theorem depends_only_on (t : RTrig K) (legs vels thetas : List K) :
    beamspread t legs vels thetas = t.one / t.sqrt (virtualDistance t.one legs (gammas t vels thetas)) := rfl

end basic

/-- the real instance of the routines -/
noncomputable def rT : RTrig ℝ :=
  { sin := Real.sin, cos := Real.cos, sqrt := Real.sqrt, exp := Real.exp, one := 1, zero := 0 }

/-! ## the loops of `virtual_distance` as a closed formula -/
section closed
variable {K : Type} [Field K]

/-- **Closed formula**: `d = r₁ + Σ_k r_{k+1} / (γ_1 ⋯ γ_k)`; out-of-range entries of `gs` count
as `1`, exactly as `take (k+1)` and `getD k one` do in the model -/
theorem virtualDistance_eq_sum (r₁ : K) (rest gs : List K) :
    virtualDistance 1 (r₁ :: rest) gs =
      r₁ + ∑ k ∈ Finset.range rest.length,
        rest.getD k 1 / ∏ i ∈ Finset.range (k + 1), gs.getD i 1 := by
  rw [virtualDistance_cons_take]
  simp only [take_prod_eq]

/-- the same with the legs indexed by `Fin` (no default value involved) -/
theorem virtualDistance_eq_sum_fin (r₁ : K) (rest gs : List K) :
    virtualDistance 1 (r₁ :: rest) gs =
      r₁ + ∑ k : Fin rest.length, rest[k] / ∏ i ∈ Finset.range (k.1 + 1), gs.getD i 1 := by
  rw [virtualDistance_eq_sum, ← Fin.sum_univ_eq_sum_range
    (fun k => rest.getD k 1 / ∏ i ∈ Finset.range (k + 1), gs.getD i 1)]
  congr 1
  apply Finset.sum_congr rfl
  intro k _
  simp [List.getD_eq_getElem?_getD]

/-- the empty path has virtual distance `one` (a convention of the model, not a length) -/
theorem virtualDistance_nil (gs : List K) : virtualDistance (1 : K) [] gs = 1 := rfl

/-! ## transport of the radius of curvature of the ray tube -/

/-- transport the radius of curvature `ρ` along the remaining legs: `ρ ↦ γ ρ` across an
interface, `ρ ↦ ρ + r` along a leg (`γ = 1` where `gs` has run out) -/
def transport : K → List K → List K → K
  | ρ, [], _ => ρ
  | ρ, r :: rest, [] => transport (ρ + r) rest []
  | ρ, r :: rest, γ :: gs => transport (γ * ρ + r) rest gs

/-- `ρ_n`: `ρ₁ = r₁`, `ρ_{k+1} = γ_k ρ_k + r_{k+1}` -/
def rho : List K → List K → K
  | [], _ => 0
  | r₁ :: rest, gs => transport r₁ rest gs

@[simp] theorem rho_single (r₁ : K) (gs : List K) : rho [r₁] gs = r₁ := rfl

@[simp] theorem rho_step (r₁ r₂ γ : K) (rest gs : List K) :
    rho (r₁ :: r₂ :: rest) (γ :: gs) = rho ((γ * r₁ + r₂) :: rest) gs := rfl

theorem virtualDistance_eq_transport (ρ : K) (rest gs : List K) (hg : ∀ γ ∈ gs, γ ≠ 0) :
    virtualDistance 1 (ρ :: rest) gs = transport ρ rest gs / (gs.take rest.length).prod := by
  induction rest generalizing ρ gs with
  | nil => simp [virtualDistance, transport]
  | cons r rest ih =>
    cases gs with
    | nil =>
      rw [virtualDistance_step_nil, ih _ _ hg]; simp [transport]
    | cons γ gs =>
      have hγ : γ ≠ 0 := hg γ (by simp)
      rw [virtualDistance_step _ _ _ _ _ hγ, ih _ _ (fun g hg' => hg g (by simp [hg']))]
      simp only [transport, List.length_cons, List.take_succ_cons, List.prod_cons]
      rw [div_div, mul_comm _ γ]

/-- **Ray-tube recursion**: the virtual distance is the transported radius of curvature `ρ_n`
divided by the product of the interface factors -/
theorem beamspread_eq_recursion (legs gs : List K) (hlen : gs.length + 1 = legs.length)
    (hg : ∀ γ ∈ gs, γ ≠ 0) :
    virtualDistance 1 legs gs = rho legs gs / gs.prod := by
  cases legs with
  | nil => simp at hlen
  | cons r₁ rest =>
    rw [virtualDistance_eq_transport r₁ rest gs hg, List.take_of_length_le (by simp at hlen; omega)]
    rfl

/-! ## similarity -/

/-- scaling all legs by `s` scales the virtual distance by `s` (false for the empty path, for which the model
returns `one`) -/
theorem scaling (s : K) (legs gs : List K) (hne : legs ≠ []) :
    virtualDistance 1 (legs.map (s * ·)) gs = s * virtualDistance 1 legs gs := by
  cases legs with
  | nil => exact absurd rfl hne
  | cons r₁ rest =>
    rw [List.map_cons, virtualDistance_cons_take, virtualDistance_cons_take, mul_add, Finset.mul_sum,
      List.length_map]
    congr 1
    apply Finset.sum_congr rfl
    intro k hk
    have hk' : k < rest.length := Finset.mem_range.1 hk
    simp [List.getD_eq_getElem?_getD, hk', mul_div_assoc]

end closed

/-! ## the interface factor is Schmerr's ray-tube factor -/
section snell
variable {K : Type} [Field K]

/-- **γ under Snell's law**: at an interface with incoming velocity `vIn`, outgoing velocity
`vOut`, incidence angle `θIn` and refraction (or reflection) angle `θOut` linked by
`vIn sin θOut = vOut sin θIn`, the factor `(ν² − sin²θIn)/(ν cos²θIn)`, `ν = vIn/vOut`, of the code
is the classical `vIn cos²θOut / (vOut cos²θIn)`. Only `vOut ≠ 0` and `cos²θOut = 1 − sin²θOut`
are needed (for `vIn = 0` or `cos θIn = 0` both sides are `0` by `x/0 = 0`). -/
theorem gamma_snell (t : RTrig K) (vIn vOut θIn θOut : K) (vs ths : List K) (hv : vOut ≠ 0)
    (snell : vIn * t.sin θOut = vOut * t.sin θIn)
    (pyth : t.cos θOut * t.cos θOut = 1 - t.sin θOut * t.sin θOut) :
    gammas t (vIn :: vOut :: vs) (θIn :: ths) =
      (vIn * t.cos θOut * t.cos θOut) / (vOut * t.cos θIn * t.cos θIn) :: gammas t (vOut :: vs) ths := by
  simp only [gammas]
  rw [gamma_snell_aux vIn vOut (t.sin θIn) (t.cos θIn) (t.sin θOut) (t.cos θOut) hv snell pyth]

end snell

/-! ## the real instance -/
section real

theorem rT_pyth (x : ℝ) : rT.cos x * rT.cos x = 1 - rT.sin x * rT.sin x := by
  have := Real.sin_sq_add_cos_sq x
  simp only [rT]; nlinarith [this]

/-- **γ under Snell's law, real angles** -/
theorem gamma_snell_real (vIn vOut θIn θOut : ℝ) (hv : vOut ≠ 0)
    (snell : vIn * Real.sin θOut = vOut * Real.sin θIn) :
    gammas rT [vIn, vOut] [θIn] = [(vIn * Real.cos θOut ^ 2) / (vOut * Real.cos θIn ^ 2)] := by
  rw [gamma_snell rT vIn vOut θIn θOut [] [] hv snell (rT_pyth θOut)]
  simp only [gammas, rT, pow_two, mul_assoc]

/-- **Beamspread = ray-tube divergence**: the returned amplitude is `1/√(ρ_n / ∏ γ_k)`, where
`ρ_n` is the radius of curvature of the ray tube transported leg by leg (`ρ ↦ γ ρ` at an
interface, `ρ ↦ ρ + r` along a leg) -/
theorem beamspread_eq_tube (legs vels thetas : List ℝ)
    (hlen : (gammas rT vels thetas).length + 1 = legs.length)
    (hg : ∀ γ ∈ gammas rT vels thetas, γ ≠ 0) :
    beamspread rT legs vels thetas =
      1 / Real.sqrt (rho legs (gammas rT vels thetas) / (gammas rT vels thetas).prod) := by
  rw [← beamspread_eq_recursion legs _ hlen hg]; rfl

/-- the number of interface factors is the number of interior interfaces -/
theorem gammas_length {K : Type} [Field K] (t : RTrig K) (vels thetas : List K)
    (h : thetas.length + 1 = vels.length) : (gammas t vels thetas).length = thetas.length := by
  rw [gammas_eq_ifaceMap, ifaceMap_length _ _ _ h]

/-- **Similarity**: scaling all legs by `s ≥ 0` (angles and velocities unchanged) divides the
beamspread by `√s` -/
theorem scaling_beamspread (s : ℝ) (hs : 0 ≤ s) (legs vels thetas : List ℝ) (hne : legs ≠ []) :
    beamspread rT (legs.map (s * ·)) vels thetas = beamspread rT legs vels thetas / Real.sqrt s := by
  unfold beamspread
  change 1 / Real.sqrt (virtualDistance 1 _ _) = 1 / Real.sqrt (virtualDistance 1 _ _) / Real.sqrt s
  rw [scaling s legs _ hne, Real.sqrt_mul hs, div_div, mul_comm]

end real

/-! ## non-vacuity -/
section examples

/-- three legs, two interfaces: `1 + 2/2 + 3/(2·(1/2)) = 5` -/
example : virtualDistance (1 : ℚ) [1, 2, 3] [2, 1 / 2] = 5 := by
  norm_num [virtualDistance, List.range, List.range.loop]

/-- the same through the ray-tube recursion: `ρ₃ = (1/2)(2·1 + 2) + 3 = 5`, `∏ γ = 1` -/
example : rho ([1, 2, 3] : List ℚ) [2, 1 / 2] / ([2, 1 / 2] : List ℚ).prod = 5 := by
  norm_num [rho, transport]

example : virtualDistance (1 : ℚ) [1, 2, 3] [2, 1 / 2] = rho [1, 2, 3] [2, 1 / 2] / ([2, 1 / 2] : List ℚ).prod :=
  beamspread_eq_recursion _ _ rfl (by norm_num)

/-- a rational "trigonometry" (3-4-5 triangle): incidence `sin = 3/5`, refraction `sin = 4/5` for
`vIn = 3`, `vOut = 4` -/
def tQ : RTrig ℚ :=
  { sin := fun x => if x = 0 then 3 / 5 else 4 / 5, cos := fun x => if x = 0 then 4 / 5 else 3 / 5,
    sqrt := id, exp := id, one := 1, zero := 0 }

/-- `γ = vIn cos²θOut / (vOut cos²θIn) = 3·(9/25) / (4·(16/25)) = 27/64` -/
example : gammas tQ [3, 4] [0] = [27 / 64] := by
  rw [gamma_snell tQ 3 4 0 1 [] [] (by norm_num) (by norm_num [tQ]) (by norm_num [tQ])]
  norm_num [tQ, gammas]

/-- scaling a two-leg path by `4` -/
example : virtualDistance (1 : ℚ) ([1, 2].map (4 * ·)) [2] = 4 * virtualDistance 1 [1, 2] [2] :=
  scaling 4 _ _ (by simp)

/-- the scaling law fails for the empty path (the model returns `one`) -/
example : virtualDistance (1 : ℚ) (([] : List ℚ).map (4 * ·)) [2] ≠ 4 * virtualDistance 1 [] [2] := by
  norm_num [virtualDistance]

/-- normal incidence on a real two-leg path: Snell holds trivially and `γ = vIn/vOut` -/
example : gammas rT [1, 2] [0] = [1 / 2] := by
  rw [gamma_snell_real 1 2 0 0 (by norm_num) (by simp)]
  norm_num

end examples

end Arim.C06
