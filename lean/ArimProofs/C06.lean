import ArimModel.Weights
/-! # C06 — 2-D beamspread equals the geometric ray-tube divergence -/
namespace Arim.C06
open Arim.Weights

variable {K : Type} [Add K] [Sub K] [Mul K] [Div K]

/-- **Single medium**: with one leg the virtual distance is the leg length `d = r` -/
theorem single_medium (t : RTrig K) (r v : K) :
    beamspread t [r] [v] [] = t.one / t.sqrt r := by
  simp [beamspread, virtualDistance, gammas]

/-- the beamspread is a function of the leg lengths, velocities and incidence angles only -/
theorem depends_only_on (t : RTrig K) (legs vels thetas : List K) :
    beamspread t legs vels thetas = t.one / t.sqrt (virtualDistance t.one legs (gammas t vels thetas)) := rfl

end Arim.C06
