import ArimModel.Weights
import ArimProofs.Tie.C06
import ArimProofs.Lemmas.Weights
import ArimProofs.Lemmas.Pencil
import Mathlib.Analysis.Complex.Trigonometric
import Mathlib.Analysis.Real.Sqrt
/-! # C06 — 2-D beamspread equals the geometric ray-tube divergence -/
namespace Arim.C06
open Arim.Weights

section basic
variable {K : Type} [Add K] [Sub K] [Mul K] [Div K]

/-- **Single medium**: with one leg the virtual distance is the leg length `d = r` -/
theorem single_medium (t : RTrig K) (r v : K) :
    beamspread t [r] [v] [] = t.one / t.sqrt r := by
  simp [beamspread, virtualDistance, gammas]

/-- the beamspread is a function of the leg lengths, velocities and incidence angles only -/
theorem depends_only_on (t : RTrig K) (legs vels thetas : List K) :
    beamspread t legs vels thetas = t.one / t.sqrt (virtualDistance t.one legs (gammas t vels thetas)) := rfl

end basic

/-- the real instance of the routines -/
noncomputable def rT : RTrig ℝ :=
  { sin := Real.sin, cos := Real.cos, sqrt := Real.sqrt, exp := Real.exp, one := 1, zero := 0 }

/-! ## the loops of `virtual_distance` as a closed formula -/
section closed
variable {K : Type} [Field K]

/-- **Closed formula**: `d = r₁ + Σ_k r_{k+1} / (γ_1 ⋯ γ_k)`; out-of-range entries of `gs` count
as `1`, exactly as `take (k+1)` and `getD k one` do in the model -/
theorem virtualDistance_eq_sum (r₁ : K) (rest gs : List K) :
    virtualDistance 1 (r₁ :: rest) gs =
      r₁ + ∑ k ∈ Finset.range rest.length,
        rest.getD k 1 / ∏ i ∈ Finset.range (k + 1), gs.getD i 1 := by
  rw [virtualDistance_cons_take]
  simp only [take_prod_eq]

/-- the same with the legs indexed by `Fin` (no default value involved) -/
theorem virtualDistance_eq_sum_fin (r₁ : K) (rest gs : List K) :
    virtualDistance 1 (r₁ :: rest) gs =
      r₁ + ∑ k : Fin rest.length, rest[k] / ∏ i ∈ Finset.range (k.1 + 1), gs.getD i 1 := by
  rw [virtualDistance_eq_sum, ← Fin.sum_univ_eq_sum_range
    (fun k => rest.getD k 1 / ∏ i ∈ Finset.range (k + 1), gs.getD i 1)]
  congr 1
  apply Finset.sum_congr rfl
  intro k _
  simp [List.getD_eq_getElem?_getD]

/-- the empty path has virtual distance `one` (a convention of the model, not a length) -/
theorem virtualDistance_nil (gs : List K) : virtualDistance (1 : K) [] gs = 1 := rfl

/-! ## transport of the radius of curvature of the ray tube -/

/-- transport the radius of curvature `ρ` along the remaining legs: `ρ ↦ γ ρ` across an
interface, `ρ ↦ ρ + r` along a leg (`γ = 1` where `gs` has run out) -/
def transport : K → List K → List K → K
  | ρ, [], _ => ρ
  | ρ, r :: rest, [] => transport (ρ + r) rest []
  | ρ, r :: rest, γ :: gs => transport (γ * ρ + r) rest gs

/-- `ρ_n`: `ρ₁ = r₁`, `ρ_{k+1} = γ_k ρ_k + r_{k+1}` -/
def rho : List K → List K → K
  | [], _ => 0
  | r₁ :: rest, gs => transport r₁ rest gs

@[simp] theorem rho_single (r₁ : K) (gs : List K) : rho [r₁] gs = r₁ := rfl

@[simp] theorem rho_step (r₁ r₂ γ : K) (rest gs : List K) :
    rho (r₁ :: r₂ :: rest) (γ :: gs) = rho ((γ * r₁ + r₂) :: rest) gs := rfl

theorem virtualDistance_eq_transport (ρ : K) (rest gs : List K) (hg : ∀ γ ∈ gs, γ ≠ 0) :
    virtualDistance 1 (ρ :: rest) gs = transport ρ rest gs / (gs.take rest.length).prod := by
  induction rest generalizing ρ gs with
  | nil => simp [virtualDistance, transport]
  | cons r rest ih =>
    cases gs with
    | nil =>
      rw [virtualDistance_step_nil, ih _ _ hg]; simp [transport]
    | cons γ gs =>
      have hγ : γ ≠ 0 := hg γ (by simp)
      rw [virtualDistance_step _ _ _ _ _ hγ, ih _ _ (fun g hg' => hg g (by simp [hg']))]
      simp only [transport, List.length_cons, List.take_succ_cons, List.prod_cons]
      rw [div_div, mul_comm _ γ]

/-- **Ray-tube recursion**: the virtual distance is the transported radius of curvature `ρ_n`
divided by the product of the interface factors -/
theorem beamspread_eq_recursion (legs gs : List K) (hlen : gs.length + 1 = legs.length)
    (hg : ∀ γ ∈ gs, γ ≠ 0) :
    virtualDistance 1 legs gs = rho legs gs / gs.prod := by
  cases legs with
  | nil => simp at hlen
  | cons r₁ rest =>
    rw [virtualDistance_eq_transport r₁ rest gs hg, List.take_of_length_le (by simp at hlen; omega)]
    rfl

/-! ## similarity -/

/-- scaling all legs by `s` scales the virtual distance by `s` (false for the empty path, for which the model
returns `one`) -/
theorem scaling (s : K) (legs gs : List K) (hne : legs ≠ []) :
    virtualDistance 1 (legs.map (s * ·)) gs = s * virtualDistance 1 legs gs := by
  cases legs with
  | nil => exact absurd rfl hne
  | cons r₁ rest =>
    rw [List.map_cons, virtualDistance_cons_take, virtualDistance_cons_take, mul_add, Finset.mul_sum,
      List.length_map]
    congr 1
    apply Finset.sum_congr rfl
    intro k hk
    have hk' : k < rest.length := Finset.mem_range.1 hk
    simp [List.getD_eq_getElem?_getD, hk', mul_div_assoc]

end closed

/-! ## the interface factor is Schmerr's ray-tube factor -/
section snell
variable {K : Type} [Field K]

/-- **γ under Snell's law**: at an interface with incoming velocity `vIn`, outgoing velocity
`vOut`, incidence angle `θIn` and refraction (or reflection) angle `θOut` linked by
`vIn sin θOut = vOut sin θIn`, the factor `(ν² − sin²θIn)/(ν cos²θIn)`, `ν = vIn/vOut`, of the code
is the classical `vIn cos²θOut / (vOut cos²θIn)`. Only `vOut ≠ 0` and `cos²θOut = 1 − sin²θOut`
are needed (for `vIn = 0` or `cos θIn = 0` both sides are `0` by `x/0 = 0`). -/
theorem gamma_snell (t : RTrig K) (vIn vOut θIn θOut : K) (vs ths : List K) (hv : vOut ≠ 0)
    (snell : vIn * t.sin θOut = vOut * t.sin θIn)
    (pyth : t.cos θOut * t.cos θOut = 1 - t.sin θOut * t.sin θOut) :
    gammas t (vIn :: vOut :: vs) (θIn :: ths) =
      (vIn * t.cos θOut * t.cos θOut) / (vOut * t.cos θIn * t.cos θIn) :: gammas t (vOut :: vs) ths := by
  simp only [gammas]
  rw [gamma_snell_aux vIn vOut (t.sin θIn) (t.cos θIn) (t.sin θOut) (t.cos θOut) hv snell pyth]

end snell

/-! ## the real instance -/
section real

theorem rT_pyth (x : ℝ) : rT.cos x * rT.cos x = 1 - rT.sin x * rT.sin x := by
  have := Real.sin_sq_add_cos_sq x
  simp only [rT]; nlinarith [this]

/-- **γ under Snell's law, real angles** -/
theorem gamma_snell_real (vIn vOut θIn θOut : ℝ) (hv : vOut ≠ 0)
    (snell : vIn * Real.sin θOut = vOut * Real.sin θIn) :
    gammas rT [vIn, vOut] [θIn] = [(vIn * Real.cos θOut ^ 2) / (vOut * Real.cos θIn ^ 2)] := by
  rw [gamma_snell rT vIn vOut θIn θOut [] [] hv snell (rT_pyth θOut)]
  simp only [gammas, rT, pow_two, mul_assoc]

/-- **Beamspread = ray-tube divergence**: the returned amplitude is `1/√(ρ_n / ∏ γ_k)`, where
`ρ_n` is the radius of curvature of the ray tube transported leg by leg (`ρ ↦ γ ρ` at an
interface, `ρ ↦ ρ + r` along a leg) -/
theorem beamspread_eq_tube (legs vels thetas : List ℝ)
    (hlen : (gammas rT vels thetas).length + 1 = legs.length)
    (hg : ∀ γ ∈ gammas rT vels thetas, γ ≠ 0) :
    beamspread rT legs vels thetas =
      1 / Real.sqrt (rho legs (gammas rT vels thetas) / (gammas rT vels thetas).prod) := by
  rw [← beamspread_eq_recursion legs _ hlen hg]; rfl

/-- the number of interface factors is the number of interior interfaces -/
theorem gammas_length {K : Type} [Field K] (t : RTrig K) (vels thetas : List K)
    (h : thetas.length + 1 = vels.length) : (gammas t vels thetas).length = thetas.length := by
  rw [gammas_eq_ifaceMap, ifaceMap_length _ _ _ h]

/-- **Similarity**: scaling all legs by `s ≥ 0` (angles and velocities unchanged) divides the
beamspread by `√s` -/
theorem scaling_beamspread (s : ℝ) (hs : 0 ≤ s) (legs vels thetas : List ℝ) (hne : legs ≠ []) :
    beamspread rT (legs.map (s * ·)) vels thetas = beamspread rT legs vels thetas / Real.sqrt s := by
  unfold beamspread
  change 1 / Real.sqrt (virtualDistance 1 _ _) = 1 / Real.sqrt (virtualDistance 1 _ _) / Real.sqrt s
  rw [scaling s legs _ hne, Real.sqrt_mul hs, div_div, mul_comm]

/-- **only the ratios of the velocities matter**: multiplying every leg velocity by the same non-zero constant (another unit
of time or of length for the velocities) leaves every interface factor, hence the beamspread, unchanged -/
theorem gammas_velocity_scale {K : Type} [Field K] (t : RTrig K) (c : K) (hc : c ≠ 0) :
    ∀ (vels thetas : List K), gammas t (vels.map (c * ·)) thetas = gammas t vels thetas
  | [], _ => by simp [gammas]
  | [_], _ => by simp [gammas]
  | _ :: _ :: _, [] => by simp [gammas]
  | v0 :: v1 :: vs, th :: ths => by
    have ih := gammas_velocity_scale t c hc (v1 :: vs) ths
    simp only [List.map_cons] at ih ⊢
    simp only [gammas, ih, mul_div_mul_left _ _ hc]

/-- **another system of units** (the check's micrometre / picosecond oracle): lengths multiplied by `s ≥ 0` and all velocities
by `c ≠ 0` — the beamspread is divided by `√s` and does not see `c` -/
theorem unit_system_beamspread (s c : ℝ) (hs : 0 ≤ s) (hc : c ≠ 0) (legs vels thetas : List ℝ) (hne : legs ≠ []) :
    beamspread rT (legs.map (s * ·)) (vels.map (c * ·)) thetas = beamspread rT legs vels thetas / Real.sqrt s := by
  rw [← scaling_beamspread s hs legs vels thetas hne]
  unfold beamspread
  rw [gammas_velocity_scale rT c hc]

end real

/-! ## non-vacuity -/
section examples

/-- three legs, two interfaces: `1 + 2/2 + 3/(2·(1/2)) = 5` -/
example : virtualDistance (1 : ℚ) [1, 2, 3] [2, 1 / 2] = 5 := by
  norm_num [virtualDistance, List.range, List.range.loop]

/-- the same through the ray-tube recursion: `ρ₃ = (1/2)(2·1 + 2) + 3 = 5`, `∏ γ = 1` -/
example : rho ([1, 2, 3] : List ℚ) [2, 1 / 2] / ([2, 1 / 2] : List ℚ).prod = 5 := by
  norm_num [rho, transport]

example : virtualDistance (1 : ℚ) [1, 2, 3] [2, 1 / 2] = rho [1, 2, 3] [2, 1 / 2] / ([2, 1 / 2] : List ℚ).prod :=
  beamspread_eq_recursion _ _ rfl (by norm_num)

/-- a rational "trigonometry" (3-4-5 triangle): incidence `sin = 3/5`, refraction `sin = 4/5` for
`vIn = 3`, `vOut = 4` -/
def tQ : RTrig ℚ :=
  { sin := fun x => if x = 0 then 3 / 5 else 4 / 5, cos := fun x => if x = 0 then 4 / 5 else 3 / 5,
    sqrt := id, exp := id, one := 1, zero := 0 }

/-- `γ = vIn cos²θOut / (vOut cos²θIn) = 3·(9/25) / (4·(16/25)) = 27/64` -/
example : gammas tQ [3, 4] [0] = [27 / 64] := by
  rw [gamma_snell tQ 3 4 0 1 [] [] (by norm_num) (by norm_num [tQ]) (by norm_num [tQ])]
  norm_num [tQ, gammas]

/-- scaling a two-leg path by `4` -/
example : virtualDistance (1 : ℚ) ([1, 2].map (4 * ·)) [2] = 4 * virtualDistance 1 [1, 2] [2] :=
  scaling 4 _ _ (by simp)

/-- the scaling law fails for the empty path (the model returns `one`) -/
example : virtualDistance (1 : ℚ) (([] : List ℚ).map (4 * ·)) [2] ≠ 4 * virtualDistance 1 [] [2] := by
  norm_num [virtualDistance]

/-- normal incidence on a real two-leg path: Snell holds trivially and `γ = vIn/vOut` -/
example : gammas rT [1, 2] [0] = [1 / 2] := by
  rw [gamma_snell_real 1 2 0 0 (by norm_num) (by simp)]
  norm_num

end examples

/-! ## the interface factor `γ` IS the jump of the virtual-source distance of a ray pencil

2-D, interface = the line `y = 0`, abscissa `s` along it, point source `S = (a, h)`, `h > 0`.
`th1 a h s = arctan ((s - a)/h)`, `rho1 a h s = √((s-a)² + h²)`, `th2 a h κ s = arcsin (κ sin (th1 a h s))`
(`κ = vOut/vIn`), and `F a h κ s0 ρ2 s = (V0 - P(s)) ⬝ n(s)` with `V0 = P(s0) - ρ2 • d(s0)` are defined in
`ArimProofs/Lemmas/Pencil.lean`; `F_def`/`Frefl_def` below display them in coordinates. -/
section pencil
open Arim.Pencil

/-- the transmission `F` in coordinates: `V0 = P(s0) - ρ2 • d(s0)`, `P(s) = (s, 0)`,
`d(s) = (sin th2 s, -cos th2 s)`, `n(s) = (cos th2 s, sin th2 s)`, `F(s) = (V0 - P(s)) ⬝ n(s)` -/
theorem F_def (a h κ s0 ρ2 s : ℝ) :
    F a h κ s0 ρ2 s =
      let V0x := s0 - ρ2 * Real.sin (th2 a h κ s0)
      let V0y := 0 - ρ2 * (-Real.cos (th2 a h κ s0))
      (V0x - s) * Real.cos (th2 a h κ s) + (V0y - 0) * Real.sin (th2 a h κ s) := rfl

/-- the reflection `F` in coordinates: `d(s) = (sin th2 s, +cos th2 s)`, `n(s) = (cos th2 s, -sin th2 s)` -/
theorem Frefl_def (a h κ s0 ρ2 s : ℝ) :
    Frefl a h κ s0 ρ2 s =
      let V0x := s0 - ρ2 * Real.sin (th2 a h κ s0)
      let V0y := 0 - ρ2 * Real.cos (th2 a h κ s0)
      (V0x - s) * Real.cos (th2 a h κ s) + (V0y - 0) * (-Real.sin (th2 a h κ s)) := rfl

/-- the candidate centre lies on the central ray, whatever `ρ2` -/
theorem F_at_s0 (a h κ s0 ρ2 : ℝ) : F a h κ s0 ρ2 s0 = 0 := F_self a h κ s0 ρ2

/-- Snell's law for the angles used here: `sin th2 = κ sin th1` -/
theorem snell_holds (a h κ s : ℝ) (hk : |κ * Real.sin (th1 a h s)| < 1) :
    Real.sin (th2 a h κ s) = κ * Real.sin (th1 a h s) := sin_th2 hk

/-- **1. Incoming pencil**: `dth1/ds = cos th1 / rho1` — the rays through `P(s)` turn as those of a
point source at distance `rho1` -/
theorem incidence_deriv (a h s0 : ℝ) (hh : 0 < h) :
    HasDerivAt (th1 a h) (Real.cos (th1 a h s0) / rho1 a h s0) s0 := hasDerivAt_th1 hh s0

/-- the same derivative written `cos² th1 / h` -/
theorem incidence_deriv' (a h s0 : ℝ) (hh : 0 < h) :
    HasDerivAt (th1 a h) (Real.cos (th1 a h s0) ^ 2 / h) s0 := by
  rw [← cos_div_rho1 hh]; exact hasDerivAt_th1 hh s0

/-- **2. Snell's law differentiated** -/
theorem snell_deriv (a h κ s0 : ℝ) (hh : 0 < h) (hk : |κ * Real.sin (th1 a h s0)| < 1) :
    HasDerivAt (th2 a h κ)
      (κ * Real.cos (th1 a h s0) / Real.cos (th2 a h κ s0) * (Real.cos (th1 a h s0) / rho1 a h s0)) s0 :=
  hasDerivAt_th2 hh s0 hk

/-- the same derivative in the form of 1.: `dth2/ds = cos th2 / (γ rho1)` — the transmitted rays
turn as those of a point source at distance `γ rho1` -/
theorem snell_deriv_centre (a h κ s0 : ℝ) (hh : 0 < h) (hκ : 0 < κ)
    (hk : |κ * Real.sin (th1 a h s0)| < 1) :
    let γ := Real.cos (th2 a h κ s0) ^ 2 / (κ * Real.cos (th1 a h s0) ^ 2)
    HasDerivAt (th2 a h κ) (Real.cos (th2 a h κ s0) / (γ * rho1 a h s0)) s0 := by
  intro γ
  refine (hasDerivAt_th2 hh s0 hk).congr_deriv ?_
  have h1 := (cos_th1_pos a h s0).ne'
  have h2 := (cos_th2_pos hk).ne'
  have h3 : rho1 a h s0 ≠ 0 := (rho1_pos hh s0).ne'
  have h4 := hκ.ne'
  simp only [γ]
  field_simp

/-- derivative of `F` at `s0` for an arbitrary candidate distance `ρ2`: `-(cos th2) + ρ2 · th2'(s0)` -/
theorem F_deriv (a h κ s0 ρ2 : ℝ) (hh : 0 < h) (hk : |κ * Real.sin (th1 a h s0)| < 1) :
    HasDerivAt (F a h κ s0 ρ2)
      (-Real.cos (th2 a h κ s0) + ρ2 *
        (κ * Real.cos (th1 a h s0) / Real.cos (th2 a h κ s0) * (Real.cos (th1 a h s0) / rho1 a h s0))) s0 :=
  hasDerivAt_F hh s0 ρ2 hk

/-- **3. Refraction law of the pencil**: with `γ = cos² th2 / (κ cos² th1)` the point at distance `γ rho1` behind
`P(s0)` on the transmitted central ray is the centre of the transmitted pencil -/
theorem refraction_law (a h κ s0 : ℝ) (hh : 0 < h) (hκ : 0 < κ) (hk : |κ * Real.sin (th1 a h s0)| < 1) :
    let γ := Real.cos (th2 a h κ s0) ^ 2 / (κ * Real.cos (th1 a h s0) ^ 2)
    HasDerivAt (F a h κ s0 (γ * rho1 a h s0)) 0 s0 := by
  intro γ
  refine (hasDerivAt_F hh s0 _ hk).congr_deriv ?_
  have h1 := (cos_th1_pos a h s0).ne'
  have h2 := (cos_th2_pos hk).ne'
  have h3 : rho1 a h s0 ≠ 0 := (rho1_pos hh s0).ne'
  have h4 := hκ.ne'
  simp only [γ]
  field_simp
  ring

/-- **3'. Uniqueness**: no other distance gives a centre -/
theorem refraction_law_unique (a h κ s0 ρ2' : ℝ) (hh : 0 < h) (hκ : 0 < κ)
    (hk : |κ * Real.sin (th1 a h s0)| < 1) (hF : HasDerivAt (F a h κ s0 ρ2') 0 s0) :
    ρ2' = Real.cos (th2 a h κ s0) ^ 2 / (κ * Real.cos (th1 a h s0) ^ 2) * rho1 a h s0 := by
  have h0 := (hasDerivAt_F hh s0 ρ2' hk).unique hF
  have h1 := (cos_th1_pos a h s0).ne'
  have h2 := (cos_th2_pos hk).ne'
  have h3 : rho1 a h s0 ≠ 0 := (rho1_pos hh s0).ne'
  have h4 := hκ.ne'
  field_simp at h0 ⊢
  linear_combination h0

/-- 3. and 3'. together -/
theorem refraction_law_iff (a h κ s0 ρ2' : ℝ) (hh : 0 < h) (hκ : 0 < κ)
    (hk : |κ * Real.sin (th1 a h s0)| < 1) :
    HasDerivAt (F a h κ s0 ρ2') 0 s0 ↔
      ρ2' = Real.cos (th2 a h κ s0) ^ 2 / (κ * Real.cos (th1 a h s0) ^ 2) * rho1 a h s0 :=
  ⟨refraction_law_unique a h κ s0 ρ2' hh hκ hk, fun e => e ▸ refraction_law a h κ s0 hh hκ hk⟩

/-- **4. The pencil's `γ` is the code's factor** (`κ = vOut / vIn`) -/
theorem refraction_law_gamma_is_code (a h vIn vOut s0 : ℝ) (hvi : 0 < vIn) (hvo : 0 < vOut)
    (hk : |vOut / vIn * Real.sin (th1 a h s0)| < 1) :
    gammas rT [vIn, vOut] [th1 a h s0] =
      [Real.cos (th2 a h (vOut / vIn) s0) ^ 2 / (vOut / vIn * Real.cos (th1 a h s0) ^ 2)] := by
  have snell : vIn * Real.sin (th2 a h (vOut / vIn) s0) = vOut * Real.sin (th1 a h s0) := by
    rw [sin_th2 hk]; field_simp
  rw [gamma_snell_real vIn vOut _ _ hvo.ne' snell]
  have h1 := (cos_th1_pos a h s0).ne'
  congr 1
  field_simp

/-- the sign of the angle is irrelevant: the same factor for `-th1` -/
theorem refraction_law_gamma_is_code_neg (a h vIn vOut s0 : ℝ) (hvi : 0 < vIn) (hvo : 0 < vOut)
    (hk : |vOut / vIn * Real.sin (th1 a h s0)| < 1) :
    gammas rT [vIn, vOut] [-th1 a h s0] =
      [Real.cos (th2 a h (vOut / vIn) s0) ^ 2 / (vOut / vIn * Real.cos (th1 a h s0) ^ 2)] := by
  have snell : vIn * Real.sin (-th2 a h (vOut / vIn) s0) = vOut * Real.sin (-th1 a h s0) := by
    rw [Real.sin_neg, Real.sin_neg, sin_th2 hk]; field_simp
  rw [gamma_snell_real vIn vOut _ _ hvo.ne' snell, Real.cos_neg, Real.cos_neg]
  have h1 := (cos_th1_pos a h s0).ne'
  congr 1
  field_simp

/-- … and hence for the unsigned incidence angle `|th1|` that arim stores -/
theorem refraction_law_gamma_is_code_abs (a h vIn vOut s0 : ℝ) (hvi : 0 < vIn) (hvo : 0 < vOut)
    (hk : |vOut / vIn * Real.sin (th1 a h s0)| < 1) :
    gammas rT [vIn, vOut] [|th1 a h s0|] =
      [Real.cos (th2 a h (vOut / vIn) s0) ^ 2 / (vOut / vIn * Real.cos (th1 a h s0) ^ 2)] := by
  rcases abs_choice (th1 a h s0) with e | e <;> rw [e]
  · exact refraction_law_gamma_is_code a h vIn vOut s0 hvi hvo hk
  · exact refraction_law_gamma_is_code_neg a h vIn vOut s0 hvi hvo hk

/-- **5. Reflection** (`κ = vRefl / vInc`, `d(s) = (sin th2, +cos th2)`, `n(s) = (cos th2, -sin th2)`): the mirror image
`y ↦ -y` of the transmission picture, so `Frefl = F` as functions of `s` -/
theorem reflection_eq_transmission (a h κ s0 ρ2 : ℝ) : Frefl a h κ s0 ρ2 = F a h κ s0 ρ2 :=
  Frefl_eq_F a h κ s0 ρ2

theorem reflection_law (a h κ s0 : ℝ) (hh : 0 < h) (hκ : 0 < κ) (hk : |κ * Real.sin (th1 a h s0)| < 1) :
    let γ := Real.cos (th2 a h κ s0) ^ 2 / (κ * Real.cos (th1 a h s0) ^ 2)
    HasDerivAt (Frefl a h κ s0 (γ * rho1 a h s0)) 0 s0 := by
  intro γ
  rw [Frefl_eq_F]
  exact refraction_law a h κ s0 hh hκ hk

theorem reflection_law_unique (a h κ s0 ρ2' : ℝ) (hh : 0 < h) (hκ : 0 < κ)
    (hk : |κ * Real.sin (th1 a h s0)| < 1) (hF : HasDerivAt (Frefl a h κ s0 ρ2') 0 s0) :
    ρ2' = Real.cos (th2 a h κ s0) ^ 2 / (κ * Real.cos (th1 a h s0) ^ 2) * rho1 a h s0 := by
  rw [Frefl_eq_F] at hF
  exact refraction_law_unique a h κ s0 ρ2' hh hκ hk hF

/-- specular reflection without mode conversion (`κ = 1`): `th2 = th1`, `γ = 1`, the image source is at the same
distance -/
theorem reflection_law_specular (a h s0 : ℝ) (hh : 0 < h) :
    HasDerivAt (Frefl a h 1 s0 (rho1 a h s0)) 0 s0 := by
  have hk : |1 * Real.sin (th1 a h s0)| < 1 := by
    rw [one_mul, sin_th1 hh, abs_div, abs_of_pos (rho1_pos hh s0), div_lt_one (rho1_pos hh s0)]
    apply Real.lt_sqrt_of_sq_lt
    rw [sq_abs]; nlinarith [hh]
  have hth : th2 a h 1 s0 = th1 a h s0 := by
    unfold th2; rw [one_mul]; unfold th1
    exact Real.arcsin_sin (Real.neg_pi_div_two_lt_arctan _).le (Real.arctan_lt_pi_div_two _).le
  have := reflection_law a h 1 s0 hh one_pos hk
  have h1 := (cos_th1_pos a h s0).ne'
  simpa [hth, h1] using this

/-- **6. Free propagation**: `V0 = P - ρ • d` is a fixed point; after a further length `r` along the central ray
(`P' = P + r • d`, `|d| = 1`) its distance is `ρ + r` -/
theorem leg_transport (Px Py dx dy ρ r : ℝ) (hd : dx ^ 2 + dy ^ 2 = 1) (hρ : 0 ≤ ρ + r) :
    let V0x := Px - ρ * dx
    let V0y := Py - ρ * dy
    Real.sqrt (((Px + r * dx) - V0x) ^ 2 + ((Py + r * dy) - V0y) ^ 2) = ρ + r := by
  intro V0x V0y
  have : ((Px + r * dx) - V0x) ^ 2 + ((Py + r * dy) - V0y) ^ 2 = (ρ + r) ^ 2 := by
    simp only [V0x, V0y]; linear_combination (ρ + r) ^ 2 * hd
  rw [this, Real.sqrt_sq hρ]

/-- signed form (no sign condition): the component of `P' - V0` along `d` is `ρ + r` and the one across is `0` -/
theorem leg_transport_signed (Px Py dx dy ρ r : ℝ) (hd : dx ^ 2 + dy ^ 2 = 1) :
    let V0x := Px - ρ * dx
    let V0y := Py - ρ * dy
    ((Px + r * dx) - V0x) * dx + ((Py + r * dy) - V0y) * dy = ρ + r ∧
      ((Px + r * dx) - V0x) * dy - ((Py + r * dy) - V0y) * dx = 0 := by
  intro V0x V0y
  constructor
  · simp only [V0x, V0y]; linear_combination (ρ + r) * hd
  · simp only [V0x, V0y]; ring

/-- **3. ∘ 6. = one step of `rho`/`transport`**: at the interface the centre of the pencil jumps to distance
`γ rho1` (3.), along the next leg of length `r2` the distance grows by `r2` (6.); the result is `rho [rho1, r2] [γ]` -/
theorem interface_then_leg (a h κ s0 r2 : ℝ) (hh : 0 < h) (hκ : 0 < κ)
    (hk : |κ * Real.sin (th1 a h s0)| < 1) (hr : 0 ≤ r2) :
    let γ := Real.cos (th2 a h κ s0) ^ 2 / (κ * Real.cos (th1 a h s0) ^ 2)
    let ρ2 := γ * rho1 a h s0
    let V0x := s0 - ρ2 * Real.sin (th2 a h κ s0)
    let V0y := 0 - ρ2 * (-Real.cos (th2 a h κ s0))
    HasDerivAt (F a h κ s0 ρ2) 0 s0 ∧
      Real.sqrt (((s0 + r2 * Real.sin (th2 a h κ s0)) - V0x) ^ 2
        + ((0 + r2 * (-Real.cos (th2 a h κ s0))) - V0y) ^ 2) = rho [rho1 a h s0, r2] [γ] := by
  intro γ ρ2 V0x V0y
  refine ⟨refraction_law a h κ s0 hh hκ hk, ?_⟩
  have hγ : 0 < γ := gam_pos hκ hk
  have hρ : 0 ≤ ρ2 + r2 := by
    have := rho1_pos (a := a) hh s0
    simp only [ρ2]; positivity
  have hd : Real.sin (th2 a h κ s0) ^ 2 + (-Real.cos (th2 a h κ s0)) ^ 2 = 1 := by
    rw [neg_sq]; exact Real.sin_sq_add_cos_sq _
  have := leg_transport s0 0 (Real.sin (th2 a h κ s0)) (-Real.cos (th2 a h κ s0)) ρ2 r2 hd hρ
  have e : rho [rho1 a h s0, r2] [γ] = ρ2 + r2 := rfl
  rw [e]; exact this

/-- **7. One interface, two legs**: the virtual distance of the code is (distance of the target from the centre of the
transmitted pencil) / `γ` -/
theorem tube_two_legs (a h vIn vOut s0 r2 : ℝ) (hvi : 0 < vIn) (hvo : 0 < vOut)
    (hk : |vOut / vIn * Real.sin (th1 a h s0)| < 1) :
    let γ := Real.cos (th2 a h (vOut / vIn) s0) ^ 2 / (vOut / vIn * Real.cos (th1 a h s0) ^ 2)
    virtualDistance 1 [rho1 a h s0, r2] (gammas rT [vIn, vOut] [th1 a h s0]) =
      (γ * rho1 a h s0 + r2) / γ := by
  intro γ
  have hγ : γ ≠ 0 := (gam_pos (div_pos hvo hvi) hk).ne'
  rw [refraction_law_gamma_is_code a h vIn vOut s0 hvi hvo hk,
    beamspread_eq_recursion _ _ rfl (by simp only [List.mem_singleton, forall_eq]; exact hγ)]
  simp [rho, transport, γ]

/-- the same for the returned amplitude -/
theorem tube_two_legs_beamspread (a h vIn vOut s0 r2 : ℝ) (hvi : 0 < vIn) (hvo : 0 < vOut)
    (hk : |vOut / vIn * Real.sin (th1 a h s0)| < 1) :
    let γ := Real.cos (th2 a h (vOut / vIn) s0) ^ 2 / (vOut / vIn * Real.cos (th1 a h s0) ^ 2)
    beamspread rT [rho1 a h s0, r2] [vIn, vOut] [th1 a h s0] =
      1 / Real.sqrt ((γ * rho1 a h s0 + r2) / γ) := by
  intro γ
  rw [← tube_two_legs a h vIn vOut s0 r2 hvi hvo hk]; rfl

/-- non-vacuity: `a = 0`, `h = 1`, `s0 = 1/2`, `κ = 2/1`: `sin th1 = 1/√5`, `κ sin th1 = 2/√5 < 1` -/
theorem example_below_critical : |(2 : ℝ) / 1 * Real.sin (th1 0 1 (1 / 2))| < 1 := by
  have hr : (1 : ℝ) < rho1 0 1 (1 / 2) := by
    unfold rho1; apply Real.lt_sqrt_of_sq_lt; norm_num
  rw [sin_th1 one_pos, abs_lt]
  constructor
  · have : (0 : ℝ) < 2 / 1 * ((1 / 2 - 0) / rho1 0 1 (1 / 2)) := by positivity
    linarith
  · rw [div_one, sub_zero, ← mul_div_assoc, div_lt_one (by linarith)]
    linarith

example : HasDerivAt (F 0 1 (2 / 1) (1 / 2)
    (Real.cos (th2 0 1 (2 / 1) (1 / 2)) ^ 2 / (2 / 1 * Real.cos (th1 0 1 (1 / 2)) ^ 2) * rho1 0 1 (1 / 2))) 0 (1 / 2) :=
  refraction_law 0 1 (2 / 1) (1 / 2) one_pos (by norm_num) example_below_critical

example (r2 : ℝ) :
    virtualDistance 1 [rho1 0 1 (1 / 2), r2] (gammas rT [1, 2] [th1 0 1 (1 / 2)]) =
      (Real.cos (th2 0 1 (2 / 1) (1 / 2)) ^ 2 / (2 / 1 * Real.cos (th1 0 1 (1 / 2)) ^ 2) * rho1 0 1 (1 / 2) + r2) /
        (Real.cos (th2 0 1 (2 / 1) (1 / 2)) ^ 2 / (2 / 1 * Real.cos (th1 0 1 (1 / 2)) ^ 2)) :=
  tube_two_legs 0 1 1 2 (1 / 2) r2 one_pos two_pos example_below_critical

end pencil


/-! ## The same statements about the code as translated on this run

`Src.beamspread_2d_for_path` (file `Generated/SrcC06.lean`) is the translation of `arim.model.beamspread_2d_for_path`
made from `/repo/src` on every run; `Tie.C06.tie_beamspread` identifies it with the model. -/
section OnSource
open Arim.Tie.C06

/-- the routines of the translated code at `K = ℝ` -/
noncomputable def srcOps : Src.Ops ℝ :=
  { sin := Real.sin, cos := Real.cos, asin := Real.arcsin, sqrt := Real.sqrt, exp := Real.exp, sinc := id,
    pi := Real.pi, ofNat := fun n => (n : ℝ), ofInt := fun z => (z : ℝ),
    floor := fun x => ⌊x⌋, round := fun x => round x, trunc := fun x => ⌊x⌋ }

theorem rtrig_srcOps : rtrig srcOps = rT := by
  simp [rtrig, srcOps, rT]

/-- **the translated function computes the ray-tube divergence**: for a ray through `n ≥ 1` legs the value returned
by the translated `beamspread_2d_for_path` is `1/√d` with `d = ρ_n / Π γ_k` the radius of curvature transported along
the ray (same hypotheses as `beamspread_eq_tube`) -/
theorem src_beamspread_eq_tube (ni : Nat) (vel ang leg : Nat → ℝ) (hn : 2 ≤ ni)
    (hg : ∀ γ ∈ gammas rT (velsOf vel (ni - 1)) (angsOf ang (ni - 1)), γ ≠ 0) :
    Src.beamspread_2d_for_path srcOps ni vel ang leg =
      1 / Real.sqrt (rho (legsOf leg (ni - 1)) (gammas rT (velsOf vel (ni - 1)) (angsOf ang (ni - 1)))
        / (gammas rT (velsOf vel (ni - 1)) (angsOf ang (ni - 1))).prod) := by
  rw [tie_beamspread srcOps ni vel ang leg hn, rtrig_srcOps]
  apply beamspread_eq_tube _ _ _ _ hg
  rw [gammas_length rT _ _ (by simp [velsOf, angsOf]; omega)]
  simp [legsOf, angsOf]; omega

/-- **single medium**, translated code: with two interfaces (one leg) the beamspread is `1/√r` -/
theorem src_single_medium (vel ang leg : Nat → ℝ) :
    Src.beamspread_2d_for_path srcOps 2 vel ang leg = 1 / Real.sqrt (leg 1) := by
  rw [tie_beamspread srcOps 2 vel ang leg (by omega), rtrig_srcOps]
  simp [legsOf, velsOf, angsOf, beamspread, virtualDistance, gammas, rT]

/-- **scaling**, translated code: multiplying every leg length by `s ≥ 0` divides the beamspread by `√s` -/
theorem src_scaling (s : ℝ) (hs : 0 ≤ s) (ni : Nat) (vel ang leg : Nat → ℝ) (hn : 2 ≤ ni) :
    Src.beamspread_2d_for_path srcOps ni vel ang (fun k => s * leg k) =
      Src.beamspread_2d_for_path srcOps ni vel ang leg / Real.sqrt s := by
  rw [tie_beamspread srcOps ni vel ang _ hn, tie_beamspread srcOps ni vel ang leg hn, rtrig_srcOps]
  have : legsOf (fun k => s * leg k) (ni - 1) = (legsOf leg (ni - 1)).map (s * ·) := by
    simp [legsOf]
  rw [this]
  apply scaling_beamspread s hs
  simp [legsOf]; omega

end OnSource

end Arim.C06
