import ArimModel.Interface
import ArimProofs.Generated.SrcC04
/-! # C04 — tie between the generated translation of `arim.model` and the hand-written model

`ArimProofs/Generated/SrcC04.lean` is rewritten from `/repo/src/arim/model.py` on every run; the theorems below
state, for every scalar type and all arguments, that the translated functions are the model functions the
theorems of `ArimProofs/C04.lean` speak about. -/
namespace Arim.Tie.C04
open Arim.Iface

variable {K : Type} [Add K] [Sub K] [Mul K] [Div K] [Neg K]

/-- the routines of the translated code, seen as the model's `CTrig` -/
def ctrig (o : Src.Ops K) : CTrig K := { sin := o.sin, cos := o.cos, asin := o.asin, ofNat := o.ofNat }

/-- every `CTrig` is the view of some `Ops`: the ties below cover every instance of the model -/
theorem ctrig_surjective [Inhabited K] (t : CTrig K) : ∃ o : Src.Ops K, ctrig o = t :=
  ⟨{ sin := t.sin, cos := t.cos, asin := t.asin, sqrt := id, exp := id, sinc := id, pi := default,
     ofNat := t.ofNat, ofInt := fun _ => default, floor := fun _ => 0, round := fun _ => 0, trunc := fun _ => 0 }, rfl⟩

def media (rho_fluid rho_solid c_fluid c_l c_t : K) : Media K :=
  { rhoF := rho_fluid, rhoS := rho_solid, cF := c_fluid, cL := c_l, cT := c_t }

theorem tie_snell_angles (o : Src.Ops K) (a cInc cRef : K) :
    Src.snell_angles o a cInc cRef = snell (ctrig o) a cInc cRef := rfl

theorem tie_fluid_solid_n (o : Src.Ops K) (aF aL aT rf rs cf cl ct : K) :
    Src.fluid_solid_n o aF aL aT rf rs cf cl ct = nfs (ctrig o) (media rf rs cf cl ct) aF aL aT := rfl

theorem tie_fluid_solid (o : Src.Ops K) (aF rf rs cf cl ct aL aT : K) :
    Src.fluid_solid o aF rf rs cf cl ct aL aT = fluidSolid (ctrig o) (media rf rs cf cl ct) aF aL aT := rfl

theorem tie_solid_l_fluid (o : Src.Ops K) (aL rf rs cf cl ct aF aT : K) :
    Src.solid_l_fluid o aL rf rs cf cl ct aF aT = solidLFluid (ctrig o) (media rf rs cf cl ct) aF aL aT := rfl

theorem tie_solid_t_fluid (o : Src.Ops K) (aT rf rs cf cl ct aF aL : K) :
    Src.solid_t_fluid o aT rf rs cf cl ct aF aL = solidTFluid (ctrig o) (media rf rs cf cl ct) aF aL aT := rfl

/-- with `alpha_l=None, alpha_t=None` the code refracts by Snell's law from the fluid -/
theorem tie_fluid_solid_auto (o : Src.Ops K) (aF rf rs cf cl ct : K) :
    Src.fluid_solid_auto o aF rf rs cf cl ct =
      fluidSolid (ctrig o) (media rf rs cf cl ct) aF (snell (ctrig o) aF cf cl) (snell (ctrig o) aF cf ct) := rfl

theorem tie_solid_l_fluid_auto (o : Src.Ops K) (aL rf rs cf cl ct : K) :
    Src.solid_l_fluid_auto o aL rf rs cf cl ct =
      solidLFluid (ctrig o) (media rf rs cf cl ct) (snell (ctrig o) aL cl cf) aL (snell (ctrig o) aL cl ct) := rfl

theorem tie_solid_t_fluid_auto (o : Src.Ops K) (aT rf rs cf cl ct : K) :
    Src.solid_t_fluid_auto o aT rf rs cf cl ct =
      solidTFluid (ctrig o) (media rf rs cf cl ct) (snell (ctrig o) aT ct cf) (snell (ctrig o) aT ct cl) aT := rfl


/-! ### the per-interface helpers, specialised on (interface kind, incident mode, outgoing mode, unit)

The Python functions dispatch on enum members and on the unit string; the translator decides those conditions for each
combination the helpers accept and translates the branch that is left.  Each specialisation is the model's
`transmissionAt` / `reflectionAt` at that combination. -/

theorem tie_transmission_fluid_solid_LL_stress (o : Src.Ops K) (a rf rs cf cl ct : K) :
    transmissionAt (ctrig o) (media rf rs cf cl ct) .fluidSolid .L .L a false =
      .ok (Src.transmission_at_interface__fluid_solid_LL_stress o a rf rs cf cl ct) := rfl

theorem tie_transmission_fluid_solid_LL_displacement (o : Src.Ops K) (a rf rs cf cl ct : K) :
    transmissionAt (ctrig o) (media rf rs cf cl ct) .fluidSolid .L .L a true =
      .ok (Src.transmission_at_interface__fluid_solid_LL_displacement o a rf rs cf cl ct) := rfl

theorem tie_transmission_fluid_solid_LT_stress (o : Src.Ops K) (a rf rs cf cl ct : K) :
    transmissionAt (ctrig o) (media rf rs cf cl ct) .fluidSolid .L .T a false =
      .ok (Src.transmission_at_interface__fluid_solid_LT_stress o a rf rs cf cl ct) := rfl

theorem tie_transmission_fluid_solid_LT_displacement (o : Src.Ops K) (a rf rs cf cl ct : K) :
    transmissionAt (ctrig o) (media rf rs cf cl ct) .fluidSolid .L .T a true =
      .ok (Src.transmission_at_interface__fluid_solid_LT_displacement o a rf rs cf cl ct) := rfl

theorem tie_transmission_solid_fluid_LL_stress (o : Src.Ops K) (a rf rs cf cl ct : K) :
    transmissionAt (ctrig o) (media rf rs cf cl ct) .solidFluid .L .L a false =
      .ok (Src.transmission_at_interface__solid_fluid_LL_stress o a rf rs cf cl ct) := rfl

theorem tie_transmission_solid_fluid_LL_displacement (o : Src.Ops K) (a rf rs cf cl ct : K) :
    transmissionAt (ctrig o) (media rf rs cf cl ct) .solidFluid .L .L a true =
      .ok (Src.transmission_at_interface__solid_fluid_LL_displacement o a rf rs cf cl ct) := rfl

theorem tie_transmission_solid_fluid_TL_stress (o : Src.Ops K) (a rf rs cf cl ct : K) :
    transmissionAt (ctrig o) (media rf rs cf cl ct) .solidFluid .T .L a false =
      .ok (Src.transmission_at_interface__solid_fluid_TL_stress o a rf rs cf cl ct) := rfl

theorem tie_transmission_solid_fluid_TL_displacement (o : Src.Ops K) (a rf rs cf cl ct : K) :
    transmissionAt (ctrig o) (media rf rs cf cl ct) .solidFluid .T .L a true =
      .ok (Src.transmission_at_interface__solid_fluid_TL_displacement o a rf rs cf cl ct) := rfl

theorem tie_reflection_solid_fluid_LL_stress (o : Src.Ops K) (a rf rs cf cl ct : K) :
    reflectionAt (ctrig o) (media rf rs cf cl ct) .solidFluid .L .L a false =
      .ok (Src.reflection_at_interface__solid_fluid_LL_stress o a rf rs cf cl ct) := rfl

theorem tie_reflection_solid_fluid_LL_displacement (o : Src.Ops K) (a rf rs cf cl ct : K) :
    reflectionAt (ctrig o) (media rf rs cf cl ct) .solidFluid .L .L a true =
      .ok (Src.reflection_at_interface__solid_fluid_LL_displacement o a rf rs cf cl ct) := rfl

theorem tie_reflection_solid_fluid_LT_stress (o : Src.Ops K) (a rf rs cf cl ct : K) :
    reflectionAt (ctrig o) (media rf rs cf cl ct) .solidFluid .L .T a false =
      .ok (Src.reflection_at_interface__solid_fluid_LT_stress o a rf rs cf cl ct) := rfl

theorem tie_reflection_solid_fluid_LT_displacement (o : Src.Ops K) (a rf rs cf cl ct : K) :
    reflectionAt (ctrig o) (media rf rs cf cl ct) .solidFluid .L .T a true =
      .ok (Src.reflection_at_interface__solid_fluid_LT_displacement o a rf rs cf cl ct) := rfl

theorem tie_reflection_solid_fluid_TL_stress (o : Src.Ops K) (a rf rs cf cl ct : K) :
    reflectionAt (ctrig o) (media rf rs cf cl ct) .solidFluid .T .L a false =
      .ok (Src.reflection_at_interface__solid_fluid_TL_stress o a rf rs cf cl ct) := rfl

theorem tie_reflection_solid_fluid_TL_displacement (o : Src.Ops K) (a rf rs cf cl ct : K) :
    reflectionAt (ctrig o) (media rf rs cf cl ct) .solidFluid .T .L a true =
      .ok (Src.reflection_at_interface__solid_fluid_TL_displacement o a rf rs cf cl ct) := rfl

theorem tie_reflection_solid_fluid_TT_stress (o : Src.Ops K) (a rf rs cf cl ct : K) :
    reflectionAt (ctrig o) (media rf rs cf cl ct) .solidFluid .T .T a false =
      .ok (Src.reflection_at_interface__solid_fluid_TT_stress o a rf rs cf cl ct) := rfl

theorem tie_reflection_solid_fluid_TT_displacement (o : Src.Ops K) (a rf rs cf cl ct : K) :
    reflectionAt (ctrig o) (media rf rs cf cl ct) .solidFluid .T .T a true =
      .ok (Src.reflection_at_interface__solid_fluid_TT_displacement o a rf rs cf cl ct) := rfl

theorem tie_reflection_fluid_solid_LL_stress (o : Src.Ops K) (a rf rs cf cl ct : K) :
    reflectionAt (ctrig o) (media rf rs cf cl ct) .fluidSolid .L .L a false =
      .ok (Src.reflection_at_interface__fluid_solid_LL_stress o a rf rs cf cl ct) := rfl

theorem tie_reflection_fluid_solid_LL_displacement (o : Src.Ops K) (a rf rs cf cl ct : K) :
    reflectionAt (ctrig o) (media rf rs cf cl ct) .fluidSolid .L .L a true =
      .ok (Src.reflection_at_interface__fluid_solid_LL_displacement o a rf rs cf cl ct) := rfl

end Arim.Tie.C04
