import ArimModel.Assembly
import ArimProofs.Generated.SrcC08
/-! # C08 — tie between the generated translation of `directivity_2d_rectangular_in_fluid` and the model -/
namespace Arim.Tie.C08
open Arim.Assembly

variable {K : Type} [Add K] [Sub K] [Mul K] [Div K] [Neg K] [LT K] [DecidableLT K] [LE K] [DecidableLE K]

/-- **tie**: the translated function raises (`none`) for a negative width or wavelength and otherwise returns the
model's `directivity` -/
theorem tie_directivity (o : Src.Ops K) (theta width lam : K) :
    Src.directivity_2d_rectangular_in_fluid o theta width lam =
      if width < o.ofNat 0 then none else if lam < o.ofNat 0 then none
      else some (directivity o.sinc o.sin width theta lam) := rfl

/-- for admissible arguments the translated function is the model's law `sinc(a sinθ / λ)` -/
theorem tie_directivity_ok (o : Src.Ops K) (theta width lam : K) (hw : ¬ width < o.ofNat 0) (hl : ¬ lam < o.ofNat 0) :
    Src.directivity_2d_rectangular_in_fluid o theta width lam = some (directivity o.sinc o.sin width theta lam) := by
  rw [tie_directivity, if_neg hw, if_neg hl]

end Arim.Tie.C08
