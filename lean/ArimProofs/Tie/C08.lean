import ArimModel.Assembly
import ArimProofs.Generated.SrcC08
import ArimProofs.Tie.C10
/-! # C08 — tie between the generated translation of `directivity_2d_rectangular_in_fluid` and the model -/
namespace Arim.Tie.C08
open Arim.Assembly

variable {K : Type} [Add K] [Sub K] [Mul K] [Div K] [Neg K] [LT K] [DecidableLT K] [LE K] [DecidableLE K]

/-- **tie**: the translated function raises (`none`) for a negative width or wavelength and otherwise returns the
model's `directivity` -/
theorem tie_directivity (o : Src.Ops K) (theta width lam : K) :
    Src.directivity_2d_rectangular_in_fluid o theta width lam =
      if width < o.ofNat 0 then none else if lam < o.ofNat 0 then none
      else some (directivity o.sinc o.sin width theta lam) := rfl

/-- for admissible arguments the translated function is the model's law `sinc(a sinθ / λ)` -/
theorem tie_directivity_ok (o : Src.Ops K) (theta width lam : K) (hw : ¬ width < o.ofNat 0) (hl : ¬ lam < o.ofNat 0) :
    Src.directivity_2d_rectangular_in_fluid o theta width lam = some (directivity o.sinc o.sin width theta lam) := by
  rw [tie_directivity, if_neg hw, if_neg hl]

section matrix
variable {K : Type} [Add K] [Sub K] [Mul K] [Div K] [Neg K]

/-- **tie**: one entry (grid point, timetrace `k`) of the translated `_model_amplitudes_with_scat_matrix` is the
model's `modelAmp` with `S` the translated interpolation kernel: `S(θ_tx − a, θ_rx − a) · Q_tx · Q'_rx` -/
theorem tie_model_amplitudes_matrix (o : Src.Ops K) (tx rx : Nat → Nat) (M : Nat → Nat → K) (n : Nat)
    (txw rxw txa rxa : Nat → K) (a : K) (k : Nat) :
    Src.model_amplitudes_with_scat_matrix_cell o tx rx M n txw rxw txa rxa a k =
      modelAmp (fun x y => Src.interpolate_scattering_matrix_kernel o M n x y)
        (fun _ e => txa e) (fun _ e => rxa e) (fun _ e => txw e) (fun _ e => rxw e) a tx rx 0 k := rfl

end matrix

section matrixField
variable {K : Type} [Field K]

/-- with lawful routines the scattering factor is the model's bilinear interpolant of the matrix -/
theorem tie_model_amplitudes_matrix_interp (o : Src.Ops K) (h : Arim.Tie.C10.Lawful o) (tx rx : Nat → Nat)
    (M : Nat → Nat → K) (n : Nat) (hn : 0 < n) (txw rxw txa rxa : Nat → K) (a : K) (k : Nat) :
    Src.model_amplitudes_with_scat_matrix_cell o tx rx M n txw rxw txa rxa a k =
      Arim.ScatMat.interp (Arim.Tie.C10.fops o) o.pi n M (txa (tx k) - a) (rxa (rx k) - a) * txw (tx k) * rxw (rx k) := by
  rw [tie_model_amplitudes_matrix]
  simp only [modelAmp, Arim.Tie.C10.tie_interp o h M n hn]

end matrixField

end Arim.Tie.C08
