import ArimModel.ScatMat
import ArimProofs.Generated.SrcC10
import Mathlib.Algebra.Field.Basic
import Mathlib.Algebra.Order.Floor.Ring
import Mathlib.Algebra.Order.Field.Basic
import Mathlib.Tactic.Ring
import Mathlib.Tactic.FieldSimp
/-! # C10 — tie between the generated translation of `_interpolate_scattering_matrix_kernel` and the model

The translated kernel computes the cell index with Python's float `//`, `%` and `int()`; the model computes it on
integers. They agree as soon as the numerical routines are *lawful* (`Lawful`: the integer embedding commutes with the
operations used, `floor`/`int` invert it) — which holds for the real numbers (`lawful_real`). -/
namespace Arim.Tie.C10
open Arim.ScatMat

variable {K : Type} [Field K]

/-- what the kernel needs from the numerical routines -/
structure Lawful (o : Src.Ops K) : Prop where
  ofNat_eq : ∀ n : Nat, o.ofNat n = o.ofInt (n : Int)
  trunc_ofInt : ∀ z : Int, o.trunc (o.ofInt z) = z
  floor_ofInt_div : ∀ (a : Int) (n : Nat), 0 < n → o.floor (o.ofInt a / o.ofInt (n : Int)) = a / (n : Int)
  ofInt_sub_mul : ∀ a b c : Int, o.ofInt a - o.ofInt b * o.ofInt c = o.ofInt (a - b * c)

/-- the model's view of the routines -/
def fops (o : Src.Ops K) : FOps K := { floor := o.floor, ofInt := o.ofInt }

/-- Python `int(q // 1 % n)` on a float that holds the integer `q` is the integer `q % n` -/
theorem idx_eq (o : Src.Ops K) (h : Lawful o) (q : Int) (n : Nat) (hn : 0 < n) :
    o.trunc (o.ofInt q - o.ofInt (o.floor (o.ofInt q / o.ofNat n)) * o.ofNat n) = q % (n : Int) := by
  rw [h.ofNat_eq, h.floor_ofInt_div q n hn, h.ofInt_sub_mul, h.trunc_ofInt, Int.emod_def, mul_comm]

/-- the cell (index, fraction) of an angle as the translated code computes it -/
def cellG (o : Src.Ops K) (n : Nat) (theta : K) : Int × K :=
  let dtheta := (o.ofNat 2 * o.pi) / o.ofNat n
  (o.trunc (o.ofInt (o.floor ((theta + o.pi) / dtheta))
      - o.ofInt (o.floor (o.ofInt (o.floor ((theta + o.pi) / dtheta)) / o.ofNat n)) * o.ofNat n),
   ((theta + o.pi) - o.ofInt (o.floor ((theta + o.pi) / dtheta)) * dtheta) / dtheta)

/-- the translated kernel in terms of `cellG` (definitional) -/
theorem kernel_eq (o : Src.Ops K) (M : Nat → Nat → K) (n : Nat) (inc out : K) :
    Src.interpolate_scattering_matrix_kernel o M n inc out =
      (let ci := cellG o n inc
       let co := cellG o n out
       let i1 : Int := if ci.1 ≠ (((n - 1 : Nat)) : Int) then ci.1 + 1 else 0
       let o1 : Int := if co.1 ≠ (((n - 1 : Nat)) : Int) then co.1 + 1 else 0
       let sw := M co.1.toNat ci.1.toNat
       let ne := M o1.toNat i1.toNat
       let se := M co.1.toNat i1.toNat
       let nw := M o1.toNat ci.1.toNat
       let f1 := sw + (se - sw) * ci.2
       let f2 := nw + (ne - nw) * ci.2
       f1 + (f2 - f1) * co.2) := rfl

/-- for lawful routines the translated cell is the model's cell -/
theorem cellG_eq (o : Src.Ops K) (h : Lawful o) (n : Nat) (hn : 0 < n) (theta : K) :
    cellG o n theta = ((((cell (fops o) o.pi n theta).1 : Nat) : Int), (cell (fops o) o.pi n theta).2) := by
  have h2 : o.ofNat 2 = o.ofInt 2 := h.ofNat_eq 2
  unfold cellG cell fdiv fmod
  simp only [fops]
  rw [idx_eq o h _ n hn, h2, h.ofNat_eq n]
  have h0 : 0 ≤ o.floor ((theta + o.pi) / (o.ofInt 2 * o.pi / o.ofInt (n : Int))) % (n : Int) :=
    Int.emod_nonneg _ (by omega)
  rw [Int.toNat_of_nonneg h0, mul_comm (o.ofInt _) (o.ofInt 2 * o.pi / o.ofInt (n : Int))]

/-- the wrap-around of the next index, on integers (translated code) and on naturals (model) -/
theorem next_idx (i n : Nat) :
    (if (i : Int) ≠ (((n - 1 : Nat)) : Int) then (i : Int) + 1 else 0).toNat = (if i ≠ n - 1 then i + 1 else 0) := by
  by_cases hr : i = n - 1
  · simp [hr]
  · have : (i : Int) ≠ ((n - 1 : Nat) : Int) := by exact_mod_cast hr
    simp only [ne_eq, hr, not_false_eq_true, if_true, this]
    omega

/-- **tie**: for lawful routines and a non-empty matrix, the translated kernel is the model's `interp` -/
theorem tie_interp (o : Src.Ops K) (h : Lawful o) (M : Nat → Nat → K) (n : Nat) (hn : 0 < n) (inc out : K) :
    Src.interpolate_scattering_matrix_kernel o M n inc out = interp (fops o) o.pi n M inc out := by
  rw [kernel_eq, cellG_eq o h n hn inc, cellG_eq o h n hn out]
  unfold interp
  rcases cell (fops o) o.pi n inc with ⟨ii, fi⟩
  rcases cell (fops o) o.pi n out with ⟨io, fo⟩
  simp only [next_idx, Int.toNat_natCast]

end Arim.Tie.C10
