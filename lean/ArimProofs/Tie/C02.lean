import ArimModel.Das
import ArimProofs.Generated.SrcC02
import Mathlib.Order.Defs.LinearOrder
import Mathlib.Order.Basic
/-! # C02 — tie between the generated translation of the delay-and-sum kernels and the model

One image point (`point`) of the four mean kernels of `arim.im.das`, as translated from the source on this run,
is the model's `dasAmp` / `dasNoAmp` at that point. -/
namespace Arim.Tie.C02
open Arim.Das

variable {α β : Type} [Add α] [Sub α] [Mul α] [Div α] [Neg α] [LT α] [DecidableLT α]

/-- the routines of the translated code built from the model's `Ops` (the literal `1` is `ofInt 1`); the
trigonometric fields are not used by the kernels -/
def srcOps (ops : Ops α) : Src.Ops α :=
  { sin := id, cos := id, asin := id, sqrt := id, exp := id, sinc := ops.sinc, pi := ops.ofInt 0,
    ofNat := fun n => ops.ofInt (n : Int), ofInt := ops.ofInt, floor := ops.floor, round := ops.round, trunc := ops.floor }

/-- the arguments of a kernel call, as the model's `Problem` -/
def problem (wt : Nat → Nat → β) (tx rx : Nat → Nat) (ltx lrx : Nat → Nat → α) (dt t0 : α) (N n : Nat) : Problem α β :=
  { N := N, n := n, tx := tx, rx := rx, g := wt, ltTx := ltx, ltRx := lrx, t0 := t0, dt := dt }

theorem foldl_congr {γ : Type} (f g : β → γ → β) (l : List γ) (init : β) (h : ∀ b a, f b a = g b a) :
    l.foldl f init = l.foldl g init := by
  have : f = g := funext fun b => funext fun a => h b a
  rw [this]

theorem ite_getD {c : Prop} [Decidable c] (f : β → β → β) (acc fill x : β) :
    (if c then f acc fill else f acc x) = f acc ((if c then none else some x).getD fill) := by
  split <;> rfl

theorem ite_map_getD {c : Prop} [Decidable c] (f : β → β → β) (g : β → β) (acc fill x : β) :
    (if c then f acc fill else f acc (g x)) = f acc (((if c then none else some x).map g).getD fill) := by
  split <;> rfl

/-- **tie, amplitudes + nearest** -/
theorem tie_amplitudes_nearest (ops : Ops α) (d : Data α β) (wt : Nat → Nat → β) (tx rx : Nat → Nat)
    (ltx lrx : Nat → Nat → α) (atx arx : Nat → Nat → β) (dt t0 : α) (fill : β) (N n pt : Nat) :
    Src.das_amplitudes_nearest (srcOps ops) d wt tx rx ltx lrx atx arx dt t0 fill N n pt
      = dasAmp ops d (problem wt tx rx ltx lrx dt t0 N n) atx arx .nearest fill pt := by
  unfold Src.das_amplitudes_nearest dasAmp dasMean
  simp only [problem]
  congr 1
  apply foldl_congr
  intro acc k
  simp only [termAmp, interpNearest, locA, srcOps]
  exact ite_map_getD d.add _ acc fill _

/-- **tie, amplitudes + linear** -/
theorem tie_amplitudes_linear (ops : Ops α) (d : Data α β) (wt : Nat → Nat → β) (tx rx : Nat → Nat)
    (ltx lrx : Nat → Nat → α) (atx arx : Nat → Nat → β) (dt t0 : α) (fill : β) (N n pt : Nat) :
    Src.das_amplitudes_linear (srcOps ops) d wt tx rx ltx lrx atx arx dt t0 fill N n pt
      = dasAmp ops d (problem wt tx rx ltx lrx dt t0 N n) atx arx .linear fill pt := by
  unfold Src.das_amplitudes_linear dasAmp dasMean
  simp only [problem]
  congr 1
  apply foldl_congr
  intro acc k
  simp only [termAmp, interpLinearA, locA, srcOps]
  exact ite_map_getD d.add _ acc fill _

/-- **tie, uniform amplitudes + nearest**: the dispatcher passes `invdt = 1 / dt` -/
theorem tie_noamp_nearest (ops : Ops α) (d : Data α β) (wt : Nat → Nat → β) (tx rx : Nat → Nat)
    (ltx lrx : Nat → Nat → α) (dt t0 : α) (fill : β) (N n pt : Nat) :
    Src.das_noamp_nearest (srcOps ops) d wt tx rx ltx lrx (ops.ofInt 1 / dt) t0 fill N n pt
      = dasNoAmp ops d (problem wt tx rx ltx lrx dt t0 N n) .nearest fill pt := by
  unfold Src.das_noamp_nearest dasNoAmp dasMean
  simp only [problem]
  congr 1
  apply foldl_congr
  intro acc k
  simp only [termNoAmp, interpNearest, locB, srcOps]
  exact ite_getD d.add acc fill _

/-- **tie, uniform amplitudes + linear** -/
theorem tie_noamp_linear (ops : Ops α) (d : Data α β) (wt : Nat → Nat → β) (tx rx : Nat → Nat)
    (ltx lrx : Nat → Nat → α) (dt t0 : α) (fill : β) (N n pt : Nat) :
    Src.das_noamp_linear (srcOps ops) d wt tx rx ltx lrx (ops.ofInt 1 / dt) t0 fill N n pt
      = dasNoAmp ops d (problem wt tx rx ltx lrx dt t0 N n) .linear fill pt := by
  unfold Src.das_noamp_linear dasNoAmp dasMean
  simp only [problem]
  congr 1
  apply foldl_congr
  intro acc k
  simp only [termNoAmp, interpLinearB, locB, srcOps]
  exact ite_getD d.add acc fill _

section lanczos
variable {α β : Type} [LinearOrder α] [Add α] [Sub α] [Mul α] [Div α] [Neg α]

/-- the routines with a sine and a value of π (the kernels' own `sinc` calls `math.sin`, `math.pi`) -/
def srcOpsT (ops : Ops α) (sin : α → α) (pi : α) : Src.Ops α := { srcOps ops with sin := sin, pi := pi }

theorem pyRangeI_two_a (lo : Int) (a : Nat) :
    Src.pyRangeI (lo - (a : Int) + 1) (lo + (a : Int) + 1) = (List.range (2 * a)).map (fun (k : Nat) => lo - (a : Int) + 1 + (k : Int)) := by
  unfold Src.pyRangeI
  have : (lo + (a : Int) + 1 - (lo - (a : Int) + 1)).toNat = 2 * a := by omega
  rw [this]

/-- **tie, Lanczos interpolation of one timetrace**: the translated `lanczos_interpolation` is the window sum of the
model, given that the model's `sinc` is the translated `sinc` of the kernels and that scaling a sample twice is
scaling it by the product -/
theorem tie_lanczos_interpolation (ops : Ops α) (sin : α → α) (pi : α) (d : Data α β)
    (hs : ∀ x, ops.sinc x = Src.das_sinc (srcOpsT ops sin pi) x)
    (hd : ∀ (s1 s2 : α) (v : β), d.smul s2 (d.smul s1 v) = d.smul (s1 * s2) v)
    (t : α) (g : Nat → β) (a n : Nat) :
    Src.lanczos_interpolation (srcOpsT ops sin pi) d t g a n =
      (List.range (2 * a)).foldl (fun acc (k : Nat) =>
        let i : Int := ops.floor t - (a : Int) + 1 + (k : Int)
        let x := t - ops.ofInt i
        d.add acc (d.smul (ops.sinc x * ops.sinc (x / ops.ofInt a)) (g (i % (n : Int)).toNat))) d.zero := by
  unfold Src.lanczos_interpolation
  simp only [srcOpsT, srcOps]
  rw [pyRangeI_two_a, List.foldl_map]
  apply foldl_congr
  intro acc k
  simp only [hs, hd, srcOpsT, srcOps]

/-- **tie, uniform amplitudes + Lanczos** -/
theorem tie_noamp_lanczos (ops : Ops α) (sin : α → α) (pi : α) (d : Data α β)
    (hs : ∀ x, ops.sinc x = Src.das_sinc (srcOpsT ops sin pi) x)
    (hd : ∀ (s1 s2 : α) (v : β), d.smul s2 (d.smul s1 v) = d.smul (s1 * s2) v)
    (wt : Nat → Nat → β) (tx rx : Nat → Nat)
    (ltx lrx : Nat → Nat → α) (dt t0 : α) (fill : β) (a N n pt : Nat) :
    Src.das_noamp_lanczos (srcOpsT ops sin pi) d wt tx rx ltx lrx (ops.ofInt 1 / dt) t0 fill a N n pt
      = dasNoAmp ops d (problem wt tx rx ltx lrx dt t0 N n) (.lanczos a) fill pt := by
  unfold Src.das_noamp_lanczos dasNoAmp dasMean
  simp only [problem]
  congr 1
  apply foldl_congr
  intro acc k
  simp only [termNoAmp, interpLanczos, locB, tie_lanczos_interpolation ops sin pi d hs hd]
  simp only [srcOpsT, srcOps, ge_iff_le, ← not_lt]
  exact ite_getD d.add acc fill _

/-! ### the kernels of the robust aggregations: the scratch array handed to the solver is the list of delayed samples -/

theorem foldl_append_sel {γ : Type} (f : Nat → γ) (n : Nat) (init : List γ) :
    (List.range n).foldl (fun acc k => acc ++ [f k]) init = init ++ (List.range n).map f := by
  induction n with
  | zero => simp
  | succ m ih => rw [List.range_succ, List.foldl_append, ih]; simp

theorem ite_append {γ : Type} {c : Prop} [Decidable c] (acc : List γ) (a b : γ) :
    (if c then acc ++ [a] else acc ++ [b]) = acc ++ [if c then a else b] := by
  split <;> rfl

theorem ite_getD' {c : Prop} [Decidable c] (fill x : β) :
    (if c then fill else x) = (if c then none else some x).getD fill := by
  split <;> rfl

/-- **tie, median + Lanczos**: `_delay_and_sum_noamp_median_lanczos` hands to its solver (`geomed`) exactly the delayed
samples `g_k(τ_tx + τ_rx)` (Lanczos interpolation, fill value outside the window) of the model, in timetrace order -/
theorem tie_noamp_median_lanczos (ops : Ops α) (sin : α → α) (pi : α) (d : Data α β)
    (hs : ∀ x, ops.sinc x = Src.das_sinc (srcOpsT ops sin pi) x)
    (hd : ∀ (s1 s2 : α) (v : β), d.smul s2 (d.smul s1 v) = d.smul (s1 * s2) v)
    (solver : List β → β) (wt : Nat → Nat → β) (tx rx : Nat → Nat)
    (ltx lrx : Nat → Nat → α) (dt t0 : α) (fill : β) (a N n pt : Nat) :
    Src.das_noamp_median_lanczos (srcOpsT ops sin pi) d wt tx rx ltx lrx (ops.ofInt 1 / dt) t0 fill a solver N n pt
      = solver (delayedSamples fill N (termNoAmp ops d (problem wt tx rx ltx lrx dt t0 N n) (.lanczos a) pt)) := by
  unfold Src.das_noamp_median_lanczos delayedSamples
  simp only [ite_append, foldl_append_sel, List.nil_append]
  congr 1
  apply List.map_congr_left
  intro k _
  simp only [termNoAmp, interpLanczos, locB, problem, tie_lanczos_interpolation ops sin pi d hs hd]
  simp only [srcOpsT, srcOps, ge_iff_le, ← not_lt]
  exact ite_getD' fill _

/-- **tie, Huber + Lanczos**: same samples, handed to `huber_m_estimate(·, τ)` -/
theorem tie_noamp_huber_lanczos (ops : Ops α) (sin : α → α) (pi : α) (d : Data α β)
    (hs : ∀ x, ops.sinc x = Src.das_sinc (srcOpsT ops sin pi) x)
    (hd : ∀ (s1 s2 : α) (v : β), d.smul s2 (d.smul s1 v) = d.smul (s1 * s2) v)
    (solver : List β → β) (wt : Nat → Nat → β) (tx rx : Nat → Nat)
    (ltx lrx : Nat → Nat → α) (dt t0 tau : α) (fill : β) (a N n pt : Nat) :
    Src.das_noamp_huber_lanczos (srcOpsT ops sin pi) d wt tx rx ltx lrx (ops.ofInt 1 / dt) t0 fill a tau solver N n pt
      = solver (delayedSamples fill N (termNoAmp ops d (problem wt tx rx ltx lrx dt t0 N n) (.lanczos a) pt)) := by
  unfold Src.das_noamp_huber_lanczos delayedSamples
  simp only [ite_append, foldl_append_sel, List.nil_append]
  congr 1
  apply List.map_congr_left
  intro k _
  simp only [termNoAmp, interpLanczos, locB, problem, tie_lanczos_interpolation ops sin pi d hs hd]
  simp only [srcOpsT, srcOps, ge_iff_le, ← not_lt]
  exact ite_getD' fill _

end lanczos

/-- **tie, median + nearest**: `_delay_and_sum_noamp_median_nearest` hands to its solver exactly the delayed samples
(nearest sample, fill value outside the window) of the model, in timetrace order -/
theorem tie_noamp_median_nearest (ops : Ops α) (d : Data α β) (solver : List β → β) (wt : Nat → Nat → β) (tx rx : Nat → Nat)
    (ltx lrx : Nat → Nat → α) (dt t0 : α) (fill : β) (N n pt : Nat) :
    Src.das_noamp_median_nearest (srcOps ops) wt tx rx ltx lrx (ops.ofInt 1 / dt) t0 fill solver N n pt
      = solver (delayedSamples fill N (termNoAmp ops d (problem wt tx rx ltx lrx dt t0 N n) .nearest pt)) := by
  unfold Src.das_noamp_median_nearest delayedSamples
  simp only [ite_append, foldl_append_sel, List.nil_append]
  congr 1
  apply List.map_congr_left
  intro k _
  simp only [termNoAmp, interpNearest, locB, problem, srcOps]
  exact ite_getD' fill _

end Arim.Tie.C02
