import ArimModel.Das
import ArimProofs.Generated.SrcC02
/-! # C02 — tie between the generated translation of the delay-and-sum kernels and the model

One image point (`point`) of the four mean kernels of `arim.im.das`, as translated from the source on this run,
is the model's `dasAmp` / `dasNoAmp` at that point. -/
namespace Arim.Tie.C02
open Arim.Das

variable {α β : Type} [Add α] [Sub α] [Mul α] [Div α] [Neg α] [LT α] [DecidableLT α]

/-- the routines of the translated code built from the model's `Ops` (the literal `1` is `ofInt 1`); the
trigonometric fields are not used by the kernels -/
def srcOps (ops : Ops α) : Src.Ops α :=
  { sin := id, cos := id, asin := id, sqrt := id, exp := id, sinc := ops.sinc, pi := ops.ofInt 0,
    ofNat := fun n => ops.ofInt (n : Int), ofInt := ops.ofInt, floor := ops.floor, round := ops.round, trunc := ops.floor }

/-- the arguments of a kernel call, as the model's `Problem` -/
def problem (wt : Nat → Nat → β) (tx rx : Nat → Nat) (ltx lrx : Nat → Nat → α) (dt t0 : α) (N n : Nat) : Problem α β :=
  { N := N, n := n, tx := tx, rx := rx, g := wt, ltTx := ltx, ltRx := lrx, t0 := t0, dt := dt }

theorem foldl_congr {γ : Type} (f g : β → γ → β) (l : List γ) (init : β) (h : ∀ b a, f b a = g b a) :
    l.foldl f init = l.foldl g init := by
  have : f = g := funext fun b => funext fun a => h b a
  rw [this]

theorem ite_getD {c : Prop} [Decidable c] (f : β → β → β) (acc fill x : β) :
    (if c then f acc fill else f acc x) = f acc ((if c then none else some x).getD fill) := by
  split <;> rfl

theorem ite_map_getD {c : Prop} [Decidable c] (f : β → β → β) (g : β → β) (acc fill x : β) :
    (if c then f acc fill else f acc (g x)) = f acc (((if c then none else some x).map g).getD fill) := by
  split <;> rfl

/-- **tie, amplitudes + nearest** -/
theorem tie_amplitudes_nearest (ops : Ops α) (d : Data α β) (wt : Nat → Nat → β) (tx rx : Nat → Nat)
    (ltx lrx : Nat → Nat → α) (atx arx : Nat → Nat → β) (dt t0 : α) (fill : β) (N n pt : Nat) :
    Src.das_amplitudes_nearest (srcOps ops) d wt tx rx ltx lrx atx arx dt t0 fill N n pt
      = dasAmp ops d (problem wt tx rx ltx lrx dt t0 N n) atx arx .nearest fill pt := by
  unfold Src.das_amplitudes_nearest dasAmp dasMean
  simp only [problem]
  congr 1
  apply foldl_congr
  intro acc k
  simp only [termAmp, interpNearest, locA, srcOps]
  exact ite_map_getD d.add _ acc fill _

/-- **tie, amplitudes + linear** -/
theorem tie_amplitudes_linear (ops : Ops α) (d : Data α β) (wt : Nat → Nat → β) (tx rx : Nat → Nat)
    (ltx lrx : Nat → Nat → α) (atx arx : Nat → Nat → β) (dt t0 : α) (fill : β) (N n pt : Nat) :
    Src.das_amplitudes_linear (srcOps ops) d wt tx rx ltx lrx atx arx dt t0 fill N n pt
      = dasAmp ops d (problem wt tx rx ltx lrx dt t0 N n) atx arx .linear fill pt := by
  unfold Src.das_amplitudes_linear dasAmp dasMean
  simp only [problem]
  congr 1
  apply foldl_congr
  intro acc k
  simp only [termAmp, interpLinearA, locA, srcOps]
  exact ite_map_getD d.add _ acc fill _

/-- **tie, uniform amplitudes + nearest**: the dispatcher passes `invdt = 1 / dt` -/
theorem tie_noamp_nearest (ops : Ops α) (d : Data α β) (wt : Nat → Nat → β) (tx rx : Nat → Nat)
    (ltx lrx : Nat → Nat → α) (dt t0 : α) (fill : β) (N n pt : Nat) :
    Src.das_noamp_nearest (srcOps ops) d wt tx rx ltx lrx (ops.ofInt 1 / dt) t0 fill N n pt
      = dasNoAmp ops d (problem wt tx rx ltx lrx dt t0 N n) .nearest fill pt := by
  unfold Src.das_noamp_nearest dasNoAmp dasMean
  simp only [problem]
  congr 1
  apply foldl_congr
  intro acc k
  simp only [termNoAmp, interpNearest, locB, srcOps]
  exact ite_getD d.add acc fill _

/-- **tie, uniform amplitudes + linear** -/
theorem tie_noamp_linear (ops : Ops α) (d : Data α β) (wt : Nat → Nat → β) (tx rx : Nat → Nat)
    (ltx lrx : Nat → Nat → α) (dt t0 : α) (fill : β) (N n pt : Nat) :
    Src.das_noamp_linear (srcOps ops) d wt tx rx ltx lrx (ops.ofInt 1 / dt) t0 fill N n pt
      = dasNoAmp ops d (problem wt tx rx ltx lrx dt t0 N n) .linear fill pt := by
  unfold Src.das_noamp_linear dasNoAmp dasMean
  simp only [problem]
  congr 1
  apply foldl_congr
  intro acc k
  simp only [termNoAmp, interpLinearB, locB, srcOps]
  exact ite_getD d.add acc fill _

end Arim.Tie.C02
