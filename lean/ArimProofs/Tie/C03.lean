import ArimModel.Assembly
import ArimProofs.Generated.SrcC03
/-! # C03 / C08 — tie between the structural translation of `block_in_immersion.tx_ray_weights` / `rx_ray_weights` and the
model's `txWeight` / `rxWeight`

The generated definitions state, from the source of this run: which `use_*` switch guards which factor, which model function
supplies it (the transmit side takes the forward transmission-reflection product in displacement units and the forward
beamspread, the receive side the reverse ones), the order of the product, and the `sqrt(lambda)` normalisation of the
receive side only. -/
namespace Arim.Tie.C03
open Arim.Assembly

variable {C : Type} [Mul C]

/-- **tie (transmit)** -/
theorem tie_tx_ray_weights (d b t a : Bool) (one : C) (f : Arim.SrcC03.Factors C) :
    Arim.SrcC03.tx_ray_weights d b t a one f
      = txWeight ⟨d, t, b, a⟩ one f.directivity f.transrefl_fwd_displacement f.beamspread_fwd f.attenuation := rfl

/-- **tie (receive)** -/
theorem tie_rx_ray_weights (d b t a : Bool) (one : C) (f : Arim.SrcC03.Factors C) :
    Arim.SrcC03.rx_ray_weights d b t a one f
      = rxWeight ⟨d, t, b, a⟩ one f.directivity f.transrefl_rev_displacement f.beamspread_rev f.attenuation f.sqrt_lambda_last_mode := rfl

end Arim.Tie.C03
