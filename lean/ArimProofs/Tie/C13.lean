import ArimModel.Chunk
import ArimProofs.Generated.SrcC13
/-! # C13 (C08) — tie between the generated translation of `arim.helpers.chunk_array` and the model's `chunks`

`chunk_array` is a generator of NumPy index tuples; the translation lists, for every yielded tuple, the position of its
`slice(a, b)` and the bounds `a`, `b` as written (NumPy clips them to the axis length when the tuple is used). -/
namespace Arim.Tie.C13
open Arim

variable {K : Type} [Add K] [Sub K] [Mul K] [Div K] [Neg K]

theorem foldl_append_singleton {α : Type} (f : Nat → α) (n : Nat) (init : List α) :
    (List.range n).foldl (fun acc i => acc ++ [f i]) init = init ++ (List.range n).map f := by
  induction n with
  | zero => simp
  | succ m ih => rw [List.range_succ, List.foldl_append, ih]; simp

/-- **tie**: for an axis inside the array, `chunk_array` yields, in order, one index tuple per chunk `i < ceil(L / b)`,
with `slice(i*b, (i+1)*b)` at the position of the split axis (first, last or in the middle: the three branches of the code) -/
theorem tie_chunk_array (o : Src.Ops K) (shape : Nat → Nat) (ndim b axis : Nat) :
    Src.chunk_array o shape ndim b axis =
      (List.range (numChunks (shape axis) b)).map (fun i => (axis, i * b, (i + 1) * b)) := by
  unfold Src.chunk_array
  simp only [foldl_append_singleton, List.nil_append]
  by_cases h0 : axis = 0
  · simp [h0, numChunks, ceilDiv, Src.pyCeilDiv]
  · by_cases h1 : axis = ndim - 1
    · have hn : ¬ (ndim - 1 = 0) := h1 ▸ h0
      subst h1
      simp [hn, numChunks, ceilDiv, Src.pyCeilDiv]
    · simp [h0, h1, numChunks, ceilDiv, Src.pyCeilDiv]

/-- NumPy's clipping of a slice to an axis of length `L` -/
def clip (L : Nat) (t : Nat × Nat × Nat) : Nat × Nat := (min t.2.1 L, min t.2.2 L)

/-- **tie**: the slices `chunk_array` yields, clipped to the axis as NumPy does, are the model's `chunks L b` -/
theorem tie_chunk_array_clipped (o : Src.Ops K) (shape : Nat → Nat) (ndim b axis : Nat) :
    (Src.chunk_array o shape ndim b axis).map (clip (shape axis)) = chunks (shape axis) b := by
  rw [tie_chunk_array]
  simp [chunks, chunk, clip, List.map_map, Function.comp_def]

/-- every yielded tuple carries its slice at the position of the split axis -/
theorem tie_chunk_array_position (o : Src.Ops K) (shape : Nat → Nat) (ndim b axis : Nat) :
    ∀ t ∈ Src.chunk_array o shape ndim b axis, t.1 = axis := by
  rw [tie_chunk_array]
  intro t ht
  simp only [List.mem_map] at ht
  obtain ⟨i, _, rfl⟩ := ht
  rfl

end Arim.Tie.C13
