import ArimModel.Weights
import ArimProofs.Tie.C06
import ArimProofs.Generated.SrcC07
/-! # C07 — tie between the generated translation of `reverse_beamspread_2d_for_path` and the model -/
namespace Arim.Tie.C07
open Arim.Weights Arim.Src Arim.Tie.C06

variable {K : Type} [Add K] [Sub K] [Mul K] [Div K] [Neg K]

/-- reversing a list indexed by a range re-indexes the function -/
theorem reverse_map_range' {α : Type} (f : Nat → α) (s n : Nat) :
    ((List.range' s n).map f).reverse = (List.range' s n).map (fun i => f (2 * s + n - 1 - i)) := by
  apply List.ext_getElem
  · simp
  · intro j h1 h2
    simp only [List.length_reverse, List.length_map, List.length_range'] at h1
    simp only [List.getElem_reverse, List.getElem_map, List.getElem_range', List.length_map, List.length_range']
    congr 1; omega

theorem map_congr_mem {α β : Type} (f g : α → β) (l : List α) (h : ∀ a ∈ l, f a = g a) : l.map f = l.map g :=
  List.map_congr_left h

/-- the factor appended for step `k` by `reverse_beamspread_2d_for_path`, on re-indexed queries -/
def revGammaAt (o : Src.Ops K) (vel' ang' : Nat → K) (k : Nat) : K :=
  let nu := vel' (k - 1) / vel' k
  let s := o.sin (ang' k)
  let c := o.cos (ang' k)
  (nu * c * c) / (o.ofNat 1 - nu * nu * s * s)

theorem revGammas_range (o : Src.Ops K) (vel' ang' : Nat → K) (a m : Nat) :
    revGammas (rtrig o) ((List.range' a (m + 1)).map vel') ((List.range' (a + 1) m).map ang')
      = (List.range' (a + 1) m).map (revGammaAt o vel' ang') := by
  induction m generalizing a with
  | zero => simp [revGammas]
  | succ m ih =>
    have h1 : (List.range' a (m + 1 + 1)).map vel' = vel' a :: (List.range' (a + 1) (m + 1)).map vel' := by
      simp [List.range'_succ]
    have h2 : (List.range' (a + 1) (m + 1)).map ang' = ang' (a + 1) :: (List.range' (a + 1 + 1) m).map ang' := by
      simp [List.range'_succ]
    have h3 : (List.range' (a + 1) (m + 1)).map vel' = vel' (a + 1) :: (List.range' (a + 1 + 1) m).map vel' := by
      simp [List.range'_succ]
    rw [h1, h2, h3]
    simp only [revGammas]
    rw [← h3, ih (a + 1)]
    simp [List.range'_succ, revGammaAt, rtrig]

/-- **tie**: the translated `reverse_beamspread_2d_for_path` is the model's `revBeamspread` of the ray's leg
lengths, leg velocities and interior incidence angles -/
theorem tie_reverse_beamspread (o : Src.Ops K) (ni : Nat) (vel ang leg : Nat → K) (hn : 2 ≤ ni) :
    Src.reverse_beamspread_2d_for_path o ni vel ang leg =
      revBeamspread (rtrig o) (legsOf leg (ni - 1)) (velsOf vel (ni - 1)) (angsOf ang (ni - 1)) := by
  obtain ⟨m, rfl⟩ : ∃ m, ni = m + 2 := ⟨ni - 2, by omega⟩
  -- re-indexed queries: step k of the reverse computation looks at interface n - k
  let vel' : Nat → K := fun i => vel (m + 1 - 1 - i)
  let ang' : Nat → K := fun i => ang (m + 1 - i)
  let leg' : Nat → K := fun i => leg (m + 1 - (i - 1))
  have hlegs : (legsOf leg (m + 2 - 1)).reverse = legsOf leg' (m + 1) := by
    simp only [legsOf, Nat.add_sub_cancel, reverse_map_range']
    apply map_congr_mem; intro i hi
    simp only [List.mem_range'_1] at hi
    simp only [leg']; congr 1; omega
  have hvels : (velsOf vel (m + 2 - 1)).reverse = velsOf vel' (m + 1) := by
    simp only [velsOf, Nat.add_sub_cancel, reverse_map_range']
    apply map_congr_mem; intro i hi; simp only [vel']; congr 1; omega
  have hangs : (angsOf ang (m + 2 - 1)).reverse = angsOf ang' (m + 1) := by
    simp only [angsOf, Nat.add_sub_cancel, reverse_map_range']
    apply map_congr_mem; intro i hi
    simp only [List.mem_range'_1] at hi
    simp only [ang']; congr 1; omega
  have hG : (pyRange 1 (m + 1)).foldl (fun gl k => gl ++
        [(let nu := vel (m + 1 - k) / vel (m + 1 - k - 1)
          let s := o.sin (ang (m + 1 - k))
          let c := o.cos (ang (m + 1 - k))
          (nu * c * c) / (o.ofNat 1 - nu * nu * s * s))]) ([] : List K)
      = revGammas (rtrig o) (velsOf vel' (m + 1)) (angsOf ang' (m + 1)) := by
    rw [foldl_snoc]
    simp only [pyRange, velsOf, angsOf, List.nil_append, Nat.add_sub_cancel]
    rw [revGammas_range o vel' ang' 0 m]
    apply map_congr_mem; intro k hk
    simp only [List.mem_range'_1] at hk
    simp only [revGammaAt, vel', ang']
    have e1 : m + 1 - 1 - (k - 1) = m + 1 - k := by omega
    have e2 : m + 1 - 1 - k = m + 1 - k - 1 := by omega
    rw [e1, e2]
  have hlen : (revGammas (rtrig o) (velsOf vel' (m + 1)) (angsOf ang' (m + 1))).length = m := by
    rw [← hG, foldl_snoc]; simp [pyRange]
  unfold revBeamspread
  rw [hlegs, hvels, hangs]
  show _ = o.ofNat 1 / o.sqrt (virtualDistance (o.ofNat 1) _ _)
  rw [← vdGen_eq o leg' _ m hlen, ← hG]
  rfl

end Arim.Tie.C07
