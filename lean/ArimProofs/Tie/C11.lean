import ArimModel.TimeDomain
import ArimProofs.Generated.SrcC11
/-! # C11 — tie between the generated translation of the delay bookkeeping of `arim.model` and the model's `splitDelay`

`_timeshift_timedomain` (the numba kernel that adds each time-domain response onto a window of its output row) decides the
*whole-sample* part of the delay; its caller `transfer_func_to_timetraces` computes the *remainder* handed to the spectral
time shift.  The property needs the two to be the two halves of one split, `delay = q·dt + remainder` with
`q = ⌊delay/dt⌋`: the theorems below show that both, as the source states them on this run, are `splitDelay`. -/
namespace Arim.Tie.C11
open Arim.TD

variable {K : Type} [Add K] [Sub K] [Mul K] [Div K] [Neg K]

/-- the routines of the translated code seen as the model's `RT` (`ceil` is not used by the delay bookkeeping) -/
def rt (o : Src.Ops K) (ceil : K → Int) : RT K :=
  { sin := o.sin, cos := o.cos, pi := o.pi, ofNat := o.ofNat, ofInt := o.ofInt, floor := o.floor, ceil := ceil }

/-- **tie (kernel)**: the window onto which row `idx` of the response is added starts `⌊delay/dt⌋ − t0_idx` samples into
the output row — the whole-sample part of the model's split — and is as long as the response -/
theorem tie_timeshift_window (o : Src.Ops K) (ceil : K → Int) (delays : Nat → K) (dt : K) (t0 : Int) (n idx : Nat) :
    Src.timeshift_window o delays dt t0 n idx =
      ((splitDelay (rt o ceil) (delays idx) dt).1 - t0, (splitDelay (rt o ceil) (delays idx) dt).1 - t0 + (n : Int)) := rfl

/-- **tie (caller)**: the remainder given to the spectral time shift is the remainder of the same split -/
theorem tie_delay_remainder (o : Src.Ops K) (ceil : K → Int) (delay dt : K) :
    Src.delay_remainder o delay dt = (splitDelay (rt o ceil) delay dt).2 := rfl

/-- the two sites use one and the same quotient: window start + t0 is exactly the `q` whose `q·dt` the caller subtracts -/
theorem tie_split_consistent (o : Src.Ops K) (delays : Nat → K) (dt : K) (t0 : Int) (n idx : Nat) :
    Src.delay_remainder o (delays idx) dt
      = delays idx - o.ofInt ((Src.timeshift_window o delays dt t0 n idx).1 + t0) * dt := by
  simp only [Src.delay_remainder, Src.timeshift_window, Int.sub_add_cancel]

end Arim.Tie.C11
