import ArimModel.Weights
import ArimProofs.Generated.SrcC06
/-! # C06 — tie between the generated translation of `beamspread_2d_for_path` and the model

The translated function takes the ray-geometry queries as functions of the interface index
(`velocities[k]`, `conventional_inc_angle(k)`, `inc_leg_size(k)`); the model takes the lists of leg lengths,
leg velocities and interior incidence angles of one ray. -/
namespace Arim.Tie.C06
open Arim.Weights Arim.Src

variable {K : Type} [Add K] [Sub K] [Mul K] [Div K] [Neg K]

/-- the routines of the translated code, seen as the model's `RTrig` -/
def rtrig (o : Src.Ops K) : RTrig K :=
  { sin := o.sin, cos := o.cos, sqrt := o.sqrt, exp := o.exp, one := o.ofNat 1, zero := o.ofNat 0 }

/-- leg lengths `r_1 … r_n` -/
def legsOf (leg : Nat → K) (n : Nat) : List K := (List.range' 1 n).map leg
/-- leg velocities `v_0 … v_{n-1}` -/
def velsOf (vel : Nat → K) (n : Nat) : List K := (List.range' 0 n).map vel
/-- incidence angles at the interior interfaces `1 … n-1` -/
def angsOf (ang : Nat → K) (n : Nat) : List K := (List.range' 1 (n - 1)).map ang

/-! ### list lemmas -/

theorem foldl_snoc {α β : Type} (f : α → β) (l : List α) (init : List β) :
    l.foldl (fun acc x => acc ++ [f x]) init = init ++ l.map f := by
  induction l generalizing init with
  | nil => simp
  | cons a l ih => simp [ih]

theorem foldl_congr_mem {α β : Type} (f g : β → α → β) (l : List α) (init : β)
    (h : ∀ b, ∀ a ∈ l, f b a = g b a) : l.foldl f init = l.foldl g init := by
  induction l generalizing init with
  | nil => rfl
  | cons a l ih =>
    simp only [List.foldl_cons]
    rw [h init a (by simp)]
    exact ih _ (fun b a' ha' => h b a' (by simp [ha']))

/-- folding over the first `k` indices with `pyGet` is folding over `take k` -/
theorem foldl_range_get {α β : Type} (f : β → α → β) (l : List α) (d : α) (k : Nat) (hk : k ≤ l.length) (init : β) :
    (List.range k).foldl (fun b i => f b (pyGet l i d)) init = (l.take k).foldl f init := by
  induction k generalizing init with
  | zero => simp
  | succ k ih =>
    have hk' : k < l.length := by omega
    rw [List.range_succ, List.foldl_append, ih (by omega)]
    simp only [List.foldl_cons, List.foldl_nil]
    rw [List.take_succ, List.foldl_append]
    simp [pyGet, List.getD_eq_getElem?_getD, List.getElem?_eq_getElem hk']

/-! ### the gamma list -/

/-- the factor appended for interface `k` by `beamspread_2d_for_path` -/
def gammaAt (o : Src.Ops K) (vel ang : Nat → K) (k : Nat) : K :=
  let nu := vel (k - 1) / vel k
  let s := o.sin (ang k)
  let c := o.cos (ang k)
  (nu * nu - s * s) / (nu * c * c)

theorem gammas_range (o : Src.Ops K) (vel ang : Nat → K) (a m : Nat) :
    gammas (rtrig o) ((List.range' a (m + 1)).map vel) ((List.range' (a + 1) m).map ang)
      = (List.range' (a + 1) m).map (gammaAt o vel ang) := by
  induction m generalizing a with
  | zero => simp [gammas]
  | succ m ih =>
    have h1 : (List.range' a (m + 1 + 1)).map vel = vel a :: (List.range' (a + 1) (m + 1)).map vel := by
      simp [List.range'_succ]
    have h2 : (List.range' (a + 1) (m + 1)).map ang = ang (a + 1) :: (List.range' (a + 1 + 1) m).map ang := by
      simp [List.range'_succ]
    have h3 : (List.range' (a + 1) (m + 1)).map vel = vel (a + 1) :: (List.range' (a + 1 + 1) m).map vel := by
      simp [List.range'_succ]
    rw [h1, h2, h3]
    simp only [gammas]
    rw [← h3, ih (a + 1)]
    simp [List.range'_succ, gammaAt, rtrig]

/-! ### the virtual distance -/

/-- the virtual distance as the translated code accumulates it, for `n = m + 1` legs and a gamma list `G` -/
def vdGen (o : Src.Ops K) (leg : Nat → K) (G : List K) (m : Nat) : K :=
  (pyRange 1 (m + 1)).foldl (fun vd k =>
    vd + leg (k + 1) / (List.range k).foldl (fun g i => g * pyGet G i (o.ofNat 0)) (o.ofNat 1)) (leg 1)

theorem vdGen_eq (o : Src.Ops K) (leg : Nat → K) (G : List K) (m : Nat) (hG : G.length = m) :
    vdGen o leg G m = virtualDistance (o.ofNat 1) (legsOf leg (m + 1)) G := by
  have hlegs : legsOf leg (m + 1) = leg 1 :: (List.range' 2 m).map leg := by
    simp [legsOf, List.range'_succ]
  rw [hlegs]
  unfold vdGen virtualDistance pyRange
  simp only [List.length_map, List.length_range', Nat.add_sub_cancel]
  rw [List.range'_eq_map_range, List.foldl_map]
  apply foldl_congr_mem
  intro vd k hk
  have hk' : k < m := by simpa using hk
  have h1 : ((List.range' 2 m).map leg).getD k (o.ofNat 1) = leg (1 + k + 1) := by
    rw [List.getD_eq_getElem?_getD, List.getElem?_map, List.getElem?_range' hk']
    simp; congr 1; omega
  rw [h1, foldl_range_get (fun g x => g * x) G (o.ofNat 0) (1 + k) (by omega), Nat.add_comm 1 k]

/-- **tie**: the translated `beamspread_2d_for_path` is the model's `beamspread` of the ray's leg lengths,
leg velocities and interior incidence angles (any path with at least one leg) -/
theorem tie_beamspread (o : Src.Ops K) (ni : Nat) (vel ang leg : Nat → K) (hn : 2 ≤ ni) :
    Src.beamspread_2d_for_path o ni vel ang leg =
      beamspread (rtrig o) (legsOf leg (ni - 1)) (velsOf vel (ni - 1)) (angsOf ang (ni - 1)) := by
  obtain ⟨m, rfl⟩ : ∃ m, ni = m + 2 := ⟨ni - 2, by omega⟩
  have hG : (pyRange 1 (m + 1)).foldl (fun gl k => gl ++ [gammaAt o vel ang k]) ([] : List K)
      = gammas (rtrig o) (velsOf vel (m + 1)) (angsOf ang (m + 1)) := by
    rw [foldl_snoc]
    simp only [pyRange, velsOf, angsOf, List.nil_append, Nat.add_sub_cancel]
    exact (gammas_range o vel ang 0 m).symm
  have hlen : (gammas (rtrig o) (velsOf vel (m + 1)) (angsOf ang (m + 1))).length = m := by
    rw [← hG, foldl_snoc]; simp [pyRange]
  show o.ofNat 1 / o.sqrt (vdGen o leg ((pyRange 1 (m + 1)).foldl (fun gl k => gl ++ [gammaAt o vel ang k]) []) m) = _
  rw [hG, vdGen_eq o leg _ m hlen]
  rfl

end Arim.Tie.C06
