import ArimModel.MinPlus
import ArimModel.Fermat
import ArimProofs.Generated.SrcC01
import Mathlib.Order.Defs.LinearOrder
import Mathlib.Order.Basic
/-! # C01 — tie between the generated translation of the ray-tracing kernels and the model

`_find_minimum_times` (one output cell) against `minPlus`/`scanMin`; `_distance_pairwise` (one cell) against `dist3`. -/
namespace Arim.Tie.C01
open Arim

section minplus
variable {α : Type} [LinearOrder α] [Add α] [Sub α] [Mul α] [Div α] [Neg α]

/-- what the kernel leaves in a cell that held `(t0, i0)` on entry, given the model's answer for the candidates -/
def combine (t0 : α) (i0 : Int) : Option (α × Nat) → α × Int
  | none => (t0, i0)
  | some (v, k) => if v < t0 then (v, (k : Int)) else (t0, i0)

/-- one iteration of the translated loop body -/
def stepG (acc : α × Int) (k : Nat) (x : α) : α × Int := if x < acc.1 then (x, ((k : Nat) : Int)) else acc

theorem step_rel (t0 : α) (i0 : Int) (accM : Option (α × Nat)) (k : Nat) (x : α) :
    stepG (combine t0 i0 accM) k x = combine t0 i0 (kstep accM k x) := by
  cases accM with
  | none => by_cases h : x < t0 <;> simp [combine, kstep, stepG, h]
  | some p =>
    obtain ⟨b, kb⟩ := p
    simp only [combine, kstep, stepG]
    by_cases hb : b < t0
    · by_cases hx : x < b
      · simp [hb, hx, combine, lt_trans hx hb]
      · simp [hb, hx, combine]
    · by_cases hx : x < b
      · simp [hb, hx, combine]
      · have : ¬ x < t0 := fun h => hb (lt_of_le_of_lt (not_lt.mp hx) h)
        simp [hb, hx, combine, this]

theorem foldl_rel (t0 : α) (i0 : Int) (f : Nat → α) (l : List Nat) (accM : Option (α × Nat)) :
    l.foldl (fun acc k => stepG acc k (f k)) (combine t0 i0 accM)
      = combine t0 i0 (l.foldl (fun acc k => kstep acc k (f k)) accM) := by
  induction l generalizing accM with
  | nil => rfl
  | cons k l ih => simp only [List.foldl_cons]; rw [step_rel, ih]

/-- **tie**: one output cell of the translated `_find_minimum_times`, entered with the values `(t0, i0)`, holds on
exit the model's first strict minimiser if it beats `t0`, else `(t0, i0)`; the call site enters with `(inf, -1)` -/
theorem tie_find_minimum_times (o : Src.Ops α) (t1 t2 : Nat → Nat → α) (t0 : α) (i0 : Int) (m i j : Nat) :
    Src.find_minimum_times_cell o t1 t2 t0 i0 m i j = combine t0 i0 (minPlus m t1 t2 i j) := by
  unfold minPlus scanMin
  rw [← foldl_rel t0 i0 (fun k => t1 i k + t2 k j) (List.range m) none]
  rfl

/-- with an entry value that every candidate beats (the code's `inf`), the cell holds the model's answer -/
theorem tie_find_minimum_times_inf (o : Src.Ops α) (t1 t2 : Nat → Nat → α) (inf : α) (m i j : Nat) (hm : 0 < m)
    (hinf : ∀ k, k < m → t1 i k + t2 k j < inf) :
    ∃ v k, minPlus m t1 t2 i j = some (v, k) ∧ Src.find_minimum_times_cell o t1 t2 inf (-1) m i j = (v, (k : Int)) := by
  rw [tie_find_minimum_times]
  -- the model returns one of the candidates
  have key : ∀ (l : List Nat) (acc : Option (α × Nat)), (∀ k ∈ l, k < m) →
      (∀ v k, acc = some (v, k) → v < inf) → (l ≠ [] ∨ acc ≠ none) →
      ∃ v k, l.foldl (fun acc k => kstep acc k (t1 i k + t2 k j)) acc = some (v, k) ∧ v < inf := by
    intro l
    induction l with
    | nil =>
      intro acc _ hacc hne
      cases acc with
      | none => simp at hne
      | some p => exact ⟨p.1, p.2, rfl, hacc p.1 p.2 rfl⟩
    | cons a l ih =>
      intro acc hl hacc _
      simp only [List.foldl_cons]
      apply ih
      · intro k hk; exact hl k (by simp [hk])
      · intro v k hv
        have ha := hinf a (hl a (by simp))
        cases acc with
        | none => simp [kstep] at hv; obtain ⟨rfl, _⟩ := hv; exact ha
        | some p =>
          obtain ⟨b, kb⟩ := p
          simp only [kstep] at hv
          split at hv
          · simp at hv; obtain ⟨rfl, _⟩ := hv; exact ha
          · simp at hv; obtain ⟨rfl, _⟩ := hv; exact hacc _ _ rfl
      · right
        cases acc with
        | none => simp [kstep]
        | some p => obtain ⟨b, kb⟩ := p; simp only [kstep]; split <;> simp
  obtain ⟨v, k, hs, hv⟩ := key (List.range m) none (fun k hk => by simpa using hk) (by simp)
    (Or.inl (by simp; omega))
  refine ⟨v, k, hs, ?_⟩
  show combine inf (-1) (scanMin _ m) = _
  unfold scanMin
  rw [hs]; simp [combine, hv]

end minplus

section dist
variable {β : Type} [Add β] [Sub β] [Mul β] [Div β] [Neg β]

/-- **tie**: one cell of the translated `_distance_pairwise` is the model's `dist3` of the two points -/
theorem tie_distance_pairwise (o : Src.Ops β) (x1 y1 z1 x2 y2 z2 : Nat → β) (i j : Nat) :
    Src.distance_pairwise_cell o x1 y1 z1 x2 y2 z2 i j = dist3 o.sqrt ⟨x1 i, y1 i, z1 i⟩ ⟨x2 j, y2 j, z2 j⟩ := rfl

end dist

section expand
variable {β : Type} [Add β] [Sub β] [Mul β] [Div β] [Neg β]

theorem foldl_append_singleton' {γ : Type} (f : Nat → γ) (n : Nat) (init : List γ) :
    (List.range n).foldl (fun acc k => acc ++ [f k]) init = init ++ (List.range n).map f := by
  induction n with
  | zero => simp
  | succ m ih => rw [List.range_succ, List.foldl_append, ih]; simp

/-- **tie**: one ray `(i, j)` of the translated `_expand_rays`: the new column of interior indices is the column of the ray
from `i` to the winning point `idx = indices_new_interface[i, j]` of the last interior interface, followed by `idx` itself —
the `ks ++ [k]` of the model's `scanMinR` -/
theorem tie_expand_rays (o : Src.Ops β) (interior : Nat → Nat → Nat → Int) (new : Nat → Nat → Int) (d i j : Nat) :
    Src.expand_rays_cell o interior new d i j =
      (List.range d).map (fun k => interior k i (new i j).toNat) ++ [new i j] := by
  unfold Src.expand_rays_cell
  simp only [foldl_append_singleton', List.nil_append]

/-- the expanded column has one more entry than the columns it extends, ends with the new point, and its head is a column
that was already there -/
theorem tie_expand_rays_shape (o : Src.Ops β) (interior : Nat → Nat → Nat → Int) (new : Nat → Nat → Int) (d i j : Nat) :
    (Src.expand_rays_cell o interior new d i j).length = d + 1 ∧
    (Src.expand_rays_cell o interior new d i j).getLast? = some (new i j) ∧
    (Src.expand_rays_cell o interior new d i j).take d = (List.range d).map (fun k => interior k i (new i j).toNat) := by
  rw [tie_expand_rays]
  refine ⟨by simp, by simp, ?_⟩
  rw [List.take_append_of_le_length (by simp)]
  exact List.take_of_length_le (by simp)

end expand

end Arim.Tie.C01
