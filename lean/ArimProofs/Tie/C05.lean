import ArimModel.RayGeom
import ArimProofs.Generated.SrcC05
/-! # C05 — tie between the generated translation of `_signed_leg_angle` and the model -/
namespace Arim.Tie.C05
open Arim.RayGeom

variable {K : Type} [Add K] [Sub K] [Mul K] [Div K] [Neg K] [LT K] [DecidableLT K] [LE K] [DecidableLE K]

/-- the routines of the translated code seen as the model's `Trig` (`two` is the literal `2`) -/
def trig (o : Src.Ops K) (acos : K → K) (atan2 : K → K → K) : Trig K :=
  { sqrt := o.sqrt, acos := acos, atan2 := atan2, pi := o.pi, two := o.ofNat 2 }

/-- **tie**: the translated signed-angle rule is the model's `signedLegAngle` -/
theorem tie_signed_leg_angle (o : Src.Ops K) (acos : K → K) (atan2 : K → K → K) (polar azimuth : K) :
    Src.signed_leg_angle o polar azimuth = signedLegAngle (trig o acos atan2) polar azimuth := rfl

end Arim.Tie.C05
