import ArimModel.Geometry
import ArimProofs.Generated.SrcC17
/-! # C17 (C16) — tie between the generated translations of `rotation_matrix_x/y/z/ypr` and the model's
    `rotX/rotY/rotZ/rotYpr` (the matrices the theorems of C16 and C17 are about) -/
namespace Arim.Tie.C17
open Arim.Geo

variable {K : Type} [Add K] [Sub K] [Mul K] [Div K] [Neg K]

/-- **tie**: `rotation_matrix_x(θ)` is the model's `rotX` of `cos θ`, `sin θ` (literals `0`, `1` as the code writes them) -/
theorem tie_rotation_matrix_x (o : Src.Ops K) (θ : K) :
    Src.rotation_matrix_x o θ = rotX (o.ofNat 0) (o.ofNat 1) (o.cos θ) (o.sin θ) := rfl

theorem tie_rotation_matrix_y (o : Src.Ops K) (θ : K) :
    Src.rotation_matrix_y o θ = rotY (o.ofNat 0) (o.ofNat 1) (o.cos θ) (o.sin θ) := rfl

theorem tie_rotation_matrix_z (o : Src.Ops K) (θ : K) :
    Src.rotation_matrix_z o θ = rotZ (o.ofNat 0) (o.ofNat 1) (o.cos θ) (o.sin θ) := rfl

/-- **tie**: `rotation_matrix_ypr = Rz(yaw) @ Ry(pitch) @ Rx(roll)`, products associated as Python associates `@` -/
theorem tie_rotation_matrix_ypr (o : Src.Ops K) (yaw pitch roll : K) :
    Src.rotation_matrix_ypr o yaw pitch roll =
      rotYpr (o.ofNat 0) (o.ofNat 1) (o.cos yaw) (o.sin yaw) (o.cos pitch) (o.sin pitch) (o.cos roll) (o.sin roll) := rfl

end Arim.Tie.C17
